#!/usr/bin/env python3
"""py2coq_cliclient: the client-side commands of the command line (src/nauyaca/__main__.py: `get` and the `tofu`
sub-commands list / revoke / trust / clear / info / export / import) -> coq/Gen/CliClientGen.v.

The commands are a wiring layer: `get` constructs a GeminiClient from its options and calls client.get; the tofu sub-commands
call TOFUDatabase methods.  The classes themselves are translated by py2coq_session.py / py2coq_tofu.py / py2coq.py; this
translator regenerates WHAT THE COMMANDS HAND TO THEM, from the current source text:

  gen_MAX_REDIRECTS, gen_DEFAULT_PORT        the constants of protocol/constants.py the option declarations mention
  gen_cli_exc_bases                          class -> direct bases (EXC_BASES below; checked against the running interpreter)
  gen_<cmd>_options : list (str * list str)  parameter -> the option strings of its typer declaration ([] for an argument)
  gen_<cmd>_default_<parameter>              the declared default of every option that has a constant one
  gen_get_precheck <parameters> : option N   the `if ..: raise typer.Exit(code=N)` statements before anything is constructed
  gen_get_call <parameters> : get_call       the arguments of GeminiClient(...) and of client.get(...) as functions of the
                                             parameters; an argument the command omits is the DEFAULT OF THE CALLEE'S SIGNATURE
                                             (read from client/session.py), a keyword outside the record is refused
  gen_get_handlers cls uncaught : N          the except clauses of the command's try statement, in source order
  gen_get_exit : cli_outcome -> N            the statements after `response = await client.get(..)` (display, the test on
                                             response.status, raise typer.Exit) and the handlers
  gen_get_command run <parameters>           the command as a whole: (Some call, exit status) / (None, status of the pre-check)
  gen_tofu_<cmd> <parameters> <oracles> : list cmd_call * cli_end
                                             the TOFUDatabase methods a sub-command calls, with which arguments, in order, and how
                                             it ends; oracles (in source order of the call sites, named in a comment above each definition):
                                             the answer to typer.confirm, the value a database call returns (as far as the command
                                             looks at it), `<method>_exc : option str` for a call inside a try statement (Some c: it
                                             raises an exception of class c), conn_in / cert_in for `tofu trust`
  gen_tofu_import_on_conflict force answer   the nested conflict handler given as on_conflict=

Subset (anything else raises Untranslatable, exit status 2):
  statements   docstrings, `pass`, relative imports of the names in IMPORTS, DISPLAY statements (below), `x = <oracle call>`,
               `a, b, c = db.import_toml(..)`, `if`/`elif`/`else` (the rest of the block is the continuation of both branches; a
               database call may be the whole test), bare `return`, `raise typer.Exit(code=<int literal>) [from e]`,
               `raise typer.Abort()`, try / except C [as e] / finally (an exception walks the enclosing try statements from the
               inside out; `finally` is copied into every way out; try-else is refused), `async def _f(): ..` + `asyncio.run(_f())`
               as the last statement (inlined), `async with GeminiClient(..) as client:`, nested `def conflict_handler`.
  expressions  parameters, literals, the constants above, not / and / or (as tests: truthiness by type; as values: bool operands
               only), comparisons of naturals with literals and of response.status with literals, `X is None` / `is not None`,
               conditional expressions.

TRUSTED (every entry is an assumption; keep them few):
  TYPER      option parsing: `name: T = typer.Option(default, "--x", "-y", ...)` makes `--x` / `-y` set the parameter `name`
             (`--a/--b` on a bool: --a True, --b False), an omitted option is `default`, `typer.Argument(...)` is positional;
             `exists=True`, `resolve_path=True` etc. only restrict the accepted values.  raise typer.Exit(code=n): the process
             ends with status n; typer.Abort: status 1; a function that returns: status 0; an uncaught exception: status 1.
             typer.confirm(..) returns the user's answer.  `asyncio.run(f())` runs f's body to its end.
  TYPES      int -> nat (N for a parameter called `port`), float -> Q, str -> str, Path -> str (its text), `T | None` -> option.
             A Path and a certificate object are always truthy; `if port:` on an Optional int is refused.
  DISPLAY    calls of `console.print`, `error_console.print`, `Table(..)` bound to a local and its add_column / add_row, `for`
             loops whose body is only such calls, calls of the module's _format_response: skipped.  Their arguments are checked
             to contain no call other than str(..) and no name of a database / client / protocol object (no effect can hide
             there); an exception raised by a display statement inside a try block is one of the outcomes ORaised of that block,
             outside one it is not modelled (traceback after the calls already made).  _format_response is checked to contain
             no raise / return value / call outside DISPLAY_CALLS.
  CONTEXT    `async with GeminiClient(..) as client` binds the constructed object and lets exceptions through: checked on
             client/session.py (__aenter__ is `return self`, __aexit__ has no statement but a docstring / pass).
  EXC_BASES  class -> direct bases; every pair the running interpreter can resolve is checked against issubclass; typer.Exit /
             typer.Abort (subclasses of RuntimeError) are checked through /venv/bin/python when it exists.
  METHODS    the TOFUDatabase methods a command may call: parameter names (compared with security/tofu.py: names, order,
             defaults) and what the command may look at in the result.  `TOFUDatabase()` (default path) returns an object.
  TRUST      `tofu trust`: `loop = asyncio.get_running_loop()`, `f = loop.create_future()`, `p = GeminiClientProtocol(url, f)`
             are structural (p is the protocol object; with the default send_on_connect the request line of `url` is written as
             soon as the connection is up - not modelled here); `t, p = await loop.create_connection(lambda: p, host=, port=,
             ssl=client.ssl_context, server_hostname=)` -> call CConnect, oracle conn_in; `p.get_peer_certificate()` -> call
             CPeerCert, oracle cert_in; `t.close()` -> CCloseTransport.
  Not translated: `serve` (py2coq_wiring.py), `version`, the `cert` sub-commands; what the display statements print."""
import ast, sys, os, subprocess
sys.path.insert(0, os.path.dirname(os.path.abspath(__file__)))
from py2coq import Untranslatable, bad, coq_str, find_function, SRC

# ------------------------------------------------------------------ trusted tables
MAIN_FILE, SESSION_FILE, TOFU_FILE, CONST_FILE = "__main__.py", "client/session.py", "security/tofu.py", "protocol/constants.py"
EXC_BASES = [
    ("typer.Exit", ["RuntimeError"]), ("typer.Abort", ["RuntimeError"]), ("RuntimeError", ["Exception"]),
    ("TimeoutError", ["OSError"]), ("ConnectionError", ["OSError"]), ("ConnectionRefusedError", ["ConnectionError"]),
    ("ConnectionResetError", ["ConnectionError"]), ("FileNotFoundError", ["OSError"]), ("PermissionError", ["OSError"]),
    ("ssl.SSLError", ["OSError"]), ("ssl.SSLCertVerificationError", ["ssl.SSLError", "ValueError"]), ("socket.gaierror", ["OSError"]),
    ("OSError", ["Exception"]), ("ValueError", ["Exception"]), ("UnicodeError", ["ValueError"]), ("UnicodeDecodeError", ["UnicodeError"]),
    ("KeyError", ["LookupError"]), ("LookupError", ["Exception"]), ("TypeError", ["Exception"]),
    ("sqlite3.IntegrityError", ["sqlite3.DatabaseError"]), ("sqlite3.OperationalError", ["sqlite3.DatabaseError"]),
    ("sqlite3.DatabaseError", ["sqlite3.Error"]), ("sqlite3.Error", ["Exception"]),
    ("Exception", ["BaseException"]), ("KeyboardInterrupt", ["BaseException"]), ("asyncio.CancelledError", ["BaseException"]), ("BaseException", []),
]
TYPER_EXC = {"typer.Exit", "typer.Abort"}
IMPORTS = {"TOFUDatabase", "GeminiClientProtocol"}
DISPLAY_OBJECTS = {"console", "error_console"}
DISPLAY_FUNCS = {"_format_response"}
DISPLAY_CALLS = {"console.print", "error_console.print", "Table", "table.add_column", "table.add_row", "str", "interpret_status",
                 "status_str.startswith", "response.is_success"}
CLIENT_FIELDS = [("timeout", "Q"), ("max_redirects", "nat"), ("verify_ssl", "bool"), ("trust_on_first_use", "bool"),
                 ("client_cert", ("opt", "path")), ("client_key", ("opt", "path"))]          # the GeminiClient part of Glue.get_call, in its order
# TOFUDatabase method -> ([(parameter, type)], result kind, constructor of CliClientGlue.cmd_call)
METHODS = {
    "list_hosts": ([], "rows", "DbListHosts"),
    "revoke": ([("hostname", "str"), ("port", "N")], "bool", "DbRevoke"),
    "count_by_hostname": ([("hostname", "str")], "nat", "DbCountByHostname"),
    "revoke_by_hostname": ([("hostname", "str")], "nat", "DbRevokeByHostname"),
    "trust": ([("hostname", "str"), ("port", "N"), ("cert", "cert")], "unit", "DbTrust"),
    "clear": ([], "nat", "DbClear"),
    "get_host_info": ([("hostname", "str"), ("port", "N")], "optrow", "DbGetHostInfo"),
    "export_toml": ([("file_path", "path")], "nat", "DbExportToml"),
    "import_toml": ([("file_path", "path"), ("merge", "bool"), ("on_conflict", "handler")], "nat3", "DbImportToml"),
}
METHOD_DEFAULTS = {"import_toml": {"merge": "True", "on_conflict": "None"}}
RESULT_COQ = {"rows": "bool", "bool": "bool", "nat": "nat", "optrow": "bool", "nat3": "(nat * nat * nat)"}
TOFU_COMMANDS = ["list", "revoke", "trust", "clear", "info", "export", "import"]
G = "CliClientGlue."

COQ_T = {"bool": "bool", "nat": "nat", "N": "N", "Q": "QArith_base.Q", "str": "str", "path": "str", "cert": "str"}
def coq_type(t):
    if isinstance(t, tuple) and t[0] == "opt": return "option %s" % COQ_T[t[1]]
    return COQ_T[t]

def q_literal(v):
    from fractions import Fraction
    f = Fraction(repr(v)) if isinstance(v, float) else Fraction(v)
    if f < 0: raise Untranslatable("negative rational literal")
    return "(QArith_base.Qmake %d %d)" % (f.numerator, f.denominator)

# ------------------------------------------------------------------ exception table
def subclass_walk(table, c, t, fuel=None):
    fuel = len(table) if fuel is None else fuel
    if c == t: return True
    if fuel == 0: return False
    return any(subclass_walk(table, b, t, fuel - 1) for b in dict(table).get(c, []))

def check_exc_table(tofu_tree):
    import builtins, importlib
    table = list(EXC_BASES)
    found = [n for n in tofu_tree.body if isinstance(n, ast.ClassDef) and n.name == "CertificateChangedError"]
    if len(found) != 1 or not found[0].bases or not all(isinstance(b, ast.Name) and b.id in dict(table) for b in found[0].bases):
        raise Untranslatable("security/tofu.py: CertificateChangedError must derive from classes of EXC_BASES")
    table.append(("CertificateChangedError", [b.id for b in found[0].bases]))
    def resolve(name):
        try:
            if "." in name:
                mod, attr = name.rsplit(".", 1)
                return getattr(importlib.import_module(mod), attr)
            return getattr(builtins, name)
        except Exception:
            return None
    live = {n: resolve(n) for n, _ in EXC_BASES}
    for a, ca in live.items():
        for b, cb in live.items():
            if ca is not None and cb is not None and issubclass(ca, cb) != subclass_walk(table, a, b):
                raise Untranslatable("EXC_BASES disagrees with the interpreter on issubclass(%s, %s)" % (a, b))
    venv = "/venv/bin/python"
    if any(live[n] is None for n in TYPER_EXC) and os.path.exists(venv):       # typer lives in the project's environment
        names = [n for n, _ in EXC_BASES if n in TYPER_EXC or "." not in n]
        prog = ("import typer, builtins\nns=%r\nr=lambda n: getattr(typer, n[6:]) if n.startswith('typer.') else getattr(builtins, n)\n"
                "print(''.join('1' if issubclass(r(a), r(b)) else '0' for a in ns for b in ns))" % (names,))
        try:
            p = subprocess.run([venv, "-c", prog], capture_output=True, text=True, timeout=60)
            got = p.stdout.strip().splitlines()[-1] if p.returncode == 0 and p.stdout.strip() else None
        except Exception:
            got = None
        if got is not None:
            want = "".join("1" if subclass_walk(table, a, b) else "0" for a in names for b in names)
            if got != want: raise Untranslatable("EXC_BASES disagrees with /venv/bin/python on the typer exception classes")
    return table

# ------------------------------------------------------------------ constants, parameters
def module_constants(main_tree, const_tree):
    imported = set()
    for n in main_tree.body:
        if isinstance(n, ast.ImportFrom) and n.level == 1 and n.module == "protocol.constants": imported |= {a.name for a in n.names if a.asname is None}
    out = {}
    for n in const_tree.body:
        if isinstance(n, ast.Assign) and len(n.targets) == 1 and isinstance(n.targets[0], ast.Name) and n.targets[0].id in imported \
           and isinstance(n.value, ast.Constant) and isinstance(n.value.value, int) and not isinstance(n.value.value, bool) and n.value.value >= 0:
            out[n.targets[0].id] = n.value.value
    for n in ast.walk(main_tree):
        if isinstance(n, ast.Name) and isinstance(n.ctx, (ast.Store, ast.Del)) and n.id in out: bad(n, "re-binding of the constant %s" % n.id)
        if isinstance(n, ast.arg) and n.arg in out: bad(n, "a parameter shadows the constant %s" % n.arg)
    return out

def annot_type(a, name):
    t = ast.unparse(a) if a is not None else None
    base = {"str": "str", "bool": "bool", "float": "Q", "int": "N" if name == "port" else "nat", "Path": "path"}
    if t in base: return base[t]
    if t is not None and t.endswith(" | None") and t[:-7] in base: return ("opt", base[t[:-7]])
    raise Untranslatable("parameter %s: annotation %s" % (name, t))

class Params:
    """the typer declarations of one command"""
    def __init__(self, fn, consts):
        a = fn.args
        if a.vararg or a.kwarg or a.kwonlyargs or a.posonlyargs or len(a.defaults) != len(a.args): bad(fn, "command signature")
        self.names, self.types, self.options, self.defaults = [], {}, {}, {}
        for arg, d in zip(a.args, a.defaults):
            n = arg.arg
            if n.endswith("__") or n in ("calls", "run", "status", "cls", "uncaught", "o", "answer"): bad(arg, "parameter name")
            t = annot_type(arg.annotation, n)
            if not (isinstance(d, ast.Call) and ast.unparse(d.func) in ("typer.Option", "typer.Argument") and d.args): bad(d, "parameter %s: typer.Option(..) / typer.Argument(..) expected" % n)
            is_opt = ast.unparse(d.func) == "typer.Option"
            strs = []
            for x in d.args[1:]:
                if not (isinstance(x, ast.Constant) and isinstance(x.value, str)): bad(x, "parameter %s: option names must be string literals" % n)
                strs.append(x.value)
            if not is_opt and strs: bad(d, "parameter %s: typer.Argument with names" % n)
            for kw in d.keywords:
                if kw.arg is None or kw.arg in ("default", "param_decls", "callback", "is_eager", "envvar", "default_factory", "parser", "click_type", "is_flag", "flag_value", "count", "prompt"):
                    bad(d, "parameter %s: typer keyword %s" % (n, kw.arg))
                if not isinstance(kw.value, ast.Constant): bad(d, "parameter %s: typer keyword %s must be a literal" % (n, kw.arg))
            dv = d.args[0]
            if isinstance(dv, ast.Constant) and dv.value is Ellipsis: default = None
            else: default = self.const_term(dv, t, consts, n)
            self.names.append(n); self.types[n] = t; self.options[n] = strs if is_opt else []; self.defaults[n] = default
    @staticmethod
    def const_term(e, t, consts, n):
        if isinstance(e, ast.Constant):
            v = e.value
            if isinstance(v, bool) and t == "bool": return "true" if v else "false"
            if isinstance(v, int) and not isinstance(v, bool) and v >= 0 and t in ("nat", "N"): return "%d%%%s" % (v, t)
            if isinstance(v, (int, float)) and not isinstance(v, bool) and t == "Q": return q_literal(v)
            if v is None and isinstance(t, tuple): return "None"
        if isinstance(e, ast.Name) and e.id in consts and t in ("nat", "N"):
            return "gen_%s" % e.id if t == "nat" else "(N.of_nat gen_%s)" % e.id
        bad(e, "parameter %s: default" % n)
    def binder(self): return " ".join("(%s : %s)" % (n, coq_type(self.types[n])) for n in self.names)
    def args(self): return " ".join(self.names)
    def emit(self, cmd):
        out = "Definition gen_%s_options : list (str * list str) :=\n  [%s].\n" % (
            cmd, "; ".join("(%s, [%s])" % (coq_str(n), "; ".join(coq_str(s) for s in self.options[n])) for n in self.names))
        for n in self.names:
            if self.defaults[n] is not None:
                out += "Definition gen_%s_default_%s : %s := %s.\n" % (cmd, n, coq_type(self.types[n]), self.defaults[n])
        return out

# ------------------------------------------------------------------ expressions
class Ex:
    def __init__(self, env, consts):
        self.env, self.consts = env, consts
    def typeof(self, e):
        if isinstance(e, ast.Constant):
            if isinstance(e.value, bool): return "bool"
            if isinstance(e.value, int) and e.value >= 0: return "int"
            if isinstance(e.value, float) and e.value >= 0: return "float"
            if e.value is None: return "none"
            if isinstance(e.value, str): return "strlit"
        if isinstance(e, ast.Name):
            if e.id in self.env: return self.env[e.id]
            if e.id in self.consts: return "int"
            bad(e, "unknown name")
        if isinstance(e, ast.Attribute) and e.attr == "status" and isinstance(e.value, ast.Name) and self.env.get(e.value.id) == "response": return "Z"
        if isinstance(e, ast.UnaryOp) and isinstance(e.op, ast.Not): self.truth(e.operand); return "bool"
        if isinstance(e, ast.Compare): self.truth(e); return "bool"
        if isinstance(e, ast.BoolOp):
            if all(self.typeof(v) == "bool" for v in e.values): return "bool"
            bad(e, "and / or on operands that are not bool, used as a value")
        if isinstance(e, ast.IfExp):
            a, b = self.typeof(e.body), self.typeof(e.orelse)
            self.truth(e.test)
            if a == b: return a
            if a == "none" and isinstance(b, tuple): return b
            if b == "none" and isinstance(a, tuple): return a
            if {a, b} <= {"int", "nat"}: return "nat"
            if {a, b} <= {"int", "N"}: return "N"
            bad(e, "conditional expression with branches of different types")
        bad(e, "expression")
    def term(self, e, want):
        """the Coq term of e at type `want`"""
        t = self.typeof(e)
        if want == "bool":
            if t != "bool": bad(e, "bool expected, %s found" % (t,))
            return self.truth(e)
        if isinstance(e, ast.IfExp):
            return "(if %s then %s else %s)" % (self.truth(e.test), self.term(e.body, want), self.term(e.orelse, want))
        if isinstance(e, ast.Constant):
            if t == "int" and want in ("nat", "N"): return "%d%%%s" % (e.value, want)
            if t == "int" and want == "Z": return "%d%%Z" % e.value
            if t in ("int", "float") and want == "Q": return q_literal(e.value)
            if t == "none" and isinstance(want, tuple): return "None"
            bad(e, "literal where %s is expected" % (want,))
        if isinstance(e, ast.Name):
            if e.id in self.consts and e.id not in self.env:
                if want == "nat": return "gen_%s" % e.id
                if want == "N": return "(N.of_nat gen_%s)" % e.id
                bad(e, "constant where %s is expected" % (want,))
            if t == want or (t, want) in (("path", "str"), ("str", "path")): return e.id
            if isinstance(want, tuple) and want[0] == "opt" and t == want[1]: return "(Some %s)" % e.id
            bad(e, "%s expected, %s found" % (want, t))
        if isinstance(e, ast.Attribute) and t == "Z" and want == "Z": return "status"
        bad(e, "expression where %s is expected" % (want,))
    def truth(self, e):
        """the Coq bool term of e used as a test (Python truthiness, by type)"""
        if isinstance(e, ast.Constant) and isinstance(e.value, bool): return "true" if e.value else "false"
        if isinstance(e, ast.Name):
            t = self.typeof(e)
            if t in ("bool", "rows", "optrow"): return e.id
            if t == "nat": return "(negb (Nat.eqb %s 0))" % e.id
            if t == "N": return "(negb (N.eqb %s 0))" % e.id
            if t in ("str",): return "(match %s with [] => false | _ => true end)" % e.id
            if isinstance(t, tuple) and t[1] in ("path", "cert"): return "(match %s with Some _ => true | None => false end)" % e.id
            if t in ("path", "cert"): return "true"
            bad(e, "truthiness of a value of type %s" % (t,))
        if isinstance(e, ast.UnaryOp) and isinstance(e.op, ast.Not): return "(negb %s)" % self.truth(e.operand)
        if isinstance(e, ast.BoolOp):
            return "(" + (" && " if isinstance(e.op, ast.And) else " || ").join(self.truth(v) for v in e.values) + ")"
        if isinstance(e, ast.IfExp): return "(if %s then %s else %s)" % (self.truth(e.test), self.truth(e.body), self.truth(e.orelse))
        if isinstance(e, ast.Compare) and len(e.ops) == 1:
            op, l, r = e.ops[0], e.left, e.comparators[0]
            if isinstance(op, (ast.Is, ast.IsNot)):
                if not (isinstance(r, ast.Constant) and r.value is None and isinstance(l, ast.Name)): bad(e, "is / is not: `X is None` only")
                t = self.typeof(l)
                if t == "optrow": x = "(negb %s)" % l.id
                elif isinstance(t, tuple) and t[0] == "opt": x = "(match %s with None => true | Some _ => false end)" % l.id
                else: bad(e, "`is None` on a value that is not Optional")
                return x if isinstance(op, ast.Is) else "(negb %s)" % x
            tl, tr = self.typeof(l), self.typeof(r)
            ty = "Z" if "Z" in (tl, tr) else "N" if "N" in (tl, tr) else "nat" if "nat" in (tl, tr) or (tl, tr) == ("int", "int") else None
            if ty is None or not {tl, tr} <= {ty, "int"}: bad(e, "comparison of %s with %s" % (tl, tr))
            a, b = self.term(l, ty), self.term(r, ty)
            M = {"nat": "Nat", "N": "N", "Z": "Z"}[ty]
            table = {ast.Lt: "(%s.ltb %s %s)" % (M, a, b), ast.LtE: "(%s.leb %s %s)" % (M, a, b), ast.Gt: "(%s.ltb %s %s)" % (M, b, a),
                     ast.GtE: "(%s.leb %s %s)" % (M, b, a), ast.Eq: "(%s.eqb %s %s)" % (M, a, b), ast.NotEq: "(negb (%s.eqb %s %s))" % (M, a, b)}
            if type(op) not in table: bad(e, "comparison operator")
            return table[type(op)]
        bad(e, "test")

# ------------------------------------------------------------------ display statements
def display_safe(e, forbidden):
    """an argument of a skipped display call: no call but str(..), no await / lambda / comprehension / walrus, no forbidden name"""
    for n in ast.walk(e):
        if isinstance(n, ast.Call) and not (isinstance(n.func, ast.Name) and n.func.id == "str" and not n.keywords): return False
        if isinstance(n, (ast.Await, ast.Lambda, ast.NamedExpr, ast.ListComp, ast.SetComp, ast.DictComp, ast.GeneratorExp, ast.Yield, ast.YieldFrom, ast.Starred)): return False
        if isinstance(n, ast.Name) and n.id in forbidden: return False
    return True

def check_display_funcs(main_tree):
    for name in DISPLAY_FUNCS:
        fn = find_function(main_tree, None, name)
        if isinstance(fn, ast.AsyncFunctionDef): bad(fn, "%s: async" % name)
        for n in ast.walk(fn):
            if isinstance(n, (ast.Raise, ast.Await, ast.Global, ast.Nonlocal, ast.Lambda, ast.Try, ast.With, ast.Import, ast.ImportFrom, ast.Delete)): bad(n, "%s: statement kind" % name)
            if isinstance(n, ast.Return) and n.value is not None: bad(n, "%s returns a value" % name)
            if isinstance(n, ast.Call) and ast.unparse(n.func) not in DISPLAY_CALLS: bad(n, "%s: call outside DISPLAY_CALLS" % name)
            if isinstance(n, (ast.Attribute, ast.Name)) and isinstance(n.ctx, (ast.Store, ast.Del)) and not isinstance(n, ast.Name): bad(n, "%s: assignment to an attribute" % name)

def check_module_objects(main_tree):
    """console / error_console are rich Consoles bound once at module level; the command names are not re-bound"""
    for obj in DISPLAY_OBJECTS:
        binds = [n for n in ast.walk(main_tree) if isinstance(n, ast.Name) and n.id == obj and isinstance(n.ctx, (ast.Store, ast.Del))]
        tops = [s for s in main_tree.body if isinstance(s, ast.Assign) and len(s.targets) == 1 and isinstance(s.targets[0], ast.Name) and s.targets[0].id == obj
                and isinstance(s.value, ast.Call) and ast.unparse(s.value.func) == "Console"]
        if len(binds) != 1 or len(tops) != 1: raise Untranslatable("%s must be bound once, to a Console(..)" % obj)
        if any(isinstance(n, ast.arg) and n.arg == obj for n in ast.walk(main_tree)): raise Untranslatable("a parameter shadows %s" % obj)
    for nm in ("typer", "asyncio", "GeminiClient", "TOFUDatabase", "Table") + tuple(DISPLAY_FUNCS):
        for n in ast.walk(main_tree):
            if isinstance(n, ast.Name) and n.id == nm and isinstance(n.ctx, (ast.Store, ast.Del)): bad(n, "re-binding of %s" % nm)
            if isinstance(n, ast.arg) and n.arg == nm: bad(n, "a parameter shadows %s" % nm)
    imp = {(n.module, n.level, a.name, a.asname) for n in main_tree.body if isinstance(n, ast.ImportFrom) for a in n.names}
    for want in (("client.session", 1, "GeminiClient", None), ("rich.console", 0, "Console", None), ("rich.table", 0, "Table", None)):
        if want not in imp: raise Untranslatable("__main__.py: import of %s from %s" % (want[2], want[0]))
    if not any(isinstance(n, ast.Import) and any(a.name == "typer" and a.asname is None for a in n.names) for n in main_tree.body): raise Untranslatable("__main__.py: import typer")
    if not any(isinstance(n, ast.Import) and any(a.name == "asyncio" and a.asname is None for a in n.names) for n in main_tree.body): raise Untranslatable("__main__.py: import asyncio")

def check_context_manager(session_tree):
    enter, exit_ = find_function(session_tree, "GeminiClient", "__aenter__"), find_function(session_tree, "GeminiClient", "__aexit__")
    def stmts(fn): return [s for s in fn.body if not (isinstance(s, ast.Expr) and isinstance(s.value, ast.Constant) and isinstance(s.value.value, str)) and not isinstance(s, ast.Pass)]
    if [ast.unparse(s) for s in stmts(enter)] != ["return self"]: raise Untranslatable("GeminiClient.__aenter__ is not `return self`")
    if stmts(exit_): raise Untranslatable("GeminiClient.__aexit__ has statements (it may swallow exceptions)")

# ------------------------------------------------------------------ callee signatures (client/session.py, security/tofu.py)
def client_signature(session_tree, consts_session):
    fn = find_function(session_tree, "GeminiClient", "__init__")
    a = fn.args
    if a.vararg or a.kwarg or a.kwonlyargs or a.posonlyargs: bad(fn, "GeminiClient.__init__ signature")
    names = [x.arg for x in a.args][1:]
    defaults = dict(zip(reversed(names), reversed(a.defaults)))
    for f, _ in CLIENT_FIELDS:
        if f not in names: bad(fn, "GeminiClient.__init__ has no parameter %s" % f)
    terms = {}
    for f, t in CLIENT_FIELDS:
        d = defaults.get(f)
        if d is None: bad(fn, "GeminiClient.__init__: %s has no default" % f)
        if isinstance(d, ast.Name) and d.id in consts_session and t == "nat": terms[f] = "%d%%nat" % consts_session[d.id]
        else: terms[f] = Params.const_term(d, t, {}, f)
    g = find_function(session_tree, "GeminiClient", "get")
    ga = g.args
    if [x.arg for x in ga.args] != ["self", "url", "follow_redirects"] or ga.vararg or ga.kwarg or ga.kwonlyargs or ga.posonlyargs or len(ga.defaults) != 1 \
       or not (isinstance(ga.defaults[0], ast.Constant) and isinstance(ga.defaults[0].value, bool)) or not isinstance(g, ast.AsyncFunctionDef):
        bad(g, "GeminiClient.get signature")
    return names, terms, ("true" if ga.defaults[0].value else "false")

def session_constants(session_tree, const_tree):
    imported = set()
    for n in session_tree.body:
        if isinstance(n, ast.ImportFrom) and n.level == 2 and n.module == "protocol.constants": imported |= {a.name for a in n.names if a.asname is None}
    out = {}
    for n in const_tree.body:
        if isinstance(n, ast.Assign) and len(n.targets) == 1 and isinstance(n.targets[0], ast.Name) and n.targets[0].id in imported \
           and isinstance(n.value, ast.Constant) and isinstance(n.value.value, int) and not isinstance(n.value.value, bool) and n.value.value >= 0:
            out[n.targets[0].id] = n.value.value
    return out

def bind_args(call, names, what):
    """positional / keyword arguments of a call matched to the callee's parameter names -> {name: expression}"""
    if len(call.args) > len(names): bad(call, "%s: too many arguments" % what)
    if any(isinstance(x, ast.Starred) for x in call.args): bad(call, "%s: *args" % what)
    given = dict(zip(names, call.args))
    for kw in call.keywords:
        if kw.arg is None: bad(call, "%s: **kwargs" % what)
        if kw.arg in given: bad(call, "%s: %s given twice" % (what, kw.arg))
        if kw.arg not in names: bad(call, "%s: unknown keyword %s (TypeError)" % (what, kw.arg))
        given[kw.arg] = kw.value
    return given

def client_terms(call, ex, sig):
    """GeminiClient(..) -> {field: Coq term} over CLIENT_FIELDS"""
    names, defaults, _ = sig
    given = bind_args(call, names, "GeminiClient(..)")
    fields = dict(CLIENT_FIELDS)
    for n in given:
        if n not in fields: bad(call, "GeminiClient(..): argument %s is outside the get_call record" % n)
    return {f: (ex.term(given[f], t) if f in given else defaults[f]) for f, t in CLIENT_FIELDS}

def check_methods(tofu_tree):
    for m, (ps, _, _) in METHODS.items():
        fn = find_function(tofu_tree, "TOFUDatabase", m)
        a = fn.args
        if a.vararg or a.kwarg or a.kwonlyargs or a.posonlyargs or isinstance(fn, ast.AsyncFunctionDef): bad(fn, "TOFUDatabase.%s signature" % m)
        if [x.arg for x in a.args][1:] != [p for p, _ in ps]: bad(fn, "TOFUDatabase.%s: parameters %s, METHODS says %s" % (m, [x.arg for x in a.args][1:], [p for p, _ in ps]))
        dn = [x.arg for x in a.args][len(a.args) - len(a.defaults):]
        if {n: ast.unparse(d) for n, d in zip(dn, a.defaults)} != METHOD_DEFAULTS.get(m, {}): bad(fn, "TOFUDatabase.%s: defaults" % m)
    init = find_function(tofu_tree, "TOFUDatabase", "__init__")
    if [x.arg for x in init.args.args] != ["self", "db_path"] or [ast.unparse(d) for d in init.args.defaults] != ["None"]: bad(init, "TOFUDatabase.__init__ signature")

# ------------------------------------------------------------------ commands
def find_command(tree, decorator, name=None):
    out = [n for n in tree.body if isinstance(n, ast.FunctionDef) and [ast.unparse(d) for d in n.decorator_list] == [decorator] and (name is None or n.name == name)]
    if len(out) != 1: raise Untranslatable("__main__.py: exactly one function decorated @%s expected, %d found" % (decorator, len(out)))
    if sum(1 for n in ast.walk(tree) if isinstance(n, (ast.FunctionDef, ast.AsyncFunctionDef)) and n.name == out[0].name) != 1:
        raise Untranslatable("__main__.py: %s defined more than once" % out[0].name)
    return out[0]

def strip_doc(body):
    return [s for s in body if not (isinstance(s, ast.Expr) and isinstance(s.value, ast.Constant) and isinstance(s.value.value, str))]

def typer_raise(s):
    """raise typer.Exit(code=N) [from e] -> ("typer.Exit", N); raise typer.Abort() -> ("typer.Abort", None); else None"""
    e = s.exc
    if not (isinstance(e, ast.Call) and ast.unparse(e.func) in TYPER_EXC): return None
    if s.cause is not None and not isinstance(s.cause, ast.Name): bad(s, "raise .. from <the caught exception>")
    if ast.unparse(e.func) == "typer.Abort":
        if e.args or e.keywords: bad(s, "typer.Abort form")
        return ("typer.Abort", None)
    if e.args: kv = e.args[0] if len(e.args) == 1 and not e.keywords else bad(s, "typer.Exit form")
    elif not e.keywords: return ("typer.Exit", 0)
    elif len(e.keywords) == 1 and e.keywords[0].arg == "code": kv = e.keywords[0].value
    else: bad(s, "typer.Exit form")
    if not (isinstance(kv, ast.Constant) and isinstance(kv.value, int) and not isinstance(kv.value, bool) and kv.value >= 0): bad(s, "typer.Exit: the code must be a non-negative int literal")
    return ("typer.Exit", kv.value)

class Cmd:
    """one command body -> a Coq term of type  list cmd_call * cli_end  (threading calls__)"""
    def __init__(self, what, params, consts, table, sig):
        self.what, self.params, self.consts, self.table, self.sig = what, params, consts, table, sig
        self.env = dict(params.types)
        self.ex = Ex(self.env, consts)
        self.oracles, self.oracle_of = [], {}                # (name, Coq type, comment); call site -> name
        self.tries = []
        self.db, self.tables, self.clients, self.loops, self.futures, self.protos, self.transports, self.opaque = set(), set(), set(), set(), set(), set(), set(), set()
        self.nested, self.handler_names = {}, set()
        self.tmp = 0
        self.ret_k = None

    # ---- plumbing
    def forbidden(self): return self.db | self.clients | self.loops | self.futures | self.protos | self.transports | {"typer", "asyncio"}
    def snapshot(self): return (dict(self.env), set(self.db), set(self.tables), set(self.clients), set(self.loops), set(self.futures), set(self.protos), set(self.transports), set(self.opaque))
    def restore(self, s):
        self.env.clear(); self.env.update(s[0])
        self.db, self.tables, self.clients, self.loops, self.futures, self.protos, self.transports, self.opaque = (set(x) for x in s[1:])
    def branch(self, thunk):
        s = self.snapshot()
        try: return thunk()
        finally: self.restore(s)
    def under(self, stack, fn):
        saved, self.tries = self.tries, stack
        try: return fn()
        finally: self.tries = saved
    def oracle(self, node, name, ty, comment):
        """one oracle per call SITE (the continuation of an `if` is translated once per branch: the same site may be met twice)"""
        key = (name, getattr(node, "lineno", None), getattr(node, "col_offset", None))
        if key in self.oracle_of: return self.oracle_of[key]
        names = [o[0] for o in self.oracles]
        base, i = name, 2
        while name in names or name in self.env or name in self.params.names: name, i = "%s%d" % (base, i), i + 1
        self.oracles.append((name, ty, comment, (key[1] or 0, key[2] or 0)))
        self.oracle_of[key] = name
        return name
    def oracle_list(self):
        """in SOURCE order of the call sites (not in the order the branches were translated)"""
        return sorted(self.oracles, key=lambda o: o[3])
    def done(self, end): return "(calls__, %s)" % end

    # ---- exceptions
    def throw(self, cls_term, uncaught):
        """an exception of class cls_term (a Coq term) originates here"""
        return self.propagate(cls_term, uncaught, len(self.tries))
    def propagate(self, c, uncaught, depth):
        if depth == 0: return self.done(uncaught)
        fr, outer = self.tries[depth - 1], self.tries[:depth - 1]
        up = lambda: self.under(outer, lambda: self.branch(lambda: self.block(fr["final"], lambda: self.propagate(c, uncaught, depth - 1))))
        if not fr["active"]: return up()
        out = up()
        arms = []
        for h in fr["handlers"]:
            def body(h=h):
                if h.name: self.fresh_name(h, h.name); self.opaque.add(h.name)
                return self.block(h.body, fr["after"])
            arms.append((ast.unparse(h.type), self.under(outer + [dict(fr, active=False)], lambda: self.branch(body))))
        for cls, t in reversed(arms):
            out = "(if %scatches gen_cli_exc_bases %s %s then %s else %s)" % (G, c, coq_str(cls), t, out)
        return out
    def try_(self, s, rest, k):
        if s.orelse: bad(s, "try-else")
        if not s.handlers and not s.finalbody: bad(s, "try form")
        for h in s.handlers:
            if h.type is None or ast.unparse(h.type) not in dict(self.table): bad(h, "except clause: one class of EXC_BASES")
        for f in s.finalbody:
            if not (isinstance(f, ast.Expr) and isinstance(f.value, ast.Call)): bad(f, "finally: call statements only")
        outer = list(self.tries)
        after = lambda: self.under(outer, lambda: self.block(s.finalbody, lambda: self.block(rest, k)))
        fr = dict(handlers=s.handlers, final=s.finalbody, active=True, after=after)
        return self.under(outer + [fr], lambda: self.block(s.body, after))
    def leave(self, end_thunk):
        """return: the enclosing finally blocks run, innermost first"""
        def chain(depth):
            if depth == 0: return end_thunk()
            fr = self.tries[depth - 1]
            return self.under(self.tries[:depth - 1], lambda: self.branch(lambda: self.block(fr["final"], lambda: chain(depth - 1))))
        return chain(len(self.tries))

    # ---- statements
    def is_display(self, s):
        if isinstance(s, ast.Expr) and isinstance(s.value, ast.Call):
            c, f = s.value, ast.unparse(s.value.func)
            recv = c.func.value.id if isinstance(c.func, ast.Attribute) and isinstance(c.func.value, ast.Name) else None
            ok = (recv in DISPLAY_OBJECTS and c.func.attr == "print") or (recv in self.tables and c.func.attr in ("add_column", "add_row")) or f in DISPLAY_FUNCS
            if ok:
                if not all(display_safe(a, self.forbidden()) for a in list(c.args) + [kw.value for kw in c.keywords]) or any(kw.arg is None for kw in c.keywords):
                    bad(s, "display statement whose arguments are not effect-free")
                return True
        if isinstance(s, ast.Assign) and len(s.targets) == 1 and isinstance(s.targets[0], ast.Name) and isinstance(s.value, ast.Call) and ast.unparse(s.value.func) == "Table":
            if not all(display_safe(a, self.forbidden()) for a in list(s.value.args) + [kw.value for kw in s.value.keywords]): bad(s, "Table(..) arguments")
            if s.targets[0].id not in self.tables: self.fresh_name(s, s.targets[0].id)
            self.tables.add(s.targets[0].id)
            return True
        if isinstance(s, ast.For) and not s.orelse and isinstance(s.target, ast.Name) and isinstance(s.iter, ast.Name) and self.env.get(s.iter.id) == "rows":
            self.fresh_name(s, s.target.id)
            def inner():
                self.opaque.add(s.target.id)
                return all(self.is_display(x) for x in s.body)
            if not self.branch(inner): bad(s, "for loop that is not display only")
            return True
        return False

    def block(self, stmts, k):
        if not stmts: return k()
        s, rest = stmts[0], stmts[1:]
        nxt = lambda: self.block(rest, k)
        if isinstance(s, ast.Expr) and isinstance(s.value, ast.Constant) and isinstance(s.value.value, str): return nxt()
        if isinstance(s, ast.Pass): return nxt()
        if isinstance(s, ast.ImportFrom):
            if s.level < 1 or any(a.name not in IMPORTS or a.asname for a in s.names): bad(s, "import")
            return nxt()
        if self.is_display(s): return nxt()
        if isinstance(s, ast.Try): return self.try_(s, rest, k)
        if isinstance(s, ast.If): return self.if_(s, rest, k)
        if isinstance(s, ast.Return):
            if s.value is not None and not (isinstance(s.value, ast.Constant) and s.value.value is None): bad(s, "return of a value")
            return self.leave(self.ret_k)
        if isinstance(s, ast.Raise):
            r = typer_raise(s)
            if r is None: bad(s, "raise form")
            cls, code = r
            return self.throw(coq_str(cls), "(%sEExit %d)" % (G, code) if cls == "typer.Exit" else G + "EAbort")
        if isinstance(s, ast.FunctionDef):
            if self.nested.get(s.name, s) is not s or s.decorator_list: bad(s, "nested def")
            if s.name not in self.nested: self.fresh_name(s, s.name)      # (the continuation of an `if` is translated once per branch)
            self.nested[s.name] = s; self.handler_names.add(s.name)
            return nxt()
        if isinstance(s, ast.AsyncFunctionDef):
            a = s.args
            if a.args or a.vararg or a.kwarg or a.kwonlyargs or a.posonlyargs or s.decorator_list or self.nested.get(s.name, s) is not s: bad(s, "nested async def")
            if s.name not in self.nested: self.fresh_name(s, s.name)
            self.nested[s.name] = s
            if not (len(rest) == 1 and isinstance(rest[0], ast.Expr) and ast.unparse(rest[0].value) == "asyncio.run(%s())" % s.name):
                bad(s, "`async def %s()` must be followed by `asyncio.run(%s())` as the last statement" % (s.name, s.name))
            if self.tries: bad(s, "nested async def inside try")
            saved, self.ret_k = self.ret_k, k           # `return` inside the coroutine ends asyncio.run(..): the command's last statement
            try: return self.block(s.body, k)
            finally: self.ret_k = saved
        if isinstance(s, ast.AsyncWith):
            if len(s.items) != 1 or not isinstance(s.items[0].optional_vars, ast.Name): bad(s, "async with form")
            c, v = s.items[0].context_expr, s.items[0].optional_vars.id
            if not (isinstance(c, ast.Call) and ast.unparse(c.func) == "GeminiClient"): bad(s, "async with: GeminiClient(..) expected")
            t = client_terms(c, self.ex, self.sig)
            for f, _ in CLIENT_FIELDS:
                if f not in ("verify_ssl", "trust_on_first_use") and t[f] != self.sig[1][f]: bad(s, "GeminiClient(..): %s given (CClient records the two flags only)" % f)
            self.fresh_name(s, v); self.clients.add(v)
            return "(let calls__ := calls__ ++ [%sCClient %s %s] in %s)" % (G, t["verify_ssl"], t["trust_on_first_use"], self.block(s.body + rest, k))
        if isinstance(s, ast.AnnAssign) and s.value is not None and isinstance(s.target, ast.Name) and s.simple:
            s = ast.copy_location(ast.Assign(targets=[s.target], value=s.value), s)
        call = targets = None
        if isinstance(s, ast.Expr): call, targets = s.value, []
        elif isinstance(s, ast.Assign) and len(s.targets) == 1:
            tg = s.targets[0]
            if isinstance(tg, ast.Name): call, targets = s.value, [tg.id]
            elif isinstance(tg, ast.Tuple) and all(isinstance(x, ast.Name) for x in tg.elts): call, targets = s.value, [x.id for x in tg.elts]
        if targets is not None:
            awaited = isinstance(call, ast.Await)
            if awaited: call = call.value
            if isinstance(call, ast.Call):
                r = self.call_stmt(s, call, targets, awaited, nxt)
                if r is not None: return r
            if isinstance(call, ast.JoinedStr) and len(targets) == 1 and not awaited and display_safe(call, self.forbidden()):
                self.fresh_name(s, targets[0]); self.opaque.add(targets[0])      # a text used by display statements / the protocol object only
                return nxt()
        bad(s, "statement")

    def if_(self, s, rest, k):
        t = s.test
        neg = False
        u = t
        if isinstance(u, ast.UnaryOp) and isinstance(u.op, ast.Not): neg, u = True, u.operand
        # a database call as the whole test: hoisted
        if isinstance(u, ast.Call) and self.db_method(u):
            self.tmp += 1
            v = "t__%d" % self.tmp
            new = ast.If(test=ast.UnaryOp(op=ast.Not(), operand=ast.Name(id=v, ctx=ast.Load())) if neg else ast.Name(id=v, ctx=ast.Load()), body=s.body, orelse=s.orelse)
            return self.call_stmt(s, u, [v], False, lambda: self.block([ast.copy_location(new, s)] + rest, k), hoisted=True)
        # `X.exists()` on a path parameter anywhere in the test: an oracle (no effect)
        import copy
        t = copy.deepcopy(t)
        for n in ast.walk(t):
            if isinstance(n, ast.Call) and isinstance(n.func, ast.Attribute) and n.func.attr == "exists" and isinstance(n.func.value, ast.Name) \
               and self.env.get(n.func.value.id) == "path" and not n.args and not n.keywords:
                o = self.oracle(n, "%s_exists" % n.func.value.id, "bool", "%s.exists()" % n.func.value.id)
                self.env[o] = "bool"
                class R(ast.NodeTransformer):
                    def visit_Call(self_, m):
                        return ast.copy_location(ast.Name(id=o, ctx=ast.Load()), m) if m is n else self_.generic_visit(m)
                t = R().visit(t)
                break
        # narrowing of an Optional local by its truthiness / `is None`
        narrow = None
        w, wneg = t, False
        if isinstance(w, ast.UnaryOp) and isinstance(w.op, ast.Not): w, wneg = w.operand, True
        if isinstance(w, ast.Compare) and len(w.ops) == 1 and isinstance(w.ops[0], (ast.Is, ast.IsNot)) and isinstance(w.left, ast.Name) \
           and isinstance(w.comparators[0], ast.Constant) and w.comparators[0].value is None and not wneg:
            narrow, some_then = w.left.id, isinstance(w.ops[0], ast.IsNot)
        elif isinstance(w, ast.Name) and isinstance(self.env.get(w.id), tuple) and self.env[w.id][1] in ("path", "cert"):
            narrow, some_then = w.id, not wneg
        if narrow is not None and isinstance(self.env.get(narrow), tuple) and self.env[narrow][0] == "opt":
            inner = self.env[narrow][1]
            def some():
                self.env[narrow] = inner
                return self.block((s.body if some_then else s.orelse) + rest, k)
            def none(): return self.block((s.orelse if some_then else s.body) + rest, k)
            return "(match %s with Some %s => %s | None => %s end)" % (narrow, narrow, self.branch(some), self.branch(none))
        c = self.ex.truth(t)
        return "(if %s then %s else %s)" % (c, self.branch(lambda: self.block(s.body + rest, k)), self.branch(lambda: self.block(s.orelse + rest, k)))

    def db_method(self, call):
        f = call.func
        return isinstance(f, ast.Attribute) and isinstance(f.value, ast.Name) and f.value.id in self.db and f.attr in METHODS

    def call_stmt(self, s, call, targets, awaited, nxt, hoisted=False):
        f, fu = call.func, ast.unparse(call.func)
        one = targets[0] if len(targets) == 1 else None
        recv = f.value.id if isinstance(f, ast.Attribute) and isinstance(f.value, ast.Name) else None
        for t in targets:
            if not hoisted: self.fresh_name(s, t)
        if fu == "TOFUDatabase" and one and not awaited:
            if call.args or call.keywords: bad(s, "TOFUDatabase(..) with arguments: not the default store")
            self.db.add(one); return nxt()
        if fu == "typer.confirm" and one and not awaited:
            if not all(display_safe(a, self.forbidden()) for a in list(call.args) + [kw.value for kw in call.keywords]): bad(s, "typer.confirm arguments")
            if any(kw.arg not in ("default",) or not isinstance(kw.value, ast.Constant) for kw in call.keywords) or len(call.args) != 1: bad(s, "typer.confirm form")
            o = self.oracle(call, "confirm_in", "bool", "the answer to typer.confirm(%s)" % ast.unparse(call.args[0])[:60])
            self.env[one] = "bool"
            return "(let %s := %s in %s)" % (one, o, nxt())
        if self.db_method(call) and not awaited:
            m = f.attr
            ps, rkind, ctor = METHODS[m]
            given = bind_args(call, [p for p, _ in ps], "TOFUDatabase.%s" % m)
            args = []
            for p, ty in ps:
                if p not in given:
                    d = METHOD_DEFAULTS.get(m, {}).get(p)
                    if d is None: bad(s, "TOFUDatabase.%s: missing argument %s (TypeError)" % (m, p))
                    if ty == "handler": continue                      # no handler: conflicts are skipped - the call records none
                    given[p] = ast.parse(d, mode="eval").body
                if ty == "handler":
                    if not (isinstance(given[p], ast.Name) and given[p].id in self.handler_names): bad(s, "on_conflict: the nested handler expected")
                    self.used_handler = given[p].id
                    continue
                args.append(self.ex.term(given[p], ty))
            if m == "import_toml" and "on_conflict" not in given: bad(s, "import_toml without on_conflict (gen_tofu_import_on_conflict would not apply)")
            rec = "let calls__ := calls__ ++ [%s%s%s] in " % (G, ctor, "".join(" " + a for a in args))
            if rkind == "unit":
                if targets: bad(s, "result of TOFUDatabase.%s" % m)
                bind = ""
            elif rkind == "nat3":
                if targets and len(targets) != 3: bad(s, "import_toml returns three counts")
                if targets:
                    o = self.oracle(call, "%s_res" % m, RESULT_COQ[rkind], "what db.%s returns" % m)
                    for t in targets: self.env[t] = "nat"
                    bind = "let '(%s) := %s in " % (", ".join(targets), o)
                else: bind = ""
            else:
                if len(targets) > 1: bad(s, "unpacking of the result of TOFUDatabase.%s" % m)
                if one:
                    o = self.oracle(call, "%s_res" % m, RESULT_COQ[rkind], {"rows": "db.list_hosts() returned a non-empty list", "optrow": "db.get_host_info found the host (not None)"}.get(rkind, "what db.%s returns" % m))
                    self.env[one] = rkind
                    bind = "let %s := %s in " % (one, o)
                else: bind = ""
            if any(fr["active"] for fr in self.tries) or any(fr["final"] for fr in self.tries):
                x = self.oracle(call, "%s_exc" % m, "option str", "Some c: db.%s raises an exception of class c" % m)
                return "(%smatch %s with Some c__ => %s | None => %s%s end)" % (rec, x, self.branch(lambda: self.throw("c__", G + "ECrash")), bind, nxt())
            return "(%s%s%s)" % (rec, bind, nxt())
        # ---- tofu trust: the connection of its own
        if fu == "asyncio.get_running_loop" and one and not awaited and not call.args and not call.keywords:
            self.loops.add(one); return nxt()
        if recv in self.loops and f.attr == "create_future" and one and not awaited and not call.args and not call.keywords:
            self.futures.add(one); return nxt()
        if fu == "GeminiClientProtocol" and one and not awaited:
            if call.keywords or len(call.args) != 2 or not (isinstance(call.args[0], ast.Name) and call.args[0].id in self.opaque) \
               or not (isinstance(call.args[1], ast.Name) and call.args[1].id in self.futures): bad(s, "GeminiClientProtocol(<url text>, <future>)")
            self.protos.add(one); return nxt()
        if recv in self.loops and f.attr == "create_connection" and awaited:
            if len(targets) != 2 or len(call.args) != 1: bad(s, "create_connection form")
            fac = call.args[0]
            if not (isinstance(fac, ast.Lambda) and not ast.unparse(fac.args) and isinstance(fac.body, ast.Name) and fac.body.id in self.protos): bad(s, "protocol factory")
            kws = {kw.arg: kw.value for kw in call.keywords}
            if sorted(x for x in kws if x) != ["host", "port", "server_hostname", "ssl"] or len(call.keywords) != 4: bad(s, "create_connection keywords")
            if not (isinstance(kws["ssl"], ast.Attribute) and isinstance(kws["ssl"].value, ast.Name) and kws["ssl"].value.id in self.clients and kws["ssl"].attr == "ssl_context"):
                bad(s, "create_connection: ssl=<the client>.ssl_context expected")
            if any(k[0] == "conn_in" and k[1:] != (call.lineno, call.col_offset) for k in self.oracle_of): bad(s, "a second create_connection")
            tr, q = targets
            # (the targets were checked fresh above unless q re-binds the protocol variable)
            self.transports.add(tr); self.protos.add(q)
            rec = "let calls__ := calls__ ++ [%sCConnect %s %s %s] in " % (G, self.ex.term(kws["host"], "str"), self.ex.term(kws["port"], "N"), self.ex.term(kws["server_hostname"], "str"))
            o = self.oracle(call, "conn_in", "SessionGlue.conn_outcome", "create_connection")
            return "(%smatch %s with SessionGlue.ConnOk => %s | SessionGlue.ConnFail c__ => %s end)" % (rec, o, nxt(), self.branch(lambda: self.throw("c__", G + "ECrash")))
        if recv in self.protos and f.attr == "get_peer_certificate" and one and not awaited and not call.args and not call.keywords:
            o = self.oracle(call, "cert_in", "option str", "what protocol.get_peer_certificate() returns")
            self.env[one] = ("opt", "cert")
            return "(let calls__ := calls__ ++ [%sCPeerCert] in let %s := %s in %s)" % (G, one, o, nxt())
        if recv in self.transports and f.attr == "close" and targets == [] and not awaited and not call.args and not call.keywords:
            return "(let calls__ := calls__ ++ [%sCCloseTransport] in %s)" % (G, nxt())
        return None

    def fresh_name(self, node, name):
        if name in self.protos: return          # the protocol variable may be re-bound by create_connection
        if name in self.nested: bad(node, "re-binding of %s" % name)
        if name in self.env or name in self.forbidden() | self.tables | self.opaque | DISPLAY_OBJECTS or name.endswith("__") or name in [o[0] for o in self.oracles] or name in self.consts:
            bad(node, "re-binding of %s" % name)

def translate_tofu(cmd, fn, consts, table, sig):
    params = Params(fn, consts)
    c = Cmd("tofu " + cmd, params, consts, table, sig)
    c.ret_k = lambda: c.done(G + "EDone")
    body = c.block(strip_doc(fn.body), lambda: c.done(G + "EDone"))
    out = params.emit("tofu_" + cmd)
    extra = ""
    if c.nested:
        for name, node in c.nested.items():
            if isinstance(node, ast.AsyncFunctionDef): continue
            if getattr(c, "used_handler", None) != name: bad(node, "nested function %s is not the on_conflict handler" % name)
            extra += translate_conflict_handler(node, params)
    clean = lambda t: t.replace('"', "'").replace("(*", "( *").replace("*)", "* )")
    out += "(* oracles: %s *)\n" % clean("; ".join("%s = %s" % (o[0], o[2]) for o in c.oracle_list()) or "none")
    out += "Definition gen_tofu_%s %s%s : list %scmd_call * %scli_end :=\n  (let calls__ : list %scmd_call := [] in %s).\n" % (
        cmd, params.binder(), "".join(" (%s : %s)" % (o[0], o[1]) for o in c.oracle_list()), G, G, G, body)
    return out + extra

def translate_conflict_handler(node, params):
    """def h(hostname, port, old_fp, new_fp) -> bool: `if <flag>: return True`, display, `x = typer.confirm(.., default=False)`, `return x`"""
    a = node.args
    if len(a.args) != 4 or a.vararg or a.kwarg or a.kwonlyargs or a.posonlyargs or a.defaults: bad(node, "conflict handler signature")
    own = {x.arg for x in a.args}
    ex = Ex({n: t for n, t in params.types.items() if n not in own}, {})
    def block(stmts, tables):
        if not stmts: bad(node, "conflict handler: control can fall off the end (returns None)")
        s, rest = stmts[0], stmts[1:]
        if isinstance(s, ast.Expr) and isinstance(s.value, ast.Constant) and isinstance(s.value.value, str): return block(rest, tables)
        if isinstance(s, ast.If):
            return "(if %s then %s else %s)" % (ex.truth(s.test), block(s.body + rest, set(tables)), block(s.orelse + rest, set(tables)))
        if isinstance(s, ast.Return):
            if isinstance(s.value, ast.Constant) and isinstance(s.value.value, bool): return "true" if s.value.value else "false"
            if isinstance(s.value, ast.Name) and ex.env.get(s.value.id) == "bool": return s.value.id
            if isinstance(s.value, ast.UnaryOp) and isinstance(s.value.op, ast.Not): return ex.truth(s.value)
            bad(s, "conflict handler: return")
        if isinstance(s, ast.Assign) and len(s.targets) == 1 and isinstance(s.targets[0], ast.Name) and isinstance(s.value, ast.Call):
            f = ast.unparse(s.value.func)
            if f == "Table" and all(display_safe(x, {"typer"}) for x in list(s.value.args) + [kw.value for kw in s.value.keywords]):
                return block(rest, tables | {s.targets[0].id})
            if f == "typer.confirm" and len(s.value.args) == 1 and display_safe(s.value.args[0], {"typer"}) and s.targets[0].id not in ex.env and s.targets[0].id not in own \
               and all(kw.arg == "default" and isinstance(kw.value, ast.Constant) for kw in s.value.keywords) and "answer" not in ex.env.values():
                ex.env[s.targets[0].id] = "bool"
                return "(let %s := answer in %s)" % (s.targets[0].id, block(rest, tables))
        if isinstance(s, ast.Expr) and isinstance(s.value, ast.Call) and isinstance(s.value.func, ast.Attribute) and isinstance(s.value.func.value, ast.Name):
            r, m = s.value.func.value.id, s.value.func.attr
            if ((r in DISPLAY_OBJECTS and m == "print") or (r in tables and m in ("add_column", "add_row"))) \
               and all(display_safe(x, {"typer"}) for x in list(s.value.args) + [kw.value for kw in s.value.keywords]): return block(rest, tables)
        bad(s, "conflict handler: statement")
    if "answer" in params.names: bad(node, "a parameter called answer")
    body = block(node.body, set())
    return ("(* the on_conflict handler: answer = what the user replies to typer.confirm *)\nDefinition gen_tofu_import_on_conflict %s (answer : bool) : bool :=\n  %s.\n"
            % (params.binder(), body))

# ------------------------------------------------------------------ get
def translate_get(main_tree, consts, table, sig):
    fn = find_command(main_tree, "app.command()", "get")
    params = Params(fn, consts)
    ex = Ex(dict(params.types), consts)
    body = strip_doc(fn.body)
    # 1. the pre-checks
    checks, i = [], 0
    while i < len(body) and isinstance(body[i], ast.If):
        s = body[i]
        if s.orelse: bad(s, "get: pre-check with else")
        helper = Cmd("get", params, consts, table, sig)
        inner = strip_doc(s.body)
        if not inner or not isinstance(inner[-1], ast.Raise) or any(not helper.is_display(x) for x in inner[:-1]): bad(s, "get: pre-check body: display statements, then raise typer.Exit(code=N)")
        r = typer_raise(inner[-1])
        if r is None or r[0] != "typer.Exit" or inner[-1].cause is not None: bad(s, "get: pre-check must raise typer.Exit(code=N)")
        checks.append((ex.truth(s.test), r[1]))
        i += 1
    pre = "None"
    for c, code in reversed(checks): pre = "(if %s then Some %d%%N else %s)" % (c, code, pre)
    # 2. async def _get() + asyncio.run(_get())
    if len(body) - i != 2 or not isinstance(body[i], ast.AsyncFunctionDef): bad(fn, "get: `async def _get()` and `asyncio.run(_get())` expected after the pre-checks")
    co, last = body[i], body[i + 1]
    a = co.args
    if a.args or a.vararg or a.kwarg or a.kwonlyargs or a.posonlyargs or co.decorator_list: bad(co, "get: coroutine signature")
    if not (isinstance(last, ast.Expr) and ast.unparse(last.value) == "asyncio.run(%s())" % co.name): bad(last, "get: asyncio.run(<the coroutine>())")
    cb = strip_doc(co.body)
    if len(cb) != 1 or not isinstance(cb[0], ast.Try) or cb[0].orelse or cb[0].finalbody: bad(co, "get: the coroutine must be one try / except statement")
    tr = cb[0]
    tb = strip_doc(tr.body)
    if len(tb) != 1 or not isinstance(tb[0], ast.AsyncWith) or len(tb[0].items) != 1: bad(tr, "get: `async with GeminiClient(..) as client:` expected in the try block")
    aw = tb[0]
    ctor, var = aw.items[0].context_expr, aw.items[0].optional_vars
    if not (isinstance(ctor, ast.Call) and ast.unparse(ctor.func) == "GeminiClient" and isinstance(var, ast.Name)): bad(aw, "get: async with form")
    if var.id in params.types or var.id in consts: bad(aw, "get: the client variable shadows a parameter")
    fields = client_terms(ctor, ex, sig)
    wb = strip_doc(aw.body)
    # 3. response = await <client>.get(url, follow_redirects=..)
    s0 = wb[0] if wb else None
    if not (isinstance(s0, ast.Assign) and len(s0.targets) == 1 and isinstance(s0.targets[0], ast.Name) and isinstance(s0.value, ast.Await)
            and isinstance(s0.value.value, ast.Call) and ast.unparse(s0.value.value.func) == "%s.get" % var.id): bad(aw, "get: `response = await client.get(..)` expected first")
    resp = s0.targets[0].id
    if resp in params.types or resp in consts or resp == var.id or resp in ("status", "cls", "uncaught", "o", "run") or resp.endswith("__"): bad(s0, "get: name of the response variable")
    given = bind_args(s0.value.value, ["url", "follow_redirects"], "client.get(..)")
    if "url" not in given: bad(s0, "client.get(..): url missing")
    url_t = ex.term(given["url"], "str")
    follow_t = ex.term(given["follow_redirects"], "bool") if "follow_redirects" in given else sig[2]
    call = "%sBuild_get_call %s %s %s" % (G, " ".join(fields[f] for f, _ in CLIENT_FIELDS), url_t, follow_t)
    # 4. the statements after it, and the handlers
    for h in tr.handlers:
        if h.type is None or ast.unparse(h.type) not in dict(table): bad(h, "get: except clause: one class of EXC_BASES")
    def handler_end(h):
        helper = Cmd("get", params, consts, table, sig)
        if h.name: helper.opaque.add(h.name)
        hb = strip_doc(h.body)
        if hb and isinstance(hb[-1], ast.Raise):
            if any(not helper.is_display(x) for x in hb[:-1]): bad(h, "get: handler: display statements, then raise")
            if hb[-1].exc is None: return "uncaught"
            r = typer_raise(hb[-1])
            if r is None: bad(hb[-1], "get: handler: raise form")
            return "%d%%N" % r[1] if r[0] == "typer.Exit" else "1%N"
        if hb and isinstance(hb[-1], ast.Return) and hb[-1].value is None: hb = hb[:-1]
        if any(not helper.is_display(x) for x in hb): bad(h, "get: handler: display statements, then raise")
        return "0%N"          # the exception is swallowed: the coroutine returns
    walk = "uncaught"
    for h in reversed(tr.handlers):
        walk = "(if %scatches gen_cli_exc_bases cls %s then %s else %s)" % (G, coq_str(ast.unparse(h.type)), handler_end(h), walk)
    env2 = dict(params.types); env2[resp] = "response"
    ex2 = Ex(env2, consts)
    helper = Cmd("get", params, consts, table, sig)
    helper.opaque.add(resp); helper.clients.add(var.id)
    def after(stmts):
        if not stmts: return "0%N"
        s, rest = stmts[0], stmts[1:]
        if helper.is_display(s): return after(rest)
        if isinstance(s, ast.If):
            return "(if %s then %s else %s)" % (ex2.truth(s.test), after(s.body + rest), after(s.orelse + rest))
        if isinstance(s, ast.Return) and s.value is None: return "0%N"
        if isinstance(s, ast.Raise):
            r = typer_raise(s)
            if r is None: bad(s, "get: raise form")
            return "(gen_get_handlers %s %s)" % (coq_str(r[0]), "%d%%N" % r[1] if r[0] == "typer.Exit" else "1%N")
        bad(s, "get: statement after the fetch")
    exit_ok = after(wb[1:])
    P = params
    out = P.emit("get")
    out += "\nDefinition gen_get_precheck %s : option N :=\n  %s.\n" % (P.binder(), pre)
    out += "\nDefinition gen_get_call %s : %sget_call :=\n  %s.\n" % (P.binder(), G, call)
    out += ("\n(* the except clauses, in source order; uncaught: the status when none catches *)\nDefinition gen_get_handlers (cls : str) (uncaught : N) : N :=\n  %s.\n" % walk)
    out += ("\nDefinition gen_get_exit (o : %scli_outcome) : N :=\n  match o with\n  | %sOStatus status => %s\n  | %sORaised cls => gen_get_handlers cls 1%%N\n  end.\n"
            % (G, G, exit_ok, G))
    out += ("\nDefinition gen_get_command (run : %sget_call -> %scli_outcome) %s : option %sget_call * N :=\n"
            "  match gen_get_precheck %s with\n  | Some c__ => (None, c__)\n  | None => let c__ := gen_get_call %s in (Some c__, gen_get_exit (run c__))\n  end.\n"
            % (G, G, P.binder(), G, P.args(), P.args()))
    return out

# ------------------------------------------------------------------ main
HEADER = """(* GENERATED by /verif/translate/py2coq_cliclient.py from /repo/src/nauyaca/__main__.py (with client/session.py, security/tofu.py, protocol/constants.py) - do not edit *)
From Coq Require Import List NArith ZArith Bool.
From Coq Require QArith.
From NV Require Import Prelude.Str Equiv.CliClientGlue.
From NV Require Equiv.SessionGlue.
Import ListNotations.
Open Scope list_scope.

"""

def main(out_path):
    parse = lambda rel: ast.parse(open(os.path.join(SRC, rel)).read(), rel)
    main_tree, session, tofu, const = parse(MAIN_FILE), parse(SESSION_FILE), parse(TOFU_FILE), parse(CONST_FILE)
    table = check_exc_table(tofu)
    check_module_objects(main_tree)
    check_display_funcs(main_tree)
    check_context_manager(session)
    check_methods(tofu)
    consts = module_constants(main_tree, const)
    sig = client_signature(session, session_constants(session, const))
    chunks = [HEADER]
    chunks.append("".join("Definition gen_%s : nat := %d%%nat.\n" % kv for kv in sorted(consts.items())) + "\n")
    chunks.append("Definition gen_cli_exc_bases : list (str * list str) :=\n  [%s].\n\n" % "; ".join("(%s, [%s])" % (coq_str(c), "; ".join(coq_str(b) for b in bs)) for c, bs in table))
    try: chunks.append(translate_get(main_tree, consts, table, sig) + "\n")
    except Untranslatable as e: raise Untranslatable("__main__.py:get: %s" % e)
    # the tofu group
    grp = [s for s in main_tree.body if isinstance(s, ast.Assign) and len(s.targets) == 1 and isinstance(s.targets[0], ast.Name) and s.targets[0].id == "tofu_app"]
    if len(grp) != 1 or not (isinstance(grp[0].value, ast.Call) and ast.unparse(grp[0].value.func) == "typer.Typer"): raise Untranslatable("__main__.py: tofu_app = typer.Typer(..)")
    if not any(isinstance(s, ast.Expr) and ast.unparse(s.value).replace('"', "'") == "app.add_typer(tofu_app, name='tofu')" for s in main_tree.body):
        raise Untranslatable("__main__.py: app.add_typer(tofu_app, name='tofu')")
    for cmd in TOFU_COMMANDS:
        try:
            fn = find_command(main_tree, "tofu_app.command('%s')" % cmd)
            chunks.append(translate_tofu(cmd, fn, consts, table, sig) + "\n")
        except Untranslatable as e: raise Untranslatable("__main__.py:tofu %s: %s" % (cmd, e))
    open(out_path, "w").write("".join(chunks))
    print("py2coq_cliclient: get and %d tofu sub-commands translated" % len(TOFU_COMMANDS))

if __name__ == "__main__":
    try:
        main(sys.argv[1] if len(sys.argv) > 1 else os.path.join(os.path.dirname(os.path.dirname(os.path.abspath(__file__))), "coq", "Gen", "CliClientGen.v"))
    except (Untranslatable, OSError, SyntaxError) as e:
        print("UNTRANSLATABLE:", e); sys.exit(2)
