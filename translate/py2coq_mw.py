#!/usr/bin/env python3
"""py2coq_mw: translator for the middleware / routing / proxy-relay decision code -> coq/Gen/MwGen.v.

Extends py2coq.Fn (same fail-closed discipline: anything outside the subset raises Untranslatable, exit 2).
Translated (see SPECS / CLASSES at the end of the file):
  server/middleware.py  TokenBucket (record from __init__, __init__, consume), RateLimiter.process_request,
                        one pass of RateLimiter._cleanup_loop, AccessControl.__init__ (list parsing),
                        AccessControl._is_allowed (py2coq's spec, re-emitted), AccessControl.process_request
  server/router.py      RouteType (enum), Route (dataclass), Router.add_route, Router._matches, Router.route
  server/proxy.py       the relay part of ProxyHandler._handle_async (after the upstream URL is built)

General rules added to py2coq's subset
  classes      `class C` with __init__: a Record py_C with one field per `self.f = e` of __init__ (types inferred from
               the annotated parameters); @dataclass: a Record from the annotated fields; Enum: an Inductive + eqb.
               A method of such a class takes and (if it assigns a field) returns the record.  `x.f` on a variable
               of class type is the field accessor; `C(args)` calls the generated __init__; `x.m(args)` calls the
               generated method (missing arguments are filled from constant defaults of the def).
  aliasing     `x = self.D[k]` binds x to the dict entry (KeyError if absent); a field-assigning method call
               `x.m(..)` - allowed as a whole if-test, right-hand side, expression statement or return value - is
               followed by the write-back `D[k] := x`.  Any other update of D ends the alias (later mutation of x
               is refused); only freshly constructed objects may be stored into a dict.
  dict         dict[str, V] state is an association list: `k in D`, `D[k]`, `D[k] = v`, `del D[k]`, `D.items()`
               -> dmem / dget / dset / ddel (coq/Equiv/MwGlue.v) / the list itself.
  lists        `[e for pat in xs if c]` -> map (fun pat => e) (filter (fun pat => c) xs); `self.xs.append(e)`.
  loops        `for x in xs:` as in py2coq, but the accumulators are computed: every variable (local or state)
               that the body may rebind and that exists before the loop.
  exceptions   results are `res` values when the spec says may_raise.  A call to a raising oracle (RAISING) is hoisted
               out of its statement (`match oracle args with Some v => .. | None => <raise>`); `raise E(msg)`, a failed
               oracle call, KeyError of D[k] / del D[k] transfer to the innermost enclosing `except` clause that
               catches the class (EXC_CATCH), else become `Err class msg`.  An awaited environment call listed in
               env_exc_calls returns `callres` (MwGlue.v) and its exception is dispatched over the enclosing handlers at
               run time with exc_isa.  `raise .. from e`: the cause is ignored.
  narrowing    `if E:` / `if E is None: <block ending in return/raise>` for an Optional attribute or variable E:
               a match on E; in the branch where E is not None it is rebound to the payload.
  results      the def's return annotation decides where `Some` is inserted (`str` returned at `str | None`).
  calls        a call of an expression of function type is an application; keyword constructor calls listed in
               KW_CALLS; `float(x)` at Q and `str(x)` at str are identities; StatusCode.X.value is read from the source.
  time         every `time.monotonic()` inside one translated top-level call reads the same input `now_in`.

TRUSTED TABLES (everything else is derived from the AST)
  ANNOT        Python annotation -> type (str, bool, float->Q, `T | None`, list[T], dict[str, T], tuple[..], class names);
               `int` -> the spec's "int" (Q where the value enters float arithmetic: exact embedding; Z otherwise).
  RAISING      ip_network, ip_address: ValueError or a value; re.compile: re.error or a value (oracle parameters of the
               generated definitions).
  EXC_CATCH    which `except` class names catch which raised class (ValueError, KeyError, TimeoutError, ConnectionError,
               re.error).
  KW_CALLS     GeminiResponse(status=, meta=) -> ServerGlue.mk_resp.
  per spec     attrs (what `self.config.x` / `self.x` denote and their types), env_exc_calls (the upstream fetch, with the
               keyword arguments it must be called with), method_oracles (re.Pattern.match), skip (statements that only
               choose the default configuration object), slices (which statements of a def are translated).
  float arithmetic is exact rational arithmetic (as in py2coq.gen_consume)."""
import ast, sys, os, copy
sys.path.insert(0, os.path.dirname(os.path.abspath(__file__)))
import py2coq
from py2coq import Fn, Untranslatable, bad, coq_str, find_function, SRC
from py2coq_server import enum_values

# ------------------------------------------------------------------ trusted tables
RAISING = {"ip_network": ("ip_network", "net", "ValueError"), "ip_address": ("ip_address", "addr", "ValueError")}
EXC_CATCH = {   # raised class -> the `except` class names that catch it
    "ValueError": ["ValueError", "Exception"],
    "KeyError": ["KeyError", "LookupError", "Exception"],
    "TimeoutError": ["TimeoutError", "OSError", "Exception"],
    "ConnectionError": ["ConnectionError", "OSError", "Exception"],
    "re.error": ["re.error", "Exception"],
}
EXC_CLASSES = {"TimeoutError": "ExTimeoutError", "ConnectionError": "ExConnectionError", "Exception": "ExException"}   # MwGlue.exc_class
KW_CALLS = {"GeminiResponse": (["status", "meta"], "mk_resp", "resp")}

# ------------------------------------------------------------------ types
def ctype(t):
    if isinstance(t, str):
        return {"none": "unit"}.get(t, t)
    if t[0] == "list": return "(list %s)" % ctype(t[1])
    if t[0] == "opt": return "(option %s)" % ctype(t[1])
    if t[0] == "fun": return "(%s)" % " -> ".join(ctype(x) for x in t[1:])
    if t[0] == "dict": return "(list (%s * %s))" % (ctype(t[1]), ctype(t[2]))
    if t[0] == "tuple": return "(%s)" % " * ".join(ctype(x) for x in t[1:])
    if t[0] == "obj": return "(py_%s%s)" % (t[1], "".join(" " + a for a in t[2:]))
    if t[0] == "enum": return "py_%s" % t[1]
    if t[0] == "res": return "(res %s)" % ctype(t[1])
    raise Untranslatable("type %s" % (t,))

class Ctx:
    """what has been generated so far: classes (records), enums, methods, functions"""
    def __init__(self):
        self.classes = {}     # name -> dict(fields=[(f, type)], tparams=[..])
        self.enums = {}       # name -> [members]
        self.methods = {}     # (cls, method) -> dict(name, params, defaults, uses_time, mutates, ret, tparams)
        self.funcs = {}       # call key -> dict(name, env=[(p, t)], params=[(p, t)], ret)
        self.status = {}

def annot_type(a, spec, ctx):
    """type denoted by a Python annotation (ANNOT)"""
    if a is None: return None
    text = ast.unparse(a)
    if text in spec.get("annot", {}): return spec["annot"][text]
    if isinstance(a, ast.Constant) and a.value is None: return "none"
    if isinstance(a, ast.Name):
        if a.id == "str": return "str"
        if a.id == "bool": return "bool"
        if a.id == "float": return "Q"
        if a.id == "int": return spec.get("int", "Z")
        if a.id in ctx.enums: return ("enum", a.id)
        if a.id in ctx.classes: return ("obj", a.id) + tuple(ctx.classes[a.id]["tparams"])
    if isinstance(a, ast.BinOp) and isinstance(a.op, ast.BitOr):
        l, r = a.left, a.right
        if isinstance(r, ast.Constant) and r.value is None:
            t = annot_type(l, spec, ctx)
            return ("opt", t) if t is not None else None
    if isinstance(a, ast.Subscript) and isinstance(a.value, ast.Name):
        args = a.slice.elts if isinstance(a.slice, ast.Tuple) else [a.slice]
        ts = [annot_type(x, spec, ctx) for x in args]
        if None in ts: return None
        if a.value.id == "list" and len(ts) == 1: return ("list", ts[0])
        if a.value.id == "dict" and len(ts) == 2 and ts[0] == "str": return ("dict", ts[0], ts[1])
        if a.value.id == "tuple": return ("tuple",) + tuple(ts)
    return None

def is_opt(t): return isinstance(t, tuple) and t[0] == "opt"

def contains_node(tree, pred):
    return any(pred(n) for n in ast.walk(tree))

def is_time_call(n):
    return isinstance(n, ast.Call) and ast.unparse(n.func) == "time.monotonic" and not n.args

# ------------------------------------------------------------------ the translator
class MwFn(Fn):
    def __init__(self, spec, node, ctx):
        spec.setdefault("types", {})
        super().__init__(spec, node)
        self.ctx = ctx
        self.aliases = {}        # local name -> (dict state variable, key (a parameter name))
        self.dead_aliases = set()
        self.tmp = 0
        self.tries = []          # enclosing try statements: (handlers, rest, k, kc)
        self.narrow = {}         # attribute key -> (coq term, type)
        self.ret_type = annot_type(node.returns, spec, ctx) if getattr(node, "returns", None) is not None else None
        self.bound_state = set(self.state)
        self.assigned_params = {t.id for n in ast.walk(node) if isinstance(n, (ast.Assign, ast.AugAssign, ast.AnnAssign))
                                for t in (n.targets if isinstance(n, ast.Assign) else [n.target]) if isinstance(t, ast.Name)}

    def fresh(self, base):
        self.tmp += 1
        return "%s__%d" % (base, self.tmp)

    # ---------------- attributes
    def attr_lookup(self, e):
        """(coq term, type) for an attribute read, or None"""
        try: k = self.attr_key(e)
        except Untranslatable: return None
        if k in self.narrow: return self.narrow[k]
        a = self.spec.get("attrs", {}).get(k)
        if a: return a[0], a[1]
        if k.startswith("StatusCode.") and k.endswith(".value"):
            nm = k.split(".")[1]
            if nm not in self.ctx.status: bad(e, "unknown status code")
            return "%d%%Z" % self.ctx.status[nm], "Z"
        # Enum member
        if isinstance(e.value, ast.Name) and e.value.id in self.ctx.enums and e.value.id not in self.env:
            if e.attr not in self.ctx.enums[e.value.id]: bad(e, "unknown enum member")
            return "%s_%s" % (e.value.id, e.attr), ("enum", e.value.id)
        # field of a variable / expression of class type
        try: bt = self.typeof(e.value)
        except Untranslatable: return None
        if isinstance(bt, tuple) and bt[0] == "obj":
            for f, t in self.ctx.classes[bt[1]]["fields"]:
                if f == e.attr: return "(%s_%s %s)" % (bt[1], f, self.expr(e.value)), t
            bad(e, "no such field")
        return None

    # ---------------- types
    def typeof(self, e):
        if isinstance(e, ast.Await): return self.typeof(e.value)
        if isinstance(e, ast.Constant) and isinstance(e.value, int) and not isinstance(e.value, bool):
            return self.spec.get("int", "Z")
        if isinstance(e, ast.Attribute):
            r = self.attr_lookup(e)
            if r: return r[1]
            bad(e, "unknown attribute")
        if isinstance(e, ast.Name) and e.id in self.narrow: return self.narrow[e.id][1]
        if isinstance(e, ast.Dict) and not e.keys: return ("dict", "str", "?")
        if isinstance(e, ast.List) and not e.elts: return ("list", "?")
        if isinstance(e, ast.ListComp): return ("list", self.comp_parts(e)[3])
        if isinstance(e, ast.Tuple) and not (e.elts and all(isinstance(x, ast.Constant) and isinstance(x.value, str) for x in e.elts)):
            return ("tuple",) + tuple(self.typeof(x) for x in e.elts)
        if isinstance(e, ast.Subscript) and not isinstance(e.slice, ast.Slice):
            t = self.typeof(e.value)
            if isinstance(t, tuple) and t[0] == "dict": return t[2]
            bad(e, "subscript of type %s" % (t,))
        if isinstance(e, ast.BinOp):
            tl = self.typeof(e.left)
            return tl
        if isinstance(e, ast.Call):
            f = e.func
            if isinstance(f, ast.Name):
                if f.id == "float" and len(e.args) == 1: return "Q"
                if f.id == "str" and len(e.args) == 1: return "str"
                if f.id in KW_CALLS: return KW_CALLS[f.id][2]
                if f.id in self.ctx.classes and f.id not in self.env:
                    return ("obj", f.id) + tuple(self.ctx.classes[f.id]["tparams"])
                if f.id in self.env and isinstance(self.env[f.id], tuple) and self.env[f.id][0] == "fun": return self.env[f.id][-1]
            if is_time_call(e): return "Q"
            m = self.method_of(e)
            if m: return m[1]["ret"]
            mo = self.method_oracle(e)
            if mo: return mo[1]
            if isinstance(f, ast.Attribute) and f.attr == "items" and not e.args:
                t = self.typeof(f.value)
                if isinstance(t, tuple) and t[0] == "dict": return ("list", ("tuple", t[1], t[2]))
            k = self.call_key(e) if isinstance(f, (ast.Name, ast.Attribute)) else ""
            if k in self.ctx.funcs and k not in self.spec.get("calls", {}): return self.ctx.funcs[k]["ret"]
            if isinstance(f, ast.Attribute):
                r = self.attr_lookup(f)
                if r and isinstance(r[1], tuple) and r[1][0] == "fun": return r[1][-1]
        return super().typeof(e)

    def method_of(self, e):
        """(receiver expr, method info) when e is `x.m(..)` with x of a generated class that has method m"""
        if isinstance(e, ast.Await): e = e.value
        if not (isinstance(e, ast.Call) and isinstance(e.func, ast.Attribute)): return None
        recv = e.func.value
        if not isinstance(recv, ast.Name) or recv.id not in self.env: return None
        t = self.env[recv.id]
        if isinstance(t, tuple) and t[0] == "obj" and (t[1], e.func.attr) in self.ctx.methods:
            return recv, self.ctx.methods[(t[1], e.func.attr)]
        return None

    def method_oracle(self, e):
        """`recv.m(args)` where (type of recv, m) is a declared oracle -> (coq term, type)"""
        if not (isinstance(e, ast.Call) and isinstance(e.func, ast.Attribute)): return None
        try: rt = self.typeof(e.func.value)
        except Untranslatable: return None
        mo = self.spec.get("method_oracles", {}).get((rt if isinstance(rt, str) else str(rt), e.func.attr))
        if not mo: return None
        if e.keywords: bad(e, "keywords in oracle call")
        return "(%s %s%s)" % (mo[0], self.expr(e.func.value), "".join(" " + self.expr(a) for a in e.args)), mo[1]

    def truthy(self, e):
        t = self.typeof(e)
        if is_opt(t) and isinstance(t[1], tuple) and t[1][0] == "list":
            return "(match %s with Some (_ :: _) => true | _ => false end)" % self.expr(e)
        if is_opt(t) and t[1] == "str": bad(e, "truthiness of Optional[str]")
        return super().truthy(e)

    # ---------------- expressions
    def method_args(self, e, info):
        """positional arguments of a call of a generated function/method, defaults filled in"""
        if isinstance(e, ast.Await): e = e.value
        kw = {k.arg: k.value for k in e.keywords}
        out = []
        for i, (p, t) in enumerate(info["params"]):
            if i < len(e.args): out.append(self.coerce(e.args[i], t))
            elif p in kw: out.append(self.coerce(kw.pop(p), t))
            elif p in info.get("defaults", {}): out.append(info["defaults"][p])
            else: bad(e, "missing argument %s" % p)
        if kw or len(e.args) > len(info["params"]): bad(e, "unexpected arguments")
        return out

    def env_args(self, info):
        """environment parameters of a generated callee: supplied by the caller's parameters of the same name"""
        out = []
        for p, t in info.get("env", []):
            if p not in self.env and p not in [x for x, _ in self.spec["params"]]: bad(self.node, "callee needs environment parameter %s" % p)
            out.append(p)
        return out

    def comp_parts(self, e):
        """[elt for target in iter if conds] -> (pattern, iter term, cond term or None, elt type, elt term)"""
        if len(e.generators) != 1 or e.generators[0].is_async: bad(e, "comprehension form")
        g = e.generators[0]
        et = self.elem_type(g.iter)
        if isinstance(g.target, ast.Name):
            pat = g.target.id; self.env[g.target.id] = et
        elif isinstance(g.target, ast.Tuple) and all(isinstance(x, ast.Name) for x in g.target.elts) and isinstance(et, tuple) \
                and et[0] == "tuple" and len(et) - 1 == len(g.target.elts):
            pat = "'(" + ", ".join(x.id for x in g.target.elts) + ")"
            for x, t in zip(g.target.elts, et[1:]): self.env[x.id] = t
        else: bad(e, "comprehension target")
        names = [g.target.id] if isinstance(g.target, ast.Name) else [x.id for x in g.target.elts]
        for n in names:
            if n in self.assigned_params or n in self.aliases: bad(e, "comprehension variable shadows a local")
        cond = None
        if g.ifs:
            cond = self.cond(g.ifs[0]) if len(g.ifs) == 1 else "(" + " && ".join(self.cond(c) for c in g.ifs) + ")"
        return pat, self.expr(g.iter), cond, self.typeof(e.elt), self.expr(e.elt)

    def expr(self, e):
        if isinstance(e, ast.Await): return self.expr(e.value)
        if isinstance(e, ast.Constant) and isinstance(e.value, int) and not isinstance(e.value, bool):
            t = self.spec.get("int", "Z")
            return {"nat": "%d%%nat", "Q": "(inject_Z %d)", "Z": "%d%%Z", "N": "%d%%N"}[t] % e.value
        if isinstance(e, ast.Name) and e.id in self.narrow: return self.narrow[e.id][0]
        if isinstance(e, ast.Attribute):
            r = self.attr_lookup(e)
            if r: return r[0]
            bad(e, "unknown attribute")
        if isinstance(e, ast.Dict) and not e.keys: return "[]"
        if isinstance(e, ast.ListComp):
            pat, it, cond, _, elt = self.comp_parts(e)
            src = "(filter (fun %s => %s) %s)" % (pat, cond, it) if cond else it
            return "(map (fun %s => %s) %s)" % (pat, elt, src)
        if isinstance(e, ast.Tuple) and not (e.elts and all(isinstance(x, ast.Constant) and isinstance(x.value, str) for x in e.elts)):
            return "(" + ", ".join(self.expr(x) for x in e.elts) + ")"
        if isinstance(e, ast.JoinedStr):
            parts = []
            for v in e.values:
                if isinstance(v, ast.FormattedValue) and v.format_spec is None and v.conversion == -1 and self.typeof(v.value) == "Z":
                    parts.append("(str_of_Z %s)" % self.expr(v.value))
                else: parts.append(super().expr(ast.JoinedStr(values=[v])))
            return "(" + " ++ ".join(parts) + ")" if parts else "[]"
        if isinstance(e, ast.Compare) and len(e.ops) == 1:
            op, l, r = e.ops[0], e.left, e.comparators[0]
            if isinstance(op, (ast.In, ast.NotIn)):
                tr = self.typeof(r)
                if isinstance(tr, tuple) and tr[0] == "dict" and self.typeof(l) == tr[1]:
                    x = "(dmem %s %s)" % (self.expr(l), self.expr(r))
                    return x if isinstance(op, ast.In) else "(negb %s)" % x
            if isinstance(op, (ast.Eq, ast.NotEq)):
                tl = self.typeof(l)
                if isinstance(tl, tuple) and tl[0] == "enum" and self.typeof(r) == tl:
                    x = "(py_%s_eqb %s %s)" % (tl[1], self.expr(l), self.expr(r))
                    return x if isinstance(op, ast.Eq) else "(negb %s)" % x
                if tl == "Z" and self.typeof(r) == "Z":
                    x = "(Z.eqb %s %s)" % (self.expr(l), self.expr(r))
                    return x if isinstance(op, ast.Eq) else "(negb %s)" % x
        if isinstance(e, ast.Call):
            f = e.func
            if is_time_call(e):
                return self.spec["calls"]["time.monotonic"][0] if "time.monotonic" in self.spec.get("calls", {}) else "now_in"
            if isinstance(f, ast.Name) and f.id == "float" and len(e.args) == 1 and not e.keywords and self.typeof(e.args[0]) == "Q":
                return self.expr(e.args[0])
            if isinstance(f, ast.Name) and f.id == "str" and len(e.args) == 1 and not e.keywords and self.typeof(e.args[0]) == "str":
                return self.expr(e.args[0])
            if isinstance(f, ast.Name) and f.id in KW_CALLS and f.id not in self.env:
                order, tgt, _ = KW_CALLS[f.id]
                kw = {x.arg: x.value for x in e.keywords}
                if e.args or sorted(kw) != sorted(order): bad(e, "keyword call shape")
                return "(%s %s)" % (tgt, " ".join(self.expr(kw[n]) for n in order))
            if isinstance(f, ast.Name) and f.id in self.ctx.classes and f.id not in self.env:
                info = self.ctx.methods.get((f.id, "__init__"))
                if not info: bad(e, "class without generated __init__")
                args = (["now_in"] if info["uses_time"] else []) + self.method_args(e, info)
                return "(%s %s)" % (info["name"], " ".join(args))
            m = self.method_of(e)
            if m:
                recv, info = m
                if info["mutates"]: bad(e, "field-assigning method call inside an expression")
                args = (["now_in"] if info["uses_time"] else []) + [self.expr(recv)] + self.method_args(e, info)
                return "(%s %s)" % (info["name"], " ".join(args))
            mo = self.method_oracle(e)
            if mo: return mo[0]
            if isinstance(f, ast.Attribute) and f.attr == "items" and not e.args and not e.keywords:
                t = self.typeof(f.value)
                if isinstance(t, tuple) and t[0] == "dict": return self.expr(f.value)
            k = self.call_key(e) if isinstance(f, (ast.Name, ast.Attribute)) else ""
            if k in self.ctx.funcs and k not in self.spec.get("calls", {}):
                info = self.ctx.funcs[k]
                if info.get("may_raise") or info.get("state"): bad(e, "call of a raising / state-changing generated function inside an expression")
                args = self.env_args(info) + self.method_args(e, info)
                return "(%s %s)" % (info["name"], " ".join(args))
            # application of a value of function type (a field, a narrowed Optional attribute, a parameter)
            if isinstance(f, (ast.Attribute, ast.Name)) and not e.keywords:
                try: ft = self.typeof(f)
                except Untranslatable: ft = None
                if isinstance(ft, tuple) and ft[0] == "fun" and len(ft) - 2 == len(e.args):
                    return "(%s %s)" % (self.expr(f), " ".join(self.expr(a) for a in e.args))
            if e.keywords: bad(e, "keyword arguments")
        return super().expr(e)

    def coerce(self, e, want):
        """expression at a declared type: inserts Some / None"""
        if want is None: return self.expr(e)
        if isinstance(want, tuple) and want[0] == "tuple" and isinstance(e, ast.Tuple) and len(e.elts) == len(want) - 1:
            return "(" + ", ".join(self.coerce(x, t) for x, t in zip(e.elts, want[1:])) + ")"
        got = self.typeof(e)
        if is_opt(want):
            if got == "none": return "None"
            if not is_opt(got):
                if got != want[1]: bad(e, "value of type %s where %s is declared" % (got, want))
                return "(Some %s)" % self.expr(e)
        elif got != want and not (isinstance(got, tuple) and "?" in got):
            bad(e, "value of type %s where %s is declared" % (got, want))
        return self.expr(e)

    # ---------------- raising
    def do_raise(self, node, cls, msg):
        """control transfer for an exception of class `cls` raised here (msg: coq term of its str())"""
        if cls not in EXC_CATCH: bad(node, "exception class %s" % cls)
        for i in range(len(self.tries) - 1, -1, -1):
            handlers, rest, k, kc = self.tries[i]
            for h in handlers:
                names = [ast.unparse(x) for x in h.type.elts] if isinstance(h.type, ast.Tuple) else ([ast.unparse(h.type)] if h.type is not None else ["BaseException"])
                if any(n in EXC_CATCH[cls] or n == "BaseException" for n in names):
                    saved = self.tries
                    self.tries = self.tries[:i]
                    try:
                        if h.name: self.env[h.name] = "str"
                        body = self.block(list(h.body) + rest, k, kc)
                        if h.name: body = "(let %s := %s in %s)" % (h.name, msg, body)
                    finally:
                        self.tries = saved
                    return body
        if not self.may_raise: bad(node, "%s can escape a function declared total" % cls)
        return "(Err %s %s)" % (coq_str(cls), msg if self.spec.get("keep_messages", False) else "[]")

    def find_raising(self, s):
        """the raising-oracle calls evaluated unconditionally by statement s (its own expressions, not nested blocks)"""
        exprs = []
        if isinstance(s, (ast.Assign, ast.AugAssign, ast.AnnAssign, ast.Return, ast.Expr)):
            if getattr(s, "value", None) is not None: exprs.append(s.value)
        elif isinstance(s, ast.If): exprs.append(s.test)
        elif isinstance(s, ast.For): exprs.append(s.iter)
        found = []
        def walk(n, conditional):
            if isinstance(n, ast.Call) and self.raising_key(n) is not None:
                if conditional: bad(n, "raising call under a condition inside an expression")
                found.append(n)
            if isinstance(n, (ast.IfExp, ast.ListComp, ast.GeneratorExp, ast.Lambda)):
                for c in ast.iter_child_nodes(n): walk(c, True)
            elif isinstance(n, ast.BoolOp):
                walk(n.values[0], conditional)
                for c in n.values[1:]: walk(c, True)
            else:
                for c in ast.iter_child_nodes(n): walk(c, conditional)
        for x in exprs: walk(x, False)
        return found

    def raising_key(self, n):
        f = n.func
        key = f.id if isinstance(f, ast.Name) else (ast.unparse(f) if isinstance(f, ast.Attribute) and isinstance(f.value, ast.Name) else None)
        if key is None or key not in self.spec.get("raising", {}): return None
        base = f.id if isinstance(f, ast.Name) else f.value.id
        if base in self.assigned_params or base in [p for p, _ in self.spec.get("pyparams", [])]: return None
        return key

    # ---------------- statements
    def state_var(self, target):
        """state variable denoted by an attribute expression, or None"""
        if not isinstance(target, ast.Attribute): return None
        try: key = self.attr_key(target)
        except Untranslatable: return None
        a = self.spec.get("attrs", {}).get(key)
        if a and a[0] in self.state: return a[0]
        return None

    def kill_aliases(self, dvar):
        for x, (d, _) in list(self.aliases.items()):
            if d == dvar:
                del self.aliases[x]; self.dead_aliases.add(x)

    def rebound_vars(self, stmts):
        """Coq variables that executing stmts may rebind"""
        out = set()
        for s in stmts:
            for n in ast.walk(s):
                targets = []
                if isinstance(n, ast.Assign): targets = n.targets
                elif isinstance(n, (ast.AugAssign, ast.AnnAssign)): targets = [n.target]
                elif isinstance(n, ast.Delete): targets = n.targets
                elif isinstance(n, ast.For): targets = [n.target]
                elif isinstance(n, ast.ExceptHandler) and n.name: out.add(n.name)
                for t in targets:
                    for x in (t.elts if isinstance(t, ast.Tuple) else [t]):
                        if isinstance(x, ast.Name): out.add(x.id)
                        elif isinstance(x, ast.Attribute):
                            v = self.state_var(x)
                            if v: out.add(v)
                            else: bad(x, "assignment to an attribute that is not declared state")
                        elif isinstance(x, ast.Subscript):
                            v = self.state_var(x.value)
                            if v: out.add(v)
                            elif isinstance(x.value, ast.Name): out.add(x.value.id)
                            else: bad(x, "subscript assignment")
                if isinstance(n, ast.Call) and isinstance(n.func, ast.Attribute):
                    recv = n.func.value
                    if n.func.attr in ("append", "pop", "extend", "insert", "remove", "clear", "update", "setdefault", "popitem", "sort", "reverse"):
                        if isinstance(recv, ast.Name): out.add(recv.id)
                        else:
                            v = self.state_var(recv)
                            if v: out.add(v)
                            else: bad(n, "mutating call on an unknown receiver")
                    m = self.method_of(n)
                    if m and m[1]["mutates"]:
                        out.add(recv.id)
                        if recv.id in self.aliases: out.add(self.aliases[recv.id][0])
        return out

    def effect_call(self, e):
        """e is (an awaited) call of a field-assigning method of a generated class on a local variable"""
        m = self.method_of(e)
        return m if m and m[1]["mutates"] else None

    def emit_effect(self, e, cont):
        """let '(r, x) := gen_m x args in [write back] cont(r : ast.Name)"""
        recv, info = self.method_of(e)
        x = recv.id
        if x in self.dead_aliases: bad(e, "method call on an object whose dict entry was replaced meanwhile")
        r = self.fresh("r")
        self.env[r] = info["ret"]
        args = (["now_in"] if info["uses_time"] else []) + [x] + self.method_args(e, info)
        wb = ""
        if x in self.aliases:
            d, key = self.aliases[x]
            wb = "let %s := dset %s %s %s in " % (d, key, x, d)
        return "(let '(%s, %s) := %s %s in %s%s)" % (r, x, info["name"], " ".join(args), wb, cont(ast.Name(id=r, ctx=ast.Load())))

    def block(self, stmts, k, kc=None):
        if not stmts: return k
        s, rest = stmts[0], stmts[1:]
        if ast.unparse(s) in self.spec.get("skip", []): return self.block(rest, k, kc)
        if isinstance(s, ast.AnnAssign) and s.value is not None:
            s = ast.Assign(targets=[s.target], value=s.value, lineno=s.lineno)
        # ---- raising oracle calls: hoisted, left to right
        if not isinstance(s, ast.Try):
            found = self.find_raising(s)
            if found:
                c = found[0]
                tgt, ty, cls = self.spec["raising"][self.raising_key(c)]
                if c.keywords: bad(c, "keywords in oracle call")
                v = self.fresh("v")
                self.env[v] = ty
                args = " ".join(self.expr(a) for a in c.args)
                memo = {}
                s2 = copy.deepcopy(s, memo)      # the statement may be translated again on another path: never edit it in place
                c2 = memo[id(c)]
                class R(ast.NodeTransformer):
                    def visit_Call(self_, n):
                        if n is c2: return ast.Name(id=v, ctx=ast.Load())
                        return self_.generic_visit(n)
                s2 = R().visit(s2)
                ok = self.block([s2] + rest, k, kc)
                return "(match %s %s with Some %s => %s | None => %s end)" % (tgt, args, v, ok, self.do_raise(c, cls, "(@nil N)"))
        # ---- environment call that may raise anything: `x = await env(..)` inside try
        if isinstance(s, ast.Assign) and len(s.targets) == 1 and isinstance(s.targets[0], ast.Name):
            val = s.value.value if isinstance(s.value, ast.Await) else s.value
            if isinstance(val, ast.Call) and isinstance(val.func, ast.Attribute):
                key = self.call_key(val)
                ec = self.spec.get("env_exc_calls", {}).get(key)
                if ec:
                    tgt, ty, want_kw = ec
                    kw = {x.arg: ast.unparse(x.value) for x in val.keywords}
                    if kw != want_kw: bad(val, "keyword arguments of the environment call changed: %s" % kw)
                    x = s.targets[0].id
                    self.env[x] = ty
                    args = " ".join(self.expr(a) for a in val.args)
                    return "(match %s %s with CRet %s => %s | CExc k__ e__ => %s end)" % (tgt, args, x, self.block(rest, k, kc), self.dispatch_dynamic(val))
        # ---- del self.D[k]
        if isinstance(s, ast.Delete):
            if len(s.targets) == 1 and isinstance(s.targets[0], ast.Subscript):
                d = self.state_var(s.targets[0].value)
                if d and isinstance(self.typeof(s.targets[0].value), tuple) and self.typeof(s.targets[0].value)[0] == "dict":
                    self.kill_aliases(d)
                    key = self.expr(s.targets[0].slice)
                    return "(match ddel %s %s with Some d__ => let %s := d__ in %s | None => %s end)" % (key, d, d, self.block(rest, k, kc), self.do_raise(s, "KeyError", "(@nil N)"))
            bad(s, "del form")
        if isinstance(s, ast.Assign) and len(s.targets) == 1:
            t = s.targets[0]
            # self.D[k] = <fresh object>
            if isinstance(t, ast.Subscript):
                d = self.state_var(t.value)
                dt = self.typeof(t.value) if d else None
                if d and isinstance(dt, tuple) and dt[0] == "dict":
                    vt = self.typeof(s.value)
                    if isinstance(vt, tuple) and vt[0] == "obj" and not (isinstance(s.value, ast.Call) and isinstance(s.value.func, ast.Name) and s.value.func.id in self.ctx.classes):
                        bad(s, "only a freshly constructed object may be stored into a dict")
                    if vt != dt[2]: bad(s, "dict value type")
                    self.kill_aliases(d)
                    return "(let %s := dset %s %s %s in %s)" % (d, self.expr(t.slice), self.expr(s.value), d, self.block(rest, k, kc))
                bad(s, "subscript assignment")
            # x = self.D[k]
            if isinstance(t, ast.Name) and isinstance(s.value, ast.Subscript) and not isinstance(s.value.slice, ast.Slice):
                d = self.state_var(s.value.value)
                dt = self.typeof(s.value.value)
                if isinstance(dt, tuple) and dt[0] == "dict":
                    x = t.id
                    keyn = s.value.slice
                    self.env[x] = dt[2]
                    if d and isinstance(dt[2], tuple) and dt[2][0] == "obj":
                        if not (isinstance(keyn, ast.Name) and keyn.id not in self.assigned_params): bad(s, "alias key must be an unassigned parameter")
                        self.kill_aliases(d)
                        self.dead_aliases.discard(x)
                        self.aliases[x] = (d, keyn.id)
                    return "(match dget %s %s with Some %s => %s | None => %s end)" % (self.expr(keyn), self.expr(s.value.value), x, self.block(rest, k, kc), self.do_raise(s, "KeyError", "(@nil N)"))
            # x = <effectful call>
            if isinstance(t, ast.Name) and self.effect_call(s.value):
                return self.emit_effect(s.value, lambda r: self.block([ast.Assign(targets=[t], value=r, lineno=s.lineno)] + rest, k, kc))
            # self.f = e   (state variable)
            if isinstance(t, ast.Attribute):
                v = self.state_var(t)
                if v:
                    want = self.spec["attrs"][self.attr_key(t)][1]
                    self.bound_state.add(v)
                    if isinstance(want, tuple) and want[0] == "dict": self.kill_aliases(v)
                    return "(let %s := %s in %s)" % (v, self.coerce(s.value, want), self.block(rest, k, kc))
                bad(s, "assignment to an attribute that is not declared state")
            if isinstance(t, ast.Name) and t.id in self.aliases:
                del self.aliases[t.id]
            if isinstance(t, ast.Name) and t.id in self.spec.get("types", {}):
                want = self.spec["types"][t.id]
                self.env[t.id] = want
                return "(let %s := %s in %s)" % (t.id, self.coerce(s.value, want), self.block(rest, k, kc))
        if isinstance(s, ast.Expr) and isinstance(s.value, (ast.Call, ast.Await)):
            v = s.value.value if isinstance(s.value, ast.Await) else s.value
            if self.effect_call(v):
                return self.emit_effect(v, lambda r: self.block(rest, k, kc))
            # self.xs.append(e)
            if isinstance(v, ast.Call) and isinstance(v.func, ast.Attribute) and v.func.attr == "append" and len(v.args) == 1 and not v.keywords:
                sv = self.state_var(v.func.value)
                if sv:
                    lt = self.typeof(v.func.value)
                    if not (isinstance(lt, tuple) and lt[0] == "list" and self.typeof(v.args[0]) == lt[1]): bad(s, "append type")
                    return "(let %s := %s ++ [%s] in %s)" % (sv, sv, self.expr(v.args[0]), self.block(rest, k, kc))
        if isinstance(s, ast.Return):
            if s.value is not None and self.effect_call(s.value):
                return self.emit_effect(s.value, lambda r: self.block([ast.Return(value=r, lineno=s.lineno)], k, kc))
            if s.value is None: return self.wrap_value(None)
            return self.wrap_value(self.coerce(s.value, self.ret_type))
        if isinstance(s, ast.Raise):
            e = s.exc
            if isinstance(e, ast.Call) and isinstance(e.func, ast.Name) and len(e.args) == 1 and not e.keywords:
                return self.do_raise(s, e.func.id, self.expr(e.args[0]))
            bad(s, "raise form")
        if isinstance(s, ast.If):
            if self.effect_call(s.test):
                return self.emit_effect(s.test, lambda r: self.block([ast.If(test=r, body=s.body, orelse=s.orelse, lineno=s.lineno)] + rest, k, kc))
            n = self.narrowing(s, rest, k, kc)
            if n is not None: return n
            after = self.block(rest, k, kc)
            return "(if %s then %s else %s)" % (self.cond(s.test), self.block(s.body, after, kc), self.block(s.orelse, after, kc))
        if isinstance(s, ast.For):
            if s.orelse or not isinstance(s.target, ast.Name): bad(s, "for form")
            self.loop_id += 1
            lid = "loop%d__" % self.loop_id
            var = s.target.id
            it = self.expr(s.iter)
            self.env[var] = self.elem_type(s.iter)
            before = set(self.env) | self.bound_state
            reb = self.rebound_vars(s.body)
            if var in reb: bad(s, "loop variable reassigned")
            accs = sorted(v for v in reb if v in before)
            for v in accs:
                if v in self.aliases: bad(s, "alias mutated inside a loop")
            after = self.block(rest, k, kc)
            rec = "(%s l'__%s)" % (lid, "".join(" " + a for a in accs))
            body = self.block(s.body, rec, rec)
            binders = "".join(" " + a for a in accs)
            return ("((fix %s (l__ : list _)%s {struct l__} := match l__ with [] => %s | %s :: l'__ => %s end) %s%s)"
                    % (lid, binders, after, var, body, it, binders))
        if isinstance(s, ast.Try):
            if s.orelse or s.finalbody or not s.handlers: bad(s, "try form")
            for h in s.handlers:
                if h.type is None: bad(s, "bare except")
            self.tries.append((s.handlers, rest, k, kc))
            try:
                marker = ast.Pass(); marker._end_try = True
                return self.block(list(s.body) + [marker] + rest, k, kc)
            finally:
                if self.tries and self.tries[-1][0] is s.handlers: self.tries.pop()
        if isinstance(s, ast.Pass) and getattr(s, "_end_try", False):
            saved = self.tries
            self.tries = self.tries[:-1]
            try: return self.block(rest, k, kc)
            finally: self.tries = saved
        return super().block([s] + rest, k, kc)

    def dispatch_dynamic(self, node):
        """an exception (k__, e__) of statically unknown class: try the enclosing handlers in order"""
        for i in range(len(self.tries) - 1, -1, -1):
            handlers, rest, k, kc = self.tries[i]
            saved = self.tries
            self.tries = self.tries[:i]
            try:
                out, total = [], False
                for h in handlers:
                    names = [ast.unparse(x) for x in h.type.elts] if isinstance(h.type, ast.Tuple) else [ast.unparse(h.type)]
                    for n in names:
                        if n not in EXC_CLASSES: bad(h, "handler class %s" % n)
                    test = " || ".join("exc_isa k__ %s" % EXC_CLASSES[n] for n in names)
                    if h.name: self.env[h.name] = "str"
                    body = self.block(list(h.body) + rest, k, kc)
                    if h.name: body = "(let %s := e__ in %s)" % (h.name, body)
                    out.append((test, body))
                    if "Exception" in names: total = True; break
                if not total: bad(node, "environment call without a catch-all handler")
                term = out[-1][1]
                for test, body in reversed(out[:-1]):
                    term = "(if %s then %s else %s)" % (test, body, term)
                return term
            finally:
                self.tries = saved
        bad(node, "environment call outside try")

    def narrowing(self, s, rest, k, kc):
        """if E: .. / if E is None: <terminating>  for an Optional variable or attribute E"""
        test = s.test
        neg = False
        if isinstance(test, ast.Compare) and len(test.ops) == 1 and isinstance(test.ops[0], (ast.Is, ast.IsNot)) \
           and isinstance(test.comparators[0], ast.Constant) and test.comparators[0].value is None:
            E, mode = test.left, ("isnone" if isinstance(test.ops[0], ast.Is) else "notnone")
        elif isinstance(test, (ast.Name, ast.Attribute)):
            E, mode = test, "truthy"
        else: return None
        if not isinstance(E, (ast.Name, ast.Attribute)): return None
        try: t = self.typeof(E)
        except Untranslatable: return None
        if not is_opt(t): return None
        key = E.id if isinstance(E, ast.Name) else self.attr_key(E)
        if self.state_var(E) or (isinstance(E, ast.Name) and E.id in self.assigned_params): return None
        pay = t[1]
        v = self.fresh("n")
        scrut = self.expr(E)
        def with_narrow(f):
            old = self.narrow.get(key)
            self.narrow[key] = (v, pay)
            try: return f()
            finally:
                if old is None: del self.narrow[key]
                else: self.narrow[key] = old
        terminates = lambda b: bool(b) and isinstance(b[-1], (ast.Return, ast.Raise))
        if mode == "isnone":
            if not terminates(s.body) or s.orelse: return None
            none_b = self.block(s.body, "FALLTHROUGH__", kc)
            some_b = with_narrow(lambda: self.block(rest, k, kc))
            return "(match %s with None => %s | Some %s => %s end)" % (scrut, none_b, v, some_b)
        after = self.block(rest, k, kc)
        else_b = self.block(s.orelse, after, kc)
        if mode == "notnone":
            body = with_narrow(lambda: self.block(s.body, after, kc))
            return "(match %s with Some %s => %s | None => %s end)" % (scrut, v, body, else_b)
        # truthiness: the payload's own truthiness
        if isinstance(pay, tuple) and pay[0] in ("fun", "obj"):
            body = with_narrow(lambda: self.block(s.body, after, kc))
            return "(match %s with Some %s => %s | None => %s end)" % (scrut, v, body, else_b)
        if isinstance(pay, tuple) and pay[0] == "list":
            body = with_narrow(lambda: self.block(s.body, after, kc))
            return "(match %s with Some ((_ :: _) as %s) => %s | _ => %s end)" % (scrut, v, body, else_b)
        return None

    # ---------------- results
    def wrap_value(self, v):
        st = self.state_result()
        if st is not None:
            v = "(%s, %s)" % (v, st) if v is not None else st
        elif v is None: v = "tt"
        return "(Ok %s)" % v if self.may_raise else v

    def state_result(self):
        return "(%s)" % ", ".join(self.state) if self.state else None

    def header(self, name, params, body, ret=None):
        ps = " ".join("(%s : %s)" % (p, ctype(t)) for p, t in params)
        return "Definition %s %s%s :=\n  %s.\n" % (name, ps, (" : " + ret) if ret else "", body)

    def uses_time(self, stmts):
        for s in stmts:
            for n in ast.walk(s):
                if is_time_call(n): return True
                if isinstance(n, ast.Call) and isinstance(n.func, ast.Name) and (n.func.id, "__init__") in self.ctx.methods \
                   and self.ctx.methods[(n.func.id, "__init__")]["uses_time"]: return True
                if isinstance(n, ast.Call) and isinstance(n.func, ast.Attribute) and \
                   any(m == n.func.attr and i["uses_time"] for (c, m), i in self.ctx.methods.items()): return True
                if isinstance(n, ast.Call) and isinstance(n.func, ast.Attribute):
                    try: key = self.call_key(n)
                    except Untranslatable: key = ""
                    if key in self.ctx.funcs and any(p == "now_in" for p, _ in self.ctx.funcs[key]["env"]): return True
        return False

    def body_stmts(self):
        return self.spec["slice"](self.node) if self.spec.get("slice") else list(self.node.body)

    def falls_off(self):
        r = getattr(self.node, "returns", None)
        return self.spec.get("falls", False) or self.node.name == "__init__" or (isinstance(r, ast.Constant) and r.value is None)

    def translate(self):
        spec = self.spec
        stmts = self.body_stmts()
        env = ([("now_in", "Q")] if self.uses_time(stmts) else []) + [(t, "Type") for t in spec.get("tparams", [])] + list(spec.get("env", [])) \
              + [(v, self.state_type(v)) for v in self.state if not spec.get("state_is_result_only")]
        pyparams = spec["pyparams"]
        for p, t in env + pyparams: self.env[p] = t
        k = self.wrap_value(None) if self.falls_off() else "FALLTHROUGH__"
        body = self.block(stmts, k)
        if "FALLTHROUGH__" in body: raise Untranslatable("%s: control can fall off the end" % spec["name"])
        self.info = dict(name=spec["name"], env=env, params=pyparams, ret=self.ret_type, may_raise=self.may_raise, state=list(self.state),
                         defaults=self.defaults(pyparams))
        return self.header(spec["name"], env + pyparams, body)

    def state_type(self, v):
        for key, a in self.spec.get("attrs", {}).items():
            if a[0] == v: return a[1]
        raise Untranslatable("state variable %s has no attribute" % v)

    def defaults(self, pyparams):
        args = self.node.args
        out = {}
        pos = args.args[1:] if args.args and args.args[0].arg == "self" else args.args
        for a, d in zip(pos[len(pos) - len(args.defaults):], args.defaults):
            t = dict(pyparams).get(a.arg)
            if isinstance(d, ast.Constant) and t is not None:
                if d.value is None and is_opt(t): out[a.arg] = "None"
                elif isinstance(d.value, (bool, int, str)) and not is_opt(t):
                    saved = self.spec.get("int")
                    out[a.arg] = Fn.expr(self, d) if not (isinstance(d.value, int) and not isinstance(d.value, bool)) else \
                        {"nat": "%d%%nat", "Q": "(inject_Z %d)", "Z": "%d%%Z", "N": "%d%%N"}[t] % d.value
        return out

def py_params(node, spec, ctx):
    """parameters of a def (self excluded), typed by their annotations"""
    a = node.args
    if a.vararg or a.kwarg or a.kwonlyargs or a.posonlyargs: raise Untranslatable("%s: parameter form" % node.name)
    out = []
    for x in a.args:
        if x.arg == "self": continue
        t = annot_type(x.annotation, spec, ctx)
        if t is None: raise Untranslatable("%s: parameter %s has no translatable annotation" % (node.name, x.arg))
        out.append((x.arg, t))
    return out

class ObjFn(MwFn):
    """a method of a generated class: `self` is the record; field reads are locals bound from it"""
    def __init__(self, spec, node, ctx, cls):
        self.cls = cls
        fields = ctx.classes[cls]["fields"]
        spec = dict(spec)
        spec["attrs"] = dict(spec.get("attrs", {}))
        for f, t in fields: spec["attrs"]["self." + f] = ("self_" + f, t)
        spec["state"] = ["self_" + f for f, _ in fields]
        super().__init__(spec, node, ctx)
        self.mutates = node.name == "__init__" or any(self.is_field_target(t) for n in ast.walk(node)
                           for t in (n.targets if isinstance(n, ast.Assign) else [n.target] if isinstance(n, (ast.AugAssign, ast.AnnAssign)) else []))
        if node.name == "__init__": self.bound_state = set()

    def is_field_target(self, t):
        return isinstance(t, ast.Attribute) and isinstance(t.value, ast.Name) and t.value.id == "self"

    def state_result(self):
        if not self.mutates: return None
        if self.node.name == "__init__":
            missing = [v for v in self.state if v not in self.bound_state]
            # (checked again by Coq: an unassigned field is an unbound variable)
        return "(mk_py_%s %s)" % (self.cls, " ".join(self.state))

    def translate(self):
        spec = self.spec
        stmts = self.body_stmts()
        init = self.node.name == "__init__"
        objt = ("obj", self.cls) + tuple(self.ctx.classes[self.cls]["tparams"])
        env = ([("now_in", "Q")] if self.uses_time(stmts) else []) + [(t, "Type") for t in spec.get("tparams", [])]
        pyparams = spec["pyparams"]
        allp = env + ([] if init else [("self", objt)]) + pyparams
        for p, t in allp: self.env[p] = t
        k = self.wrap_value(None) if self.falls_off() else "FALLTHROUGH__"
        body = self.block(stmts, k)
        if "FALLTHROUGH__" in body: raise Untranslatable("%s: control can fall off the end" % spec["name"])
        if not init:
            for f, _ in reversed(self.ctx.classes[self.cls]["fields"]):
                body = "(let self_%s := %s_%s self in %s)" % (f, self.cls, f, body)
        self.info = dict(name=spec["name"], params=pyparams, defaults=self.defaults(pyparams), uses_time=bool(env and env[0][0] == "now_in"),
                         mutates=self.mutates and not init, ret=objt if init else self.ret_type, tparams=spec.get("tparams", []))
        return self.header(spec["name"], allp, body)

# ------------------------------------------------------------------ classes
def class_node(tree, name):
    for n in tree.body:
        if isinstance(n, ast.ClassDef) and n.name == name: return n
    raise Untranslatable("class %s not found" % name)

def gen_enum(ctx, cspec, tree):
    c = class_node(tree, cspec["cls"])
    if [ast.unparse(b) for b in c.bases] != ["Enum"]: raise Untranslatable("%s is not a plain Enum" % c.name)
    members = []
    for s in c.body:
        if isinstance(s, ast.Expr) and isinstance(s.value, ast.Constant) and isinstance(s.value.value, str): continue
        if isinstance(s, ast.Assign) and len(s.targets) == 1 and isinstance(s.targets[0], ast.Name) and ast.unparse(s.value) == "auto()":
            members.append(s.targets[0].id)
        else: bad(s, "enum body")
    if not members: raise Untranslatable("empty enum")
    ctx.enums[c.name] = members
    T = "py_" + c.name
    out = "Inductive %s := %s.\n" % (T, " | ".join("%s_%s" % (c.name, m) for m in members))
    out += "Definition %s_eqb (a b : %s) : bool :=\n  match a, b with %s%s end.\n" % (
        T, T, " | ".join("%s_%s, %s_%s => true" % (c.name, m, c.name, m) for m in members), " | _, _ => false" if len(members) > 1 else "")
    return out

def record_text(cls, tparams, fields):
    tp = "".join(" (%s : Type)" % t for t in tparams)
    out = "Record py_%s%s := mk_py_%s { %s }.\n" % (cls, tp, cls, "; ".join("%s_%s : %s" % (cls, f, ctype(t)) for f, t in fields))
    if tparams:
        imp = "{" + " ".join(tparams) + "}"
        out += "Arguments mk_py_%s %s.\n" % (cls, imp)
        for f, _ in fields: out += "Arguments %s_%s %s.\n" % (cls, f, imp)
    return out

def gen_dataclass(ctx, cspec, tree):
    c = class_node(tree, cspec["cls"])
    if [ast.unparse(d) for d in c.decorator_list] != ["dataclass"] or c.bases: raise Untranslatable("%s is not a plain dataclass" % c.name)
    fields = []
    for s in c.body:
        if isinstance(s, ast.Expr) and isinstance(s.value, ast.Constant) and isinstance(s.value.value, str): continue
        if isinstance(s, ast.AnnAssign) and isinstance(s.target, ast.Name):
            t = annot_type(s.annotation, cspec, ctx)
            if t is None: bad(s, "field annotation")
            fields.append((s.target.id, t))
        else: bad(s, "dataclass body")
    ctx.classes[c.name] = dict(fields=fields, tparams=cspec.get("tparams", []))
    # the generated __init__ of a dataclass: fields in order, defaults that are constants
    defaults = {}
    for st in c.body:
        if isinstance(st, ast.AnnAssign) and st.value is not None:
            if isinstance(st.value, ast.Constant) and st.value.value is None: defaults[st.target.id] = "None"
            else: bad(st, "dataclass default")
    ctx.methods[(c.name, "__init__")] = dict(name="mk_py_" + c.name, params=fields, defaults=defaults, uses_time=False, mutates=False,
                                             ret=("obj", c.name) + tuple(cspec.get("tparams", [])), tparams=cspec.get("tparams", []))
    return record_text(c.name, cspec.get("tparams", []), fields)

def gen_init_class(ctx, cspec, tree):
    """record from __init__ (one field per `self.f = e`, in order), __init__ itself and the listed methods"""
    cls = cspec["cls"]
    c = class_node(tree, cls)
    if c.bases or c.decorator_list: raise Untranslatable("%s: bases / decorators" % cls)
    init = find_function(tree, cls, "__init__")
    params = py_params(init, cspec, ctx)
    probe = MwFn(dict(cspec, name="probe", attrs={}, state=[], pyparams=params), init, ctx)
    for p, t in params: probe.env[p] = t
    fields = []
    for s in init.body:
        if isinstance(s, ast.Expr) and isinstance(s.value, ast.Constant) and isinstance(s.value.value, str): continue
        if isinstance(s, (ast.Assign, ast.AnnAssign)):
            t = s.targets[0] if isinstance(s, ast.Assign) else s.target
            if isinstance(t, ast.Attribute) and isinstance(t.value, ast.Name) and t.value.id == "self" and s.value is not None:
                ty = annot_type(s.annotation, cspec, ctx) if isinstance(s, ast.AnnAssign) else probe.typeof(s.value)
                if ty is None: bad(s, "field type")
                if t.attr in dict(fields):
                    if dict(fields)[t.attr] != ty: bad(s, "field assigned at two types")
                else: fields.append((t.attr, ty))
                probe.spec["attrs"]["self." + t.attr] = ("self_" + t.attr, ty)
                continue
        bad(s, "__init__ statement")
    ctx.classes[cls] = dict(fields=fields, tparams=[])
    out = [record_text(cls, [], fields)]
    for m in ["__init__"] + cspec.get("methods", []):
        node = copy.deepcopy(find_function(tree, cls, m))
        spec = dict(cspec, name="gen_%s_%s" % (cls, m.strip("_")), pyparams=py_params(node, cspec, ctx))
        fn = ObjFn(spec, node, ctx, cls)
        out.append(fn.translate())
        ctx.methods[(cls, m)] = fn.info
    return "\n".join(out)

def state_decl(tree, cls, field, cspec, ctx):
    """`self.<field>: T = <init>` in cls.__init__ -> (type, coq initial value)"""
    init = find_function(tree, cls, "__init__")
    for s in init.body:
        if isinstance(s, ast.AnnAssign) and ast.unparse(s.target) == "self." + field and s.value is not None:
            t = annot_type(s.annotation, cspec, ctx)
            if t is None: bad(s, "state annotation")
            if isinstance(s.value, (ast.Dict, ast.List)) and not (s.value.keys if isinstance(s.value, ast.Dict) else s.value.elts): return t, "[]"
            if isinstance(s.value, ast.Constant) and s.value.value is None and is_opt(t): return t, "None"
            bad(s, "state initial value")
    raise Untranslatable("%s.__init__ does not declare self.%s with an annotation" % (cls, field))

# ------------------------------------------------------------------ slices
def cleanup_slice(fn):
    """`while True: await asyncio.sleep(<constant>); PASS` -> PASS (one pass; the period is not modelled)"""
    body = [s for s in fn.body if not (isinstance(s, ast.Expr) and isinstance(s.value, ast.Constant))]
    if len(body) != 1 or not isinstance(body[0], ast.While) or ast.unparse(body[0].test) != "True" or body[0].orelse: bad(fn, "cleanup loop form")
    w = body[0].body
    if not w or not (isinstance(w[0], ast.Expr) and isinstance(w[0].value, ast.Await) and isinstance(w[0].value.value, ast.Call)
                     and ast.unparse(w[0].value.value.func) == "asyncio.sleep" and len(w[0].value.value.args) == 1
                     and isinstance(w[0].value.value.args[0], ast.Constant)): bad(fn, "cleanup loop form")
    for s in w[1:]:
        for n in ast.walk(s):
            if isinstance(n, (ast.Break, ast.Continue, ast.Return, ast.Await)): bad(n, "control flow in the cleanup pass")
    return w[1:]

def relay_slice(fn):
    """the statements of ProxyHandler._handle_async after the first top-level logger call (py2coq.proxy_slice translates
    the statements before it, ending with `upstream_url`)"""
    for i, s in enumerate(fn.body):
        if isinstance(s, ast.Expr) and isinstance(s.value, ast.Call) and isinstance(s.value.func, ast.Attribute) and \
           isinstance(s.value.func.value, ast.Name) and s.value.func.value.id == "logger":
            return fn.body[i + 1:]
    bad(fn, "no logger call separating URL construction from the relay")

# ------------------------------------------------------------------ what is translated
NET = ("list", "net")
CLASSES = [
    dict(file="server/middleware.py", kind="init", cls="TokenBucket", int="Q", methods=["consume"]),
    dict(file="server/router.py", kind="enum", cls="RouteType"),
    dict(file="server/router.py", kind="dataclass", cls="Route", tparams=["REQ", "RX"],
         annot={"Callable[[GeminiRequest], GeminiResponse]": ("fun", "REQ", "resp"), "re.Pattern | None": ("opt", "RX")}),
]
ROUTE = ("obj", "Route", "REQ", "RX")
SPECS = [
    dict(after="TokenBucket", file="server/middleware.py", cls="RateLimiter", func="process_request", name="gen_rl_process", may_raise=True, int="Z",
         env=[("cfg_capacity", "Q"), ("cfg_refill_rate", "Q"), ("cfg_retry_after", "Z")], state=["self_buckets"], state_from_init={"self_buckets": "buckets"},
         attrs={"self.config.capacity": ("cfg_capacity", "Q"), "self.config.refill_rate": ("cfg_refill_rate", "Q"),
                "self.config.retry_after": ("cfg_retry_after", "Z")}),
    dict(file="server/middleware.py", cls="RateLimiter", func="_cleanup_loop", name="gen_rl_cleanup_pass", may_raise=True, int="Q", slice=cleanup_slice,
         falls=True, state=["self_buckets"], state_from_init={"self_buckets": "buckets"}, attrs={}),
    dict(file="server/middleware.py", cls="AccessControl", func="__init__", name="gen_ac_init", may_raise=True,
         skip=["self.config = config or AccessControlConfig()"], pyparams=[],
         env=[("ip_network", ("fun", "str", ("opt", "net"))), ("cfg_allow_list", ("opt", ("list", "str"))), ("cfg_deny_list", ("opt", ("list", "str")))],
         raising={"ip_network": RAISING["ip_network"]}, state=["self_allow_networks", "self_deny_networks"], state_is_result_only=True,
         annot={"list[IPv4Network | IPv6Network]": NET},
         attrs={"self.config.allow_list": ("cfg_allow_list", ("opt", ("list", "str"))), "self.config.deny_list": ("cfg_deny_list", ("opt", ("list", "str"))),
                "self.allow_networks": ("self_allow_networks", NET), "self.deny_networks": ("self_deny_networks", NET)}),
    dict(base="gen_is_allowed", name="gen_ac_is_allowed", key="self._is_allowed"),
    dict(file="server/middleware.py", cls="AccessControl", func="process_request", name="gen_ac_process",
         env=[("ip_address", ("fun", "str", ("opt", "addr"))), ("self_deny_networks", NET), ("self_allow_networks", NET), ("self_default_allow", "bool")],
         attrs={}),
    dict(file="server/router.py", cls="Router", func="add_route", name="gen_router_add_route", tparams=["REQ", "RX"], may_raise=True,
         annot={"Callable[[GeminiRequest], GeminiResponse]": ("fun", "REQ", "resp")},
         env=[("re_compile", ("fun", "str", ("opt", "RX")))], raising={"re.compile": ("re_compile", "RX", "re.error")},
         state=["self_routes"], types={"compiled_regex": ("opt", "RX")},
         attrs={"self.routes": ("self_routes", ("list", ROUTE))}),
    dict(file="server/router.py", cls="Router", func="_matches", name="gen_router_matches", key="self._matches", tparams=["REQ", "RX"],
         env=[("regex_match", ("fun", "RX", "str", ("opt", "unit")))], method_oracles={("RX", "match"): ("regex_match", ("opt", "unit"))}, attrs={}),
    dict(file="server/router.py", cls="Router", func="route", name="gen_router_route", tparams=["REQ", "RX"], int="Z",
         annot={"GeminiRequest": "REQ", "GeminiResponse": "resp"},
         env=[("req_path", ("fun", "REQ", "str")), ("regex_match", ("fun", "RX", "str", ("opt", "unit"))),
              ("self_routes", ("list", ROUTE)), ("self_default_handler", ("opt", ("fun", "REQ", "resp")))],
         attrs={"self.routes": ("self_routes", ("list", ROUTE)), "self.default_handler": ("self_default_handler", ("opt", ("fun", "REQ", "resp"))),
                "request.path": ("(req_path request)", "str")}),
    dict(file="server/proxy.py", cls="ProxyHandler", func="_handle_async", name="gen_proxy_relay", slice=relay_slice, int="Z",
         annot={"GeminiRequest": "REQ", "GeminiResponse": "resp"}, pyparams=[("upstream_url", "str")],
         env=[("client_get", ("fun", "str", "(callres resp)"))],
         env_exc_calls={"self._client.get": ("client_get", "resp", {"follow_redirects": "False"})}, attrs={}),
]

HEADER = """(* GENERATED by /verif/translate/py2coq_mw.py from /repo/src/nauyaca (server/middleware.py, server/router.py, server/proxy.py) - do not edit *)
From Coq Require Import List NArith ZArith QArith Bool.
From NV Require Import Prelude.Str Prelude.Res Model.Bucket Model.Ip Model.ServerProto Equiv.ServerGlue Equiv.MwGlue.
Import ListNotations.
Open Scope list_scope.

"""

def main(out_path):
    ctx = Ctx()
    ctx.status = enum_values("protocol/status.py", "StatusCode")
    trees = {}
    def tree(rel):
        if rel not in trees: trees[rel] = ast.parse(open(os.path.join(SRC, rel)).read(), rel)
        return trees[rel]
    chunks = [HEADER]
    count = 0
    for c in CLASSES:
        try:
            chunks.append({"init": gen_init_class, "enum": gen_enum, "dataclass": gen_dataclass}[c["kind"]](ctx, c, tree(c["file"])))
        except Untranslatable as e:
            raise Untranslatable("%s:%s: %s" % (c["file"], c["cls"], e))
        chunks.append("\n"); count += 1
    for spec in SPECS:
        spec = dict(spec)
        try:
            if "base" in spec:
                b = copy.deepcopy(next(s for s in py2coq.SPECS if s["name"] == spec["base"]))
                b["name"] = spec["name"]
                fn = find_function(tree(b["file"]), b["cls"], b["func"])
                chunks.append(Fn(b, py2coq.preprocess(b, copy.deepcopy(fn))).translate())
                npy = len([a for a in fn.args.args if a.arg != "self"])
                ctx.funcs[spec["key"]] = dict(name=b["name"], env=b["params"][:-npy], params=b["params"][-npy:], ret="bool")
            else:
                t = tree(spec["file"])
                fn = copy.deepcopy(find_function(t, spec["cls"], spec["func"]))
                spec["attrs"] = dict(spec.get("attrs", {}))
                for var, field in spec.get("state_from_init", {}).items():
                    ty, init = state_decl(t, spec["cls"], field, spec, ctx)
                    spec["attrs"]["self." + field] = (var, ty)
                    dname = "gen_%s_%s_init" % (spec["cls"], field)
                    text = "Definition %s : %s := %s.\n\n" % (dname, ctype(ty), init)
                    if text not in chunks: chunks.append(text)
                if "pyparams" not in spec: spec["pyparams"] = py_params(fn, spec, ctx)
                f = MwFn(spec, fn, ctx)
                chunks.append(f.translate())
                ctx.funcs[spec.get("key", "<%s>" % spec["name"])] = f.info
        except Untranslatable as e:
            raise Untranslatable("%s: %s" % (spec["name"], e))
        chunks.append("\n"); count += 1
    open(out_path, "w").write("".join(chunks))
    print("py2coq_mw: %d classes and functions translated" % count)

if __name__ == "__main__":
    try:
        main(sys.argv[1] if len(sys.argv) > 1 else os.path.join(os.path.dirname(os.path.dirname(os.path.abspath(__file__))), "coq", "Gen", "MwGen.v"))
    except Untranslatable as e:
        print("UNTRANSLATABLE:", e); sys.exit(2)
    except Exception as e:      # fail closed: a source shape the translator did not foresee is refused, never guessed at
        print("UNTRANSLATABLE: internal error %s: %s" % (type(e).__name__, e)); sys.exit(2)
