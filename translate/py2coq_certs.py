#!/usr/bin/env python3
"""py2coq_certs: translator for the certificate functions and the certificate-extraction sites

    security/certificates.py   get_certificate_fingerprint, load_certificate, get_certificate_fingerprint_from_path,
                               is_certificate_expired, validate_certificate_file
    server/protocol.py         GeminiServerProtocol.get_peer_certificate
    client/protocol.py         GeminiClientProtocol.get_peer_certificate, TitanClientProtocol.get_peer_certificate
    security/pyopenssl_tls.py  x509_to_cryptography
    server/tls_protocol.py     _SSLObjectWrapper.getpeercert          (specialised to binary_form=True)
    + a table of every call of get_certificate_fingerprint in the source tree (with the algorithm argument as
      written) and of every module that imports hashlib

-> coq/Gen/CertsGen.v (regenerated from SRC on every run; NV_SRC / NV_REPO select a scratch copy).  The lemmas
"generated definition = model" are stated in coq/Equiv/EquivCerts.v and proved in coq/Proofs/EquivCerts_proofs.v; the
record of library operations (`certlib`) and small glue are in coq/Equiv/CertsGlue.v, the model in coq/Model/Certs.v.
Anything outside the subset raises Untranslatable (exit status 2): the tie is then broken and the check reports it.

Every generated function takes the library record `L : certlib cert path transport sslobj ocert` first, then `now_in : Z`
if it reads the clock, then its callees `f_<name>` (instantiated in the tie theorems by the generated callee), then
its Python parameters `v_<name>`.  A default value of a parameter becomes the constant `<gen name>__default_<param>`;
a call that omits the argument passes that constant.

THE SUBSET
  statements   docstrings; x = E; return E / return A, B / return None; raise C(msg) [from e];
               if / elif / else; try: ... except C [as e]: ... (several handlers, no else / finally);
               `from cryptography.hazmat.primitives import serialization` inside a function
  exceptions   are values of `res`: an expression that can raise (marked R below, and calls of translated callees
               that can raise) may only be the WHOLE right-hand side of `x = E` or the WHOLE operand of `return E`;
               `Err k m` goes to the innermost enclosing handler whose class matches k (CertsGlue.exc_isa; `except
               Exception` matches every Err), else it is the function's result; OutOfModel always propagates.
               `str(e)` and f"{e}" of a caught exception are its message m.
  narrowing    `if E is None: ...`, `if E is not None: ...`, `if E: ...` / `if not E: ...` on E : Optional[T] (a local or
               self.<attr>) bind the content for the branch where it exists (`if E:` on Optional[bytes] also requires
               it non-empty)
  constants    a parameter fixed by the specification (binary_form=True) decides `if <param>:` at translation
               time; the branch not taken is not translated
TRUSTED TABLES
  T1 LIB (library operation -> field of certlib; R = may raise, result in `res`)
       c.public_bytes(serialization.Encoding.DER)        -> l_der L c          (serialization must be imported from
       c.public_bytes(serialization.Encoding.PEM)        -> l_pem L c           cryptography.hazmat.primitives)
       hashlib.sha256(b).digest() / .hexdigest()         -> l_sha256 L b / hex_lower (l_sha256 L b)     (import hashlib)
       hashlib.sha1(b).digest() / .hexdigest()           -> l_sha1 L b / hex_lower (l_sha1 L b)
       b.hex()                                           -> hex_lower b       (Model/Certs.v: executable, not an oracle)
       s.upper() / s.lower()                             -> CertsGlue.upper s / Str.lower s
       s[:n] / s[n:]  (n a literal)                      -> take n s / drop n s
       p.exists()                                        -> l_exists L p
       p.read_bytes()                                  R -> l_read_bytes L p
       x509.load_pem_x509_certificate(b)               R -> l_load_pem L b     (x509 imported from cryptography)
       x509.load_der_x509_certificate(b)               R -> l_load_der L b
       datetime.datetime.now(datetime.timezone.utc)      -> now_in  (import datetime; at most one reading per function)
       c.not_valid_after_utc / c.not_valid_before_utc    -> l_not_after L c / l_not_before L c ; < <= > >= on them: Z
       t.get_extra_info("ssl_object")                    -> l_ssl_object L t : option sslobj
       s.getpeercert(binary_form=True)                 R -> l_getpeercert_der L s : option bytes
       crypto.dump_certificate(crypto.FILETYPE_ASN1, o) R -> l_dump_asn1 L o    (crypto imported from OpenSSL)
       f"...{x}..."  x : str as is, x : Path by l_path_str L, x a caught exception by its message
  T2 ANNOT  annotation text -> type (x509.Certificate: cert, Path: path, crypto.X509: ocert, str, bool, bytes,
       tuple[bool, str], `T | None`); SELF_ATTRS: self.transport : Optional[transport], self._cert : Optional[cert]
  T3 EXC  the exception classes that may be raised / caught: FileNotFoundError, ValueError, OSError, Exception
       (hierarchy in CertsGlue.exc_isa)
  T4 SPECS  which functions, their callees (a callee must be the module-level function of the same module), which
       are total, the fixed parameter of _SSLObjectWrapper.getpeercert and its result type (Optional[bytes]: the
       union's other member, the `{}` of the branch not taken, is never produced under binary_form=True)
  The truthiness of an x509.Certificate / crypto.X509 object is True (`if peer_cert:` on Optional[...]).
Refused besides what the rules do not cover: decorators, *args / **kwargs, defaults that are not string constants,
nested functions, lambdas, comprehensions, loops, with, await, global, walrus, rebinding (at module level) of a name
the tables give a meaning to, assignment to a narrowed name or to a parameter, a translated function defined twice."""
import ast, sys, os, copy
sys.path.insert(0, os.path.dirname(os.path.abspath(__file__)))
from py2coq import Untranslatable, bad, coq_str, find_function, SRC
from py2coq_url import Module

def K(e): return ast.dump(e)
def V(n): return "v_" + n

EXC_KNOWN = ("FileNotFoundError", "ValueError", "OSError", "Exception")
BUILTINS = ("str", "bytes", "bool", "len") + EXC_KNOWN
COQ_TYPE = {"str": "str", "bytes": "(list N)", "bool": "bool", "cert": "cert", "path": "path", "time": "Z",
            "transport": "transport", "sslobj": "sslobj", "ocert": "ocert", "unit": "unit"}
SELF_ATTRS = {"transport": ("opt", "transport"), "_cert": ("opt", "cert")}
ALWAYS_TRUE_OBJECTS = ("cert", "ocert")      # objects without __bool__ / __len__

def coq_type(t):
    if isinstance(t, tuple):
        if t[0] == "opt": return "(option %s)" % coq_type(t[1])
        if t[0] == "tuple": return "(%s)" % " * ".join(coq_type(x) for x in t[1:])
        raise Untranslatable("type %s" % (t,))
    return COQ_TYPE[t]

LIBBINDER = "{cert path transport sslobj ocert : Type} (L : certlib cert path transport sslobj ocert)"

class CFn:
    def __init__(self, spec, node, mod, gen_names):
        self.spec, self.node, self.mod, self.gen_names = spec, node, mod, gen_names
        self.env, self.narrow, self.excs, self.fixed = {}, {}, {}, dict(spec.get("fixed", {}))
        self.counter = 0
        self.may_raise = not spec.get("total", False)
        self.local_imports = {}
        self.params = []

    def fresh(self, stem):
        self.counter += 1
        return "%s%d__" % (stem, self.counter)

    # ------------------------------------------------------------ imports the tables rely on
    def imported(self, name, module, orig=None):
        if name in self.env or name in self.fixed: return False
        li = self.local_imports.get(name)
        if li is not None: return li == (module, orig or name)
        return self.mod.imported_from(name, module, orig)

    def plain_import(self, name):
        """`import name` at module level, the name not otherwise bound"""
        m = self.mod.imports.get(name)
        return (m == (name, None) and name not in self.mod.funcs and name not in self.mod.classes and name not in self.mod.assigned
                and name not in self.env and name not in self.local_imports)

    def builtin(self, name):
        return not self.mod.defines(name) and name not in self.env and name not in self.local_imports

    # ------------------------------------------------------------ types
    def ann_type(self, a):
        if a is None: raise Untranslatable("missing annotation")
        if isinstance(a, ast.Constant) and a.value is None: return "unit"
        txt = a.value if isinstance(a, ast.Constant) and isinstance(a.value, str) else ast.unparse(a)
        return self.ann_text(txt)

    def ann_text(self, txt):
        txt = txt.strip()
        if txt.endswith("| None"): return ("opt", self.ann_text(txt[:-len("| None")]))
        if txt in ("str", "bool", "bytes"):
            if not self.builtin(txt): raise Untranslatable("%s is rebound" % txt)
            return txt
        if txt == "x509.Certificate" and self.imported("x509", "cryptography"): return "cert"
        if txt == "crypto.X509" and self.imported("crypto", "OpenSSL"): return "ocert"
        if txt == "Path" and self.imported("Path", "pathlib"): return "path"
        if txt == "tuple[bool, str]": return ("tuple", "bool", "str")
        raise Untranslatable("annotation %s" % txt)

    def narrowable(self, e):
        if isinstance(e, ast.Name): return e.id in self.env
        return isinstance(e, ast.Attribute) and isinstance(e.value, ast.Name) and e.value.id == "self" and "self" in self.env

    def typeof(self, e):
        if K(e) in self.narrow: return self.narrow[K(e)][1]
        if isinstance(e, ast.Constant):
            if isinstance(e.value, bool): return "bool"
            if isinstance(e.value, str): return "str"
            if e.value is None: return "none"
            bad(e, "constant")
        if isinstance(e, ast.Name):
            if e.id in self.excs: return "exc"
            if e.id in self.fixed: return "bool"
            if e.id in self.env: return self.env[e.id]
            bad(e, "unknown name")
        if isinstance(e, ast.Attribute):
            if isinstance(e.value, ast.Name) and e.value.id == "self" and self.env.get("self") == "self":
                if e.attr in self.spec.get("self_attrs", ()): return SELF_ATTRS[e.attr]
                bad(e, "attribute of self")
            if e.attr in ("not_valid_after_utc", "not_valid_before_utc") and self.typeof(e.value) == "cert": return "time"
            bad(e, "attribute")
        if isinstance(e, ast.JoinedStr): return "str"
        if isinstance(e, ast.Call): return self.call(e)[1]
        if isinstance(e, ast.Subscript):
            if self.typeof(e.value) == "str" and isinstance(e.slice, ast.Slice): return "str"
            bad(e, "subscript")
        if isinstance(e, ast.Compare) or isinstance(e, ast.BoolOp) or (isinstance(e, ast.UnaryOp) and isinstance(e.op, ast.Not)): return "bool"
        if isinstance(e, ast.BinOp) and isinstance(e.op, ast.Add) and self.typeof(e.left) == "str" and self.typeof(e.right) == "str": return "str"
        bad(e, "cannot type expression")

    # ------------------------------------------------------------ T1: calls  -> (term, type, raises)
    def call(self, e):
        f, args, kws = e.func, e.args, e.keywords
        if any(isinstance(a, ast.Starred) for a in args) or any(k.arg is None for k in kws): bad(e, "star arguments")
        P = self.pure
        src = ast.unparse(f)
        if isinstance(f, ast.Attribute):
            m, r = f.attr, f.value
            if m == "public_bytes" and len(args) == 1 and not kws and self.typeof(r) == "cert":
                enc = ast.unparse(args[0])
                if not self.imported("serialization", "cryptography.hazmat.primitives"): bad(e, "serialization is not cryptography's")
                if enc == "serialization.Encoding.DER": return "(l_der L %s)" % P(r), "bytes", False
                if enc == "serialization.Encoding.PEM": return "(l_pem L %s)" % P(r), "bytes", False
                bad(e, "encoding")
            if m in ("hexdigest", "digest") and not args and not kws and isinstance(r, ast.Call):
                hs = ast.unparse(r.func)
                if hs in ("hashlib.sha256", "hashlib.sha1") and self.plain_import("hashlib") and len(r.args) == 1 and not r.keywords \
                   and self.typeof(r.args[0]) == "bytes":
                    d = "(l_%s L %s)" % (hs.split(".")[1], P(r.args[0]))
                    return (d, "bytes", False) if m == "digest" else ("(hex_lower %s)" % d, "str", False)
                bad(e, "hash")
            if src == "x509.load_pem_x509_certificate" and self.imported("x509", "cryptography") and len(args) == 1 and not kws \
               and self.typeof(args[0]) == "bytes":
                return "(l_load_pem L %s)" % P(args[0]), "cert", True
            if src == "x509.load_der_x509_certificate" and self.imported("x509", "cryptography") and len(args) == 1 and not kws \
               and self.typeof(args[0]) == "bytes":
                return "(l_load_der L %s)" % P(args[0]), "cert", True
            if src == "datetime.datetime.now" and self.plain_import("datetime") and len(args) == 1 and not kws \
               and ast.unparse(args[0]) == "datetime.timezone.utc":
                return "now_in", "time", False
            if src == "crypto.dump_certificate" and self.imported("crypto", "OpenSSL") and len(args) == 2 and not kws \
               and ast.unparse(args[0]) == "crypto.FILETYPE_ASN1" and self.typeof(args[1]) == "ocert":
                return "(l_dump_asn1 L %s)" % P(args[1]), "bytes", True
            if isinstance(r, ast.Name) and r.id in ("x509", "datetime", "crypto", "hashlib", "serialization"): bad(e, "library call")
            rt = self.typeof(r)
            if m == "hex" and not args and not kws and rt == "bytes": return "(hex_lower %s)" % P(r), "str", False
            if m == "upper" and not args and not kws and rt == "str": return "(upper %s)" % P(r), "str", False
            if m == "lower" and not args and not kws and rt == "str": return "(lower %s)" % P(r), "str", False
            if m == "exists" and not args and not kws and rt == "path": return "(l_exists L %s)" % P(r), "bool", False
            if m == "read_bytes" and not args and not kws and rt == "path": return "(l_read_bytes L %s)" % P(r), "bytes", True
            if m == "get_extra_info" and rt == "transport" and len(args) == 1 and not kws and isinstance(args[0], ast.Constant) \
               and args[0].value == "ssl_object":
                return "(l_ssl_object L %s)" % P(r), ("opt", "sslobj"), False
            if m == "getpeercert" and rt == "sslobj" and not args and len(kws) == 1 and kws[0].arg == "binary_form" \
               and isinstance(kws[0].value, ast.Constant) and kws[0].value.value is True:
                return "(l_getpeercert_der L %s)" % P(r), ("opt", "bytes"), True
            bad(e, "method call on %s" % (rt,))
        if isinstance(f, ast.Name):
            n = f.id
            if n == "str" and self.builtin("str") and len(args) == 1 and not kws and isinstance(args[0], ast.Name) and args[0].id in self.excs:
                return self.excs[args[0].id], "str", False
            c = self.spec.get("callees", {}).get(n)
            if c is not None and n not in self.env:
                if n not in self.mod.funcs or n in self.mod.assigned or n in self.mod.imports or n in self.mod.classes:
                    bad(e, "%s is not the module-level function" % n)
                pnames, ptypes, rty, raises, defaults = c
                given = {}
                if len(args) > len(pnames): bad(e, "too many arguments")
                for i, a in enumerate(args): given[pnames[i]] = a
                for k in kws:
                    if k.arg not in pnames or k.arg in given: bad(e, "keyword %s" % k.arg)
                    given[k.arg] = k.value
                out = []
                for pn, pt in zip(pnames, ptypes):
                    if pn in given: out.append(self.at(given[pn], pt))
                    elif pn in defaults: out.append(defaults[pn])
                    else: bad(e, "missing argument %s" % pn)
                return "(f_%s %s)" % (n.lstrip("_"), " ".join(out)), rty, raises
            bad(e, "call of %s" % n)
        bad(e, "call target")

    def raising(self, e):
        return isinstance(e, ast.Call) and self.call(e)[2]

    def check_pure(self, e):
        """e is in the pure subset: in particular no call that can raise anywhere inside it (pure() refuses them)"""
        if not (isinstance(e, ast.Constant) and e.value is None): self.pure(e)

    # ------------------------------------------------------------ pure expressions
    def at(self, e, t):
        te = self.typeof(e)
        if te == t: return self.pure(e)
        if isinstance(t, tuple) and t[0] == "opt":
            if te == "none": return "None"
            if te == t[1]: return "(Some %s)" % self.pure(e)
        bad(e, "expected %s, found %s" % (t, te))

    def pure(self, e):
        if K(e) in self.narrow: return self.narrow[K(e)][0]
        if isinstance(e, ast.Constant):
            if isinstance(e.value, bool): return "true" if e.value else "false"
            if isinstance(e.value, str): return coq_str(e.value) if e.value else "[]"
            if e.value is None: return "None"
            bad(e, "constant")
        if isinstance(e, ast.Name):
            if e.id in self.fixed: return "true" if self.fixed[e.id] else "false"
            if e.id in self.excs: bad(e, "an exception object used as a value")
            if e.id in self.env and self.env[e.id] != "self": return V(e.id)
            bad(e, "unknown name")
        if isinstance(e, ast.Attribute):
            t = self.typeof(e)
            if isinstance(e.value, ast.Name) and e.value.id == "self": return "self_%s" % e.attr.lstrip("_")
            if e.attr == "not_valid_after_utc": return "(l_not_after L %s)" % self.pure(e.value)
            if e.attr == "not_valid_before_utc": return "(l_not_before L %s)" % self.pure(e.value)
            bad(e, "attribute")
        if isinstance(e, ast.JoinedStr):
            parts = []
            for v in e.values:
                if isinstance(v, ast.Constant): parts.append(coq_str(v.value))
                elif isinstance(v, ast.FormattedValue):
                    if v.format_spec is not None or v.conversion != -1: bad(e, "format spec")
                    t = self.typeof(v.value)
                    if t == "str": parts.append(self.pure(v.value))
                    elif t == "path": parts.append("(l_path_str L %s)" % self.pure(v.value))
                    elif t == "exc": parts.append(self.excs[v.value.id])
                    else: bad(e, "f-string of type %s" % (t,))
                else: bad(e, "f-string part")
            return "(" + " ++ ".join(parts) + ")" if parts else "[]"
        if isinstance(e, ast.Call):
            term, ty, raises = self.call(e)
            if raises: bad(e, "a call that can raise in a position that is not sequenced")
            return term
        if isinstance(e, ast.Subscript):
            sl = e.slice
            if self.typeof(e.value) == "str" and isinstance(sl, ast.Slice) and sl.step is None:
                lit_ = lambda x: isinstance(x, ast.Constant) and isinstance(x.value, int) and not isinstance(x.value, bool) and x.value >= 0
                if sl.lower is None and sl.upper is not None and lit_(sl.upper): return "(take %d %s)" % (sl.upper.value, self.pure(e.value))
                if sl.upper is None and sl.lower is not None and lit_(sl.lower): return "(drop %d %s)" % (sl.lower.value, self.pure(e.value))
            bad(e, "subscript")
        if isinstance(e, ast.BinOp) and isinstance(e.op, ast.Add) and self.typeof(e) == "str":
            return "(%s ++ %s)" % (self.pure(e.left), self.pure(e.right))
        if isinstance(e, ast.UnaryOp) and isinstance(e.op, ast.Not): return "(negb %s)" % self.cond(e.operand)
        if isinstance(e, ast.BoolOp):
            return "(" + (" && " if isinstance(e.op, ast.And) else " || ").join(self.cond(v) for v in e.values) + ")"
        if isinstance(e, ast.Compare):
            if len(e.ops) != 1: bad(e, "chained comparison")
            op, l, r = e.ops[0], e.left, e.comparators[0]
            tl, tr = self.typeof(l), self.typeof(r)
            if isinstance(op, (ast.Is, ast.IsNot)):
                if not (isinstance(r, ast.Constant) and r.value is None and isinstance(tl, tuple) and tl[0] == "opt"): bad(e, "is")
                x = "(match %s with None => true | Some _ => false end)" % self.pure(l)
                return x if isinstance(op, ast.Is) else "(negb %s)" % x
            if tl != tr: bad(e, "comparison of %s with %s" % (tl, tr))
            a, b = self.pure(l), self.pure(r)
            if tl == "str" and isinstance(op, (ast.Eq, ast.NotEq)):
                x = "(eqb %s %s)" % (a, b)
                return x if isinstance(op, ast.Eq) else "(negb %s)" % x
            if tl == "time":
                if isinstance(op, ast.Gt): return "(Z.ltb %s %s)" % (b, a)
                if isinstance(op, ast.Lt): return "(Z.ltb %s %s)" % (a, b)
                if isinstance(op, ast.GtE): return "(Z.leb %s %s)" % (b, a)
                if isinstance(op, ast.LtE): return "(Z.leb %s %s)" % (a, b)
            bad(e, "comparison at type %s" % (tl,))
        bad(e, "expression")

    def cond(self, e):
        t = self.typeof(e)
        if t == "bool": return self.pure(e)
        if t in ("str", "bytes"): return "(nonempty %s)" % self.pure(e)
        bad(e, "truthiness of type %s" % (t,))

    def constval(self, e):
        neg = False
        while isinstance(e, ast.UnaryOp) and isinstance(e.op, ast.Not): e, neg = e.operand, not neg
        if isinstance(e, ast.Name) and e.id in self.fixed: return self.fixed[e.id] != neg
        if isinstance(e, ast.Constant) and isinstance(e.value, bool): return e.value != neg
        return None

    # ------------------------------------------------------------ statements
    def terminates(self, stmts):
        if not stmts: return False
        s = stmts[-1]
        if isinstance(s, (ast.Return, ast.Raise)): return True
        if isinstance(s, ast.If):
            cv = self.constval(s.test)
            if cv is True: return self.terminates(s.body)
            if cv is False: return self.terminates(s.orelse)
            return self.terminates(s.body) and self.terminates(s.orelse)
        if isinstance(s, ast.Try):
            return self.terminates(s.body) and all(self.terminates(h.body) for h in s.handlers)
        return False

    def path(self, stmts, rest, k, on_err, body_on_err=None):
        """`stmts` (under the handlers `body_on_err`, default `on_err`) followed by the rest of the enclosing block
        (which runs under `on_err`)"""
        b = body_on_err or on_err
        if self.terminates(stmts): return self.block(stmts, None, b)
        return self.block(stmts, lambda: self.block(rest, k, on_err), b)

    def wrap_ok(self, v):
        return "(Ok %s)" % v if self.may_raise else v

    def bind_res(self, term, var, inner, on_err):
        if not self.may_raise: raise Untranslatable("%s: an operation that can raise in a function declared total" % self.spec["name"])
        kv, mv = self.fresh("k"), self.fresh("m")
        return "(match %s with Ok %s => %s | Err %s %s => %s | OutOfModel => OutOfModel end)" % (term, var, inner, kv, mv, on_err(kv, mv))

    def with_narrow(self, e, var, ty, f):
        saved = dict(self.narrow)
        self.narrow[K(e)] = (var, ty)
        try: return f()
        finally: self.narrow = saved

    def block(self, stmts, k, on_err):
        if not stmts:
            if k is None: return "FALLTHROUGH__"
            return k()
        s, rest = stmts[0], stmts[1:]
        if isinstance(s, ast.Expr) and isinstance(s.value, ast.Constant) and isinstance(s.value.value, str):
            return self.block(rest, k, on_err)
        if isinstance(s, ast.ImportFrom):
            if s.level == 0 and s.module == "cryptography.hazmat.primitives" and [(a.name, a.asname) for a in s.names] == [("serialization", None)] \
               and "serialization" not in self.env:
                self.local_imports["serialization"] = ("cryptography.hazmat.primitives", "serialization")
                return self.block(rest, k, on_err)
            bad(s, "import inside a function")
        if isinstance(s, ast.AnnAssign) and s.value is not None and isinstance(s.target, ast.Name):
            s = ast.Assign(targets=[s.target], value=s.value, lineno=s.lineno)
        if isinstance(s, ast.Assign):
            if len(s.targets) != 1 or not isinstance(s.targets[0], ast.Name): bad(s, "assignment target")
            name = s.targets[0].id
            if name in [p for p, _ in self.params] or name in self.fixed or name in self.excs or name == "self": bad(s, "assignment to a parameter")
            if any(K(ast.Name(id=name, ctx=ast.Load())) == kk for kk in self.narrow): bad(s, "assignment to a narrowed name")
            if name in BUILTINS or name in self.spec.get("callees", {}) or name in ("hashlib", "x509", "datetime", "serialization", "crypto"):
                bad(s, "a local hides a name the tables give a meaning to")
            val = s.value
            if self.raising(val):
                term, ty, _ = self.call(val)
                self.bindvar(s, name, ty)
                return self.bind_res(term, V(name), self.block(rest, k, on_err), on_err)
            self.check_pure(val)
            ty = self.typeof(val)
            if ty == "none": bad(s, "assignment of None")
            term = self.pure(val)
            self.bindvar(s, name, ty)
            return "(let %s := %s in %s)" % (V(name), term, self.block(rest, k, on_err))
        if isinstance(s, ast.Return):
            v = s.value
            if v is None:
                if self.rtype != "unit": bad(s, "return without value")
                return self.wrap_ok("tt")
            if isinstance(v, ast.Tuple):
                if not (isinstance(self.rtype, tuple) and self.rtype[0] == "tuple" and len(v.elts) == len(self.rtype) - 1): bad(s, "returned tuple")
                for x in v.elts: self.check_pure(x)
                return self.wrap_ok("(" + ", ".join(self.at(x, t) for x, t in zip(v.elts, self.rtype[1:])) + ")")
            if self.raising(v):
                term, ty, _ = self.call(v)
                r = self.fresh("r")
                if ty == self.rtype: out = r
                elif self.rtype == ("opt", ty): out = "(Some %s)" % r
                else: bad(s, "returned type %s, declared %s" % (ty, self.rtype))
                return self.bind_res(term, r, self.wrap_ok(out), on_err)
            self.check_pure(v)
            return self.wrap_ok(self.at(v, self.rtype))
        if isinstance(s, ast.Raise):
            if not self.may_raise: bad(s, "raise in a function declared total")
            e = s.exc
            if not (isinstance(e, ast.Call) and isinstance(e.func, ast.Name) and e.func.id in EXC_KNOWN and e.func.id != "Exception"
                    and self.builtin(e.func.id) and len(e.args) == 1 and not e.keywords): bad(s, "raise")
            if s.cause is not None and not (isinstance(s.cause, ast.Name) and s.cause.id in self.excs): bad(s, "raise ... from")
            self.check_pure(e.args[0])
            if self.typeof(e.args[0]) != "str": bad(s, "exception message")
            return on_err(coq_str(e.func.id), self.pure(e.args[0]))
        if isinstance(s, ast.If):
            return self.if_(s, rest, k, on_err)
        if isinstance(s, ast.Try):
            return self.try_(s, rest, k, on_err)
        bad(s, "statement")

    def bindvar(self, s, name, ty):
        if name in self.env and self.env[name] != ty: bad(s, "%s changes type from %s to %s" % (name, self.env[name], ty))
        self.env[name] = ty

    def if_(self, s, rest, k, on_err):
        cv = self.constval(s.test)
        if cv is not None:
            return self.path(s.body if cv else s.orelse, rest, k, on_err)
        t, neg = s.test, False
        while isinstance(t, ast.UnaryOp) and isinstance(t.op, ast.Not): t, neg = t.operand, not neg
        # E is None / E is not None
        if isinstance(t, ast.Compare) and len(t.ops) == 1 and isinstance(t.ops[0], (ast.Is, ast.IsNot)) and isinstance(t.comparators[0], ast.Constant) \
           and t.comparators[0].value is None and self.narrowable(t.left) and K(t.left) not in self.narrow:
            ty = self.typeof(t.left)
            if not (isinstance(ty, tuple) and ty[0] == "opt"): bad(s, "is None on a non-optional")
            some_when_true = isinstance(t.ops[0], ast.IsNot) != neg
            yes, no = (s.body, s.orelse) if some_when_true else (s.orelse, s.body)
            n = self.fresh("n")
            x = self.pure(t.left)
            no_t = self.path(no, rest, k, on_err)
            yes_t = self.with_narrow(t.left, n, ty[1], lambda: self.path(yes, rest, k, on_err))
            return "(match %s with Some %s => %s | None => %s end)" % (x, n, yes_t, no_t)
        # truthiness of an optional
        if not isinstance(t, (ast.Compare, ast.BoolOp)) and self.narrowable(t) and K(t) not in self.narrow \
           and isinstance(self.typeof(t), tuple) and self.typeof(t)[0] == "opt":
            ty = self.typeof(t)
            yes, no = (s.orelse, s.body) if neg else (s.body, s.orelse)
            n = self.fresh("n")
            x = self.pure(t)
            no_t = self.path(no, rest, k, on_err)
            yes_t = self.with_narrow(t, n, ty[1], lambda: self.path(yes, rest, k, on_err))
            if ty[1] in ALWAYS_TRUE_OBJECTS:
                return "(match %s with Some %s => %s | None => %s end)" % (x, n, yes_t, no_t)
            if ty[1] in ("bytes", "str"):
                no_some = self.with_narrow(t, n, ty[1], lambda: self.path(no, rest, k, on_err))
                return "(match %s with Some %s => (if nonempty %s then %s else %s) | None => %s end)" % (x, n, n, yes_t, no_some, no_t)
            bad(s, "truthiness of %s" % (ty,))
        self.check_pure(s.test)
        c = self.cond(s.test)
        return "(if %s then %s else %s)" % (c, self.path(s.body, rest, k, on_err), self.path(s.orelse, rest, k, on_err))

    def try_(self, s, rest, k, on_err):
        if s.orelse or s.finalbody or not s.handlers: bad(s, "try form")
        for h in s.handlers:
            if not (isinstance(h.type, ast.Name) and h.type.id in EXC_KNOWN and self.builtin(h.type.id)): bad(s, "exception class of a handler")
            if h.name and (h.name in self.env or h.name in self.fixed or h.name in BUILTINS): bad(s, "exception variable hides a name")
        if not self.may_raise: bad(s, "try in a function declared total")
        def inner_on_err(kt, mt):
            kv, mv = self.fresh("k"), self.fresh("m")
            out = on_err(kv, mv)
            for h in reversed(s.handlers):
                saved = dict(self.excs)
                if h.name: self.excs[h.name] = mv
                try: body = self.path(h.body, rest, k, on_err)
                finally: self.excs = saved
                if h.type.id == "Exception": out = body          # every Err is an Exception: the later handlers are dead
                else: out = "(if exc_isa %s %s then %s else %s)" % (kv, coq_str(h.type.id), body, out)
            return "(let %s := %s in let %s := %s in %s)" % (kv, kt, mv, mt, out)
        return self.path(s.body, rest, k, on_err, inner_on_err)

    # ------------------------------------------------------------ the definition
    def translate(self):
        fn, spec = self.node, self.spec
        a = fn.args
        if a.vararg or a.kwarg or a.kwonlyargs or a.posonlyargs or a.kw_defaults: raise Untranslatable("parameter list")
        if fn.decorator_list: raise Untranslatable("decorators")
        if isinstance(fn, ast.AsyncFunctionDef): raise Untranslatable("async function")
        for n in ast.walk(fn):
            if isinstance(n, (ast.Global, ast.Nonlocal, ast.Lambda, ast.FunctionDef, ast.AsyncFunctionDef, ast.ClassDef, ast.NamedExpr,
                              ast.ListComp, ast.DictComp, ast.SetComp, ast.GeneratorExp, ast.Yield, ast.YieldFrom, ast.Await,
                              ast.Import, ast.Delete, ast.With, ast.While, ast.For, ast.Break, ast.Continue, ast.AugAssign, ast.Starred)) and n is not fn:
                raise Untranslatable("%s inside the function" % type(n).__name__)
        ndef = len(a.defaults)
        defaults = {}
        for p, d in zip(a.args[len(a.args) - ndef:], a.defaults):
            if not (isinstance(d, ast.Constant) and isinstance(d.value, (str, bool)) and not (isinstance(d.value, bool) and p.arg not in self.fixed)):
                raise Untranslatable("default of %s" % p.arg)
            defaults[p.arg] = d.value
        binders, consts = [], []
        for i, p in enumerate(a.args):
            if i == 0 and p.arg == "self" and spec["cls"]:
                self.env["self"] = "self"
                for at in spec.get("self_attrs", ()):
                    binders.append("(self_%s : %s)" % (at.lstrip("_"), coq_type(SELF_ATTRS[at])))
                continue
            if p.arg in self.fixed:
                if self.ann_type(p.annotation) != "bool": raise Untranslatable("fixed parameter %s" % p.arg)
                continue
            t = self.ann_type(p.annotation)
            self.env[p.arg] = t
            self.params.append((p.arg, t))
            binders.append("(%s : %s)" % (V(p.arg), coq_type(t)))
            if p.arg in defaults:
                if t != "str": raise Untranslatable("default of %s" % p.arg)
                consts.append("Definition %s__default_%s : str := %s.\n" % (spec["name"], p.arg, coq_str(defaults[p.arg]) if defaults[p.arg] else "[]"))
        if spec["cls"] and "self" not in self.env: raise Untranslatable("method without self")
        self.rtype = spec["rtype"] if "rtype" in spec else self.ann_type(fn.returns)
        if "rtype_annotation" in spec and ast.unparse(fn.returns) != spec["rtype_annotation"]:
            raise Untranslatable("return annotation %s" % ast.unparse(fn.returns))
        clock = sum(1 for n in ast.walk(fn) if isinstance(n, ast.Attribute) and ast.unparse(n) == "datetime.datetime.now")
        if clock > 1: raise Untranslatable("more than one reading of the clock")
        top = lambda kt, mt: "(Err %s %s)" % (kt, mt)
        body = self.block(list(fn.body), None, top)
        if "FALLTHROUGH__" in body: raise Untranslatable("control can fall off the end")
        cps = ""
        for n, c in spec.get("callees", {}).items():
            pn, pt, rty, raises, _ = c
            cps += " (f_%s : %s -> %s)" % (n.lstrip("_"), " -> ".join(coq_type(t) for t in pt), ("res %s" % coq_type(rty)) if raises else coq_type(rty))
        rt = coq_type(self.rtype)
        head = "Definition %s %s%s%s%s : %s :=\n  %s.\n" % (spec["name"], LIBBINDER, " (now_in : Z)" if clock else "", cps,
                                                         "".join(" " + b for b in binders), ("res %s" % rt) if self.may_raise else rt, body)
        return "".join(consts) + head

# ------------------------------------------------------------------ T4: the functions
CERTS = "security/certificates.py"
def D(n, p): return "gen_%s__default_%s" % (n, p)
CALLEE_LOAD = (["cert_path"], ["path"], "cert", True, {})
CALLEE_FP = (["cert", "algorithm"], ["cert", "str"], "str", True, {"algorithm": D("get_certificate_fingerprint", "algorithm")})
CALLEE_EXPIRED = (["cert"], ["cert"], "bool", False, {})
PEER = dict(func="get_peer_certificate", self_attrs=["transport"])
SPECS = [
    dict(file=CERTS, cls=None, func="load_certificate", name="gen_load_certificate"),
    dict(file=CERTS, cls=None, func="get_certificate_fingerprint", name="gen_get_certificate_fingerprint"),
    dict(file=CERTS, cls=None, func="get_certificate_fingerprint_from_path", name="gen_get_certificate_fingerprint_from_path",
         callees={"load_certificate": CALLEE_LOAD, "get_certificate_fingerprint": CALLEE_FP}),
    dict(file=CERTS, cls=None, func="is_certificate_expired", name="gen_is_certificate_expired", total=True),
    dict(file=CERTS, cls=None, func="validate_certificate_file", name="gen_validate_certificate_file",
         callees={"load_certificate": CALLEE_LOAD, "is_certificate_expired": CALLEE_EXPIRED}),
    dict(PEER, file="server/protocol.py", cls="GeminiServerProtocol", name="gen_server_get_peer_certificate"),
    dict(PEER, file="client/protocol.py", cls="GeminiClientProtocol", name="gen_client_get_peer_certificate"),
    dict(PEER, file="client/protocol.py", cls="TitanClientProtocol", name="gen_titan_client_get_peer_certificate"),
    dict(file="security/pyopenssl_tls.py", cls=None, func="x509_to_cryptography", name="gen_x509_to_cryptography"),
    dict(file="server/tls_protocol.py", cls="_SSLObjectWrapper", func="getpeercert", name="gen_wrapper_getpeercert_der", total=True,
         self_attrs=["_cert"], fixed={"binary_form": True}, rtype=("opt", "bytes"), rtype_annotation="bytes | dict[str, Any] | None"),
]
EXPECTED_PARAMS = {          # the Python parameter lists the tie theorems are stated for (names and order)
    "gen_load_certificate": ["cert_path"], "gen_get_certificate_fingerprint": ["cert", "algorithm"],
    "gen_get_certificate_fingerprint_from_path": ["cert_path", "algorithm"], "gen_is_certificate_expired": ["cert"],
    "gen_validate_certificate_file": ["cert_path"], "gen_x509_to_cryptography": ["cert"],
}

# ------------------------------------------------------------------ the site table
FP = "get_certificate_fingerprint"
def scan_sites():
    sites, hashers = [], []
    for d, _, files in sorted(os.walk(SRC)):
        for f in sorted(files):
            if not f.endswith(".py"): continue
            p = os.path.join(d, f)
            rel = os.path.relpath(p, SRC).replace(os.sep, "/")
            tree = ast.parse(open(p).read(), p)
            imported_ok, other_binding, uses_hashlib = False, False, False
            for n in ast.walk(tree):
                if isinstance(n, ast.ImportFrom):
                    for a in n.names:
                        if (a.asname or a.name) == FP:
                            if a.name == FP and a.asname is None and (n.module or "").split(".")[-1] == "certificates" \
                               and ((n.module or "") in ("certificates", "security.certificates") or (n.module or "").endswith("nauyaca.security.certificates")):
                                imported_ok = True
                            else: other_binding = True
                        if a.name == FP and a.asname not in (None, FP): other_binding = True          # renamed on import: calls would be missed
                        if a.name == "*" and rel != CERTS: other_binding = other_binding or ("certificates" in (n.module or ""))
                        if (n.module or "").split(".")[0] == "hashlib": uses_hashlib = True
                elif isinstance(n, ast.Import):
                    for a in n.names:
                        if a.name.split(".")[0] == "hashlib": uses_hashlib = True
                        if (a.asname or a.name) == FP: other_binding = True
                elif isinstance(n, (ast.FunctionDef, ast.AsyncFunctionDef, ast.ClassDef)) and n.name == FP and rel != CERTS: other_binding = True
                elif isinstance(n, ast.Name) and n.id == FP and isinstance(n.ctx, (ast.Store, ast.Del)): other_binding = True
            if uses_hashlib: hashers.append(rel)
            def visit(node, qual):
                for c in ast.iter_child_nodes(node):
                    q = qual
                    if isinstance(c, (ast.FunctionDef, ast.AsyncFunctionDef, ast.ClassDef)): q = (qual + "." if qual else "") + c.name
                    if isinstance(c, ast.Call):
                        fn = c.func
                        nm = fn.id if isinstance(fn, ast.Name) else fn.attr if isinstance(fn, ast.Attribute) else None
                        if nm == FP:
                            if isinstance(fn, ast.Attribute): raise Untranslatable("%s: %s reached through an attribute (%s)" % (rel, FP, ast.unparse(fn)))
                            if other_binding or not (imported_ok or rel == CERTS):
                                raise Untranslatable("%s: %s is not (only) security.certificates' function here" % (rel, FP))
                            if any(isinstance(x, ast.Starred) for x in c.args) or any(kw.arg is None for kw in c.keywords):
                                raise Untranslatable("%s: star arguments in a call of %s" % (rel, FP))
                            alg = c.args[1] if len(c.args) > 1 else next((kw.value for kw in c.keywords if kw.arg == "algorithm"), None)
                            if len(c.args) > 2 or any(kw.arg not in ("cert", "algorithm") for kw in c.keywords): raise Untranslatable("%s: arguments of %s" % (rel, FP))
                            if alg is None: a = "None"
                            elif isinstance(alg, ast.Constant) and isinstance(alg.value, str): a = "(Some %s)" % coq_str(alg.value)
                            else: a = "(Some %s)" % coq_str("<expr> " + ast.unparse(alg))
                            sites.append((rel, qual or "<module>", a))
                    elif isinstance(c, ast.Name) and c.id == FP and isinstance(c.ctx, ast.Load) and not (isinstance(node, ast.Call) and node.func is c):
                        raise Untranslatable("%s: %s used as a value (line %d)" % (rel, FP, c.lineno))
                    visit(c, q)
            visit(tree, "")
    return sites, hashers

HEADER = """(* GENERATED by /verif/translate/py2coq_certs.py from /repo/src/nauyaca (security/certificates.py, the get_peer_certificate
   methods, security/pyopenssl_tls.py, server/tls_protocol.py) - do not edit *)
From Coq Require Import List NArith ZArith Bool.
From NV Require Import Prelude.Str Prelude.Res Model.Certs Equiv.CertsGlue.
Import ListNotations.
Open Scope list_scope.

"""

def main(out_path):
    mods = {}
    def module(rel):
        if rel not in mods: mods[rel] = Module(rel)
        return mods[rel]
    chunks = [HEADER]
    for spec in SPECS:
        spec = dict(spec)
        mod = module(spec["file"])
        for b in BUILTINS:
            if mod.defines(b): raise Untranslatable("%s rebinds the builtin %s" % (mod.rel, b))
        if spec["cls"] is None and spec["func"] not in mod.funcs: raise Untranslatable("%s is not a module-level function of %s" % (spec["func"], spec["file"]))
        if spec["cls"] is None and (spec["func"] in mod.assigned or spec["func"] in mod.imports): raise Untranslatable("%s is rebound in %s" % (spec["func"], spec["file"]))
        fn = copy.deepcopy(find_function(mod.tree, spec["cls"], spec["func"]))
        try:
            t = CFn(spec, fn, mod, None)
            chunks.append(t.translate())
            exp = EXPECTED_PARAMS.get(spec["name"])
            if exp is not None and [p for p, _ in t.params] != exp:
                raise Untranslatable("parameters %s, the ties are stated for %s" % ([p for p, _ in t.params], exp))
        except Untranslatable as e:
            raise Untranslatable("%s:%s.%s: %s" % (spec["file"], spec["cls"], spec["func"], e))
        chunks.append("\n")
    sites, hashers = scan_sites()
    chunks.append("(* every call of get_certificate_fingerprint in the source tree *)\nDefinition fingerprint_sites : list fp_site :=\n  [" +
                  ";\n   ".join("mk_site %s %s %s" % (coq_str(f), coq_str(q), a) for f, q, a in sites) + "].\n\n")
    chunks.append("(* every module that imports hashlib *)\nDefinition hashlib_users : list str :=\n  [" + "; ".join(coq_str(h) for h in hashers) + "].\n")
    # which object of the PyOpenSSL connection is "the peer certificate": get_peer_certificate_from_connection must be exactly
    # `try: return conn.get_peer_certificate() except Exception: return None` (the leaf the peer proved possession of - NOT an entry
    # of get_peer_cert_chain(), which on the server side holds only the EXTRA certificates the client appended); its only call site,
    # `peer_cert = get_peer_certificate_from_connection(self.tls_conn)` in server/tls_protocol.py, is pinned verbatim by py2coq_tls.py
    pm = module("security/pyopenssl_tls.py")
    fnp = find_function(pm.tree, None, "get_peer_certificate_from_connection")
    bodyp = [x for x in fnp.body if not (isinstance(x, ast.Expr) and isinstance(x.value, ast.Constant) and isinstance(x.value.value, str))]
    shape_ok = (len(bodyp) == 1 and ast.unparse(bodyp[0]) == "try:\n    return conn.get_peer_certificate()\nexcept Exception:\n    return None"
                and [a.arg for a in fnp.args.args] == ["conn"] and not fnp.decorator_list
                and "get_peer_certificate_from_connection" not in pm.assigned and "get_peer_certificate_from_connection" not in pm.imports)
    chunks.append("\n(* get_peer_certificate_from_connection(conn) is conn.get_peer_certificate() (None when that raises) *)\n"
                  "Definition conn_peer_certificate_is_the_leaf : bool := %s.\n" % ("true" if shape_ok else "false"))
    open(out_path, "w").write("".join(chunks))
    print("py2coq_certs: %d functions translated, %d fingerprint call sites" % (len(SPECS), len(sites)))

if __name__ == "__main__":
    try:
        main(sys.argv[1] if len(sys.argv) > 1 else os.path.join(os.path.dirname(os.path.dirname(os.path.abspath(__file__))), "coq", "Gen", "CertsGen.v"))
    except Untranslatable as e:
        print("UNTRANSLATABLE:", e); sys.exit(2)
    except SyntaxError as e:
        print("UNTRANSLATABLE: syntax error", e); sys.exit(2)
