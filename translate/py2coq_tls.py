#!/usr/bin/env python3
"""py2coq_tls: fail-closed translator for the manual PyOpenSSL pump (server/tls_protocol.py) -> coq/Gen/TlsGen.v.

Every method `m(self, args) -> None` of TLSServerProtocol and of TLSTransportWrapper listed in METHODS becomes

    gen_m (fuel__ : nat) (s__ : pst) args : pres            pres = pst * list pact * option exc

over the record `pst` of coq/Equiv/TlsGlue.v (one field per attribute of the pump object, the asyncio-side flags and
the state of the OpenSSL connection object, which is an oracle as in Model/TlsPump.v); a method `-> bool` that only
reads becomes `gen_m (s__ : pst) : bool + exc`.  Calls of other methods of the two classes are calls of their
translations (the call graph must be acyclic); gen_step / gen_run instantiate TlsGlue.loop_step / loop_run (the event
loop's side, hand-written) with the three callbacks data_received, _handle_handshake_timeout, connection_lost.  Each `while` loop becomes a separate definition `gen_m_loopN`, a
`fix` on explicit fuel that takes the enclosing exception handler and the `break` continuation as arguments.
coq/Equiv/EquivTls.v states, and coq/Proofs/EquivTls_proofs.v proves, that the translated methods, with the oracle
answering as in the model, ARE Model.TlsPump's `flush`, `wrapper_write`, `tstep` and `trun`.  The file is regenerated
from the current source (SRC = $NV_SRC or /repo/src/nauyaca) on every run; anything outside the subset below raises
Untranslatable (exit status 2).

GENERAL RULES (continuation style, as py2coq.Fn: the term of a statement contains the term of what follows it)
  x = e                                  let x := e in ...         (e pure: names, constants, not/and/or, `is None`,
                                                                    truthiness of bytes / bool / optional objects)
  self.f = e   /   self.f: T = e         let s__ := <setter f> s__ e in ...                        (table ATTRS)
  if / elif / else, pass, return, break, continue
  self._m(args)                          let '(s__, b__, r__) := gen_m fuel__ s__ args in let a__ := a__ ++ b__ in
                                         match r__ with Some x__ => RAISE x__ | None => ... end
  O.meth(args) / x = O.meth(args)        for O one of the four object-valued attributes: the table entry of `meth`
                                         (ORACLE, TRANSPORT, INNER, TIMER), guarded by "O is set": a method call on
                                         None is RAISE AttributeError
  try: B except C1 [as e]: H1 ...        let k__N := fun s__ a__ => <what follows the try> in
                                         let h__N := fun s__ a__ x__ => if exc_match C1 x__ then H1 else ... else
                                         <RAISE x__ in the enclosing context> in B, where every RAISE inside B is a
                                         call of h__N.  Handlers are tried in source order; an exception raised in a
                                         handler goes to the enclosing context (no else / finally clauses).
  while C: B                             gen_m_loopN fuel__ <handler> <break continuation> <free locals> fuel__ s__ a__:
                                         a `fix` on a counter; at 0 it is RAISE OutOfFuel (a pseudo-exception that no
                                         clause catches).  Locals assigned in B do not survive an iteration or the loop;
                                         `return` inside a loop is refused.
  RAISE x                                (h s__ a__ x) for the innermost enclosing handler h, else (s__, a__, Some x)
  log-only data                          parameters, locals and attributes that are read only inside the arguments of
                                         `logger.*` calls (checked on the class) are erased together with the logger
                                         calls; expressions assigned / passed to them must be call-free (f-strings,
                                         names, constants, subscripts), or a TRANSPORT getter.
  module constants                       int literals are `N.to_nat <n>%N`; HANDSHAKE_TIMEOUT is read from the source
                                         and emitted as gen_handshake_timeout_ms (it must be a positive number).

TRUSTED TABLES (every entry is an assumption relating the Python objects to coq/Equiv/TlsGlue.v)
  ATTRS      self.transport -> p_transport, self.tls_conn -> p_conn, self.inner_protocol -> p_inner,
             self._handshake_timer -> p_timer   (bool "is set": these objects define neither __bool__ nor __len__, so
             their truth value is `is not None`),   self.handshake_complete -> p_hc (bool).
             In TLSTransportWrapper the same attributes are reached through self.tls_protocol (checked: __init__ stores
             its argument there, and _initialize_inner_protocol passes `self`).
  ORACLE     methods of self.tls_conn (OpenSSL.SSL.Connection on memory BIOs) -> ssl_* of TlsGlue.v:
             bio_write(b) (no effect on the modelled state: the event carries the oracle's answers), do_handshake()
             (verdict of the event: returns / WantReadError / Error; leaves its flight in the outgoing BIO), recv(n) (next
             scripted answer: bytes / ZeroReturnError / Error; exhausted = WantReadError), send(b) (Model ssl_send: one
             record, returns the count), sendall(b) (Model sendall: all records), bio_read(n) (take n / drop n of the
             BIO, WantReadError when empty), shutdown() (queues close_notify; Error before the handshake is complete),
             set_accept_state().  SSL.Connection(self.ssl_context, None) creates the object (second argument None =
             memory BIOs).
  EXCEPTIONS SSL.WantReadError, SSL.ZeroReturnError <: SSL.Error (exc_match of TlsGlue.v); RuntimeError is raised
             only by asyncio.get_running_loop() outside a running loop, which cannot happen inside a protocol callback.
  TRANSPORT  self.transport.write(b) -> action PWrite b; .close() -> tcp_close (PClose and the closing flag, or
             PCloseAgain on a closing transport); .is_closing() -> p_closing; .get_extra_info(<const>) -> no effect.
  INNER      self.inner_protocol_factory() creates the inner protocol; inner_protocol.connection_made(<the
             TLSTransportWrapper(self) object>) -> PInnerMade; .data_received(b) -> PInnerData b; .connection_lost(x) ->
             PInnerLost.  What the inner protocol does in reaction (it may call the wrapper's write / close
             synchronously) is NOT part of the translated method: as in the model, those are separate calls.
  TIMER      loop.call_later(HANDSHAKE_TIMEOUT, self._handle_handshake_timeout), with loop = asyncio.get_running_loop():
             arm_timer (TlsGlue.loop_step runs exactly that callback when the event PTimer arrives); handle.cancel() ->
             disarm_timer.
  ERASED     parameter annotations asyncio.BaseTransport, Exception | None, TLSServerProtocol: objects that are only
             stored / forwarded.
  SKIP       the certificate plumbing of _initialize_inner_protocol (three statements, matched by their exact text): the
             peer's certificate is a constant of the connection in the models (as in py2coq_server.SKIP_CERT).
  DISPATCH   data_received, _handle_handshake_timeout (the call_later callback) and connection_lost are the three
             callbacks TlsGlue.loop_step dispatches to; the event loop's side itself (no data after close(), a cancelled
             handle does not run, connection_lost once, nothing after it) is hand-written there.
NOT TRANSLATED: TLSTransportWrapper.get_extra_info, _SSLObjectWrapper (certificate plumbing, no counterpart in
Model/TlsPump.v).  The two classes must have exactly the methods of METHODS besides these (a new method, e.g. another
asyncio callback, is refused until it is listed), TLSServerProtocol's only base class must be asyncio.Protocol, and no
untranslated method may assign a translated attribute or call one of the objects."""
import ast, sys, os, copy
sys.path.insert(0, os.path.dirname(os.path.abspath(__file__)))
from py2coq import Untranslatable, bad, find_function, SRC
from py2coq_server import StFn

FILE = "server/tls_protocol.py"
PUMP, WRAPPER = "TLSServerProtocol", "TLSTransportWrapper"
METHODS = [(PUMP, m) for m in ["__init__", "connection_made", "data_received", "_do_handshake", "_process_pending_after_handshake",
                               "_initialize_inner_protocol", "_process_application_data", "_flush_outgoing", "_cancel_handshake_timer",
                               "_handle_handshake_timeout", "_close_with_error", "_handle_close", "connection_lost"]] + \
          [(WRAPPER, m) for m in ["write", "close", "is_closing"]]

# ------------------------------------------------------------------ the tables
OBJ = ("opt", "obj")
ATTRS = {   # attribute of the pump object: (getter, type, setter)
    "transport": ("(p_transport s__)", OBJ, "upd_transport"),
    "tls_conn": ("(p_conn s__)", OBJ, "upd_conn"),
    "inner_protocol": ("(p_inner s__)", OBJ, "upd_inner"),
    "_handshake_timer": ("(p_timer s__)", OBJ, "upd_timer"),
    "handshake_complete": ("(p_hc s__)", "bool", "upd_hc"),
}
# methods of self.tls_conn: glue function, argument types, result type, may raise
ORACLE = {
    "bio_write": ("ssl_bio_write", ["bytes"], None, False),
    "do_handshake": ("ssl_do_handshake", [], None, True),
    "recv": ("ssl_recv", ["nat"], "bytes", True),
    "send": ("ssl_send", ["bytes"], "nat", False),
    "sendall": ("ssl_sendall", ["bytes"], None, False),
    "bio_read": ("ssl_bio_read", ["nat"], "bytes", True),
    "shutdown": ("ssl_shutdown", [], None, True),
    "set_accept_state": ("ssl_set_accept_state", [], None, False),
}
EXC_CLASSES = {"SSL.WantReadError": "CWantReadError", "SSL.ZeroReturnError": "CZeroReturnError", "SSL.Error": "CError", "RuntimeError": "CRuntimeError"}
INNER = {"connection_made": ("PInnerMade", "wrapper"), "data_received": ("PInnerData", "bytes"), "connection_lost": ("PInnerLost", "erased")}
TIMER_CALLBACK = "_handle_handshake_timeout"
TIMER_DELAY = "HANDSHAKE_TIMEOUT"
ERASED_ANN = {"asyncio.BaseTransport", "Exception | None", PUMP}
SKIP = [
    "peer_cert = get_peer_certificate_from_connection(self.tls_conn)",
    "if peer_cert:\n    inner_transport.peer_certificate = x509_to_cryptography(peer_cert)\n    logger.debug('client_certificate_received', client_ip=self._peer_name[0] if self._peer_name else 'unknown')",
]
ERASED_TYPES = ("erased", "wrapper", "loop", "exc")
NOT_TRANSLATED = [(WRAPPER, "__init__"), (WRAPPER, "get_extra_info")]      # __init__ is checked structurally (analyse)

H0 = "(fun (s__ : pst) (a__ : list pact) (x__ : exc) => (s__, a__, Some x__))"

def is_logger_call(n):
    return isinstance(n, ast.Call) and isinstance(n.func, ast.Attribute) and isinstance(n.func.value, ast.Name) and n.func.value.id == "logger"

def loads_outside_logger(tree, pred):
    """the nodes satisfying pred that are read somewhere other than inside the arguments of a logger.* call"""
    out = []
    def walk(n, inlog):
        if is_logger_call(n): inlog = True
        if pred(n) and isinstance(getattr(n, "ctx", None), ast.Load) and not inlog: out.append(n)
        for c in ast.iter_child_nodes(n): walk(c, inlog)
    walk(tree, False)
    return out

class TlsFn(StFn):
    def __init__(self, cls, node, ctx):
        self.cls, self.ctx = cls, ctx
        self.prefix = "self." if cls == PUMP else "self.tls_protocol."
        attrs = {self.prefix + k: v for k, v in ATTRS.items()}
        super().__init__(dict(name="gen_" + node.name.strip("_"), attrs=attrs, params=[], int="nat"), node, {})
        self.hstack = []           # names of the enclosing exception handlers (innermost last)
        self.kb = None             # the term `break` becomes
        self.in_loop = False
        self.loops = []            # lifted loop definitions (inner loops first)
        self.nloops = 0
        self.nk = 0
        self.calls = []            # callees met (for the call graph)

    # ---------------- expressions (pure)
    def typeof(self, e):
        if isinstance(e, ast.Constant) and isinstance(e.value, int) and not isinstance(e.value, bool): return "nat"
        if isinstance(e, ast.Constant) and e.value is None: return "none"
        return super().typeof(e)

    def expr(self, e):
        if isinstance(e, ast.Constant) and isinstance(e.value, int) and not isinstance(e.value, bool):
            if e.value < 0: bad(e, "negative literal")
            return "(N.to_nat %d%%N)" % e.value
        if isinstance(e, ast.Constant) and isinstance(e.value, (bytes, str, float)): bad(e, "literal")
        if isinstance(e, ast.Call): bad(e, "call inside an expression")
        if isinstance(e, ast.Name):
            if self.env.get(e.id) in ERASED_TYPES: bad(e, "value of an erased object used")
            if e.id not in self.env: bad(e, "unknown name")
            return e.id
        if isinstance(e, ast.Compare) and len(e.ops) == 1 and isinstance(e.ops[0], (ast.Is, ast.IsNot)) \
           and isinstance(e.comparators[0], ast.Constant) and e.comparators[0].value is None:
            if self.typeof(e.left) != OBJ: bad(e, "is None on a non-object")
            x = self.expr(e.left)
            return "(negb %s)" % x if isinstance(e.ops[0], ast.Is) else x
        if isinstance(e, ast.Constant) and isinstance(e.value, bool): return "true" if e.value else "false"
        if isinstance(e, (ast.Attribute, ast.BoolOp)) or (isinstance(e, ast.UnaryOp) and isinstance(e.op, ast.Not)):
            return super().expr(e)
        bad(e, "expression")

    def truthy(self, e):
        t = self.typeof(e)
        if t == OBJ or t == "bool": return self.expr(e)
        if t == "bytes": return "(match %s with [] => false | _ => true end)" % self.expr(e)
        bad(e, "truthiness of type %s" % (t,))

    def pure_erased(self, e):
        """an expression whose value is dropped: it must not call anything"""
        for n in ast.walk(e):
            if isinstance(n, (ast.Call, ast.Await, ast.Yield, ast.YieldFrom, ast.NamedExpr, ast.Lambda, ast.ListComp, ast.GeneratorExp)):
                bad(e, "erased expression is not call-free")

    # ---------------- control
    def fall(self): return "(s__, a__, None)"

    def raise_to(self, x):
        if self.hstack: return "(%s s__ a__ %s)" % (self.hstack[-1], x)
        return "(s__, a__, Some %s)" % x

    def handler_term(self):
        return self.hstack[-1] if self.hstack else H0

    def target_obj(self, f):
        """f = <pump>.ATTR.meth  ->  (ATTR, meth) if ATTR is an object-valued attribute of the pump"""
        if isinstance(f, ast.Attribute) and isinstance(f.value, ast.Attribute):
            key = self.attr_key(f.value) if self._named(f.value) else None
            if key and key.startswith(self.prefix) and key[len(self.prefix):] in ATTRS and ATTRS[key[len(self.prefix):]][1] == OBJ:
                return key[len(self.prefix):], f.attr
        return None

    def _named(self, e):
        while isinstance(e, ast.Attribute): e = e.value
        return isinstance(e, ast.Name)

    def callee_of(self, f):
        """f = self._m or self.tls_protocol._m with _m a translated method of the pump"""
        if isinstance(f, ast.Attribute) and self._named(f):
            key = self.attr_key(f)
            pre = self.prefix
            if key.startswith(pre) and (PUMP, key[len(pre):]) in self.ctx["sigs"]: return key[len(pre):]
        return None

    def guarded(self, attr, body):
        return "(if %s then %s else %s)" % (ATTRS[attr][0], body, self.raise_to("AttributeError"))

    def args_for(self, call, kinds):
        if call.keywords or len(call.args) != len(kinds): bad(call, "argument list")
        out = []
        for a, k in zip(call.args, kinds):
            if k in ("bytes", "nat"):
                if self.typeof(a) != k: bad(a, "argument of type %s expected" % k)
                out.append(self.expr(a))
            elif k == "wrapper":
                if not (isinstance(a, ast.Name) and self.env.get(a.id) == "wrapper"): bad(a, "the wrapper object expected")
            elif k == "erased": self.pure_erased(a)
            else: bad(a, "argument kind")
        return "".join(" " + x for x in out)

    def obj_call(self, call, bind, nxt):
        """a method call on one of the object attributes; bind: name receiving the result (or None); nxt: thunk giving the rest"""
        attr, meth = self.target_obj(call.func)
        if attr == "tls_conn":
            if meth not in ORACLE: bad(call, "unknown method of the TLS connection")
            fn, kinds, ret, raises = ORACLE[meth]
            args = self.args_for(call, kinds)
            if bind is not None:
                if ret is None: bad(call, "no result to bind")
                self.env[bind] = ret
            if raises and ret is not None:
                body = "(match %s s__%s with (s__, inl %s) => %s | (s__, inr x__) => %s end)" % (fn, args, bind or "_", nxt(), self.raise_to("x__"))
            elif raises:
                body = "(match %s s__%s with (s__, None) => %s | (s__, Some x__) => %s end)" % (fn, args, nxt(), self.raise_to("x__"))
            elif ret is not None:
                body = "(let '(s__, %s) := %s s__%s in %s)" % (bind or "_", fn, args, nxt())
            else:
                body = "(let s__ := %s s__%s in %s)" % (fn, args, nxt())
            return self.guarded(attr, body)
        if bind is not None: bad(call, "result of this call cannot be bound")
        if attr == "transport":
            if meth == "write":
                return self.guarded(attr, "(let a__ := a__ ++ [PWrite%s] in %s)" % (self.args_for(call, ["bytes"]), nxt()))
            if meth == "close":
                self.args_for(call, [])
                return self.guarded(attr, "(let '(s__, b__) := tcp_close s__ in let a__ := a__ ++ b__ in %s)" % nxt())
            bad(call, "unknown method of the transport")
        if attr == "inner_protocol":
            if meth not in INNER: bad(call, "unknown method of the inner protocol")
            act, kind = INNER[meth]
            return self.guarded(attr, "(let a__ := a__ ++ [%s%s] in %s)" % (act, self.args_for(call, [kind]), nxt()))
        if attr == "_handshake_timer":
            if meth != "cancel": bad(call, "unknown method of the timer handle")
            self.args_for(call, [])
            return self.guarded(attr, "(let s__ := disarm_timer s__ in %s)" % nxt())
        bad(call, "object call")

    def callee_call(self, call, name, nxt):
        cls, params, kind = self.ctx["sigs"][(PUMP, name)]
        if kind != "proc": bad(call, "call of a query method")
        if call.keywords or len(call.args) != len(params): bad(call, "argument list of %s" % name)
        args = []
        for a, (p, t) in zip(call.args, params):
            if t in ERASED_TYPES or t == "log": self.pure_erased(a)
            else:
                if self.typeof(a) != t: bad(a, "argument of type %s expected" % t)
                args.append(self.expr(a))
        self.calls.append(name)
        return ("(let '(s__, b__, r__) := gen_%s fuel__ s__%s in let a__ := a__ ++ b__ in match r__ with Some x__ => %s | None => %s end)"
                % (name.strip("_"), "".join(" " + x for x in args), self.raise_to("x__"), nxt()))

    def log_only_attr(self, t):
        return isinstance(t, ast.Attribute) and self._named(t) and self.attr_key(t) in self.ctx["log_attrs"].get(self.cls, ())

    def value_of_attr_assign(self, key, val, s):
        """the Coq value and the effect prefix of `self.<key> = val`"""
        ty = ATTRS[key][1]
        if ty == "bool":
            if isinstance(val, ast.Constant) and isinstance(val.value, bool): return "", self.expr(val)
            if self.typeof(val) == "bool": return "", self.expr(val)
            bad(s, "boolean expected")
        if isinstance(val, ast.Constant) and val.value is None: return "", "false"
        if isinstance(val, ast.Name) and self.env.get(val.id) == "erased" and key == "transport": return "", "true"       # the transport handed to connection_made
        if isinstance(val, ast.Call):
            src = ast.unparse(val)
            if key == "tls_conn" and src == "SSL.Connection(self.ssl_context, None)": return "", "true"
            if key == "inner_protocol" and src == "self.inner_protocol_factory()": return "", "true"
            if key == "_handshake_timer" and isinstance(val.func, ast.Attribute) and val.func.attr == "call_later" and isinstance(val.func.value, ast.Name) \
               and self.env.get(val.func.value.id) == "loop" and not val.keywords and len(val.args) == 2 \
               and ast.unparse(val.args[0]) == TIMER_DELAY and ast.unparse(val.args[1]) == "self." + TIMER_CALLBACK and self.cls == PUMP:
                return "let s__ := arm_timer s__ in ", "true"
        bad(s, "value assigned to self.%s" % key)

    # ---------------- statements
    def block(self, stmts, k, kc=None):
        if not stmts: return k
        s, rest = stmts[0], stmts[1:]
        nxt = lambda: self.block(rest, k, kc)
        if ast.unparse(s) in SKIP and self.node.name == "_initialize_inner_protocol": return nxt()
        if isinstance(s, ast.Pass): return nxt()
        if isinstance(s, ast.Expr):
            v = s.value
            if isinstance(v, ast.Constant) and isinstance(v.value, str): return nxt()          # docstring
            if is_logger_call(v): return nxt()
            if isinstance(v, ast.Call):
                if self.target_obj(v.func): return self.obj_call(v, None, nxt)
                c = self.callee_of(v.func)
                if c: return self.callee_call(v, c, nxt)
            bad(s, "expression statement")
        if isinstance(s, ast.AnnAssign):
            if s.value is None: bad(s, "annotation without value")
            s = ast.Assign(targets=[s.target], value=s.value, lineno=s.lineno)
        if isinstance(s, ast.Assign):
            if len(s.targets) != 1: bad(s, "multiple targets")
            t, val = s.targets[0], s.value
            if isinstance(t, ast.Name):
                if isinstance(val, ast.Call):
                    src = ast.unparse(val)
                    if self.target_obj(val.func): return self.obj_call(val, t.id, nxt)
                    if src == "%s(self)" % WRAPPER and self.cls == PUMP: self.env[t.id] = "wrapper"; return nxt()
                    if src == "asyncio.get_running_loop()": self.env[t.id] = "loop"; return nxt()
                    bad(s, "call")
                ty = self.typeof(val)
                if ty not in ("bool", "bytes", "nat"): bad(s, "local of type %s" % (ty,))
                self.env[t.id] = ty
                return "(let %s := %s in %s)" % (t.id, self.expr(val), nxt())
            if isinstance(t, ast.Attribute) and self._named(t):
                key = self.attr_key(t)
                if key.startswith(self.prefix) and key[len(self.prefix):] in ATTRS:
                    pre, v = self.value_of_attr_assign(key[len(self.prefix):], val, s)
                    return "(%slet s__ := %s s__ %s in %s)" % (pre, ATTRS[key[len(self.prefix):]][2], v, nxt())
                if self.log_only_attr(t) or (self.node.name == "__init__" and key in self.ctx["ctor_attrs"].get(self.cls, ())):
                    if isinstance(val, ast.Call):
                        tg = self.target_obj(val.func)
                        if tg == ("transport", "get_extra_info") and len(val.args) == 1 and isinstance(val.args[0], ast.Constant) and not val.keywords:
                            return self.guarded("transport", nxt())
                        bad(s, "value of a log-only attribute")
                    self.pure_erased(val)
                    return nxt()
            bad(s, "assignment target")
        if isinstance(s, ast.Return):
            if self.in_loop: bad(s, "return inside a loop")
            if s.value is not None: bad(s, "return with a value")
            return self.fall()
        if isinstance(s, ast.Break):
            if self.kb is None: bad(s, "break outside a loop")
            return self.kb
        if isinstance(s, ast.Continue):
            if kc is None: bad(s, "continue outside a loop")
            return kc
        if isinstance(s, ast.If):
            env0 = dict(self.env)
            c = self.cond(s.test)
            after = nxt()
            env1 = dict(self.env)
            self.env = dict(env0); b1 = self.block(s.body, after, kc)
            self.env = dict(env0); b2 = self.block(s.orelse, after, kc)
            self.env = env1
            return "(if %s then %s else %s)" % (c, b1, b2)
        if isinstance(s, ast.Try):
            if s.orelse or s.finalbody or not s.handlers: bad(s, "try form")
            self.nk += 1
            kn, hn = "k__%d" % self.nk, "h__%d" % self.nk
            env0 = dict(self.env)
            after = nxt()
            env_after = dict(self.env)
            chain = self.raise_to("x__")
            for h in reversed(s.handlers):
                if h.type is None or ast.unparse(h.type) not in EXC_CLASSES: bad(h, "exception class")
                self.env = dict(env0)
                if h.name: self.env[h.name] = "exc"
                hb = self.block(h.body, "(%s s__ a__)" % kn, kc)
                chain = "(if exc_match %s x__ then %s else %s)" % (EXC_CLASSES[ast.unparse(h.type)], hb, chain)
            self.env = dict(env0)
            self.hstack.append(hn)
            body = self.block(s.body, "(%s s__ a__)" % kn, kc)
            self.hstack.pop()
            self.env = env_after
            return ("(let %s := (fun (s__ : pst) (a__ : list pact) => %s) in let %s := (fun (s__ : pst) (a__ : list pact) (x__ : exc) => %s) in %s)"
                    % (kn, after, hn, chain, body))
        if isinstance(s, ast.While):
            if s.orelse: bad(s, "while-else")
            env0 = dict(self.env)
            after = nxt()
            env_after = dict(self.env)
            self.nloops += 1
            name = "%s_loop%d" % (self.spec["name"], self.nloops)
            # free locals of the loop: non-erased variables of the enclosing scope that the loop mentions
            used = {n.id for n in ast.walk(s) if isinstance(n, ast.Name)}
            free = [(v, t) for v, t in env0.items() if v in used and t in ("bytes", "bool", "nat")]
            saved = (self.hstack, self.kb, self.in_loop)
            self.hstack, self.kb, self.in_loop = ["h__"], "(kb__ s__ a__)", True
            self.env = dict(env0)
            again = "(loop__ n'__ s__ a__)"
            body = self.block(s.body, again, again)
            if not (isinstance(s.test, ast.Constant) and s.test.value is True):
                self.env = dict(env0)
                body = "(if %s then %s else (kb__ s__ a__))" % (self.cond(s.test), body)
            self.hstack, self.kb, self.in_loop = saved
            self.env = env_after
            fp = "".join(" (%s : %s)" % (v, {"bytes": "str", "bool": "bool", "nat": "nat"}[t]) for v, t in free)
            self.loops.append("Definition %s (fuel__ : nat) (h__ : pst -> list pact -> exc -> pres) (kb__ : pst -> list pact -> pres)%s : nat -> pst -> list pact -> pres :=\n"
                               "  fix loop__ (n__ : nat) (s__ : pst) (a__ : list pact) {struct n__} : pres :=\n"
                               "  match n__ with\n  | O => h__ s__ a__ OutOfFuel\n  | S n'__ => %s\n  end.\n" % (name, fp, body))
            return "(%s fuel__ %s (fun (s__ : pst) (a__ : list pact) => %s)%s fuel__ s__ a__)" % (name, self.handler_term(), after, "".join(" " + v for v, _ in free))
        bad(s, "statement")

    # ---------------- a whole method
    def translate(self):
        cls, params, kind = self.ctx["sigs"][(self.cls, self.node.name)]
        for p, t in params: self.env[p] = t
        coq_params = "".join(" (%s : %s)" % (p, {"bytes": "str"}[t]) for p, t in params if t not in ERASED_TYPES and t != "log")
        if kind == "query":
            return "Definition %s (s__ : pst)%s : bool + exc :=\n  %s.\n" % (self.spec["name"], coq_params, self.query(self.node.body))
        body = self.block(self.node.body, self.fall())
        return "".join(self.loops) + "Definition %s (fuel__ : nat) (s__ : pst)%s : pres :=\n  let a__ : list pact := [] in\n  %s.\n" % (self.spec["name"], coq_params, body)

    def query(self, stmts):
        """a method `-> bool` that only reads: if / return of a boolean constant, a pure condition or a TRANSPORT getter"""
        if not stmts: bad(self.node, "query method can fall off its end")
        s, rest = stmts[0], stmts[1:]
        if isinstance(s, ast.Expr) and isinstance(s.value, ast.Constant) and isinstance(s.value.value, str): return self.query(rest)
        if isinstance(s, ast.If):
            tail = lambda b: self.query(b + rest)
            return "(if %s then %s else %s)" % (self.cond(s.test), tail(s.body), tail(s.orelse))
        if isinstance(s, ast.Return) and s.value is not None:
            v = s.value
            if isinstance(v, ast.Call) and self.target_obj(v.func) == ("transport", "is_closing") and not v.args and not v.keywords:
                return "(if (p_transport s__) then inl (p_closing s__) else inr AttributeError)"
            if isinstance(v, ast.Call): bad(s, "call in a query method")
            if self.typeof(v) != "bool": bad(s, "boolean result expected")
            return "(inl %s)" % self.expr(v)
        bad(s, "statement of a query method")

# ------------------------------------------------------------------ class-level analysis
def class_node(tree, name):
    for n in tree.body:
        if isinstance(n, ast.ClassDef) and n.name == name: return n
    raise Untranslatable("class %s not found" % name)

def signature(cls, fn, log_params):
    """(params, kind): the type of each parameter (from its annotation) and whether the method is a procedure or a query"""
    a = fn.args
    if a.vararg or a.kwarg or a.kwonlyargs or a.defaults or a.posonlyargs or not a.args or a.args[0].arg != "self":
        raise Untranslatable("%s.%s: parameter list" % (cls.name, fn.name))
    if fn.decorator_list or isinstance(fn, ast.AsyncFunctionDef): raise Untranslatable("%s.%s: decorated / async method" % (cls.name, fn.name))
    params = []
    for p in a.args[1:]:
        ann = ast.unparse(p.annotation) if p.annotation is not None else None
        if p.arg in log_params: t = "log"
        elif ann == "bytes": t = "bytes"
        elif ann in ERASED_ANN or (fn.name == "__init__"): t = "erased"
        else: raise Untranslatable("%s.%s: parameter %s of type %s" % (cls.name, fn.name, p.arg, ann))
        params.append((p.arg, t))
    ret = ast.unparse(fn.returns) if fn.returns is not None else None
    if ret == "None": kind = "proc"
    elif ret == "bool": kind = "query"
    else: raise Untranslatable("%s.%s: return annotation %s" % (cls.name, fn.name, ret))
    return params, kind

def log_only_params(fn):
    """parameters annotated `str` that are read only inside logger calls"""
    out = set()
    for p in fn.args.args[1:]:
        if p.annotation is not None and ast.unparse(p.annotation) == "str":
            if not loads_outside_logger(fn, lambda n, p=p: isinstance(n, ast.Name) and n.id == p.arg): out.add(p.arg)
    return out

def analyse(tree):
    ctx = {"sigs": {}, "log_attrs": {}, "ctor_attrs": {}}
    nodes = {}
    for n in tree.body:
        if isinstance(n, ast.ClassDef) and n.name not in (PUMP, WRAPPER, "_SSLObjectWrapper"): raise Untranslatable("unknown class %s" % n.name)
        if isinstance(n, (ast.FunctionDef, ast.AsyncFunctionDef)): raise Untranslatable("module-level function %s" % n.name)
    for cname in (PUMP, WRAPPER):
        cls = class_node(tree, cname)
        for b in cls.bases:
            if ast.unparse(b) != "asyncio.Protocol": raise Untranslatable("%s: base class %s" % (cname, ast.unparse(b)))
        meths = {n.name: n for n in cls.body if isinstance(n, (ast.FunctionDef, ast.AsyncFunctionDef))}
        # attributes assigned anywhere in the class that are not in ATTRS: log-only (read only in logger arguments), or
        # constructor arguments (assigned once, in __init__, from a parameter)
        pre = "self." if cname == PUMP else "self.tls_protocol."
        assigned = {}
        for m in meths.values():
            for n in ast.walk(m):
                if isinstance(n, ast.Attribute) and isinstance(n.ctx, ast.Store) and isinstance(n.value, ast.Name) and n.value.id == "self":
                    assigned.setdefault("self." + n.attr, []).append(m.name)
        logs, ctors = set(), set()
        for key, where in assigned.items():
            if cname == PUMP and key[5:] in ATTRS: continue
            reads = loads_outside_logger(cls, lambda n, key=key: isinstance(n, ast.Attribute) and isinstance(n.value, ast.Name) and n.value.id == "self" and "self." + n.attr == key)
            if not reads: logs.add(key)
            elif where == ["__init__"]: ctors.add(key)
            else: raise Untranslatable("%s: attribute %s is assigned outside __init__ and read outside logger calls, but has no ATTRS entry" % (cname, key))
        ctx["log_attrs"][cname], ctx["ctor_attrs"][cname] = logs, ctors
        for (c, m) in METHODS:
            if c != cname: continue
            if m not in meths: raise Untranslatable("method %s.%s not found" % (c, m))
            if cname == WRAPPER and m == "__init__": continue
            ctx["sigs"][(c, m)] = (cname,) + signature(cls, meths[m], log_only_params(meths[m]))
            nodes[(c, m)] = meths[m]
        # the class has exactly the methods of METHODS (plus the documented untranslated ones of the wrapper): a new
        # callback (eof_received, pause_writing, ...) or helper is outside the subset until it is listed
        for m in meths.values():
            if (cname, m.name) in nodes: continue
            if (cname, m.name) not in NOT_TRANSLATED: raise Untranslatable("%s.%s is not in METHODS" % (cname, m.name))
            for n in ast.walk(m):
                if isinstance(n, ast.Attribute) and isinstance(n.ctx, ast.Store) and ast.unparse(n).startswith(pre) and ast.unparse(n)[len(pre):] in ATTRS:
                    raise Untranslatable("%s.%s assigns %s but is not translated" % (cname, m.name, ast.unparse(n)))
                if isinstance(n, ast.Call) and isinstance(n.func, ast.Attribute) and isinstance(n.func.value, ast.Attribute) \
                   and ast.unparse(n.func.value).startswith(pre) and ast.unparse(n.func.value)[len(pre):] in ("tls_conn", "inner_protocol", "_handshake_timer"):
                    raise Untranslatable("%s.%s calls %s but is not translated" % (cname, m.name, ast.unparse(n.func)))
    # the wrapper reaches the pump through self.tls_protocol
    w = class_node(tree, WRAPPER)
    init = [n for n in w.body if isinstance(n, ast.FunctionDef) and n.name == "__init__"]
    if len(init) != 1 or "self.tls_protocol = tls_protocol" not in [ast.unparse(s) for s in init[0].body] or [a.arg for a in init[0].args.args] != ["self", "tls_protocol"]:
        raise Untranslatable("%s.__init__ does not store its argument in self.tls_protocol" % WRAPPER)
    for m in w.body:
        if isinstance(m, ast.FunctionDef) and m.name != "__init__":
            for n in ast.walk(m):
                if isinstance(n, ast.Attribute) and isinstance(n.ctx, ast.Store) and ast.unparse(n) == "self.tls_protocol":
                    raise Untranslatable("%s.%s re-assigns self.tls_protocol" % (WRAPPER, m.name))
    return ctx, nodes

def timeout_const(tree):
    for n in tree.body:
        if isinstance(n, ast.Assign) and len(n.targets) == 1 and isinstance(n.targets[0], ast.Name) and n.targets[0].id == TIMER_DELAY:
            if isinstance(n.value, ast.Constant) and isinstance(n.value.value, (int, float)) and not isinstance(n.value.value, bool):
                ms = n.value.value * 1000
                if ms == int(ms) and 0 < ms < 10**9: return int(ms)
            raise Untranslatable("%s is not a positive number of seconds (whole milliseconds)" % TIMER_DELAY)
    raise Untranslatable("%s not found" % TIMER_DELAY)

HEADER = """(* GENERATED by /verif/translate/py2coq_tls.py from /repo/src/nauyaca/server/tls_protocol.py - do not edit *)
From Coq Require Import List NArith Bool.
From NV Require Import Prelude.Str Model.TlsPump Equiv.TlsGlue.
Import ListNotations.
Open Scope list_scope.

"""

# which translated method is which asyncio callback (the loop's side is TlsGlue.loop_step / loop_run)
DISPATCH = """(* the protocol's callbacks as asyncio dispatches them: data_received, the call_later callback, connection_lost *)
Definition gen_step (fuel__ : nat) : pst -> pevent -> pres :=
  loop_step (gen_data_received fuel__) (gen_%(timer)s fuel__) (gen_connection_lost fuel__).
Definition gen_run (fuel__ : nat) : pst -> list pevent -> pres :=
  loop_run (gen_data_received fuel__) (gen_%(timer)s fuel__) (gen_connection_lost fuel__).
"""

def main(out_path):
    tree = ast.parse(open(os.path.join(SRC, FILE)).read())
    ctx, nodes = analyse(tree)
    defs, graph = {}, {}
    for (c, m), node in nodes.items():
        fn = TlsFn(c, copy.deepcopy(node), ctx)
        if c == WRAPPER: fn.spec["name"] = "gen_wrapper_" + m.strip("_")
        if m == "__init__": fn.spec["name"] = "gen_init"
        try:
            defs[(c, m)] = fn.translate()
        except Untranslatable as e:
            raise Untranslatable("%s:%s.%s: %s" % (FILE, c, m, e))
        graph[(c, m)] = [(PUMP, x) for x in fn.calls]
    # definitions in dependency order; a cycle in the call graph is outside the subset
    order, state = [], {}
    def visit(k, stack=()):
        if state.get(k) == "done": return
        if k in stack: raise Untranslatable("recursive call cycle through %s.%s" % k)
        for d in graph[k]: visit(d, stack + (k,))
        state[k] = "done"; order.append(k)
    for k in nodes: visit(k)
    chunks = [HEADER, "Definition gen_handshake_timeout_ms : N := %d%%N.\n\n" % timeout_const(tree)]
    for k in order: chunks += [defs[k], "\n"]
    for need in ("data_received", TIMER_CALLBACK, "connection_lost"):
        if (PUMP, need) not in nodes: raise Untranslatable("callback %s is not translated" % need)
    chunks.append(DISPATCH % {"timer": TIMER_CALLBACK.strip("_")})
    open(out_path, "w").write("".join(chunks))
    print("py2coq_tls: %d methods translated" % len(order))

if __name__ == "__main__":
    try:
        main(sys.argv[1] if len(sys.argv) > 1 else os.path.join(os.path.dirname(os.path.dirname(os.path.abspath(__file__))), "coq", "Gen", "TlsGen.v"))
    except Untranslatable as e:
        print("UNTRANSLATABLE:", e); sys.exit(2)
