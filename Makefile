setup:
	@echo setup placeholder
