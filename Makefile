# Build of the hand-written Coq development, extraction and the OCaml model runner.
ROOT := $(patsubst %/,%,$(dir $(abspath $(lastword $(MAKEFILE_LIST)))))
COQDIR=$(ROOT)/coq
OCDIR=$(ROOT)/ocaml
.PHONY: setup coq extract clean forbidden
setup: coq extract forbidden
coq:
	mkdir -p $(COQDIR)/Gen && python3 $(ROOT)/translate/tlsconf.py $(COQDIR)/Gen/TlsConfigGen.v
	cd $(COQDIR) && coq_makefile -f _CoqProject -o Makefile.coq >/dev/null && timeout 3000 $(MAKE) -f Makefile.coq -j16 > build.log 2>&1 || (tail -40 build.log; exit 1)
extract: coq
	mkdir -p $(OCDIR)/gen && cd $(OCDIR)/gen && timeout 600 coqc -Q $(COQDIR) NV $(COQDIR)/Extract/Extract.v > extract.log 2>&1 || (cat extract.log; exit 1)
	cd $(OCDIR) && ocamlfind ocamlopt -O3 -package str -I gen gen/model.mli gen/model.ml modelrun.ml -o modelrun 2>&1 | grep -v "options -O3 is only relevant" || true
	test -x $(OCDIR)/modelrun
forbidden:
	@python3 $(ROOT)/tools/forbidden.py $(COQDIR)
clean:
	cd $(COQDIR) && (test -f Makefile.coq && $(MAKE) -f Makefile.coq clean >/dev/null 2>&1 || true); rm -rf $(OCDIR)/gen $(OCDIR)/modelrun $(OCDIR)/*.cm* $(OCDIR)/*.o
