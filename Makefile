# Build of the hand-written Coq development, extraction and the OCaml model runner.
ROOT := $(patsubst %/,%,$(dir $(abspath $(lastword $(MAKEFILE_LIST)))))
COQDIR=$(ROOT)/coq
OCDIR=$(ROOT)/ocaml
.PHONY: setup coq extract clean forbidden
setup: coq extract forbidden
# Files that depend on definitions regenerated from /repo's source (coq/Gen, see translate/chains.json): they are rebuilt
# from scratch and a failure there does not stop the build - the property checks compile their Props file themselves
# and report it.
GENDEP=$(shell python3 $(ROOT)/tools/gen_all.py --gendep)
coq:
	python3 $(ROOT)/tools/gen_all.py
	cd $(COQDIR) && rm -f $(addsuffix .vo,$(GENDEP)) $(addsuffix .glob,$(GENDEP)) $(addsuffix .vos,$(GENDEP)) $(addsuffix .vok,$(GENDEP))
	cd $(COQDIR) && coq_makefile -f _CoqProject -o Makefile.coq >/dev/null && timeout 3000 $(MAKE) -f Makefile.coq -j16 Extract/Dispatch.vo $$(python3 $(ROOT)/tools/gen_all.py --gendep | tr ' ' '\n' | sed 's/$$/.v/' > .gendep.txt; grep -E '^(Proofs|Spec|Model|Prelude|Equiv)/' _CoqProject | grep -v -x -F -f .gendep.txt | sed 's/\.v$$/.vo/') > build.log 2>&1 || (tail -40 build.log; exit 1)
	cd $(COQDIR) && (timeout 3000 $(MAKE) -k -f Makefile.coq -j16 > build2.log 2>&1 || (echo "note: some source-dependent files did not compile (see coq/build2.log); the property checks will report them"; grep -B2 -A12 "Error" build2.log | head -60; true))
extract: coq
	mkdir -p $(OCDIR)/gen && cd $(OCDIR)/gen && timeout 600 coqc -Q $(COQDIR) NV $(COQDIR)/Extract/Extract.v > extract.log 2>&1 || (cat extract.log; exit 1)
	cd $(OCDIR) && ocamlfind ocamlopt -O3 -package str -I gen gen/model.mli gen/model.ml modelrun.ml -o modelrun 2>&1 | grep -v "options -O3 is only relevant" || true
	test -x $(OCDIR)/modelrun
forbidden:
	@python3 $(ROOT)/tools/forbidden.py $(COQDIR)
clean:
	cd $(COQDIR) && (test -f Makefile.coq && $(MAKE) -f Makefile.coq clean >/dev/null 2>&1 || true); rm -rf $(OCDIR)/gen $(OCDIR)/modelrun $(OCDIR)/*.cm* $(OCDIR)/*.o
