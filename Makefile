# Build of the hand-written Coq development, extraction and the OCaml model runner.
ROOT := $(patsubst %/,%,$(dir $(abspath $(lastword $(MAKEFILE_LIST)))))
COQDIR=$(ROOT)/coq
OCDIR=$(ROOT)/ocaml
.PHONY: setup coq extract clean forbidden
setup: coq extract forbidden
# Files that depend on definitions regenerated from /repo's source (coq/Gen): they are rebuilt from scratch and a
# failure there does not stop the build - the property checks compile their Props file themselves and report it.
GENDEP=Gen/TlsConfigGen Gen/PyGen Proofs/Equiv_proofs Equiv/Equiv Gen/ServerGen Proofs/EquivServer_proofs Equiv/EquivServer $(patsubst %,Props/C%,01 02 03 04 05 06 07 08 09 10 11 12 13 14 15 16 17 18 19 20)
coq:
	mkdir -p $(COQDIR)/Gen && python3 $(ROOT)/translate/tlsconf.py $(COQDIR)/Gen/TlsConfigGen.v
	python3 $(ROOT)/translate/py2coq.py $(COQDIR)/Gen/PyGen.v
	python3 $(ROOT)/translate/py2coq_server.py $(COQDIR)/Gen/ServerGen.v
	cd $(COQDIR) && rm -f $(addsuffix .vo,$(GENDEP)) $(addsuffix .glob,$(GENDEP)) $(addsuffix .vos,$(GENDEP)) $(addsuffix .vok,$(GENDEP))
	cd $(COQDIR) && coq_makefile -f _CoqProject -o Makefile.coq >/dev/null && timeout 3000 $(MAKE) -f Makefile.coq -j16 Extract/Dispatch.vo $$(grep -E '^(Proofs|Spec|Model|Prelude)/|^Equiv/.*Glue' _CoqProject | grep -v 'Equiv.*_proofs' | sed 's/\.v$$/.vo/') > build.log 2>&1 || (tail -40 build.log; exit 1)
	cd $(COQDIR) && (timeout 3000 $(MAKE) -k -f Makefile.coq -j16 > build2.log 2>&1 || (echo "note: some source-dependent files did not compile (see coq/build2.log); the property checks will report them"; grep -B2 -A12 "Error" build2.log | head -60; true))
extract: coq
	mkdir -p $(OCDIR)/gen && cd $(OCDIR)/gen && timeout 600 coqc -Q $(COQDIR) NV $(COQDIR)/Extract/Extract.v > extract.log 2>&1 || (cat extract.log; exit 1)
	cd $(OCDIR) && ocamlfind ocamlopt -O3 -package str -I gen gen/model.mli gen/model.ml modelrun.ml -o modelrun 2>&1 | grep -v "options -O3 is only relevant" || true
	test -x $(OCDIR)/modelrun
forbidden:
	@python3 $(ROOT)/tools/forbidden.py $(COQDIR)
clean:
	cd $(COQDIR) && (test -f Makefile.coq && $(MAKE) -f Makefile.coq clean >/dev/null 2>&1 || true); rm -rf $(OCDIR)/gen $(OCDIR)/modelrun $(OCDIR)/*.cm* $(OCDIR)/*.o
