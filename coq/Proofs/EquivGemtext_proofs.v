(* Proofs of the Gen = Model lemmas stated in Equiv/EquivGemtext.v.
   Gen/GemtextGen.v is regenerated on every run by translate/py2coq_gemtext.py: the scripts below never mention a
   generated local name.  They unfold the generated function, replace the library record by its instance over the
   filesystem model, follow the MODEL's case analysis and close every leaf by computation. *)
From Coq Require Import List NArith ZArith Bool Lia.
From NV Require Import Prelude.Str Prelude.Res Model.Fs Model.Static Model.Listing.
From NV Require Import Equiv.GemtextGlue Gen.GemtextGen.
Import ListNotations.
Open Scope list_scope.

(* ---------- numbers ---------- *)
Lemma num_ltb_int a b : num_ltb (NInt a) (NInt b) = (a <? b)%N.
Proof. unfold num_ltb. cbn [num_exact]. rewrite N.pow_0_r, !N.mul_1_r. reflexivity. Qed.
Lemma num_ltb_flt_int m e c : num_ltb (NFlt m e) (NInt c) = (m <? c * 2 ^ e)%N.
Proof. unfold num_ltb. cbn [num_exact]. rewrite N.pow_0_r, N.mul_1_r. reflexivity. Qed.
Lemma div_int n k : num_div_pow2 (NInt n) k = NFlt (round53 n) k.
Proof. reflexivity. Qed.
Lemma div_flt m e k : num_div_pow2 (NFlt m e) k = NFlt m (e + k).
Proof. reflexivity. Qed.
Lemma rhe_0 m : rhe m 0 = m.
Proof.
  unfold rhe. cbv zeta. rewrite N.shiftr_0_r, !N.shiftl_0_r, N.sub_diag, N.mul_0_r. reflexivity.
Qed.
Lemma round53_small n : (n <? 1024)%N = true -> round53 n = n.
Proof.
  intro H. apply N.ltb_lt in H. unfold round53.
  assert (E : (n <? 2 ^ 53)%N = true).
  { apply N.ltb_lt. eapply N.lt_trans; [exact H|]. apply N.ltb_lt. vm_compute. reflexivity. }
  rewrite E. reflexivity.
Qed.

Ltac lit_eqb := repeat match goal with
  | |- context [eqb (lit ?a) (lit ?b)] =>
      let v := eval vm_compute in (eqb (lit a) (lit b)) in change (eqb (lit a) (lit b)) with v
  end.

(* ---------- _format_file_size ---------- *)
Ltac cmp_atoms := repeat match goal with |- context [(?a <? ?b)%N] => destruct (a <? b)%N end.
Lemma format_file_size_tie : forall n, gen_format_file_size n = Ok (format_file_size n).
Proof.
  intro n. unfold gen_format_file_size, format_file_size.
  cbv beta iota zeta fix. lit_eqb.
  rewrite ?div_int, ?div_flt, ?num_ltb_int, ?num_ltb_flt_int.
  destruct (n <? 1024)%N eqn:E0.
  - unfold fmt_f0, fmt_f1, num_flt, f0. rewrite ?(round53_small _ E0), ?rhe_0.
    cmp_atoms; cbn [negb orb andb]; reflexivity.
  - set (m := round53 n).
    change (1024 * 2 ^ 10)%N with (2 ^ 20)%N.
    change (1024 * 2 ^ (10 + 10))%N with (2 ^ 30)%N. change (1024 * 2 ^ (10 + 10 + 10))%N with (2 ^ 40)%N.
    change (10 + 10 + 10 + 10)%N with 40%N. change (10 + 10 + 10)%N with 30%N. change (10 + 10)%N with 20%N.
    unfold fmt_f0, fmt_f1, num_flt.
    cmp_atoms; cbn [negb orb andb]; reflexivity.
Qed.

(* ---------- sorted(xs, key=...) with a key function that cannot fail ---------- *)
Lemma map_res_total {A B} (k : A -> B) xs : map_res (fun x => Ok (k x)) xs = Ok (map k xs).
Proof. induction xs as [|x r IH]; cbn [map_res map]; [reflexivity|]. rewrite IH. reflexivity. Qed.
Lemma combine_map {A K} (k : A -> K) xs : combine (map k xs) xs = map (fun x => (k x, x)) xs.
Proof. induction xs as [|x r IH]; cbn; [reflexivity|]. rewrite IH. reflexivity. Qed.
Lemma sorted_by_key_total {A K} (leb : K -> K -> bool) (k : A -> K) xs :
  sorted_by_key leb (fun x => Ok (k x)) xs = Ok (map snd (sort_by leb (map (fun x => (k x, x)) xs))).
Proof. unfold sorted_by_key. rewrite map_res_total, combine_map. reflexivity. Qed.

Lemma insert_by_map {A B K} (leb : K -> K -> bool) (h : A -> B) (x : K * A) l :
  map (fun p => (fst p, h (snd p))) (insert_by leb x l) = insert_by leb (fst x, h (snd x)) (map (fun p => (fst p, h (snd p))) l).
Proof.
  induction l as [|y r IH]; cbn [insert_by map fst snd]; [reflexivity|].
  destruct (leb (fst x) (fst y)); cbn [map fst snd]; [reflexivity|]. rewrite IH. reflexivity.
Qed.
Lemma sort_by_map {A B K} (leb : K -> K -> bool) (h : A -> B) (kA : A -> K) (kB : B -> K) :
  (forall x, kB (h x) = kA x) -> forall xs,
  map (fun p => (fst p, h (snd p))) (sort_by leb (map (fun x => (kA x, x)) xs)) = sort_by leb (map (fun y => (kB y, y)) (map h xs)).
Proof.
  intros H xs. induction xs as [|x r IH]; cbn [map sort_by]; [reflexivity|].
  rewrite insert_by_map, IH. cbn [fst snd]. rewrite H. reflexivity.
Qed.
Lemma sorted_map {A B K} (leb : K -> K -> bool) (h : A -> B) (kA : A -> K) (kB : B -> K) :
  (forall x, kB (h x) = kA x) -> forall xs,
  map snd (sort_by leb (map (fun y => (kB y, y)) (map h xs))) = map h (map snd (sort_by leb (map (fun x => (kA x, x)) xs))).
Proof.
  intros H xs. rewrite <- (sort_by_map leb h kA kB H). rewrite !map_map. reflexivity.
Qed.

(* ---------- generate_directory_listing ---------- *)
Lemma path_name_snoc d n : path_name (d ++ [n]) = n.
Proof. unfold path_name. rewrite rev_app_distr. reflexivity. Qed.

(* what the listing looks at in an entry, as a function of its path *)
Definition view_of (f : fs) (p : path) : str * ent := (path_name p, ent_of (kstat f p)).
Lemma entries_view_paths f d :
  map (fun ch => (fst ch, ent_of (kstat f (d ++ [fst ch])))) (children f d)
  = map (view_of f) (map (fun ch => d ++ [fst ch]) (children f d)).
Proof. rewrite map_map. apply map_ext. intro ch. unfold view_of. rewrite path_name_snoc. reflexivity. Qed.
Lemma key_of_view f p :
  key_of (view_of f p) = (negb (match kstat f p with Some Dir => true | _ => false end), path_name p).
Proof. unfold key_of, view_of. cbn [fst snd]. destruct (kstat f p) as [[c| |t]|]; reflexivity. Qed.

Lemma ensure_slash_if s : (if negb (suffixb (lit "/") s) then s ++ lit "/" else s) = ensure_slash s.
Proof. unfold ensure_slash, ends_with_slash. change (lit "/") with [ch_slash]. destruct (suffixb _ s); reflexivity. Qed.
Lemma ensure_slash_if' s : (if suffixb (lit "/") s then s else s ++ lit "/") = ensure_slash s.
Proof. reflexivity. Qed.

Lemma norm_exc_if (c : bool) x y : norm_exc (if c then x else y) = if c then norm_exc x else norm_exc y.
Proof. destruct c; reflexivity. Qed.

Lemma listing_tie : forall f d base,
  norm_exc (gen_generate_directory_listing model_gemlib f d base) = lift (listing_text format_file_size f d base).
Proof.
  intros f d base. unfold gen_generate_directory_listing, listing_text, entries_view, render.
  cbn [model_gemlib gl_is_dir gl_iterdir gl_st_size]. unfold mg_is_dir, mg_iterdir.
  cbv beta iota zeta. rewrite ?ensure_slash_if, ?ensure_slash_if'.
  generalize (ensure_slash base). intro B.
  unfold head_lines. change (eqb B [ch_slash]) with (eqb B (lit "/")).
  destruct (lstat f d) as [[c| |tg]|] eqn:El.
  - unfold kstat. rewrite El. reflexivity.
  - assert (Ef : kstat f d = Some Dir) by (unfold kstat; rewrite El; reflexivity).
    rewrite Ef. cbv beta iota. cbn [negb]. cbv iota.
    rewrite sorted_by_key_total. cbv beta iota.
    rewrite entries_view_paths. unfold sorted_entries.
    change (pair_leb bool_leb str_leb) with key_leb.
    rewrite (sorted_map key_leb (view_of f) _ key_of (key_of_view f)). cbv beta.
    match goal with |- context [map (view_of f) ?l] => generalize l end. intro items.
    match goal with |- context [?F items ?b] =>
      assert (LOOP : forall l lines, norm_exc (F l lines) =
                match entry_lines format_file_size B (map (view_of f) l) with
                | Some lns => Ok (join_lf (lines ++ lns)) | None => Err [] [] end)
    end.
    { induction l as [|x l IH]; intro lines;
        [ cbn [map entry_lines]; rewrite app_nil_r; reflexivity | ].
      cbn [map entry_lines]. unfold view_of at 1. unfold entry_line, mg_st_size. cbn [fst snd].
      destruct (kstat f x) as [[c| |t]|]; cbn [ent_of]; cbv beta iota; cbn [negb]; cbv beta iota;
        rewrite ?format_file_size_tie; cbv beta iota; rewrite ?IH; try reflexivity;
        (destruct (entry_lines _ _ _); [rewrite <- app_assoc; reflexivity | reflexivity]). }
    rewrite norm_exc_if, LOOP. clear LOOP.
    destruct items as [|it rest]; [destruct (eqb B (lit "/")); reflexivity|].
    cbn [negb map]. cbv iota.
    destruct (eqb B (lit "/")); cbn [negb]; cbv iota;
      (destruct (entry_lines _ _ _); reflexivity).
  - match goal with |- norm_exc (if ?c then _ else _) = _ => destruct c end; reflexivity.
  - unfold kstat. rewrite El. reflexivity.
Qed.

(* the generated function never leaves the model: OutOfModel (the size of a directory) is not reachable, because
   is_dir() has answered False before stat() is called *)
Lemma listing_in_model : forall f d base, gen_generate_directory_listing model_gemlib f d base <> OutOfModel.
Proof.
  intros f d base H.
  pose proof (listing_tie f d base) as T. rewrite H in T. cbn [norm_exc] in T.
  destruct (listing_text format_file_size f d base); discriminate.
Qed.

(* ---------- the call site: StaticFileHandler.handle (translated by py2coq_static.py) ---------- *)
From NV Require Import Prelude.Utf8 Model.CertAuth Proofs.Fs_proofs Proofs.C02_listing.
From NV Require Equiv.StaticGlue Gen.StaticGen Proofs.EquivStatic_proofs.

(* the reading of generate_directory_listing in the static handler's library record (StaticGlue.m_listing: the abstract
   body `GListing d base`, or an exception) is the generated function, on a real directory *)
Lemma static_listing_tie : forall f d base, lstat f d = Some Dir ->
  StaticGlue.m_listing f d base =
  match gen_generate_directory_listing model_gemlib f d base with
  | Ok _ => Ok (StaticGlue.GListing d base)
  | Err _ _ => Err StaticGlue.e_os (lit "stat")
  | OutOfModel => OutOfModel
  end.
Proof.
  intros f d base Hd. pose proof (listing_tie f d base) as T.
  pose proof (listing_text_None format_file_size f d base Hd) as N.
  unfold StaticGlue.m_listing.
  destruct (listing_text format_file_size f d base) as [t|].
  - destruct (has_broken f d); [destruct N as [_ N]; specialize (N eq_refl); discriminate|].
    destruct (gen_generate_directory_listing model_gemlib f d base); try discriminate. reflexivity.
  - destruct N as [N _]. rewrite (N eq_refl).
    destruct (gen_generate_directory_listing model_gemlib f d base); try discriminate. reflexivity.
Qed.

(* a listing response of the generated handle(): the directory d of the model's outcome and the REQUEST PATH are what
   the generated generate_directory_listing is applied to, and its text is the model's listing_text *)
Lemma handle_listing_tie : forall flt tok c f url d,
  handle c f url = OListing d ->
  StaticGlue.norm_resp (StaticGen.gen_handle (StaticGlue.model_lib flt tok) c f url)
    = Ok (StaticGlue.mk_gresp 20 (lit "text/gemini") (StaticGlue.GListing d url)) /\
  exists t, gen_generate_directory_listing model_gemlib f d url = Ok t /\
            listing_text format_file_size f d url = Some t.
Proof.
  intros flt tok c f url d H. split.
  - rewrite EquivStatic_proofs.handle_tie, H. reflexivity.
  - destruct (handle_listing_text format_file_size c f url d H) as [t Ht]. exists t. split; [|assumption].
    pose proof (listing_tie f d url) as T. rewrite Ht in T.
    destruct (gen_generate_directory_listing model_gemlib f d url); try discriminate. cbn in T. congruence.
Qed.
