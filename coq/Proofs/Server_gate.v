(* C04 gate: invocations only in the step where a consulted chain allows; consultations carry
   the peer address, fingerprint and the normalised URL of the request actually sent. *)
From Coq Require Import List NArith ZArith Bool Lia ZifyBool ZifyN ZifyNat.
From NV Require Import Prelude.Str Prelude.Res Prelude.Utf8 Model.Url Model.Titan Model.ServerProto Spec.ServerTrace.
From NV Require Spec.C04.
From NV Require Import Proofs.Server_inv Proofs.Server_basic Proofs.Server_p1 Proofs.Server_bytes Proofs.Server_stream.
Import ListNotations.
Set Default Proof Using "Type".

Definition amw_ids (a : list action) : list nat :=
  flat_map (fun a => match a with AMw i _ _ _ => [i] | _ => [] end) a.
Definition is_amw (a : action) : bool := match a with AMw _ _ _ _ => true | _ => false end.

Lemma resp_acts_amw r : existsb is_amw (resp_acts r) = false.
Proof. unfold resp_acts, body_acts. destruct (snd (serialize r)); reflexivity. Qed.
Lemma send_amw s r : existsb is_amw (snd (send_response s r)) = false.
Proof. rewrite send_response_eq. destruct (muted s); cbn [snd]; [reflexivity|apply resp_acts_amw]. Qed.

Lemma take_task_In id p k rest : take_task id p = (Some k, rest) -> In (id, k) p.
Proof.
  revert rest; induction p as [|[i k'] p IH]; cbn; intros rest H; [discriminate|].
  destruct (Nat.eqb i id) eqn:E.
  - apply Nat.eqb_eq in E. inversion H; subst. left; reflexivity.
  - destruct (take_task id p) as [r q]. inversion H; subst. right. eapply IH. reflexivity.
Qed.

Lemma ostr_eqb_refl o : Spec.C04.ostr_eqb o o = true.
Proof. destruct o; cbn; [apply eqb_refl|reflexivity]. Qed.

Lemma existsb_eqb_In i l : In i l -> existsb (Nat.eqb i) l = true.
Proof. intro H. apply existsb_exists. exists i. split; [assumption|apply Nat.eqb_refl]. Qed.

Section Proto.
Variable ip6 : str -> option str.
Variable handler : str -> hres.
Variable has_mw has_upload : bool.
Variable up_call_fails : option str.
Variable peer_ip : str.
Variable peer_fp : option str.

Notation route := (route handler).
Notation handle_gemini := (handle_gemini ip6 handler has_mw peer_ip peer_fp).
Notation start_upload := (start_upload has_upload up_call_fails).
Notation process_titan_upload := (process_titan_upload has_mw has_upload up_call_fails peer_ip peer_fp).
Notation handle_titan_url := (handle_titan_url ip6 has_mw has_upload up_call_fails peer_ip peer_fp).
Notation data_received := (data_received ip6 handler has_mw has_upload up_call_fails peer_ip peer_fp).
Notation feed := (feed ip6 handler has_mw has_upload up_call_fails peer_ip peer_fp).
Notation task_done := (task_done handler has_upload up_call_fails).
Notation step := (step ip6 handler has_mw has_upload up_call_fails peer_ip peer_fp).
Notation run := (run ip6 handler has_mw has_upload up_call_fails peer_ip peer_fp).
Notation final := (final ip6 handler has_mw has_upload up_call_fails peer_ip peer_fp).
Notation Inv := (Inv has_upload).
Notation Fed := (Fed ip6 has_upload).
Notation expected_url := (Spec.C04.expected_url ip6).

(* ---------- which actions are consultations ---------- *)
Definition AmwOK (P : str -> Prop) (a : list action) : Prop :=
  forall i u ip fp, In (AMw i u ip fp) a -> ip = peer_ip /\ fp = peer_fp /\ P u.

Lemma AmwOK_none P a : existsb is_amw a = false -> AmwOK P a.
Proof.
  intros H i u ip fp HIn. exfalso.
  assert (existsb is_amw a = true) by (apply existsb_exists; exists (AMw i u ip fp); auto).
  congruence.
Qed.
Lemma AmwOK_app P a b : AmwOK P a -> AmwOK P b -> AmwOK P (a ++ b).
Proof. intros Ha Hb i u ip fp H. apply in_app_or in H as [H|H]; eauto. Qed.
Lemma AmwOK_weaken (P Q : str -> Prop) a : (forall u, P u -> Q u) -> AmwOK P a -> AmwOK Q a.
Proof. intros PQ H i u ip fp HIn. destruct (H i u ip fp HIn) as [H1 [H2 H3]]. auto. Qed.

Lemma route_amw s line : existsb is_amw (snd (route s line)) = false.
Proof.
  unfold ServerProto.route. destruct (handler line).
  - pose proof (send_amw s r). destruct (send_response s r); assumption.
  - rewrite send_error_eq. pose proof (send_amw s (err_resp 40 (lit "Server error: " ++ msg))).
    destruct (send_response s _); assumption.
  - rewrite spawn_let. reflexivity.
Qed.
Lemma start_upload_amw s : existsb is_amw (snd (start_upload s)) = false.
Proof.
  unfold ServerProto.start_upload. destruct (titan s); [|reflexivity].
  destruct has_upload; [|reflexivity]. destruct up_call_fails as [msg|].
  - rewrite upload_failed_eq. pose proof (send_amw s (err_resp 40 (lit "Upload error: " ++ msg))).
    destruct (send_response s _); assumption.
  - rewrite spawn_let. reflexivity.
Qed.
Lemma task_done_amw s id o : existsb is_amw (snd (task_done s id o)) = false.
Proof.
  unfold ServerProto.task_done. destruct (take_task id (pending s)) as [[k|] rest]; [|reflexivity].
  destruct k; destruct o as [r|m|[|] text|]; norm_err;
    first [apply send_amw | apply route_amw | apply start_upload_amw].
Qed.

Lemma amw_handle_gemini s line :
  AmwOK (fun u => exists p, gemini_from_line ip6 line = Ok p /\ u = p_norm p) (snd (handle_gemini s line)).
Proof.
  unfold ServerProto.handle_gemini. destruct (gemini_from_line ip6 line) as [p|k m|].
  - destruct has_mw; [|apply AmwOK_none, route_amw]. rewrite spawn_let. cbn [snd].
    intros i u ip fp [H|[]]. inversion H; subst. split; [reflexivity|]. split; [reflexivity|].
    exists p. auto.
  - rewrite send_error_eq. apply AmwOK_none, send_amw.
  - apply AmwOK_none. reflexivity.
Qed.

Lemma amw_ptu s :
  AmwOK (fun u => exists t, titan s = Some t /\ u = titan_normalized t) (snd (process_titan_upload s)).
Proof.
  unfold ServerProto.process_titan_upload. cbn [titan set_await]. destruct (titan s) as [t|].
  - destruct (negb has_upload); [rewrite send_error_eq; apply AmwOK_none, send_amw|].
    destruct has_mw; [|apply AmwOK_none, start_upload_amw]. rewrite spawn_let. cbn [snd].
    intros i u ip fp [H|[]]. inversion H; subst. split; [reflexivity|]. split; [reflexivity|].
    exists t. auto.
  - rewrite send_error_eq; apply AmwOK_none, send_amw.
Qed.

Lemma amw_htu s line :
  AmwOK (fun u => exists t, titan_from_line ip6 line = Ok t /\ u = titan_normalized t)
        (snd (handle_titan_url s line)).
Proof.
  unfold ServerProto.handle_titan_url.
  destruct (negb has_upload); [rewrite send_error_eq; apply AmwOK_none, send_amw|].
  destruct (titan_from_line ip6 line) as [t|k m|].
  - assert (K : forall x, titan x = Some t ->
                AmwOK (fun u => exists t0, Ok t = Ok t0 /\ u = titan_normalized t0) (snd (process_titan_upload x))).
    { intros x Hx. eapply AmwOK_weaken; [|apply amw_ptu]. cbn. intros u [t0 [H1 H2]].
      exists t0. split; [congruence|assumption]. }
    destruct (N.eqb (t_size t) 0).
    + apply K. rewrite cancel_timer_eq. reflexivity.
    + destruct (N.leb _ _); [|apply AmwOK_none; reflexivity].
      apply K. cbn [titan set_content]. rewrite cancel_timer_eq. reflexivity.
  - rewrite send_error_eq; apply AmwOK_none, send_amw.
  - apply AmwOK_none. reflexivity.
Qed.

Lemma expected_gemini B u rest p : request_line B = LLine u rest -> prefixb titan_prefix u = false ->
  gemini_from_line ip6 u = Ok p -> expected_url B = Some (p_norm p).
Proof. intros R P G. unfold Spec.C04.expected_url. rewrite R, P, G. reflexivity. Qed.
Lemma expected_titan B u rest t : request_line B = LLine u rest -> prefixb titan_prefix u = true ->
  titan_from_line ip6 u = Ok t -> expected_url B = Some (titan_normalized t).
Proof. intros R P G. unfold Spec.C04.expected_url. rewrite R, P, G. reflexivity. Qed.

Lemma amw_data_received s d D : Inv s -> Fed s D ->
  AmwOK (fun u => forall more, expected_url ((D ++ d) ++ more) = Some u) (snd (data_received s d)).
Proof.
  intros I [FA FB]. destruct (line_rcvd s) eqn:L.
  - destruct (await_titan s) eqn:A.
    + destruct (FB eq_refl eq_refl) as [u [t [R [P [Et [Ts [U Sz]]]]]]].
      unfold ServerProto.data_received. cbn [buf line_rcvd await_titan titan set_buf]. rewrite L, A, Ts. cbn [negb].
      destruct (N.leb (t_size t) (N.of_nat (length (buf s ++ d)))); [|apply AmwOK_none; reflexivity].
      eapply AmwOK_weaken; [|apply amw_ptu]. cbn [titan set_content]. rewrite cancel_timer_eq. cbn [titan set_timer set_buf].
      intros x [t0 [H1 H2]] more. rewrite Ts in H1. inversion H1; subst.
      apply (expected_titan _ u (buf s ++ d ++ more)); auto.
      rewrite <- app_assoc. rewrite (request_line_line_ext _ (d ++ more) _ _ R). reflexivity.
    + rewrite (trailing_ignored_gen ip6 handler has_mw has_upload up_call_fails peer_ip peer_fp s d L A).
      apply AmwOK_none. reflexivity.
  - destruct (FA eq_refl) as [B RL].
    destruct (request_line (D ++ d)) as [| | |u rest] eqn:R.
    + rewrite (dr_A_none ip6 handler has_mw has_upload up_call_fails peer_ip peer_fp s d L) by (rewrite B; exact R).
      apply AmwOK_none. reflexivity.
    + rewrite (dr_A_big ip6 handler has_mw has_upload up_call_fails peer_ip peer_fp s d L) by (rewrite B; exact R).
      rewrite send_error_eq. apply AmwOK_none, send_amw.
    + destruct (dr_A_bad ip6 handler has_mw has_upload up_call_fails peer_ip peer_fp s d L) as [rest E]; [rewrite B; exact R|].
      rewrite E, send_error_eq. apply AmwOK_none, send_amw.
    + rewrite (dr_A_line ip6 handler has_mw has_upload up_call_fails peer_ip peer_fp s d u rest L) by (rewrite B; exact R).
      destruct (prefixb titan_prefix u) eqn:P.
      * eapply AmwOK_weaken; [|apply amw_htu]. cbn. intros x [t [H1 H2]] more. subst x.
        apply (expected_titan _ u (rest ++ more)); auto. apply request_line_line_ext. exact R.
      * eapply AmwOK_weaken; [|apply amw_handle_gemini]. cbn. intros x [p [H1 H2]] more. subst x.
        apply (expected_gemini _ u (rest ++ more)); auto. apply request_line_line_ext. exact R.
Qed.

Lemma amw_feed sl : forall s D, Inv s -> Fed s D ->
  AmwOK (fun u => forall more, expected_url ((D ++ concat sl) ++ more) = Some u) (snd (feed s sl)).
Proof.
  induction sl as [|d r IH]; intros s D I F; cbn [ServerProto.feed concat].
  - apply AmwOK_none. reflexivity.
  - pose proof (amw_data_received s d D I F) as H1.
    pose proof (Fed_data_received ip6 handler has_mw has_upload up_call_fails peer_ip peer_fp s d D I F) as F1.
    pose proof (Inv_data_received ip6 handler has_mw has_upload up_call_fails peer_ip peer_fp s d I) as I1.
    destruct (data_received s d) as [s1 a1]. cbn [fst snd] in *.
    specialize (IH s1 (D ++ d) I1 F1). destruct (feed s1 r) as [s2 a2]. cbn [fst snd] in *.
    apply AmwOK_app.
    + eapply AmwOK_weaken; [|exact H1]. cbn. intros u H more.
      specialize (H (concat r ++ more)). rewrite <- H. f_equal. rewrite !app_assoc. reflexivity.
    + eapply AmwOK_weaken; [|exact IH]. cbn. intros u H more.
      rewrite <- (H more). f_equal. rewrite !app_assoc. reflexivity.
Qed.

(* a step: consultations only on reads of an open transport *)
Lemma amw_step s e D : Inv s -> Fed s D ->
  AmwOK (fun u => tr s = true /\ exists sl, e = ERead sl /\
                  forall more, expected_url ((D ++ concat sl) ++ more) = Some u) (snd (step s e)).
Proof.
  intros I F. destruct e; cbn [ServerProto.step].
  - destruct (tr s) eqn:T; [|apply AmwOK_none; reflexivity].
    eapply AmwOK_weaken; [|apply amw_feed; eassumption]. cbn. intros u H. split; [reflexivity|].
    exists slices. auto.
  - apply AmwOK_none. destruct (timer s); try reflexivity. cbn.
    destruct (tr s && negb (closing s) && negb (sent s)); reflexivity.
  - apply AmwOK_none, task_done_amw.
  - apply AmwOK_none. destruct (tr s); reflexivity.
Qed.

(* invocations need an allow verdict for a consulted task *)
Lemma invoc_step s e : has_mw = true -> (0 < invocs (snd (step s e)))%nat ->
  exists i t k, e = EDone i (OMw true t) /\ In (i, k) (pending s) /\ is_mwk (i, k) = true.
Proof.
  intros MW H.
  assert (NA : forall x, (forall i t, x <> EDone i (OMw true t)) -> invocs (snd (step s x)) = 0%nat)
    by (intros x Hx; apply na_step; assumption).
  destruct e as [sl| |i o|]; try (rewrite NA in H; [slia|discriminate]).
  destruct o as [r|m|[|] t|]; try (rewrite NA in H; [slia|discriminate]).
  cbn [ServerProto.step] in H. unfold ServerProto.task_done in H.
  destruct (take_task i (pending s)) as [[k|] rest] eqn:E; [|cbn in H; slia].
  exists i, t, k. split; [reflexivity|]. split; [eapply take_task_In; eassumption|].
  destruct k; try reflexivity; revert H; norm_err; rewrite send_invocs; slia.
Qed.

(* middleware tasks that are pending have been announced *)
Lemma mw_pending_step s e consulted : Inv s ->
  (forall x, In x (pending s) -> is_mwk x = true -> In (fst x) consulted) ->
  forall x, In x (pending (fst (step s e))) -> is_mwk x = true ->
            In (fst x) (consulted ++ amw_ids (snd (step s e))).
Proof.
  intros I C x Hx M. apply in_or_app.
  destruct (event_eq_lost e) as [->|NL].
  - left. apply C; [|assumption]. revert Hx. cbn. destruct (tr s); cbn; [rewrite cancel_timer_eq|]; auto.
  - destruct (e_pend _ _ _ (Eff_step ip6 handler has_mw has_upload up_call_fails peer_ip peer_fp s e NL) x Hx)
      as [H|[act [H1 H2]]]; [left; auto|].
    right. unfold amw_ids. apply in_flat_map. exists act. split; [assumption|].
    unfold spawn_match in H2. unfold is_mwk in M.
    destruct act; try discriminate; destruct (snd x); try discriminate;
      apply Nat.eqb_eq in H2; subst; left; reflexivity.
Qed.

Section Gate.
Variable c : cfg.
Hypothesis Cmw : c_mw c = has_mw.
Hypothesis Cip : c_ip c = peer_ip.
Hypothesis Cfp : c_fp c = peer_fp.

Lemma gate_run evs : forall s D consulted admitted U, Inv s -> Fed s D ->
  (tr s = true -> U = expected_url (D ++ stream evs)) ->
  (forall x, In x (pending s) -> is_mwk x = true -> In (fst x) consulted) ->
  Spec.C04.gate c U evs (run s evs) consulted admitted = true.
Proof using Cmw Cip Cfp.
  induction evs as [|e r IH]; intros s D consulted admitted U I F HU C; [reflexivity|].
  rewrite run_cons. cbn [Spec.C04.gate].
  fold (amw_ids (snd (step s e))).
  set (adm' := admitted || match e with
                           | EDone i (OMw true _) => existsb (Nat.eqb i) consulted
                           | _ => false end).
  apply andb_true_iff. split; [apply andb_true_iff; split|].
  - destruct (c_mw c) eqn:CM; [|reflexivity]. assert (MW : has_mw = true) by congruence.
    destruct (existsb is_invocation (snd (step s e))) eqn:E; [|reflexivity]. cbn [negb orb].
    apply existsb_count_pos in E.
    destruct (invoc_step s e MW E) as [i [t [k [-> [H1 H2]]]]].
    unfold adm'. rewrite (existsb_eqb_In i consulted); [apply orb_true_r|].
    apply (C (i, k)); assumption.
  - apply forallb_forall. intros act HIn. destruct act; try reflexivity.
    destruct (amw_step s e D I F id url ip fp HIn) as [E1 [E2 [T [sl [E3 H]]]]].
    rewrite E1, E2, E3 in *. rewrite Cip, Cfp, eqb_refl, ostr_eqb_refl. cbn [andb].
    rewrite (HU T). cbn [stream]. rewrite app_assoc, (H (stream r)). apply eqb_refl.
  - destruct (tr (fst (step s e))) eqn:T'.
    + (* still open: e is not ELost and tr s = true *)
      assert (NL : e <> ELost) by (intro; subst e; destruct (step_lost_tr ip6 handler has_mw has_upload up_call_fails peer_ip peer_fp s); congruence).
      pose proof (e_tr _ _ _ (Eff_step ip6 handler has_mw has_upload up_call_fails peer_ip peer_fp s e NL)) as TE.
      assert (T : tr s = true) by congruence.
      destruct e as [sl| | |]; try congruence.
      * apply (IH _ (D ++ concat sl)).
        -- apply Inv_step; assumption.
        -- apply Fed_step_read; assumption.
        -- intros _. rewrite (HU T). cbn [stream]. rewrite app_assoc. reflexivity.
        -- apply mw_pending_step; assumption.
      * apply (IH _ D).
        -- apply Inv_step; assumption.
        -- apply Fed_step_other; [discriminate|assumption].
        -- intros _. rewrite (HU T). reflexivity.
        -- apply mw_pending_step; assumption.
      * apply (IH _ D).
        -- apply Inv_step; assumption.
        -- apply Fed_step_other; [discriminate|assumption].
        -- intros _. rewrite (HU T). reflexivity.
        -- apply mw_pending_step; assumption.
    + apply (IH _ D).
      * apply Inv_step; assumption.
      * (* the stream relation is irrelevant once the transport is gone *)
        destruct e as [sl| | |].
        -- cbn [ServerProto.step] in *. destruct (tr s) eqn:T; [|exact F].
           exfalso. pose proof (e_tr _ _ _ (Eff_feed ip6 handler has_mw has_upload up_call_fails peer_ip peer_fp sl s)). congruence.
        -- apply Fed_step_other; [discriminate|assumption].
        -- apply Fed_step_other; [discriminate|assumption].
        -- apply Fed_step_other; [discriminate|assumption].
      * congruence.
      * apply mw_pending_step; assumption.
Qed.
End Gate.

End Proto.

Theorem gate_gen ip6 c evs :
  Spec.C04.gate c (Spec.C04.expected_url ip6 (stream evs)) evs
    (run ip6 (fun _ => c_hres c) (c_mw c) (c_upload c) (c_upfail c) (c_ip c) (c_fp c) init evs) [] false = true.
Proof.
  apply (gate_run ip6 (fun _ => c_hres c) (c_mw c) (c_upload c) (c_upfail c) (c_ip c) (c_fp c) c
           eq_refl eq_refl eq_refl evs init []).
  - apply Inv_init.
  - apply Fed_init.
  - reflexivity.
  - intros x [].
Qed.
