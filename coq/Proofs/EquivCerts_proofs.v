(* Proofs of the Gen = Model lemmas stated in Equiv/EquivCerts.v (security/certificates.py, the get_peer_certificate
   methods, the PyOpenSSL conversion).  Gen/CertsGen.v is regenerated on every run by translate/py2coq_certs.py: the
   proofs never mention a generated local name; they unfold the generated definition and follow its case analysis. *)
From Coq Require Import List NArith ZArith Bool.
From NV Require Import Prelude.Str Prelude.Res Model.Certs Equiv.CertsGlue Gen.CertsGen.
Import ListNotations.
Open Scope list_scope.

Section Ties.
Context {cert path transport sslobj ocert : Type} (L : certlib cert path transport sslobj ocert).

(* ---------- get_certificate_fingerprint ---------- *)
Lemma default_algorithm_tie : gen_get_certificate_fingerprint__default_algorithm = default_algorithm.
Proof. reflexivity. Qed.
Lemma from_path_default_algorithm_tie : gen_get_certificate_fingerprint_from_path__default_algorithm = default_algorithm.
Proof. reflexivity. Qed.

Lemma fingerprint_tie : forall c alg,
  gen_get_certificate_fingerprint L c alg = fingerprint (l_der L) (l_sha256 L) (l_sha1 L) c alg.
Proof.
  intros c alg. unfold gen_get_certificate_fingerprint, fingerprint. cbv zeta.
  destruct (eqb alg (lit "sha256")) eqn:E1; [apply eqb_spec in E1; subst alg; reflexivity|].
  destruct (eqb alg (lit "sha1")) eqn:E2; [apply eqb_spec in E2; subst alg; reflexivity|].
  rewrite ?E1, ?E2. reflexivity.
Qed.

Lemma fingerprint_default_tie : forall c,
  gen_get_certificate_fingerprint L c gen_get_certificate_fingerprint__default_algorithm
  = fingerprint_default (l_der L) (l_sha256 L) (l_sha1 L) c.
Proof. intro c. rewrite fingerprint_tie, default_algorithm_tie. reflexivity. Qed.

(* ---------- load_certificate ---------- *)
Lemma load_certificate_tie : forall p,
  gen_load_certificate L p = load_certificate (l_path_str L) (l_exists L) (l_read_bytes L) (l_load_pem L) p.
Proof.
  intro p. unfold gen_load_certificate, load_certificate.
  destruct (l_exists L p); cbn [negb]; [|reflexivity].
  destruct (l_read_bytes L p) as [d|k m|]; [|reflexivity|reflexivity].
  destruct (l_load_pem L d) as [c|k m|]; reflexivity.
Qed.

(* ---------- get_certificate_fingerprint_from_path ---------- *)
Lemma fingerprint_from_path_tie : forall p alg,
  gen_get_certificate_fingerprint_from_path L (gen_load_certificate L) (gen_get_certificate_fingerprint L) p alg
  = fingerprint_from_path (l_der L) (l_sha256 L) (l_sha1 L) (l_path_str L) (l_exists L) (l_read_bytes L) (l_load_pem L) p alg.
Proof.
  intros p alg. unfold gen_get_certificate_fingerprint_from_path, fingerprint_from_path.
  rewrite load_certificate_tie.
  destruct (load_certificate _ _ _ _ p) as [c|k m|]; [|reflexivity|reflexivity].
  rewrite fingerprint_tie. destruct (fingerprint _ _ _ c alg); reflexivity.
Qed.

(* ---------- is_certificate_expired ---------- *)
Lemma is_expired_tie : forall now c, gen_is_certificate_expired L now c = is_expired (l_not_after L) now c.
Proof. reflexivity. Qed.

(* ---------- validate_certificate_file ---------- *)
Lemma validate_tie : forall now p,
  gen_validate_certificate_file L (gen_load_certificate L) (gen_is_certificate_expired L now) p
  = validate_file (l_path_str L) (l_exists L) (l_read_bytes L) (l_load_pem L) (l_not_after L) now p.
Proof.
  intros now p. unfold gen_validate_certificate_file, validate_file.
  rewrite load_certificate_tie. unfold load_certificate.
  destruct (l_exists L p); cbn [negb]; [|reflexivity].
  destruct (l_read_bytes L p) as [d|k m|]; [|reflexivity|reflexivity].
  destruct (l_load_pem L d) as [c|k m|]; [|reflexivity|reflexivity].
  rewrite is_expired_tie. destruct (is_expired _ now c); reflexivity.
Qed.

(* ---------- get_peer_certificate (three copies) ---------- *)
Lemma peer_shape : forall (g : option transport -> res (option cert)),
  (forall tr, g tr =
     match tr with Some t =>
       match l_ssl_object L t with Some s =>
         match l_getpeercert_der L s with
         | Ok (Some d) => if nonempty d then match l_load_der L d with Ok c => Ok (Some c) | Err _ _ => Ok None | OutOfModel => OutOfModel end
                          else Ok None
         | Ok None => Ok None
         | Err _ _ => Ok None
         | OutOfModel => OutOfModel
         end
       | None => Ok None end
     | None => Ok None end) ->
  forall tr, g tr = peer_certificate (l_ssl_object L) (l_getpeercert_der L) (l_load_der L) tr.
Proof.
  intros g H tr. rewrite H. unfold peer_certificate.
  destruct tr as [t|]; [|reflexivity]. destruct (l_ssl_object L t) as [s|]; [|reflexivity].
  destruct (l_getpeercert_der L s) as [[[|b d]|]|k m|]; reflexivity.
Qed.

Lemma server_peer_tie : forall tr,
  gen_server_get_peer_certificate L tr = peer_certificate (l_ssl_object L) (l_getpeercert_der L) (l_load_der L) tr.
Proof.
  apply peer_shape. intro tr. unfold gen_server_get_peer_certificate. cbv zeta.
  destruct tr as [t|]; [|reflexivity]. destruct (l_ssl_object L t) as [s|]; [|reflexivity].
  destruct (l_getpeercert_der L s) as [[d|]|k m|]; try reflexivity.
  all: destruct (nonempty d); [|reflexivity]; destruct (l_load_der L d); reflexivity.
Qed.
Lemma client_peer_tie : forall tr,
  gen_client_get_peer_certificate L tr = peer_certificate (l_ssl_object L) (l_getpeercert_der L) (l_load_der L) tr.
Proof.
  apply peer_shape. intro tr. unfold gen_client_get_peer_certificate. cbv zeta.
  destruct tr as [t|]; [|reflexivity]. destruct (l_ssl_object L t) as [s|]; [|reflexivity].
  destruct (l_getpeercert_der L s) as [[d|]|k m|]; try reflexivity.
  all: destruct (nonempty d); [|reflexivity]; destruct (l_load_der L d); reflexivity.
Qed.
Lemma titan_client_peer_tie : forall tr,
  gen_titan_client_get_peer_certificate L tr = peer_certificate (l_ssl_object L) (l_getpeercert_der L) (l_load_der L) tr.
Proof.
  apply peer_shape. intro tr. unfold gen_titan_client_get_peer_certificate. cbv zeta.
  destruct tr as [t|]; [|reflexivity]. destruct (l_ssl_object L t) as [s|]; [|reflexivity].
  destruct (l_getpeercert_der L s) as [[d|]|k m|]; try reflexivity.
  all: destruct (nonempty d); [|reflexivity]; destruct (l_load_der L d); reflexivity.
Qed.

(* ---------- the PyOpenSSL conversion ---------- *)
Lemma x509_to_cryptography_tie : forall o,
  gen_x509_to_cryptography L o = x509_to_cryptography (l_dump_asn1 L) (l_load_der L) o.
Proof.
  intro o. unfold gen_x509_to_cryptography, x509_to_cryptography.
  destruct (l_dump_asn1 L o) as [d|k m|]; [|reflexivity|reflexivity]. destruct (l_load_der L d); reflexivity.
Qed.
Lemma wrapper_getpeercert_tie : forall c, gen_wrapper_getpeercert_der L c = wrapper_getpeercert_der (l_der L) c.
Proof. intros [c|]; reflexivity. Qed.
End Ties.

(* ---------- the call sites ---------- *)
Lemma sites_outside_certificates_use_default :
  forallb (fun s => eqb (site_file s) certs_file || site_default s) fingerprint_sites = true.
Proof. vm_compute. reflexivity. Qed.

Lemma sites_inside_certificates :
  filter (fun s => eqb (site_file s) certs_file) fingerprint_sites
  = [mk_site certs_file (lit "get_certificate_fingerprint_from_path") (Some (lit "<expr> algorithm"));
     mk_site certs_file (lit "get_certificate_info") (Some (lit "sha256"));
     mk_site certs_file (lit "get_certificate_info") (Some (lit "sha1"))].
Proof. vm_compute. reflexivity. Qed.

Lemma security_sites_present :
  forallb (fun fq => existsb (fun s => site_is (fst fq) (snd fq) s && site_default s) fingerprint_sites) security_sites = true.
Proof. vm_compute. reflexivity. Qed.

Lemma hashlib_users_tie : hashlib_users = [certs_file; lit "utils/logging.py"].
Proof. vm_compute. reflexivity. Qed.

(* the certificate the PyOpenSSL layer takes from the connection is the peer's own (leaf) certificate *)
Lemma conn_peer_certificate_tie : conn_peer_certificate_is_the_leaf = true.
Proof. reflexivity. Qed.
