(* Byte-level facts about response serialisation in the server protocol model:
   every header the common writer produces is one well-formed response line, and a
   well-formed ASCII rejection line of the middleware reaches the wire verbatim. *)
From Coq Require Import List NArith ZArith Bool Lia ZifyBool ZifyN ZifyNat.
From NV Require Import Prelude.Str Prelude.Res Prelude.Utf8 Model.Url Model.Titan Model.ServerProto Spec.ServerTrace.
From NV Require Spec.C04.
From NV Require Import Proofs.StrLemmas Proofs.Server_inv.
Import ListNotations.
Open Scope N_scope.

(* ---------- break_crlf ---------- *)
Lemma break_crlf_cons2 x y r :
  break_crlf (x :: y :: r) =
  if (x =? 13) && (y =? 10) then Some ([], r)
  else match break_crlf (y :: r) with Some (a, b) => Some (x :: a, b) | None => None end.
Proof. reflexivity. Qed.

Lemma break_crlf_app (h b : str) : ~ In 13%N h -> break_crlf (h ++ crlf ++ b) = Some (h, b).
Proof.
  induction h as [|x h IH]; intro H.
  - reflexivity.
  - assert (Hx : x <> 13) by (intro; apply H; left; auto).
    assert (Hh : ~ In 13 h) by (intro; apply H; right; auto).
    specialize (IH Hh).
    change ((x :: h) ++ crlf ++ b) with (x :: (h ++ crlf ++ b)).
    destruct (h ++ crlf ++ b) as [|y r] eqn:E; [discriminate IH|].
    rewrite break_crlf_cons2, IH.
    apply N.eqb_neq in Hx. rewrite Hx. reflexivity.
Qed.

Lemma break_crlf_Some s : forall a b, break_crlf s = Some (a, b) -> s = a ++ crlf ++ b.
Proof.
  induction s as [|x s IH]; intros a b H; [discriminate|].
  destruct s as [|y r]; [discriminate|].
  rewrite break_crlf_cons2 in H.
  destruct ((x =? 13) && (y =? 10)) eqn:E.
  - inversion H; subst. apply andb_true_iff in E as [E1 E2].
    apply N.eqb_eq in E1, E2. subst. reflexivity.
  - destruct (break_crlf (y :: r)) as [[a' b']|] eqn:E2; [|discriminate].
    inversion H; subst. rewrite (IH a' b eq_refl). reflexivity.
Qed.

(* ---------- two-digit decimals ---------- *)
Lemma dec_two n : 10 <= n <= 99 -> dec n = [48 + n / 10; 48 + n mod 10].
Proof.
  intro H. unfold dec. rewrite dec_digits_fuel_S.
  destruct (n / 10 =? 0) eqn:E1; [lia|].
  destruct n as [|p]; [lia|].
  cbn [N.size_nat]. destruct (Pos.size_nat p) as [|f] eqn:Ef; [destruct p; discriminate|].
  rewrite dec_digits_fuel_S.
  destruct (N.pos p / 10 / 10 =? 0) eqn:E2; [|lia].
  f_equal. lia.
Qed.

Lemma str_of_Z_status z : status_ok z = true ->
  str_of_Z z = [48 + Z.to_N z / 10; 48 + Z.to_N z mod 10].
Proof.
  unfold status_ok. intro H. destruct z as [|p|p]; [lia| |lia].
  cbn [str_of_Z Z.to_N]. apply dec_two. lia.
Qed.

Lemma undec_two d1 d2 : is_digit d1 = true -> is_digit d2 = true ->
  undec [d1; d2] = Some ((d1 - 48) * 10 + (d2 - 48)).
Proof.
  intros H1 H2. unfold undec, undec_acc. rewrite H1, H2. f_equal.
Qed.

(* ---------- UTF-8 with replacement, truncated ---------- *)
Lemma enc_cp_bytes c x : In x (enc_cp c) -> (x = c /\ c < 128) \/ 128 <= x.
Proof.
  unfold enc_cp. destruct (c <? 128) eqn:E1; [|destruct (c <? 2048); [|destruct (c <? 65536)]];
    cbn [In]; intro H; repeat destruct H as [H|H]; try contradiction; lia.
Qed.

Lemma repl_bytes c x : In x (if is_scalar c then enc_cp c else [63]) ->
  (x = c /\ c < 128) \/ 128 <= x \/ x = 63.
Proof.
  destruct (is_scalar c).
  - intro H. apply enc_cp_bytes in H. tauto.
  - cbn [In]. intros [H|[]]. right; right; auto.
Qed.

Lemma eru_bytes s : forall limit x, In x (encode_replace_upto limit s) ->
  In x s \/ 128 <= x \/ x = 63.
Proof.
  induction s as [|c s IH]; intros limit x; cbn [encode_replace_upto]; [intros []|].
  destruct (_ <=? limit); [|intros []].
  intro H. apply in_app_or in H as [H|H].
  - apply repl_bytes in H. destruct H as [[-> _]|H]; [left; left; reflexivity|right; exact H].
  - apply IH in H. destruct H as [H|H]; [left; right; exact H|right; exact H].
Qed.

Lemma eru_len s : forall limit, N.of_nat (length (encode_replace_upto limit s)) <= limit.
Proof.
  induction s as [|c s IH]; intro limit; cbn [encode_replace_upto]; [cbn; lia|].
  set (e := if is_scalar c then enc_cp c else [63]).
  destruct (N.of_nat (length e) <=? limit) eqn:E; [|cbn; lia].
  rewrite app_length, Nat2N.inj_add. specialize (IH (limit - N.of_nat (length e))). lia.
Qed.

Lemma eru_ascii s : forall limit, all_ascii s = true -> N.of_nat (length s) <= limit ->
  encode_replace_upto limit s = s.
Proof.
  induction s as [|c s IH]; intros limit Ha Hl; [reflexivity|].
  cbn [all_ascii forallb] in Ha. apply andb_true_iff in Ha as [Hc Ha].
  cbn [length] in Hl. rewrite Nat2N.inj_succ in Hl.
  unfold is_ascii in Hc.
  assert (Hs : is_scalar c = true) by (unfold is_scalar, is_surrogate; lia).
  cbn [encode_replace_upto]. rewrite Hs. unfold enc_cp. rewrite Hc.
  cbn [length N.of_nat Pos.of_succ_nat].
  destruct (1 <=? limit) eqn:E; [|lia].
  cbn [app]. f_equal. apply IH; [exact Ha|lia].
Qed.

Lemma clean_meta_bytes m x : In x (clean_meta m) -> x <> 13 /\ x <> 10.
Proof.
  unfold clean_meta. rewrite in_map_iff. intros [c [E _]].
  destruct ((c =? 13) || (c =? 10)) eqn:Ec; lia.
Qed.

Lemma clean_meta_id m : ~ In 13 m -> ~ In 10 m -> clean_meta m = m.
Proof.
  induction m as [|c m IH]; intros H13 H10; [reflexivity|].
  cbn [clean_meta map]. fold (clean_meta m).
  rewrite IH by (intro; (apply H13 + apply H10); right; assumption).
  assert (c <> 13) by (intro; apply H13; left; auto).
  assert (c <> 10) by (intro; apply H10; left; auto).
  destruct ((c =? 13) || (c =? 10)) eqn:Ec; [lia|reflexivity].
Qed.

Lemma meta_bytes_notin m x : x = 13 \/ x = 10 ->
  ~ In x (encode_replace_upto 1024 (clean_meta m)).
Proof.
  intros Hx H. apply eru_bytes in H. destruct H as [H|H]; [|lia].
  apply clean_meta_bytes in H. lia.
Qed.

(* ---------- header_ok ---------- *)
Lemma header_ok_intro d1 d2 meta :
  is_digit d1 = true -> is_digit d2 = true ->
  10 <= (d1 - 48) * 10 + (d2 - 48) <= 69 ->
  ~ In 13 meta -> ~ In 10 meta -> N.of_nat (length meta) <= 1024 ->
  header_ok (d1 :: d2 :: 32 :: meta) = true.
Proof.
  intros H1 H2 Hv H13 H10 Hl. unfold header_ok. cbv zeta.
  rewrite H1, H2, (notin_mem_false _ _ H13), (notin_mem_false _ _ H10). cbn [andb negb N.eqb Pos.eqb].
  repeat (apply andb_true_iff; split); try reflexivity; lia.
Qed.

Lemma header_ok_inv h : header_ok h = true ->
  exists d1 d2 meta, h = d1 :: d2 :: 32 :: meta /\
    is_digit d1 = true /\ is_digit d2 = true /\
    10 <= (d1 - 48) * 10 + (d2 - 48) <= 69 /\
    ~ In 13 meta /\ ~ In 10 meta /\ N.of_nat (length meta) <= 1024.
Proof.
  destruct h as [|d1 [|d2 [|sp meta]]]; try discriminate.
  unfold header_ok. cbv zeta. intro H.
  repeat (apply andb_true_iff in H; destruct H as [H ?]).
  exists d1, d2, meta.
  assert (sp = 32) by lia. subst sp.
  assert (M13 : mem 13 meta = false) by (destruct (mem 13 meta); [discriminate|reflexivity]).
  assert (M10 : mem 10 meta = false) by (destruct (mem 10 meta); [discriminate|reflexivity]).
  apply mem_false_notin in M13, M10.
  split; [reflexivity|].
  unfold is_digit in *.
  split; [lia|]. split; [lia|]. split; [lia|]. split; [exact M13|]. split; [exact M10|lia].
Qed.

(* ---------- serialize ---------- *)
Lemma serialize_shape (r : resp) :
  exists h, fst (serialize r) = h ++ crlf /\ ~ In 13%N h /\ header_ok h = true /\
            (snd (serialize r) <> [] -> is_2x h = true).
Proof.
  unfold serialize. destruct (status_ok (rs_status r)) eqn:S.
  - set (z := rs_status r) in *. set (M := encode_replace_upto 1024 (clean_meta (rs_meta r))).
    pose proof (str_of_Z_status z S) as Hz.
    assert (Hn : 10 <= Z.to_N z <= 69) by (unfold status_ok in S; lia).
    set (n := Z.to_N z) in *.
    exists (str_of_Z z ++ 32 :: M). cbn [fst snd].
    split; [unfold header_bytes; rewrite <- app_assoc; reflexivity|].
    rewrite Hz. cbn [app].
    assert (H13 : ~ In 13 M) by (apply meta_bytes_notin; auto).
    assert (H10 : ~ In 10 M) by (apply meta_bytes_notin; auto).
    split; [|split].
    + intros [H|[H|[H|H]]]; [lia|lia|lia|contradiction].
    + apply header_ok_intro; try assumption; try (unfold is_digit; lia); try lia.
      apply eru_len.
    + unfold body_bytes. destruct ((20 <=? z)%Z && (z <=? 29)%Z) eqn:E; [|congruence].
      intros _. unfold is_2x, status_of. cbv zeta.
      assert (20 <= n <= 29) by lia. lia.
  - exists (lit "40 Server error: invalid response from handler"). cbn [fst snd].
    split; [reflexivity|]. split; [apply mem_false_notin; vm_compute; reflexivity|].
    split; [vm_compute; reflexivity|]. intro H; congruence.
Qed.

Lemma timeout_line_shape : exists h, timeout_line = h ++ crlf /\ ~ In 13%N h /\ header_ok h = true.
Proof.
  exists (lit "40 Request timeout"). split; [reflexivity|].
  split; [apply mem_false_notin; vm_compute; reflexivity|vm_compute; reflexivity].
Qed.

(* ---------- rejection lines ---------- *)
Lemma strip_suffix1_snoc c s : strip_suffix1 c (s ++ [c]) = s.
Proof.
  unfold strip_suffix1. rewrite rev_app_distr. cbn [rev app].
  rewrite N.eqb_refl. apply rev_involutive.
Qed.

Lemma strip_crlf h : strip_suffix1 13 (strip_suffix1 10 (h ++ crlf)) = h.
Proof.
  unfold crlf. change [13; 10] with ([13] ++ [10]). rewrite app_assoc.
  rewrite strip_suffix1_snoc. apply strip_suffix1_snoc.
Qed.

Definition rej_of_line (line : str) : resp :=
  let '(stxt, _, meta) := partition 32 line in
  match stxt with
  | _ :: _ =>
      if forallb is_digit stxt then
        match undec stxt with
        | Some n => {| rs_status := Z.of_N n; rs_meta := meta; rs_body := BNone |}
        | None => err_resp 40 (lit "Request rejected")
        end
      else err_resp 40 (lit "Request rejected")
  | [] => err_resp 40 (lit "Request rejected")
  end.

Lemma rejection_resp_cons c t :
  rejection_resp (Some (c :: t)) = rej_of_line (strip_suffix1 13 (strip_suffix1 10 (c :: t))).
Proof. reflexivity. Qed.

Lemma rej_of_line_header d1 d2 meta : is_digit d1 = true -> is_digit d2 = true ->
  rej_of_line (d1 :: d2 :: 32 :: meta) =
  {| rs_status := Z.of_N ((d1 - 48) * 10 + (d2 - 48)); rs_meta := meta; rs_body := BNone |}.
Proof.
  intros H1 H2. unfold rej_of_line.
  change (d1 :: d2 :: 32 :: meta) with ([d1; d2] ++ 32 :: meta).
  rewrite partition_found.
  - cbn [forallb]. rewrite H1, H2. cbn [andb]. rewrite (undec_two d1 d2 H1 H2). reflexivity.
  - unfold is_digit in *. intros [H|[H|[]]]; lia.
Qed.

Lemma rejection_verbatim (t : str) :
  Spec.C04.wellformed_line t = true -> all_ascii t = true ->
  serialize (rejection_resp (Some t)) = (t, []).
Proof.
  unfold Spec.C04.wellformed_line.
  destruct (break_crlf t) as [[h b]|] eqn:E; [|discriminate].
  destruct b; [|discriminate]. intros Hh Ha.
  apply break_crlf_Some in E. rewrite app_nil_r in E. subst t.
  destruct (header_ok_inv h Hh) as [d1 [d2 [meta [-> [H1 [H2 [Hv [H13 [H10 Hl]]]]]]]]].
  change ((d1 :: d2 :: 32 :: meta) ++ crlf) with (d1 :: ((d2 :: 32 :: meta) ++ crlf)) at 1.
  rewrite rejection_resp_cons.
  change (d1 :: ((d2 :: 32 :: meta) ++ crlf)) with ((d1 :: d2 :: 32 :: meta) ++ crlf).
  rewrite strip_crlf, (rej_of_line_header d1 d2 meta H1 H2).
  set (v := (d1 - 48) * 10 + (d2 - 48)) in *.
  assert (S : status_ok (Z.of_N v) = true) by (unfold status_ok; lia).
  unfold serialize. cbn [rs_status rs_meta rs_body]. rewrite S.
  assert (Hm : all_ascii meta = true).
  { unfold all_ascii in *. change ((d1 :: d2 :: 32 :: meta) ++ crlf) with ([d1; d2; 32] ++ meta ++ crlf) in Ha.
    rewrite !forallb_app in Ha. apply andb_true_iff in Ha as [_ Ha].
    apply andb_true_iff in Ha as [Ha _]. exact Ha. }
  f_equal.
  - unfold header_bytes. rewrite (str_of_Z_status _ S), N2Z.id.
    rewrite (clean_meta_id meta H13 H10), (eru_ascii meta 1024 Hm Hl).
    unfold is_digit in *. cbn [app]. f_equal; [subst v; lia|]. f_equal. subst v; lia.
  - unfold body_bytes. destruct (_ && _)%Z; reflexivity.
Qed.

(* ---------- prefixes, non-emptiness ---------- *)
Lemma err40_prefix (m : str) : prefixb (lit "40 ") (fst (serialize (err_resp 40 m))) = true.
Proof. reflexivity. Qed.

Lemma serialize_nonempty (r : resp) : fst (serialize r) <> [].
Proof.
  destruct (serialize_shape r) as [h [E _]]. rewrite E.
  intro H. apply app_eq_nil in H as [_ H]. discriminate.
Qed.

Lemma timeout_line_prefix : prefixb (lit "40 ") timeout_line = true.
Proof. reflexivity. Qed.

Lemma response_shape_ok (h b : str) :
  ~ In 13%N h -> header_ok h = true -> (b <> [] -> is_2x h = true) ->
  response_shape (h ++ crlf ++ b) = true.
Proof.
  intros H13 Hh Hb. unfold response_shape.
  rewrite (break_crlf_app h b H13), Hh.
  destruct (h ++ crlf ++ b) eqn:E; [reflexivity|].
  destruct b as [|y b]; [apply orb_true_r|].
  rewrite Hb by discriminate. reflexivity.
Qed.

Close Scope N_scope.
