(* UTF-8 lemmas for C18: strict decoding followed by encoding is the identity. *)
From Coq Require Import List NArith ZArith Bool Lia ZifyN ZifyBool ZifyNat.
From NV Require Import Prelude.Str Prelude.Utf8.
Import ListNotations.
Open Scope N_scope.

Ltac Zify.zify_post_hook ::= Z.to_euclidean_division_equations.

(* ---------- one code point: enc_cp inverts the arithmetic of decode ---------- *)

Lemma enc1 x : x < 128 -> is_scalar x = true /\ enc_cp x = [x].
Proof.
  intro H. split.
  - unfold is_scalar, is_surrogate. lia.
  - unfold enc_cp. destruct (x <? 128) eqn:E; [reflexivity|lia].
Qed.

Lemma enc2 x y : 194 <= x -> x <= 223 -> 128 <= y -> y <= 191 ->
  is_scalar ((x - 192) * 64 + (y - 128)) = true /\
  enc_cp ((x - 192) * 64 + (y - 128)) = [x; y].
Proof.
  intros H1 H2 H3 H4. split.
  - unfold is_scalar, is_surrogate. lia.
  - unfold enc_cp.
    destruct (_ <? 128) eqn:E1; [lia|].
    destruct (_ <? 2048) eqn:E2; [|lia].
    f_equal; [|f_equal]; lia.
Qed.

Lemma enc3 x y z : 224 <= x -> x <= 239 -> 128 <= y -> y <= 191 ->
  (x = 224 -> 160 <= y) -> (x = 237 -> y <= 159) -> 128 <= z -> z <= 191 ->
  is_scalar ((x - 224) * 4096 + (y - 128) * 64 + (z - 128)) = true /\
  enc_cp ((x - 224) * 4096 + (y - 128) * 64 + (z - 128)) = [x; y; z].
Proof.
  intros H1 H2 H3 H4 H5 H6 H7 H8. split.
  - unfold is_scalar, is_surrogate. lia.
  - unfold enc_cp.
    destruct (_ <? 128) eqn:E1; [lia|].
    destruct (_ <? 2048) eqn:E2; [lia|].
    destruct (_ <? 65536) eqn:E3; [|lia].
    f_equal; [|f_equal; [|f_equal]]; lia.
Qed.

Lemma enc4 x y z w : 240 <= x -> x <= 244 -> 128 <= y -> y <= 191 ->
  (x = 240 -> 144 <= y) -> (x = 244 -> y <= 143) -> 128 <= z -> z <= 191 -> 128 <= w -> w <= 191 ->
  is_scalar ((x - 240) * 262144 + (y - 128) * 4096 + (z - 128) * 64 + (w - 128)) = true /\
  enc_cp ((x - 240) * 262144 + (y - 128) * 4096 + (z - 128) * 64 + (w - 128)) = [x; y; z; w].
Proof.
  intros H1 H2 H3 H4 H5 H6 H7 H8 H9 H10. split.
  - unfold is_scalar, is_surrogate. lia.
  - unfold enc_cp.
    destruct (_ <? 128) eqn:E1; [lia|].
    destruct (_ <? 2048) eqn:E2; [lia|].
    destruct (_ <? 65536) eqn:E3; [lia|].
    f_equal; [|f_equal; [|f_equal; [|f_equal]]]; lia.
Qed.

(* bytes produced by enc_cp *)
Lemma enc_cp_ascii c : c < 128 -> enc_cp c = [c].
Proof. intro H. apply enc1. assumption. Qed.

Lemma enc_cp_high c y : 128 <= c -> In y (enc_cp c) -> 128 <= y.
Proof.
  intros H. unfold enc_cp.
  destruct (c <? 128) eqn:E1; [lia|].
  destruct (c <? 2048); [|destruct (c <? 65536)]; cbn [In]; intros Hy;
    repeat (destruct Hy as [Hy|Hy]; [subst y; lia|]); destruct Hy.
Qed.

Lemma enc_cp_length c : (1 <= length (enc_cp c) <= 4)%nat.
Proof.
  unfold enc_cp. destruct (c <? 128); [|destruct (c <? 2048); [|destruct (c <? 65536)]]; cbn [length]; lia.
Qed.

(* ---------- one step of decode ---------- *)

Lemma decode_cons x r1 : decode (x :: r1) =
    if x <? 128 then match decode r1 with Some s => Some (x :: s) | None => None end
    else if (194 <=? x) && (x <=? 223) then
      match r1 with
      | y :: r2 => if cont y then
                     match decode r2 with Some s => Some (((x - 192) * 64 + (y - 128)) :: s) | None => None end
                   else None
      | _ => None
      end
    else if (224 <=? x) && (x <=? 239) then
      match r1 with
      | y :: z :: r3 =>
        let lo := if x =? 224 then 160 else 128 in
        let hi := if x =? 237 then 159 else 191 in
        if (lo <=? y) && (y <=? hi) && cont z then
          match decode r3 with
          | Some s => Some (((x - 224) * 4096 + (y - 128) * 64 + (z - 128)) :: s)
          | None => None
          end
        else None
      | _ => None
      end
    else if (240 <=? x) && (x <=? 244) then
      match r1 with
      | y :: z :: w :: r4 =>
        let lo := if x =? 240 then 144 else 128 in
        let hi := if x =? 244 then 143 else 191 in
        if (lo <=? y) && (y <=? hi) && cont z && cont w then
          match decode r4 with
          | Some s => Some (((x - 240) * 262144 + (y - 128) * 4096 + (z - 128) * 64 + (w - 128)) :: s)
          | None => None
          end
        else None
      | _ => None
      end
    else None.
Proof. reflexivity. Qed.

Lemma decode_step x r1 s : decode (x :: r1) = Some s ->
  exists c pre r s', x :: r1 = pre ++ r /\ (length r <= length r1)%nat /\
                     decode r = Some s' /\ s = c :: s' /\ is_scalar c = true /\ enc_cp c = pre.
Proof.
  rewrite decode_cons. intro H.
  destruct (x <? 128) eqn:E1.
  { destruct (decode r1) as [s0|] eqn:D; [|discriminate]. inversion H; subst s.
    exists x, [x], r1, s0. destruct (enc1 x) as [A B]; [lia|].
    repeat split; auto. }
  destruct ((194 <=? x) && (x <=? 223)) eqn:E2.
  { destruct r1 as [|y r2]; [discriminate|].
    destruct (cont y) eqn:Ec; [|discriminate]. unfold cont in Ec.
    destruct (decode r2) as [s0|] eqn:D; [|discriminate]. inversion H; subst s.
    exists ((x - 192) * 64 + (y - 128)), [x; y], r2, s0.
    destruct (enc2 x y) as [A B]; try lia.
    repeat split; auto. cbn [length]. lia. }
  destruct ((224 <=? x) && (x <=? 239)) eqn:E3.
  { destruct r1 as [|y [|z r3]]; try discriminate.
    cbv zeta in H.
    destruct (_ && cont z) eqn:Ec in H; [|discriminate]. unfold cont in Ec.
    destruct (decode r3) as [s0|] eqn:D; [|discriminate]. inversion H; subst s.
    exists ((x - 224) * 4096 + (y - 128) * 64 + (z - 128)), [x; y; z], r3, s0.
    destruct (enc3 x y z) as [A B];
      try (destruct (x =? 224) eqn:Ea; destruct (x =? 237) eqn:Eb; lia).
    repeat split; auto. cbn [length]. lia. }
  destruct ((240 <=? x) && (x <=? 244)) eqn:E4; [|discriminate].
  { destruct r1 as [|y [|z [|w r4]]]; try discriminate.
    cbv zeta in H.
    destruct (_ && cont w) eqn:Ec in H; [|discriminate]. unfold cont in Ec.
    destruct (decode r4) as [s0|] eqn:D; [|discriminate]. inversion H; subst s.
    exists ((x - 240) * 262144 + (y - 128) * 4096 + (z - 128) * 64 + (w - 128)), [x; y; z; w], r4, s0.
    destruct (enc4 x y z w) as [A B];
      try (destruct (x =? 240) eqn:Ea; destruct (x =? 244) eqn:Eb; lia).
    repeat split; auto. cbn [length]. lia. }
Qed.

(* induction principle following decode *)
Lemma decode_ind (P : list N -> str -> Prop) :
  P [] [] ->
  (forall c r s', decode r = Some s' -> is_scalar c = true -> P r s' -> P (enc_cp c ++ r) (c :: s')) ->
  forall b s, decode b = Some s -> P b s.
Proof.
  intros H0 Hs b.
  remember (length b) as n eqn:Hn.
  assert (Hle : (length b <= n)%nat) by lia. clear Hn. revert b Hle.
  induction n as [|n IH]; intros b Hle s H.
  - destruct b; [|cbn [length] in Hle; lia]. cbn in H. inversion H. exact H0.
  - destruct b as [|x r1]; [cbn in H; inversion H; exact H0|].
    apply decode_step in H. destruct H as (c & pre & r & s' & E & L & D & -> & Sc & Ec).
    rewrite E, <- Ec. apply Hs; auto. apply IH; auto. cbn [length] in Hle. lia.
Qed.

(* ---------- the round trip ---------- *)

Lemma encode_replace_cons c s :
  encode_replace (c :: s) = (if is_scalar c then enc_cp c else [63]) ++ encode_replace s.
Proof. reflexivity. Qed.

Lemma encode_decode : forall b s, decode b = Some s -> encode_replace s = b.
Proof.
  apply decode_ind.
  - reflexivity.
  - intros c r s' D Sc IH. rewrite encode_replace_cons, Sc, IH. reflexivity.
Qed.

(* ASCII characters of the decoded text are bytes of the input *)
Lemma decode_In_ascii : forall b s, decode b = Some s -> forall c, c < 128 -> In c s -> In c b.
Proof.
  apply (decode_ind (fun b s => forall c, c < 128 -> In c s -> In c b)).
  - intros c _ [].
  - intros c r s' D Sc IH c0 Hc [<-|Hin].
    + rewrite enc_cp_ascii by assumption. left. reflexivity.
    + apply in_or_app. right. apply IH; assumption.
Qed.

(* decode of an ASCII byte conses it *)
Lemma decode_ascii_cons x r s : x < 128 -> decode r = Some s -> decode (x :: r) = Some (x :: s).
Proof.
  intros Hx D. rewrite decode_cons. destruct (x <? 128) eqn:E; [|lia]. rewrite D. reflexivity.
Qed.

(* ---------- encode_replace_upto ---------- *)

Lemma encode_replace_upto_cons limit c s :
  encode_replace_upto limit (c :: s) =
    let e := if is_scalar c then enc_cp c else [63] in
    let n := N.of_nat (length e) in
    if n <=? limit then e ++ encode_replace_upto (limit - n) s else [].
Proof. reflexivity. Qed.

Lemma encode_replace_upto_fits : forall s limit,
  N.of_nat (length (encode_replace s)) <= limit -> encode_replace_upto limit s = encode_replace s.
Proof.
  induction s as [|c s IH]; intros limit H; [reflexivity|].
  rewrite encode_replace_upto_cons. cbv zeta. rewrite encode_replace_cons in *.
  rewrite app_length in H.
  destruct (_ <=? limit) eqn:E; [|lia].
  f_equal. apply IH. lia.
Qed.

Lemma encode_replace_upto_length : forall s limit,
  N.of_nat (length (encode_replace_upto limit s)) <= limit.
Proof.
  induction s as [|c s IH]; intros limit; [cbn; lia|].
  rewrite encode_replace_upto_cons. cbv zeta.
  destruct (_ <=? limit) eqn:E; [|cbn; lia].
  rewrite app_length. specialize (IH (limit - N.of_nat (length (if is_scalar c then enc_cp c else [63])))). lia.
Qed.

(* bytes of the encoding: an ASCII byte other than '?' is a code point of the text *)
Lemma encode_replace_upto_In : forall s limit y,
  In y (encode_replace_upto limit s) -> y < 128 -> y = 63 \/ In y s.
Proof.
  induction s as [|c s IH]; intros limit y H Hy; [destruct H|].
  rewrite encode_replace_upto_cons in H. cbv zeta in H.
  destruct (_ <=? limit) eqn:E; [|destruct H].
  apply in_app_or in H. destruct H as [H|H].
  - destruct (is_scalar c).
    + destruct (c <? 128) eqn:Ec.
      * rewrite enc_cp_ascii in H by lia. destruct H as [<-|[]]. right. left. reflexivity.
      * apply enc_cp_high in H; lia.
    + destruct H as [<-|[]]. left. reflexivity.
  - destruct (IH _ _ H Hy) as [A|A]; [left; assumption|right; right; assumption].
Qed.
