(* Proofs for Props/C02.v, Props/C14.v, Props/C05.v: the filesystem model, the static handler,
   the upload handler and the certificate middleware. *)
From Coq Require Import List NArith ZArith Bool Lia ZifyBool ZifyN ZifyNat.
From NV Require Import Prelude.Str Prelude.Res Prelude.Utf8 Model.Fs Model.Static Model.CertAuth.
From NV Require Spec.C02 Spec.C14 Spec.C05.
From NV Require Import Proofs.StrLemmas.
Import ListNotations.

(* ------------------------------------------------------------------ *)
(* paths                                                               *)
(* ------------------------------------------------------------------ *)
Lemma path_eqb_eq a b : path_eqb a b = true <-> a = b.
Proof.
  revert b; induction a as [|x a IH]; intros [|y b]; simpl; split; intro H;
    try congruence; try reflexivity.
  - apply andb_true_iff in H as [H1 H2]. apply eqb_spec in H1. apply IH in H2. congruence.
  - inversion H; subst. rewrite eqb_refl. simpl. apply IH. reflexivity.
Qed.
Lemma path_eqb_refl a : path_eqb a a = true.
Proof. apply path_eqb_eq; reflexivity. Qed.
Lemma path_eqb_neq a b : path_eqb a b = false <-> a <> b.
Proof. split; intro H.
  - intro E; apply path_eqb_eq in E; congruence.
  - destruct (path_eqb a b) eqn:E; [apply path_eqb_eq in E; contradiction|reflexivity]. Qed.

Lemma path_prefixb_app r s : path_prefixb r (r ++ s) = true.
Proof. induction r; simpl; auto. rewrite eqb_refl; simpl; auto. Qed.

Lemma eqb_app_self_false (a x : str) : x <> [] -> eqb a (a ++ x) = false.
Proof.
  intro Hx. apply eqb_neq. intro E.
  assert (L : length a = length (a ++ x)) by congruence.
  rewrite app_length in L. destruct x; [congruence|simpl in L; lia].
Qed.

Lemma prefix_sibling : forall r a x q, x <> [] -> path_prefixb (r ++ [a]) (r ++ [a ++ x] ++ q) = false.
Proof.
  intros r a x q Hx. induction r as [|y r IH]; simpl.
  - rewrite eqb_app_self_false by assumption. reflexivity.
  - rewrite eqb_refl. simpl. exact IH.
Qed.

(* ------------------------------------------------------------------ *)
(* resolve_fully                                                       *)
(* ------------------------------------------------------------------ *)
Lemma resolve_fully_FPath f b r p : resolve_fully f b r = FPath p -> realpath f [] p = RPath p.
Proof.
  unfold resolve_fully. destruct (realpath f b r) as [p0|l|] eqn:E1; try discriminate.
  - destruct (realpath f [] p0) as [q| |] eqn:E2; try discriminate.
    destruct (path_eqb q p0) eqn:E3; try discriminate.
    intro H; inversion H; subst. apply path_eqb_eq in E3. subst. assumption.
  - destruct (realpath f [] (lexnorm l [])) as [q| |] eqn:E2; try discriminate.
    destruct (path_eqb q (lexnorm l [])) eqn:E3; try discriminate.
    intro H; inversion H; subst. apply path_eqb_eq in E3. rewrite E3 in E2. assumption.
Qed.

(* ------------------------------------------------------------------ *)
(* the static handler                                                  *)
(* ------------------------------------------------------------------ *)
Definition m_notfound : str := lit "Not found".
Definition m_toolarge : str := lit "File too large - use alternative protocol".
Definition m_enc : str := lit "File encoding error (not UTF-8)".
Definition m_listing : str := lit "Error generating directory listing".

(* without over-long components no lookup fails with ENAMETOOLONG *)
Lemma enametoolong_from_short f rest : forall pre, name_too_long rest = false -> enametoolong_from f pre rest = false.
Proof.
  unfold name_too_long. induction rest as [|n r IH]; intros pre H; [reflexivity|].
  cbn [existsb] in H. apply orb_false_iff in H as [H1 H2]. cbn [enametoolong_from]. rewrite H1. apply IH. assumption.
Qed.
Lemma enametoolong_short f p : name_too_long p = false -> enametoolong f p = false.
Proof. apply enametoolong_from_short. Qed.
Lemma short_prefix_short p : name_too_long p = false -> short_prefix p = p.
Proof.
  unfold name_too_long. induction p as [|n r IH]; intro H; [reflexivity|].
  cbn [existsb] in H. apply orb_false_iff in H as [H1 H2]. cbn [short_prefix]. rewrite H1, IH by assumption. reflexivity.
Qed.

Lemma serve_file_cases c f p :
  serve_file c f p = OStatus 51 m_notfound \/ serve_file c f p = OStatus 50 m_toolarge \/
  serve_file c f p = OStatus 40 m_enc \/
  exists content t, lstat f p = Some (File content) /\ read_text content = Some t /\
                    (s_max c <? N.of_nat (length content))%N = false /\
                    serve_file c f p = OServe p (mime_of p) t.
Proof.
  unfold serve_file. destruct (lstat f p) as [[content| |tg]|] eqn:E; auto.
  destruct (s_max c <? N.of_nat (length content))%N eqn:E2; auto.
  destruct (read_text content) as [t|] eqn:E3; auto.
  right; right; right. exists content, t. auto.
Qed.

Lemma try_indices_cases c f d idx o :
  try_indices c f d idx = Some o ->
  o = OOom \/ o = ORaise (lit "oserror") \/
  exists i ip, In i idx /\ resolve_fully f (fst (pjoin d i)) (snd (pjoin d i)) = FPath ip /\
               path_prefixb (s_root c) ip = true /\ enametoolong f ip = false /\ o = serve_file c f ip.
Proof.
  induction idx as [|i rest IH]; cbn [try_indices]; [discriminate|]. cbv zeta.
  assert (IH' : try_indices c f d rest = Some o ->
    o = OOom \/ o = ORaise (lit "oserror") \/
    exists i0 ip, In i0 (i :: rest) /\ resolve_fully f (fst (pjoin d i0)) (snd (pjoin d i0)) = FPath ip /\
                  path_prefixb (s_root c) ip = true /\ enametoolong f ip = false /\ o = serve_file c f ip).
  { intro H. destruct (IH H) as [->|[->|[i' [ip' [Hin Hr]]]]]; [auto|auto|].
    right; right. exists i', ip'. split; [right; assumption|assumption]. }
  destruct (existsb (mem 0%N) (snd (pjoin d i))); [exact IH'|].
  destruct (resolve_fully f (fst (pjoin d i)) (snd (pjoin d i))) as [ip| |] eqn:E; [|exact IH'|].
  - destruct (path_prefixb (s_root c) ip) eqn:E2; [|exact IH'].
    destruct (enametoolong f ip) eqn:E3; [intro H; inversion H; auto|].
    destruct (lstat f ip) as [[ct| |tg]|]; try exact IH'.
    intro H; inversion H; subst. right; right. exists i, ip. split; [left; reflexivity|auto].
  - intro H; inversion H; auto.
Qed.

Lemma listing_cases f d : listing f d = OStatus 40 m_listing \/ listing f d = OListing d.
Proof. unfold listing. destruct (Listing.has_broken f d); auto. Qed.

(* the shape of every run of handle *)
Inductive handle_shape (c : scfg) (f : fs) (url : str) : sout -> Prop :=
| HOom : handle_shape c f url OOom
| HNotFound : handle_shape c f url (OStatus 51 m_notfound)
| HRaise k : handle_shape c f url (ORaise k)
| HResolved up segs fp o :
    unquote url = Ok up -> canon_strict (comps up) [] = Some segs -> existsb (mem 0%N) segs = false ->
    resolve_fully f (s_root c) segs = FPath fp -> path_prefixb (s_root c) fp = true ->
    enametoolong f fp = false ->
    ( (lstat f fp = Some Dir /\ try_indices c f fp (s_indices c) = Some o) \/
      (lstat f fp = Some Dir /\ try_indices c f fp (s_indices c) = None /\ s_listing c = true /\ o = listing f fp) \/
      (lstat f fp <> Some Dir /\ o = serve_file c f fp) ) ->
    handle_shape c f url o.

Lemma handle_shape_ok c f url : handle_shape c f url (handle c f url).
Proof.
  unfold handle.
  destruct (unquote url) as [up| |] eqn:E1; try apply HOom.
  destruct (canon_strict (comps up) []) as [segs|] eqn:E2; [|apply HNotFound].
  destruct (existsb (mem 0%N) segs) eqn:E3; [apply HNotFound|].
  destruct (resolve_fully f (s_root c) segs) as [fp| |] eqn:E4; [|apply HNotFound|apply HOom].
  destruct (path_prefixb (s_root c) fp) eqn:E5; simpl; [|apply HNotFound].
  destruct (enametoolong f fp) eqn:E6; [apply HRaise|].
  destruct (lstat f fp) as [[ct| |tg]|] eqn:E7.
  - eapply HResolved; eauto. right; right. split; [congruence|reflexivity].
  - destruct (try_indices c f fp (s_indices c)) as [o|] eqn:E8.
    + eapply HResolved; eauto.
    + destruct (s_listing c) eqn:E9; [|apply HNotFound].
      eapply HResolved; eauto. right; left. auto.
  - eapply HResolved; eauto. right; right. split; [congruence|reflexivity].
  - eapply HResolved; eauto. right; right. split; [congruence|reflexivity].
Qed.

Lemma serve_file_OServe c f p q mime t :
  serve_file c f p = OServe q mime t ->
  q = p /\ exists content, lstat f q = Some (File content) /\ read_text content = Some t.
Proof.
  destruct (serve_file_cases c f p) as [H|[H|[H|[content [t' [H1 [H2 [_ H3]]]]]]]];
    [rewrite H; discriminate..|].
  rewrite H3. intro E; inversion E; subst. split; [reflexivity|]. exists content; auto.
Qed.

Lemma containment : forall c f url q mime t,
  handle c f url = OServe q mime t ->
  path_prefixb (s_root c) q = true /\ realpath f [] q = RPath q /\
  exists content, lstat f q = Some (File content) /\ read_text content = Some t.
Proof.
  intros c f url q mime t H.
  pose proof (handle_shape_ok c f url) as S. rewrite H in S. clear H.
  inversion S as [| | |up segs fp o U Cn Z Rf Pf Nl Alt]; subst.
  destruct Alt as [[Hd Ht]|[[Hd [Ht [Hl Ho]]]|[Hd Ho]]].
  - apply try_indices_cases in Ht. destruct Ht as [Ht|[Ht|[i [ip [Hi [Hr [Hp [_ Ho]]]]]]]]; [discriminate|discriminate|].
    symmetry in Ho. apply serve_file_OServe in Ho. destruct Ho as [-> Hc].
    split; [assumption|]. split; [|assumption]. eapply resolve_fully_FPath; eauto.
  - destruct (listing_cases f fp) as [E|E]; rewrite E in Ho; discriminate.
  - symmetry in Ho. apply serve_file_OServe in Ho. destruct Ho as [-> Hc].
    split; [assumption|]. split; [|assumption]. eapply resolve_fully_FPath; eauto.
Qed.

Lemma serve_file_not_listing c f p d : serve_file c f p <> OListing d.
Proof.
  destruct (serve_file_cases c f p) as [H|[H|[H|[content [t' [H1 [H2 [_ H]]]]]]]]; rewrite H; discriminate.
Qed.

Lemma listing_inside : forall c f url d,
  handle c f url = OListing d ->
  path_prefixb (s_root c) d = true /\ realpath f [] d = RPath d /\ lstat f d = Some Dir /\ s_listing c = true.
Proof.
  intros c f url d H.
  pose proof (handle_shape_ok c f url) as S. rewrite H in S. clear H.
  inversion S as [| | |up segs fp o U Cn Z Rf Pf Nl Alt]; subst.
  destruct Alt as [[Hd Ht]|[[Hd [Ht [Hl Ho]]]|[Hd Ho]]].
  - apply try_indices_cases in Ht. destruct Ht as [Ht|[Ht|[i [ip [Hi [Hr [Hp [_ Ho]]]]]]]]; [discriminate|discriminate|].
    symmetry in Ho. apply serve_file_not_listing in Ho. contradiction.
  - destruct (listing_cases f fp) as [E|E]; rewrite E in Ho; [discriminate|].
    inversion Ho; subst. repeat split; auto. eapply resolve_fully_FPath; eauto.
  - symmetry in Ho. apply serve_file_not_listing in Ho. contradiction.
Qed.

Lemma serve_file_status c f p st m :
  serve_file c f p = OStatus st m ->
  (st = 51 /\ m = lit "Not found")%Z \/ (st = 50 /\ m = lit "File too large - use alternative protocol")%Z \/
  (st = 40 /\ m = lit "File encoding error (not UTF-8)")%Z \/ (st = 40 /\ m = lit "Error generating directory listing")%Z.
Proof.
  destruct (serve_file_cases c f p) as [H|[H|[H|[content [t' [H1 [H2 [_ H]]]]]]]]; rewrite H;
    intro E; inversion E; subst; auto.
Qed.

Lemma no_leak : forall c f url st m,
  handle c f url = OStatus st m ->
  (st = 51 /\ m = lit "Not found")%Z \/ (st = 50 /\ m = lit "File too large - use alternative protocol")%Z \/
  (st = 40 /\ m = lit "File encoding error (not UTF-8)")%Z \/ (st = 40 /\ m = lit "Error generating directory listing")%Z.
Proof.
  intros c f url st m H.
  pose proof (handle_shape_ok c f url) as S. rewrite H in S. clear H.
  inversion S as [|E| |up segs fp o U Cn Z Rf Pf Nl Alt]; subst.
  - left; auto.
  - destruct Alt as [[Hd Ht]|[[Hd [Ht [Hl Ho]]]|[Hd Ho]]].
    + apply try_indices_cases in Ht. destruct Ht as [Ht|[Ht|[i [ip [Hi [Hr [Hp [_ Ho]]]]]]]]; [discriminate|discriminate|].
      symmetry in Ho. eapply serve_file_status; eauto.
    + destruct (listing_cases f fp) as [E|E]; rewrite E in Ho; [|discriminate].
      inversion Ho; subst. right; right; right. auto.
    + symmetry in Ho. eapply serve_file_status; eauto.
Qed.

(* ------------------------------------------------------------------ *)
(* C05: the middleware                                                 *)
(* ------------------------------------------------------------------ *)
Lemma first_denial_allow rules locs fp :
  first_denial rules locs fp = Allow ->
  forall loc, In loc locs -> apply_rule (find_rule rules loc) fp = Allow.
Proof.
  induction locs as [|l r IH]; simpl; intros H loc []; subst.
  - destruct (apply_rule (find_rule rules loc) fp); congruence.
  - destruct (apply_rule (find_rule rules l) fp); try congruence. auto.
Qed.

Lemma decide_inv rules url fp v :
  decide rules url fp = Ok v -> exists p, canon_path url = Ok p /\ v = first_denial rules (candidates p) fp.
Proof.
  unfold decide. destruct (canon_path url) as [p| |]; try discriminate.
  intro H; inversion H; subst. exists p; auto.
Qed.

Lemma all_candidates : forall rules url fp p,
  decide rules url fp = Ok Allow -> canon_path url = Ok p ->
  forall loc, In loc (candidates p) -> Spec.C05.admits (Spec.C05.covering rules loc) fp = true.
Proof.
  intros rules url fp p H Hp loc Hin.
  apply decide_inv in H. destruct H as [p' [Hp' Hv]]. rewrite Hp in Hp'. inversion Hp'; subst p'.
  unfold Spec.C05.admits. change (Spec.C05.covering rules loc) with (find_rule rules loc).
  rewrite (first_denial_allow rules (candidates p) fp (eq_sym Hv) loc Hin). reflexivity.
Qed.

Lemma apply_rule_status r fp v :
  apply_rule r fp = v -> v <> Allow ->
  (v = Deny60 /\ fp = None) \/ (v = Deny61 /\ exists f, fp = Some f).
Proof.
  unfold apply_rule. destruct r as [r|]; [|congruence].
  destruct fp as [f|].
  - destruct (ru_allowed r) as [l|]; [|congruence].
    destruct (existsb (eqb f) l); [congruence|]. intros <- _. right. split; eauto.
  - destruct (ru_require r || _); [|congruence]. intros <- _. left; auto.
Qed.

Lemma first_denial_status rules locs fp v :
  first_denial rules locs fp = v -> v <> Allow ->
  (v = Deny60 /\ fp = None) \/ (v = Deny61 /\ exists f, fp = Some f).
Proof.
  induction locs as [|l r IH]; simpl; [congruence|].
  destruct (apply_rule (find_rule rules l) fp) eqn:E; auto;
    intros <- Hv; eapply apply_rule_status; eauto.
Qed.

Lemma status : forall rules url fp v,
  decide rules url fp = Ok v -> v <> Allow ->
  (v = Deny60 /\ fp = None) \/ (v = Deny61 /\ exists f, fp = Some f).
Proof.
  intros rules url fp v H Hv. apply decide_inv in H. destruct H as [p [_ E]].
  eapply first_denial_status; eauto.
Qed.

Lemma empty_list_admits_nobody : forall t fp,
  tr_allowed t = Some [] -> apply_rule (Some (rule_of_toml t)) fp <> Allow.
Proof.
  intros t fp H. unfold apply_rule, rule_of_toml; simpl. rewrite H.
  destruct fp; simpl; [discriminate|]. rewrite orb_true_r. discriminate.
Qed.

(* ------------------------------------------------------------------ *)
(* C14: uploads                                                        *)
(* ------------------------------------------------------------------ *)
Lemma lstat_set_same f p n : lstat (set_node f p n) p = Some n.
Proof.
  induction f as [|[q m] f IH]; simpl.
  - rewrite path_eqb_refl; reflexivity.
  - destruct (path_eqb p q) eqn:E; simpl; rewrite E; auto.
Qed.
Lemma lstat_set_other f p n q : path_eqb q p = false -> lstat (set_node f p n) q = lstat f q.
Proof.
  intro H. induction f as [|[k m] f IH]; simpl.
  - rewrite H; reflexivity.
  - destruct (path_eqb p k) eqn:E; simpl.
    + apply path_eqb_eq in E; subst k. rewrite H. reflexivity.
    + destruct (path_eqb q k); auto.
Qed.
Lemma lstat_remove_same f p : lstat (remove_node f p) p = None.
Proof.
  induction f as [|[q m] f IH]; simpl; auto.
  destruct (path_eqb p q) eqn:E; simpl; [auto|rewrite E; auto].
Qed.
Lemma lstat_remove_other f p q : path_eqb q p = false -> lstat (remove_node f p) q = lstat f q.
Proof.
  intro H. induction f as [|[k m] f IH]; simpl; auto.
  destruct (path_eqb p k) eqn:E; simpl.
  - apply path_eqb_eq in E; subst k. rewrite H. exact IH.
  - destruct (path_eqb q k); auto.
Qed.
Lemma lstat_app f g p : lstat (f ++ g) p = match lstat f p with Some n => Some n | None => lstat g p end.
Proof. induction f as [|[k m] f IH]; simpl; auto. destruct (path_eqb p k); auto. Qed.

(* mkdirs only ever adds directories at paths where nothing was *)
Lemma mkdirs_lstat : forall fuel f pre rest f1,
  mkdirs fuel f pre rest = Some f1 ->
  forall p, lstat f1 p = lstat f p \/ (lstat f p = None /\ lstat f1 p = Some Dir).
Proof.
  induction fuel as [|fu IH]; simpl; intros f pre rest f1 H p; [discriminate|].
  destruct rest as [|n rest']; [inversion H; auto|].
  destruct (lstat f (pre ++ [n])) as [[ct| |tg]|] eqn:E; try discriminate.
  - eapply IH; eauto.
  - destruct (follow f (pre ++ [n])) as [[| |]|]; try discriminate. eapply IH; eauto.
  - destruct (IH _ _ _ _ H p) as [H1|[H1 H2]].
    + rewrite H1. rewrite lstat_app. destruct (lstat f p) eqn:E2; auto.
      simpl. destruct (path_eqb p (pre ++ [n])); auto.
    + rewrite lstat_app in H1. destruct (lstat f p) eqn:E2; [discriminate|]. auto.
Qed.

Lemma resolve_target_prefix c f s t :
  resolve_target c f s = Ok (Some t) -> path_prefixb (u_root c) t = true.
Proof.
  unfold resolve_target. destruct (unquote s) as [up| |]; try discriminate.
  destruct (canon_strict (comps up) []) as [segs|]; try discriminate.
  destruct (existsb (mem 0%N) segs); try discriminate.
  destruct (resolve_fully f (u_root c) segs) as [t'| |]; try discriminate.
  destruct (path_prefixb (u_root c) t') eqn:E; try discriminate.
  intro H; inversion H; subst; assumption.
Qed.

Definition u_ok : uout := UResp 20 (lit "text/gemini").

Open Scope N_scope.
Inductive upload_shape (c : ucfg) (f : fs) (r : ureq) (flt : fault) : uout -> fs -> Prop :=
| USame out : out <> u_ok -> upload_shape c f r flt out f
| UDelete t : Spec.C14.guards_ok c r = true -> q_size r = 0 -> u_delete c = true ->
    resolve_target c f (q_path r) = Ok (Some t) ->
    upload_shape c f r flt u_ok (remove_node f t)
| UPartial fuel dirs f1 out : out <> u_ok -> mkdirs fuel f [] dirs = Some f1 ->
    upload_shape c f r flt out f1
| UStore t f1 : Spec.C14.guards_ok c r = true -> q_size r <> 0 -> flt = None ->
    resolve_target c f (q_path r) = Ok (Some t) ->
    mkdirs (S (length t)) f [] (removelast t) = Some f1 ->
    upload_shape c f r flt u_ok (set_node f1 t (File (q_content r))).

Lemma upload_shape_ok c f r flt tok :
  upload_shape c f r flt (fst (handle_upload c f r flt tok)) (snd (handle_upload c f r flt tok)).
Proof.
  unfold handle_upload.
  destruct (token_ok c (q_token r)) eqn:E1; cbn [fst snd negb]; [|apply USame; discriminate].
  destruct (u_max c <? q_size r) eqn:E2; cbn [fst snd negb]; [apply USame; discriminate|].
  destruct (match u_types c with Some (t :: ts) => negb (existsb (eqb (q_mime r)) (t :: ts)) | _ => false end) eqn:E3;
    cbn [fst snd negb]; [apply USame; discriminate|].
  assert (G : (if q_size r =? 0 then u_delete c else true) = true -> Spec.C14.guards_ok c r = true).
  { intro G. unfold Spec.C14.guards_ok. rewrite E1, G.
    assert (q_size r <=? u_max c = true) as -> by lia.
    destruct (u_types c) as [[|t ts]|]; cbn [fst snd negb]; auto.
    apply negb_false_iff in E3. rewrite E3. reflexivity. }
  destruct (q_size r =? 0) eqn:E4.
  - destruct (u_delete c) eqn:E5; cbn [fst snd negb]; [|apply USame; discriminate].
    destruct (resolve_target c f (q_path r)) as [[t|]| |] eqn:E6; cbn [fst snd negb]; try (apply USame; discriminate).
    destruct (enametoolong f t); cbn [fst snd negb]; [apply USame; discriminate|].
    destruct (lstat f t) as [[ct| |tg]|]; cbn [fst snd negb]; try (apply USame; discriminate);
      (apply UDelete; auto; lia).
  - destruct (resolve_target c f (q_path r)) as [[t|]| |] eqn:E6; cbn [fst snd negb]; try (apply USame; discriminate).
    destruct (mkdirs (S (length t)) f [] (short_prefix (removelast t))) as [f1|] eqn:E7; cbn [fst snd negb];
      [|apply USame; discriminate].
    assert (P : forall out, out <> u_ok -> upload_shape c f r flt out f1)
      by (intros out Ho; eapply UPartial; eauto).
    destruct (name_too_long (removelast t)) eqn:E8; cbn [fst snd negb]; [apply P; discriminate|].
    rewrite (short_prefix_short _ E8) in E7.
    destruct t as [|x t']; cbn [fst snd]; [apply P; discriminate|].
    destruct (name_too_long (tmp_of (x :: t') tok)); cbn [fst snd]; [apply P; discriminate|].
    destruct (lstat f1 (tmp_of (x :: t') tok)); cbn [fst snd]; [apply P; discriminate|].
    destruct flt as [k|]; cbn [fst snd]; [apply P; discriminate|].
    destruct (lstat f1 (x :: t')) as [[ct| |tg]|]; cbn [fst snd];
      try (apply P; discriminate); (eapply UStore; eauto; lia).
Qed.

Lemma upload_shape_eq c f r flt tok out f' :
  handle_upload c f r flt tok = (out, f') -> upload_shape c f r flt out f'.
Proof. intro H. pose proof (upload_shape_ok c f r flt tok) as S. rewrite H in S. exact S. Qed.

Lemma exact : forall c f r tok f' t,
  handle_upload c f r None tok = (UResp 20 (lit "text/gemini"), f') -> q_size r <> 0 ->
  resolve_target c f (q_path r) = Ok (Some t) ->
  path_prefixb (u_root c) t = true /\ lstat f' t = Some (File (q_content r)).
Proof.
  intros c f r tok f' t H Hs Ht. apply upload_shape_eq in H.
  inversion H as [out Ho|t' G Z D Rt|fuel dirs f1 out Ho Mk|t' f1 G Z Fl Rt Mk]; subst.
  - exfalso; apply Ho; reflexivity.
  - contradiction.
  - exfalso; apply Ho; reflexivity.
  - rewrite Ht in Rt. inversion Rt; subst t'. split.
    + eapply resolve_target_prefix; eauto.
    + apply lstat_set_same.
Qed.

Lemma delete_ok : forall c f r flt tok f' t,
  handle_upload c f r flt tok = (UResp 20 (lit "text/gemini"), f') -> q_size r = 0 ->
  resolve_target c f (q_path r) = Ok (Some t) ->
  lstat f' t = None /\ u_delete c = true.
Proof.
  intros c f r flt tok f' t H Hs Ht. apply upload_shape_eq in H.
  inversion H as [out Ho|t' G Z D Rt|fuel dirs f1 out Ho Mk|t' f1 G Z Fl Rt Mk]; subst.
  - exfalso; apply Ho; reflexivity.
  - rewrite Ht in Rt. inversion Rt; subst t'. split; [apply lstat_remove_same|assumption].
  - exfalso; apply Ho; reflexivity.
  - contradiction.
Qed.

Lemma is_file_None_Dir a b : a = None -> b = Some Dir ->
  Spec.C14.is_file a = true \/ Spec.C14.is_file b = true -> False.
Proof. intros -> ->. simpl. intros []; discriminate. Qed.

Lemma guards : forall c f r flt tok out f' p,
  handle_upload c f r flt tok = (out, f') -> lstat f' p <> lstat f p ->
  (Spec.C14.is_file (lstat f p) = true \/ Spec.C14.is_file (lstat f' p) = true) ->
  Spec.C14.guards_ok c r = true.
Proof.
  intros c f r flt tok out f' p H Hne Hf. apply upload_shape_eq in H.
  inversion H as [out' Ho|t' G Z D Rt|fuel dirs f1 out' Ho Mk|t' f1 G Z Fl Rt Mk]; subst.
  - congruence.
  - assumption.
  - destruct (mkdirs_lstat _ _ _ _ _ Mk p) as [E|[E1 E2]]; [congruence|].
    exfalso; eapply is_file_None_Dir; eauto.
  - assumption.
Qed.

Lemma failure_noop : forall c f r flt tok out f' p,
  handle_upload c f r flt tok = (out, f') -> out <> UResp 20 (lit "text/gemini") ->
  Spec.C14.is_file (lstat f p) = true \/ Spec.C14.is_file (lstat f' p) = true -> lstat f' p = lstat f p.
Proof.
  intros c f r flt tok out f' p H Hout Hf. apply upload_shape_eq in H.
  inversion H as [out' Ho|t' G Z D Rt|fuel dirs f1 out' Ho Mk|t' f1 G Z Fl Rt Mk]; subst.
  - reflexivity.
  - exfalso; apply Hout; reflexivity.
  - destruct (mkdirs_lstat _ _ _ _ _ Mk p) as [E|[E1 E2]]; [congruence|].
    exfalso; eapply is_file_None_Dir; eauto.
  - exfalso; apply Hout; reflexivity.
Qed.

Lemma frame : forall c f r flt tok out f' p,
  handle_upload c f r flt tok = (out, f') ->
  lstat f' p <> lstat f p ->
  (lstat f p = None /\ lstat f' p = Some Dir) \/
  (out = UResp 20 (lit "text/gemini") /\ resolve_target c f (q_path r) = Ok (Some p)).
Proof.
  intros c f r flt tok out f' p H Hne. apply upload_shape_eq in H.
  inversion H as [out' Ho|t' G Z D Rt|fuel dirs f1 out' Ho Mk|t' f1 G Z Fl Rt Mk]; subst.
  - congruence.
  - destruct (path_eqb p t') eqn:E.
    + apply path_eqb_eq in E; subst. right; auto.
    + rewrite lstat_remove_other in Hne by assumption. congruence.
  - destruct (mkdirs_lstat _ _ _ _ _ Mk p) as [E|[E1 E2]]; [congruence|]. left; auto.
  - destruct (path_eqb p t') eqn:E.
    + apply path_eqb_eq in E; subst. right; auto.
    + rewrite lstat_set_other in * by assumption.
      destruct (mkdirs_lstat _ _ _ _ _ Mk p) as [E'|[E1 E2]]; [congruence|]. left; auto.
Qed.
Close Scope N_scope.

(* ------------------------------------------------------------------ *)
(* link-free trees: realpath is lexical normalisation                  *)
(* ------------------------------------------------------------------ *)
Definition linkfree (f : fs) : Prop :=
  forall p n, In (p, n) f -> match n with Link _ => False | _ => True end.

Lemma lstat_In f p n : lstat f p = Some n -> In (p, n) f.
Proof.
  induction f as [|[q m] f IH]; simpl; [discriminate|].
  destruct (path_eqb p q) eqn:E.
  - intro H; inversion H; subst. apply path_eqb_eq in E; subst. left; reflexivity.
  - intro H; right; auto.
Qed.
Lemma linkfree_lstat f p t : linkfree f -> lstat f p <> Some (Link t).
Proof. intros L H. apply lstat_In in H. apply L in H. exact H. Qed.

Lemma join_real_linkfree f : linkfree f -> forall fuel cur rest v,
  join_real fuel f cur rest v = RFuel \/ join_real fuel f cur rest v = RPath (lexnorm rest cur).
Proof.
  intros L. induction fuel as [|fu IH]; intros cur rest v; [left; reflexivity|].
  destruct rest as [|n rest']; [right; reflexivity|].
  cbn [join_real lexnorm].
  destruct (match n with [] => true | _ => false end || eqb n dot); [apply IH|].
  destruct (eqb n dotdot); [apply IH|].
  destruct (lstat f (cur ++ [n])) as [[ct| |tg]|] eqn:E; try apply IH.
  exfalso; eapply linkfree_lstat; eauto.
Qed.

Lemma join_real_linkfree_fuel f : linkfree f -> forall fuel cur rest v,
  (length rest < fuel)%nat -> join_real fuel f cur rest v = RPath (lexnorm rest cur).
Proof.
  intros L. induction fuel as [|fu IH]; intros cur rest v Hl; [lia|].
  destruct rest as [|n rest']; [reflexivity|].
  cbn [join_real lexnorm]. simpl in Hl.
  destruct (match n with [] => true | _ => false end || eqb n dot); [apply IH; lia|].
  destruct (eqb n dotdot); [apply IH; lia|].
  destruct (lstat f (cur ++ [n])) as [[ct| |tg]|] eqn:E; try (apply IH; lia).
  exfalso; eapply linkfree_lstat; eauto.
Qed.

Lemma resolve_fully_linkfree f b r p : linkfree f -> resolve_fully f b r = FPath p -> p = lexnorm r b.
Proof.
  intros L. unfold resolve_fully, realpath.
  destruct (join_real_linkfree f L realpath_fuel b r []) as [E|E]; rewrite E; [discriminate|].
  destruct (join_real realpath_fuel f [] (lexnorm r b) []) as [q| |]; try discriminate.
  destruct (path_eqb q (lexnorm r b)); try discriminate. intro H; inversion H; reflexivity.
Qed.

(* names that normalisation keeps *)
Definition goodn (n : str) : Prop := n <> [] /\ n <> dot /\ n <> dotdot.
Lemma goodn_tests n : goodn n <->
  (match n with [] => true | _ => false end || eqb n dot) = false /\ eqb n dotdot = false.
Proof.
  unfold goodn. rewrite orb_false_iff, !eqb_neq. destruct n; intuition congruence.
Qed.

Lemma lexnorm_good segs : Forall goodn segs -> forall acc, lexnorm segs acc = acc ++ segs.
Proof.
  induction 1 as [|n r Hn Hr IH]; intro acc; simpl; [rewrite app_nil_r; reflexivity|].
  apply goodn_tests in Hn. destruct Hn as [-> ->]. rewrite IH, <- app_assoc. reflexivity.
Qed.

Lemma Forall_removelast {A} (P : A -> Prop) l : Forall P l -> Forall P (removelast l).
Proof. induction 1 as [|x l Hx Hl IH]; simpl; auto. destruct l; auto. Qed.
Lemma In_removelast {A} (x : A) l : In x (removelast l) -> In x l.
Proof. induction l as [|y l IH]; simpl; auto. destruct l; [intros []|]. intros [H|H]; auto. Qed.

Lemma canon_strict_spec : forall cs acc segs,
  canon_strict cs acc = Some segs ->
  canon_segs cs acc = segs /\ (Forall goodn acc -> Forall goodn segs) /\
  (forall x, In x segs -> In x acc \/ In x cs).
Proof.
  induction cs as [|n r IH]; simpl; intros acc segs H.
  - inversion H; subst. auto.
  - destruct (match n with [] => true | _ => false end || eqb n dot) eqn:E1.
    { destruct (IH _ _ H) as [A [B C]]. split; [exact A|split; [exact B|]].
      intros x Hx. destruct (C x Hx); auto. }
    destruct (eqb n dotdot) eqn:E2.
    { destruct acc as [|a acc']; [discriminate|].
      destruct (IH _ _ H) as [A [B C]]. split; [exact A|split].
      - intro F. apply B. apply Forall_removelast. assumption.
      - intros x Hx. destruct (C x Hx) as [D|D]; auto. left. apply In_removelast. assumption. }
    destruct (IH _ _ H) as [A [B C]]. split; [exact A|split].
    + intro F. apply B. apply Forall_app. split; auto. constructor; auto. apply goodn_tests. auto.
    + intros x Hx. destruct (C x Hx) as [D|D]; auto. apply in_app_or in D. destruct D as [D|[D|[]]]; auto.
Qed.

Lemma split_on_aux_notin c s : forall cur, ~ In c cur ->
  forall x, In x (split_on_aux c cur s) -> ~ In c x.
Proof.
  induction s as [|a s IH]; simpl; intros cur Hc x Hx.
  - destruct Hx as [<-|[]]. rewrite <- in_rev. assumption.
  - destruct (a =? c)%N eqn:E.
    + destruct Hx as [<-|Hx]; [rewrite <- in_rev; assumption|]. eapply IH; [|exact Hx]. intros [].
    + eapply IH; [|eassumption]. apply N.eqb_neq in E. intros [H|H]; congruence.
Qed.
Lemma comps_noslash s x : In x (comps s) -> ~ In ch_slash x.
Proof. unfold comps, split_on. apply split_on_aux_notin. intros []. Qed.

(* ------------------------------------------------------------------ *)
(* join_slash, rstrip                                                  *)
(* ------------------------------------------------------------------ *)
Lemma join_slash_cons n r : r <> [] -> join_slash (n :: r) = n ++ ch_slash :: join_slash r.
Proof. destruct r; [contradiction|reflexivity]. Qed.
Lemma join_slash_snoc segs i : segs <> [] -> join_slash (segs ++ [i]) = join_slash segs ++ ch_slash :: i.
Proof.
  induction segs as [|n r IH]; [contradiction|]. intros _.
  destruct r as [|m r']; [reflexivity|].
  change ((n :: m :: r') ++ [i]) with (n :: ((m :: r') ++ [i])).
  rewrite join_slash_cons by (simpl; discriminate).
  rewrite IH by discriminate. rewrite (join_slash_cons n (m :: r')) by discriminate.
  rewrite <- app_assoc. reflexivity.
Qed.
Lemma join_slash_last segs : segs <> [] ->
  (forall n, In n segs -> n <> [] /\ ~ In ch_slash n) ->
  exists b x, join_slash segs = b ++ [x] /\ x <> ch_slash.
Proof.
  induction segs as [|n r IH]; [contradiction|]. intros _ H.
  destruct r as [|m r'].
  - destruct (H n (or_introl eq_refl)) as [Hn Hs]. simpl.
    exists (removelast n), (last n 0%N). split; [apply app_removelast_last; assumption|].
    intro E. apply Hs. rewrite <- E. clear -Hn.
    induction n as [|a n IHn]; [contradiction|]. destruct n; [left; reflexivity|].
    right. apply IHn. discriminate.
  - destruct IH as [b [x [E Hx]]]; [discriminate|intros k Hk; apply H; right; assumption|].
    rewrite join_slash_cons by discriminate. rewrite E.
    exists (n ++ ch_slash :: b), x. split; [rewrite <- app_assoc; reflexivity|assumption].
Qed.

Lemma rstrip_by_snoc_true p s x : p x = true -> rstrip_by p (s ++ [x]) = rstrip_by p s.
Proof. intro H. unfold rstrip_by. rewrite rev_app_distr. simpl. rewrite H. reflexivity. Qed.
Lemma rstrip_by_snoc_false p s x : p x = false -> rstrip_by p (s ++ [x]) = s ++ [x].
Proof. intro H. unfold rstrip_by. rewrite rev_app_distr. simpl. rewrite H. simpl.
  rewrite rev_involutive. reflexivity. Qed.

Definition base_of (segs : list str) : str :=
  match segs with [] => [] | _ => ch_slash :: join_slash segs end.

Lemma rstrip_canon segs e :
  (forall n, In n segs -> n <> [] /\ ~ In ch_slash n) ->
  (e = [] \/ (segs <> [] /\ e = [ch_slash])) ->
  rstrip_slashes (ch_slash :: join_slash segs ++ e) = base_of segs.
Proof.
  intros H He. destruct segs as [|n r].
  - destruct He as [->|[He _]]; [reflexivity|congruence].
  - destruct (join_slash_last (n :: r)) as [b [x [E Hx]]]; [discriminate|assumption|].
    unfold base_of. rewrite E. unfold rstrip_slashes.
    assert (Px : (x =? ch_slash)%N = false) by (apply N.eqb_neq; assumption).
    destruct He as [->|[_ ->]].
    + rewrite app_nil_r. change (ch_slash :: b ++ [x]) with ((ch_slash :: b) ++ [x]).
      apply rstrip_by_snoc_false. assumption.
    + change (ch_slash :: (b ++ [x]) ++ [ch_slash]) with (((ch_slash :: b) ++ [x]) ++ [ch_slash]).
      rewrite rstrip_by_snoc_true by reflexivity.
      change (ch_slash :: b ++ [x]) with ((ch_slash :: b) ++ [x]).
      apply rstrip_by_snoc_false. assumption.
Qed.

Lemma strip_prefix_app r x : Spec.C05.strip_prefix r (r ++ x) = Some x.
Proof. induction r; simpl; auto. rewrite eqb_refl. assumption. Qed.

(* what the middleware and the handler agree on *)
Lemma canon_path_of_handle url up segs p :
  unquote url = Ok up -> canon_strict (comps up) [] = Some segs -> canon_path url = Ok p ->
  Forall goodn segs /\ (forall n, In n segs -> ~ In ch_slash n) /\
  exists e, p = ch_slash :: join_slash segs ++ e /\ (e = [] \/ (segs <> [] /\ e = [ch_slash])).
Proof.
  intros U C P.
  assert (G : Forall goodn segs /\ (forall n, In n segs -> ~ In ch_slash n) /\ canon_segs (comps up) [] = segs).
  { destruct (canon_strict_spec _ _ _ C) as [A [B D]]. repeat split; auto.
    intros n Hn. destruct (D n Hn) as [[]|Hc]. eapply comps_noslash; eauto. }
  destruct G as [G1 [G2 G3]]. split; [assumption|]. split; [assumption|].
  destruct url as [|a u].
  - unfold unquote in U. simpl in U. inversion U; subst up.
    simpl in C. inversion C; subst segs.
    unfold canon_path, unquote in P. simpl in P. inversion P; subst p.
    exists []. auto.
  - unfold canon_path in P. rewrite U in P. rewrite G3 in P. inversion P; subst p.
    destruct segs as [|n r]; [exists []; auto|].
    destruct (ends_slash up); [exists [ch_slash]; split; auto; right; split; [discriminate|auto]|exists []; auto].
Qed.

Lemma goodn_index i : In i index_names -> goodn i.
Proof. intros [<-|[<-|[]]]; repeat split; discriminate. Qed.
(* the default index names are single relative components *)
Lemma pjoin_index d i : In i index_names -> pjoin d i = (d, [i]).
Proof. intros [<-|[<-|[]]]; reflexivity. Qed.

Lemma location_is_candidate : forall c f url o loc p,
  (forall q n, In (q, n) f -> match n with Link _ => False | _ => True end) ->
  s_indices c = index_names ->
  handle c f url = o -> Spec.C05.location (s_root c) o = Some loc -> canon_path url = Ok p ->
  In loc (candidates p).
Proof.
  intros c f url o loc p L Hi H Hl Hp.
  pose proof (handle_shape_ok c f url) as S. rewrite H in S. clear H.
  inversion S as [| | |up segs fp o' U Cn Z Rf Pf Nl Alt]; subst; try discriminate.
  destruct (canon_path_of_handle _ _ _ _ U Cn Hp) as [G [NS [e [-> He]]]].
  assert (NS' : forall n, In n segs -> n <> [] /\ ~ In ch_slash n).
  { intros n Hn. split; [|auto]. rewrite Forall_forall in G. apply (G n Hn). }
  unfold candidates. rewrite (rstrip_canon segs e NS' He).
  apply (resolve_fully_linkfree _ _ _ _ L) in Rf. rewrite (lexnorm_good _ G) in Rf. subst fp.
  destruct Alt as [[Hd Ht]|[[Hd [Ht [Hls Ho]]]|[Hd Ho]]].
  - apply try_indices_cases in Ht. destruct Ht as [->|[->|[i [ip [Hin [Hr [Hpp [_ Ho]]]]]]]]; [discriminate|discriminate|].
    rewrite Hi in Hin. rewrite (pjoin_index _ _ Hin) in Hr. cbn [fst snd] in Hr.
    apply (resolve_fully_linkfree _ _ _ _ L) in Hr.
    rewrite (lexnorm_good [i]) in Hr by (constructor; [apply goodn_index; assumption|constructor]).
    subst ip.
    destruct (serve_file_cases c f ((s_root c ++ segs) ++ [i])) as [E|[E|[E|[ct [t [_ [_ [_ E]]]]]]]];
      rewrite E in Ho; subst o; try discriminate.
    simpl in Hl. rewrite <- app_assoc, strip_prefix_app in Hl. inversion Hl; subst loc. clear Hl.
    apply in_or_app; right. apply in_or_app; right.
    destruct segs as [|n r].
    + apply in_map_iff. exists i. split; [reflexivity|assumption].
    + rewrite join_slash_snoc by discriminate. apply in_map_iff. exists i. split; [|assumption].
      reflexivity.
  - destruct (listing_cases f (s_root c ++ segs)) as [E|E]; rewrite E in Ho; subst o; [discriminate|].
    simpl in Hl. rewrite strip_prefix_app in Hl.
    apply in_or_app; right. left.
    destruct segs as [|n r]; inversion Hl; reflexivity.
  - destruct (serve_file_cases c f (s_root c ++ segs)) as [E|[E|[E|[ct [t [_ [_ [_ E]]]]]]]];
      rewrite E in Ho; subst o; try discriminate.
    simpl in Hl. rewrite strip_prefix_app in Hl. inversion Hl; subst loc. clear Hl.
    destruct segs as [|n r].
    + apply in_or_app; right. left. reflexivity.
    + apply in_or_app; left. left. reflexivity.
Qed.

Lemma enforced : forall c f rules url fp o loc,
  (forall q n, In (q, n) f -> match n with Link _ => False | _ => True end) ->
  s_indices c = index_names ->
  decide rules url fp = Ok Allow -> handle c f url = o -> Spec.C05.location (s_root c) o = Some loc ->
  Spec.C05.admits (Spec.C05.covering rules loc) fp = true.
Proof.
  intros c f rules url fp o loc L Hi D H Hl.
  destruct (decide_inv _ _ _ _ D) as [p [Hp _]].
  eapply all_candidates; eauto. eapply location_is_candidate; eauto.
Qed.

(* ------------------------------------------------------------------ *)
(* C02 reachability                                                    *)
(* ------------------------------------------------------------------ *)
Lemma split_on_aux_app c n : ~ In c n -> forall cur s,
  split_on_aux c cur (n ++ s) = split_on_aux c (rev n ++ cur) s.
Proof.
  induction n as [|a n IH]; intros Hn cur s; [reflexivity|].
  simpl. assert (E : (a =? c)%N = false) by (apply N.eqb_neq; intro; apply Hn; left; congruence).
  rewrite E. rewrite IH by (intro; apply Hn; right; assumption).
  rewrite <- app_assoc. reflexivity.
Qed.

Lemma split_on_join segs : segs <> [] -> (forall n, In n segs -> ~ In ch_slash n) ->
  split_on ch_slash (join_slash segs) = segs.
Proof.
  unfold split_on. induction segs as [|n r IH]; [contradiction|]. intros _ H.
  destruct r as [|m r'].
  - cbn [join_slash]. rewrite <- (app_nil_r n) at 1.
    rewrite split_on_aux_app by (apply H; left; reflexivity).
    cbn [split_on_aux]. rewrite app_nil_r, rev_involutive. reflexivity.
  - rewrite join_slash_cons by discriminate.
    rewrite split_on_aux_app by (apply H; left; reflexivity).
    cbn [split_on_aux]. rewrite N.eqb_refl. rewrite app_nil_r, rev_involutive.
    f_equal. apply IH; [discriminate|]. intros k Hk. apply H. right; assumption.
Qed.

Lemma mem_join_slash c segs : c <> ch_slash -> (forall n, In n segs -> mem c n = false) ->
  mem c (join_slash segs) = false.
Proof.
  intros Hc. induction segs as [|n r IH]; intro H; [reflexivity|].
  destruct r as [|m r']; [apply H; left; reflexivity|].
  rewrite join_slash_cons by discriminate. rewrite mem_app, mem_cons.
  rewrite (H n (or_introl eq_refl)). rewrite IH by (intros k Hk; apply H; right; assumption).
  apply N.eqb_neq in Hc. rewrite Hc. reflexivity.
Qed.

Lemma canon_strict_good segs : Forall goodn segs -> forall acc, canon_strict segs acc = Some (acc ++ segs).
Proof.
  induction 1 as [|n r Hn Hr IH]; intro acc; simpl; [rewrite app_nil_r; reflexivity|].
  apply goodn_tests in Hn. destruct Hn as [-> ->]. rewrite IH, <- app_assoc. reflexivity.
Qed.

Lemma fuel_1000 : (1000 <= realpath_fuel)%nat.
Proof. apply Nat.leb_le. vm_compute. reflexivity. Qed.

Lemma resolve_fully_linkfree_good f root segs :
  linkfree f -> Forall goodn root -> Forall goodn segs -> (length (root ++ segs) < 1000)%nat ->
  resolve_fully f root segs = FPath (root ++ segs).
Proof.
  intros L Gr Gs Hl. pose proof fuel_1000 as F.
  unfold resolve_fully, realpath.
  rewrite (join_real_linkfree_fuel f L) by (rewrite app_length in Hl; lia).
  rewrite (lexnorm_good _ Gs).
  rewrite (join_real_linkfree_fuel f L) by lia.
  rewrite lexnorm_good by (apply Forall_app; auto). simpl.
  rewrite path_eqb_refl. reflexivity.
Qed.

(* reachable_literal as stated in Props/C02.v is FALSE; two hypotheses are missing:
   (a) the components of the document root are themselves ordinary names (not "", ".", ".."):
       otherwise the second resolution in resolve_fully, which starts from [], rewrites the root
       (root = [".."], segs = ["a"], f = [([".."; "a"], File "x")] gives OStatus 51 "Not found");
   (b) no component is longer than 255 bytes (name_too_long): otherwise handle raises
       (root = ["r"], segs = [256 x "a"] in a tree where ["r"] is a directory gives ORaise "oserror"). *)
Lemma reachable_literal_partial : forall c f segs content t,
  (forall p n, In (p, n) f -> match n with Link _ => False | _ => True end) ->
  lstat f (s_root c ++ segs) = Some (File content) -> segs <> [] ->
  (forall n, In n segs -> n <> [] /\ n <> dot /\ n <> dotdot /\ mem ch_slash n = false /\ mem ch_pct n = false /\ mem 0%N n = false) ->
  (length (s_root c ++ segs) < 1000)%nat ->
  (N.of_nat (length content) <= s_max c)%N -> read_text content = Some t ->
  (* extra (a) *) (forall n, In n (s_root c) -> n <> [] /\ n <> dot /\ n <> dotdot) ->
  (* extra (b) *) name_too_long (s_root c ++ segs) = false ->
  handle c f (ch_slash :: CertAuth.join_slash segs) = OServe (s_root c ++ segs) (mime_of (s_root c ++ segs)) t.
Proof.
  intros c f segs content t L Hf Hne Hs Hlen Hmax Hdec Hroot Hlong.
  assert (Gs : Forall goodn segs).
  { apply Forall_forall. intros n Hn. destruct (Hs n Hn) as [A [B [C _]]]. repeat split; assumption. }
  assert (Gr : Forall goodn (s_root c)).
  { apply Forall_forall. intros n Hn. apply Hroot; assumption. }
  unfold handle.
  assert (U : unquote (ch_slash :: join_slash segs) = Ok (ch_slash :: join_slash segs)).
  { unfold unquote. rewrite mem_cons. rewrite mem_join_slash; [reflexivity|discriminate|].
    intros n Hn. apply (Hs n Hn). }
  rewrite U.
  assert (Cm : comps (ch_slash :: join_slash segs) = [] :: segs).
  { unfold comps, split_on. simpl. f_equal. apply (split_on_join segs Hne).
    intros n Hn. apply mem_false_notin. apply (Hs n Hn). }
  rewrite Cm. simpl canon_strict. rewrite (canon_strict_good _ Gs). simpl app.
  assert (Z : existsb (mem 0%N) segs = false).
  { destruct (existsb (mem 0%N) segs) eqn:E; [|reflexivity].
    apply existsb_exists in E. destruct E as [x [Hx E]].
    destruct (Hs x Hx) as [_ [_ [_ [_ [_ Hz]]]]]. congruence. }
  rewrite Z.
  rewrite (resolve_fully_linkfree_good f (s_root c) segs L Gr Gs Hlen).
  rewrite path_prefixb_app. cbn [negb]. rewrite (enametoolong_short f _ Hlong). rewrite Hf.
  unfold serve_file. rewrite Hf.
  assert (M : (s_max c <? N.of_nat (length content))%N = false) by lia.
  rewrite M, Hdec. reflexivity.
Qed.

(* machine-checked refutation of the statement of Props/C02.v C02_reachable_literal (case (a)) *)
Lemma reachable_literal_refuted :
  ~ (forall c f segs content t,
  (forall p n, In (p, n) f -> match n with Link _ => False | _ => True end) ->
  lstat f (s_root c ++ segs) = Some (File content) -> segs <> [] ->
  (forall n, In n segs -> n <> [] /\ n <> dot /\ n <> dotdot /\ mem ch_slash n = false /\ mem ch_pct n = false /\ mem 0%N n = false) ->
  (length (s_root c ++ segs) < 1000)%nat ->
  (N.of_nat (length content) <= s_max c)%N -> read_text content = Some t ->
  handle c f (ch_slash :: CertAuth.join_slash segs) = OServe (s_root c ++ segs) (mime_of (s_root c ++ segs)) t).
Proof.
  intro H.
  specialize (H {| s_root := [dotdot]; s_indices := index_names; s_listing := true; s_max := 10%N |}
                [([dotdot; lit "a"], File (lit "x"))] [lit "a"] (lit "x") (lit "x")).
  assert (E := H).
  assert (E' : handle {| s_root := [dotdot]; s_indices := index_names; s_listing := true; s_max := 10%N |}
                 [([dotdot; lit "a"], File (lit "x"))] (ch_slash :: join_slash [lit "a"])
               = OStatus 51 (lit "Not found")) by (vm_compute; reflexivity).
  rewrite E' in H. clear E E'.
  assert (X : OStatus 51 (lit "Not found") <> OServe [dotdot; lit "a"] (mime_of [dotdot; lit "a"]) (lit "x"))
    by discriminate.
  apply X. apply H; clear H X.
  - intros p n [E|[]]. inversion E; subst. exact I.
  - reflexivity.
  - discriminate.
  - intros n [<-|[]]. repeat split; discriminate.
  - simpl. lia.
  - vm_compute. discriminate.
  - reflexivity.
Qed.
