(* Proofs for Props/C02.v, Props/C14.v, Props/C05.v: the filesystem model, the static handler,
   the upload handler and the certificate middleware. *)
From Coq Require Import List NArith ZArith Bool Lia ZifyBool ZifyN ZifyNat.
From NV Require Import Prelude.Str Prelude.Res Prelude.Utf8 Model.Fs Model.Static Model.CertAuth.
From NV Require Spec.C02 Spec.C14 Spec.C05.
From NV Require Import Proofs.StrLemmas.
Import ListNotations.

(* ------------------------------------------------------------------ *)
(* paths                                                               *)
(* ------------------------------------------------------------------ *)
Lemma path_eqb_eq a b : path_eqb a b = true <-> a = b.
Proof.
  revert b; induction a as [|x a IH]; intros [|y b]; simpl; split; intro H;
    try congruence; try reflexivity.
  - apply andb_true_iff in H as [H1 H2]. apply eqb_spec in H1. apply IH in H2. congruence.
  - inversion H; subst. rewrite eqb_refl. simpl. apply IH. reflexivity.
Qed.
Lemma path_eqb_refl a : path_eqb a a = true.
Proof. apply path_eqb_eq; reflexivity. Qed.
Lemma path_eqb_neq a b : path_eqb a b = false <-> a <> b.
Proof. split; intro H.
  - intro E; apply path_eqb_eq in E; congruence.
  - destruct (path_eqb a b) eqn:E; [apply path_eqb_eq in E; contradiction|reflexivity]. Qed.

Lemma path_prefixb_app r s : path_prefixb r (r ++ s) = true.
Proof. induction r; simpl; auto. rewrite eqb_refl; simpl; auto. Qed.

Lemma eqb_app_self_false (a x : str) : x <> [] -> eqb a (a ++ x) = false.
Proof.
  intro Hx. apply eqb_neq. intro E.
  assert (L : length a = length (a ++ x)) by congruence.
  rewrite app_length in L. destruct x; [congruence|simpl in L; lia].
Qed.

Lemma prefix_sibling : forall r a x q, x <> [] -> path_prefixb (r ++ [a]) (r ++ [a ++ x] ++ q) = false.
Proof.
  intros r a x q Hx. induction r as [|y r IH]; simpl.
  - rewrite eqb_app_self_false by assumption. reflexivity.
  - rewrite eqb_refl. simpl. exact IH.
Qed.

(* ------------------------------------------------------------------ *)
(* resolve_fully                                                       *)
(* ------------------------------------------------------------------ *)
Lemma resolve_fully_FPath f b r p : resolve_fully f b r = FPath p -> realpath f [] p = RPath p.
Proof.
  unfold resolve_fully. destruct (realpath f b r) as [p0|l|] eqn:E1; try discriminate.
  - destruct (realpath f [] p0) as [q| |] eqn:E2; try discriminate.
    destruct (path_eqb q p0) eqn:E3; try discriminate.
    intro H; inversion H; subst. apply path_eqb_eq in E3. subst. assumption.
  - destruct (realpath f [] (lexnorm l [])) as [q| |] eqn:E2; try discriminate.
    destruct (path_eqb q (lexnorm l [])) eqn:E3; try discriminate.
    intro H; inversion H; subst. apply path_eqb_eq in E3. rewrite E3 in E2. assumption.
Qed.

(* ------------------------------------------------------------------ *)
(* the static handler                                                  *)
(* ------------------------------------------------------------------ *)
Definition m_notfound : str := lit "Not found".
Definition m_toolarge : str := lit "File too large - use alternative protocol".
Definition m_enc : str := lit "File encoding error (not UTF-8)".
Definition m_listing : str := lit "Error generating directory listing".

Lemma serve_file_cases c f p :
  serve_file c f p = OStatus 51 m_notfound \/ serve_file c f p = OStatus 50 m_toolarge \/
  serve_file c f p = OStatus 40 m_enc \/
  exists content t, lstat f p = Some (File content) /\ decode content = Some t /\
                    (s_max c <? N.of_nat (length content))%N = false /\
                    serve_file c f p = OServe p (mime_of p) t.
Proof.
  unfold serve_file. destruct (lstat f p) as [[content| |tg]|] eqn:E; auto.
  destruct (s_max c <? N.of_nat (length content))%N eqn:E2; auto.
  destruct (decode content) as [t|] eqn:E3; auto.
  right; right; right. exists content, t. auto.
Qed.

Lemma try_indices_cases c f d idx o :
  try_indices c f d idx = Some o ->
  o = OOom \/ exists i ip, In i idx /\ resolve_fully f d [i] = FPath ip /\
                           path_prefixb (s_root c) ip = true /\ o = serve_file c f ip.
Proof.
  induction idx as [|i rest IH]; simpl; [discriminate|].
  destruct (resolve_fully f d [i]) as [ip| |] eqn:E.
  - destruct (path_prefixb (s_root c) ip && match lstat f ip with Some (File _) => true | _ => false end) eqn:E2.
    + intro H; inversion H; subst. right. exists i, ip.
      apply andb_true_iff in E2 as [E2 _]. auto.
    + intro H. destruct (IH H) as [->|[i' [ip' [Hin Hr]]]]; [auto|]. right. exists i', ip'. tauto.
  - intro H. destruct (IH H) as [->|[i' [ip' [Hin Hr]]]]; [auto|]. right. exists i', ip'. tauto.
  - intro H; inversion H; auto.
Qed.

Lemma listing_cases f d : listing f d = OStatus 40 m_listing \/ listing f d = OListing d.
Proof. unfold listing. destruct (existsb _ _); auto. Qed.

(* the shape of every run of handle *)
Inductive handle_shape (c : scfg) (f : fs) (url : str) : sout -> Prop :=
| HOom : handle_shape c f url OOom
| HNotFound : handle_shape c f url (OStatus 51 m_notfound)
| HRaise k : handle_shape c f url (ORaise k)
| HResolved up segs fp o :
    unquote url = Ok up -> canon_strict (comps up) [] = Some segs -> existsb (mem 0%N) segs = false ->
    resolve_fully f (s_root c) segs = FPath fp -> path_prefixb (s_root c) fp = true ->
    name_too_long fp = false ->
    ( (lstat f fp = Some Dir /\ try_indices c f fp (s_indices c) = Some o) \/
      (lstat f fp = Some Dir /\ try_indices c f fp (s_indices c) = None /\ s_listing c = true /\ o = listing f fp) \/
      (lstat f fp <> Some Dir /\ o = serve_file c f fp) ) ->
    handle_shape c f url o.

Lemma handle_shape_ok c f url : handle_shape c f url (handle c f url).
Proof.
  unfold handle.
  destruct (unquote url) as [up| |] eqn:E1; try apply HOom.
  destruct (canon_strict (comps up) []) as [segs|] eqn:E2; [|apply HNotFound].
  destruct (existsb (mem 0%N) segs) eqn:E3; [apply HNotFound|].
  destruct (resolve_fully f (s_root c) segs) as [fp| |] eqn:E4; [|apply HNotFound|apply HOom].
  destruct (path_prefixb (s_root c) fp) eqn:E5; simpl; [|apply HNotFound].
  destruct (name_too_long fp) eqn:E6; [apply HRaise|].
  destruct (lstat f fp) as [[ct| |tg]|] eqn:E7.
  - eapply HResolved; eauto. right; right. split; [congruence|reflexivity].
  - destruct (try_indices c f fp (s_indices c)) as [o|] eqn:E8.
    + eapply HResolved; eauto.
    + destruct (s_listing c) eqn:E9; [|apply HNotFound].
      eapply HResolved; eauto. right; left. auto.
  - eapply HResolved; eauto. right; right. split; [congruence|reflexivity].
  - eapply HResolved; eauto. right; right. split; [congruence|reflexivity].
Qed.

Lemma serve_file_OServe c f p q mime t :
  serve_file c f p = OServe q mime t ->
  q = p /\ exists content, lstat f q = Some (File content) /\ decode content = Some t.
Proof.
  destruct (serve_file_cases c f p) as [H|[H|[H|[content [t' [H1 [H2 [_ H3]]]]]]]]; rewrite H; try discriminate.
  rewrite H3. intro E; inversion E; subst. split; [reflexivity|]. exists content; auto.
Qed.

Lemma containment : forall c f url q mime t,
  handle c f url = OServe q mime t ->
  path_prefixb (s_root c) q = true /\ realpath f [] q = RPath q /\
  exists content, lstat f q = Some (File content) /\ decode content = Some t.
Proof.
  intros c f url q mime t H.
  pose proof (handle_shape_ok c f url) as S. rewrite H in S. clear H.
  inversion S as [| | |up segs fp o U Cn Z Rf Pf Nl Alt]; subst.
  destruct Alt as [[Hd Ht]|[[Hd [Ht [Hl Ho]]]|[Hd Ho]]].
  - apply try_indices_cases in Ht. destruct Ht as [Ht|[i [ip [Hi [Hr [Hp Ho]]]]]]; [discriminate|].
    symmetry in Ho. apply serve_file_OServe in Ho. destruct Ho as [-> Hc].
    split; [assumption|]. split; [|assumption]. eapply resolve_fully_FPath; eauto.
  - destruct (listing_cases f fp) as [E|E]; rewrite E in Ho; discriminate.
  - symmetry in Ho. apply serve_file_OServe in Ho. destruct Ho as [-> Hc].
    split; [assumption|]. split; [|assumption]. eapply resolve_fully_FPath; eauto.
Qed.

Lemma serve_file_not_listing c f p d : serve_file c f p <> OListing d.
Proof.
  destruct (serve_file_cases c f p) as [H|[H|[H|[content [t' [H1 [H2 [_ H3]]]]]]]]; rewrite H; discriminate.
Qed.

Lemma listing_inside : forall c f url d,
  handle c f url = OListing d ->
  path_prefixb (s_root c) d = true /\ realpath f [] d = RPath d /\ lstat f d = Some Dir /\ s_listing c = true.
Proof.
  intros c f url d H.
  pose proof (handle_shape_ok c f url) as S. rewrite H in S. clear H.
  inversion S as [| | |up segs fp o U Cn Z Rf Pf Nl Alt]; subst.
  destruct Alt as [[Hd Ht]|[[Hd [Ht [Hl Ho]]]|[Hd Ho]]].
  - apply try_indices_cases in Ht. destruct Ht as [Ht|[i [ip [Hi [Hr [Hp Ho]]]]]]; [discriminate|].
    symmetry in Ho. apply serve_file_not_listing in Ho. contradiction.
  - destruct (listing_cases f fp) as [E|E]; rewrite E in Ho; [discriminate|].
    inversion Ho; subst. repeat split; auto. eapply resolve_fully_FPath; eauto.
  - symmetry in Ho. apply serve_file_not_listing in Ho. contradiction.
Qed.

Lemma serve_file_status c f p st m :
  serve_file c f p = OStatus st m ->
  (st = 51 /\ m = lit "Not found")%Z \/ (st = 50 /\ m = lit "File too large - use alternative protocol")%Z \/
  (st = 40 /\ m = lit "File encoding error (not UTF-8)")%Z \/ (st = 40 /\ m = lit "Error generating directory listing")%Z.
Proof.
  destruct (serve_file_cases c f p) as [H|[H|[H|[content [t' [H1 [H2 [_ H3]]]]]]]]; rewrite H;
    intro E; inversion E; subst; auto.
Qed.

Lemma no_leak : forall c f url st m,
  handle c f url = OStatus st m ->
  (st = 51 /\ m = lit "Not found")%Z \/ (st = 50 /\ m = lit "File too large - use alternative protocol")%Z \/
  (st = 40 /\ m = lit "File encoding error (not UTF-8)")%Z \/ (st = 40 /\ m = lit "Error generating directory listing")%Z.
Proof.
  intros c f url st m H.
  pose proof (handle_shape_ok c f url) as S. rewrite H in S. clear H.
  inversion S as [|E| |up segs fp o U Cn Z Rf Pf Nl Alt]; subst.
  - left; auto.
  - destruct Alt as [[Hd Ht]|[[Hd [Ht [Hl Ho]]]|[Hd Ho]]].
    + apply try_indices_cases in Ht. destruct Ht as [Ht|[i [ip [Hi [Hr [Hp Ho]]]]]]; [discriminate|].
      symmetry in Ho. eapply serve_file_status; eauto.
    + destruct (listing_cases f fp) as [E|E]; rewrite E in Ho; [|discriminate].
      inversion Ho; subst. right; right; right. auto.
    + symmetry in Ho. eapply serve_file_status; eauto.
Qed.
