(* Proofs of the Gen = Model lemmas stated in Equiv/EquivTofu.v (trust store and the TOFU block of the session).
   Gen/TofuGen.v is regenerated on every run; the proofs never mention a generated local name. *)
From Coq Require Import List NArith ZArith Bool Lia.
From NV Require Import Prelude.Str Prelude.Res Model.Tofu Equiv.TofuGlue Gen.TofuGen.
Import ListNotations.
Open Scope list_scope.

(* ---------- TOFUDatabase.trust ---------- *)
Lemma trust_tie : forall s h p fp now, gen_trust s h p fp now = (trust_stmts s h p fp now, Ok tt).
Proof.
  intros. unfold gen_trust, trust_stmts. cbv zeta.
  destruct (lookup s h p) eqn:L; [reflexivity|].
  cbn [exec r_host r_port]. rewrite L. reflexivity.
Qed.

(* ---------- TOFUDatabase.verify ---------- *)
Lemma verify_tie : forall s h p fp now,
  gen_verify s h p fp now = (snd (verify s h p fp), Ok (verdict_py (fst (verify s h p fp)))).
Proof.
  intros. unfold gen_verify, verify. cbv zeta.
  destruct (lookup s h p) as [r|]; [|reflexivity].
  destruct (eqb (r_fp r) fp); reflexivity.
Qed.

(* ---------- revoke / revoke_by_hostname / clear / get_host_info ---------- *)
Lemma filter_find_pos {A} (f : A -> bool) (l : list A) :
  Nat.ltb 0 (length (filter f l)) = match find f l with Some _ => true | None => false end.
Proof. induction l as [|a l IH]; [reflexivity|]. cbn [filter find]. destruct (f a); [reflexivity|exact IH]. Qed.

Lemma revoke_tie : forall s h p,
  gen_revoke s h p = ([SDelete h p; SCommit], Ok (match lookup s h p with Some _ => true | None => false end)).
Proof. intros. unfold gen_revoke, lookup. rewrite <- filter_find_pos. reflexivity. Qed.

Lemma revoke_by_hostname_tie : forall s h,
  gen_revoke_by_hostname s h = ([SDeleteHost h; SCommit], Ok (length (filter (fun r => eqb h (r_host r)) s))).
Proof. reflexivity. Qed.

Lemma clear_tie : forall s, gen_clear s = ([SDeleteAll; SCommit], Ok (length s)).
Proof. reflexivity. Qed.

Lemma get_host_info_tie : forall s h p, gen_get_host_info s h p = ([], Ok (lookup s h p)).
Proof. intros. unfold gen_get_host_info. cbv zeta. destruct (lookup s h p); reflexivity. Qed.

(* ---------- the TOFU block of the session ---------- *)
Lemma session_block s h p c now :
  forall G, G = gen_get_single_tofu \/ G = gen_upload_tofu ->
  G (fun s h p c => gen_verify s h p c now) gen_get_host_info (fun s h p c => gen_trust s h p c now) s h p c
  = (fst (tofu_check s h p (presented_of c) now), outcome_of h p (snd (tofu_check s h p (presented_of c) now))).
Proof.
  intros G [-> | ->]; unfold gen_get_single_tofu, gen_upload_tofu; cbv zeta;
    (destruct c as [fp|]; [|reflexivity]);
    rewrite verify_tie; unfold tofu_check, presented_of, verify;
    (destruct (lookup s h p) as [r|] eqn:L;
     [destruct (eqb (r_fp r) fp); [reflexivity|];
      cbn [snd fst verdict_py negb andb]; rewrite get_host_info_tie;
      change (db_run s []) with s; rewrite L; reflexivity
     |cbn [snd fst verdict_py negb andb]; rewrite trust_tie; reflexivity]).
Qed.

(* ---------- TOFUDatabase._validate_fingerprint ---------- *)
Lemma match_items_lit p rest s :
  match_items (re_lit p ++ rest) s = if prefixb p s then match_items rest (drop (length p) s) else None.
Proof.
  revert s; induction p as [|x p IH]; intro s; [reflexivity|].
  cbn [re_lit map app match_items match_rep atom_ok prefixb length drop].
  destruct s as [|c s]; [reflexivity|].
  destruct (N.eqb x c); [apply IH|reflexivity].
Qed.

Lemma match_rep_full a n d :
  match match_rep a n d with Some [] => true | _ => false end = Nat.eqb (length d) n && forallb (atom_ok a) d.
Proof.
  revert d; induction n as [|n IH]; intros [|c d]; cbn [match_rep length Nat.eqb forallb andb]; try reflexivity.
  destruct (atom_ok a c); cbn [andb]; [apply IH|]. now rewrite andb_false_r.
Qed.

Lemma forallb_ext' {A} (f g : A -> bool) l : (forall a, f a = g a) -> forallb f l = forallb g l.
Proof. intro H. induction l as [|a l IH]; [reflexivity|]. cbn [forallb]. now rewrite H, IH. Qed.

Definition fp_items : list (ratom * nat) := re_lit (lit "sha256:") ++ [(RClass [(48%N, 57%N); (97%N, 102%N)], 64)].
Definition fp_shape (l : str) : bool :=
  prefixb (lit "sha256:") l && Nat.eqb (length (drop 7 l)) 64
  && forallb (fun c => is_digit c || ((97 <=? c)%N && (c <=? 102)%N)) (drop 7 l).

Lemma fullmatch_fp l : fullmatch fp_items l = fp_shape l.
Proof.
  unfold fullmatch, fp_items, fp_shape. rewrite match_items_lit.
  change (length (lit "sha256:")) with 7.
  destruct (prefixb (lit "sha256:") l); [|reflexivity]. cbn [andb match_items].
  generalize (drop 7 l) as d. intro d.
  assert (E : match match_rep (RClass [(48%N, 57%N); (97%N, 102%N)]) 64 d with Some r => Some r | None => None end
              = match_rep (RClass [(48%N, 57%N); (97%N, 102%N)]) 64 d) by (destruct (match_rep _ _ d); reflexivity).
  rewrite E, match_rep_full. f_equal. apply forallb_ext'. intro c.
  unfold atom_ok, is_digit. cbn [existsb fst snd]. now rewrite orb_false_r.
Qed.

Lemma lower_ch_lf c : N.eqb (lower_ch c) 10 = N.eqb c 10.
Proof.
  unfold lower_ch, is_upper. destruct ((65 <=? c)%N && (c <=? 90)%N) eqn:E; [|reflexivity].
  apply andb_true_iff in E as [E1 E2]. apply N.leb_le in E1, E2.
  transitivity false; [apply N.eqb_neq; lia|symmetry; apply N.eqb_neq; lia].
Qed.

Lemma ends_lf_lower s : ends_lf (lower s) = ends_lf s.
Proof. unfold ends_lf, lower. rewrite <- map_rev. destruct (rev s) as [|c r]; [reflexivity|]. apply lower_ch_lf. Qed.

Lemma removelast_lower s : removelast (lower s) = lower (removelast s).
Proof.
  unfold lower. induction s as [|c s IH]; [reflexivity|].
  destruct s as [|c' s]; [reflexivity|]. cbn [map removelast] in *. now rewrite IH.
Qed.

(* the `$` of the pattern accepts a final line feed: a first version of the model (now Tofu.fp_strict) did not, and the tie
   was false on "sha256:" + 64 hex digits + "\n"; Tofu.fp_valid follows the code since *)
Lemma validate_fingerprint_tie : forall fp, gen_validate_fingerprint fp = fp_valid fp.
Proof.
  intro fp. unfold gen_validate_fingerprint, fp_valid. cbv zeta. unfold re_match_anchored.
  change (re_lit (lit "sha256:") ++ [(RClass [(48%N, 57%N); (97%N, 102%N)], 64)]) with fp_items.
  rewrite !fullmatch_fp, ends_lf_lower, removelast_lower.
  change (fp_shape (lower fp)) with (fp_strict fp). change (fp_shape (lower (removelast fp))) with (fp_strict (removelast fp)).
  destruct (fp_strict fp || _); reflexivity.
Qed.

(* ---------- TOFUDatabase.import_toml: the transaction (optional DELETE, the per-entry loop, COMMIT) ---------- *)
Lemma port_check (i : bool) (x : Z) :
  negb i || negb ((1 <=? x)%Z && (x <=? 65535)%Z) = negb i || (x <? 1)%Z || (65535 <? x)%Z.
Proof. rewrite negb_andb, orb_assoc, (Z.ltb_antisym 1 x), (Z.ltb_antisym x 65535). reflexivity. Qed.

Definition validates_like_model (validate : str -> bool) (ke : str * pyentry) : Prop :=
  validate (pe_fp (snd ke)) = fp_valid (pe_fp (snd ke)).

Lemma import_toml_tie_gen : forall validate cb s merge es now,
  Forall (validates_like_model validate) es ->
  obs (gen_import_toml validate s merge cb es now) = import_stmts cb s merge (to_entries es).
Proof.
  intros validate cb s merge es now HF. unfold gen_import_toml, import_stmts. cbv beta iota zeta fix.
  revert HF.
  destruct merge; cbn [negb exec];
  match goal with |- _ -> obs (?F es ?q0 ?w0 0 0 0) = _ =>
    enough (E : forall es, Forall (validates_like_model validate) es ->
                forall q w a k u, obs (F es q w a k u) = import_loop cb w (to_entries es) q) by (intro HF; apply E, HF) end;
  clear; (induction es as [|[key e] es IH]; intros HF q w a k u; [reflexivity|]);
  inversion HF as [|x l Hx Hl]; subst; unfold validates_like_model in Hx; cbn [snd] in Hx; specialize (IH Hl);
  change (to_entries ((key, e) :: es)) with (to_entry e :: to_entries es);
  cbn [import_loop to_entry e_complete e_port e_port_is_int e_fp e_host e_first forallb];
  repeat (match goal with |- context [has_key e ?f] => destruct (has_key e f) end; cbn [negb andb]; [|reflexivity]);
  rewrite port_check, Hx;
  (destruct (_ || _ || _); [reflexivity|]);
  (destruct (fp_valid (pe_fp e)); cbn [negb]; [|reflexivity]);
  (destruct (lookup w (pe_host e) (Z.to_N (dv (pe_port e)))) as [r|] eqn:L;
   [|cbn [exec r_host r_port]; rewrite L; apply IH]);
  (destruct (eqb (r_fp r) (pe_fp e)); [apply IH|]);
  (destruct cb as [f|]; [|apply IH]);
  (destruct (f _ _ _ _); [cbn [exec]; apply IH|apply IH|reflexivity]).
Qed.

(* with the model's fp_valid for the callee self._validate_fingerprint: exact *)
Lemma import_toml_tie : forall cb s merge es now,
  obs (gen_import_toml fp_valid s merge cb es now) = import_stmts cb s merge (to_entries es).
Proof. intros. apply import_toml_tie_gen. apply Forall_forall. intros x _. reflexivity. Qed.

(* with the code's own _validate_fingerprint *)
Lemma import_toml_code_tie : forall cb s merge es now,
  obs (gen_import_toml gen_validate_fingerprint s merge cb es now) = import_stmts cb s merge (to_entries es).
Proof. intros. apply import_toml_tie_gen. apply Forall_forall. intros x _. apply validate_fingerprint_tie. Qed.

Lemma get_single_tofu_tie : forall s h p c now,
  gen_get_single_tofu (fun s h p c => gen_verify s h p c now) gen_get_host_info (fun s h p c => gen_trust s h p c now) s h p c
  = (fst (tofu_check s h p (presented_of c) now), outcome_of h p (snd (tofu_check s h p (presented_of c) now))).
Proof. intros. apply session_block. left. reflexivity. Qed.

Lemma upload_tofu_tie : forall s h p c now,
  gen_upload_tofu (fun s h p c => gen_verify s h p c now) gen_get_host_info (fun s h p c => gen_trust s h p c now) s h p c
  = (fst (tofu_check s h p (presented_of c) now), outcome_of h p (snd (tofu_check s h p (presented_of c) now))).
Proof. intros. apply session_block. right. reflexivity. Qed.
