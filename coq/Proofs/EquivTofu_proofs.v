(* Proofs of the Gen = Model lemmas stated in Equiv/EquivTofu.v (trust store and the TOFU block of the session).
   Gen/TofuGen.v is regenerated on every run; the proofs never mention a generated local name. *)
From Coq Require Import List NArith ZArith Bool Lia.
From NV Require Import Prelude.Str Prelude.Res Model.Tofu Equiv.TofuGlue Gen.TofuGen.
Import ListNotations.
Open Scope list_scope.

(* ---------- TOFUDatabase.trust ---------- *)
Lemma trust_tie : forall s h p fp now, gen_trust s h p fp now = (trust_stmts s h p fp now, Ok tt).
Proof.
  intros. unfold gen_trust, trust_stmts. cbv zeta.
  destruct (lookup s h p) eqn:L; [reflexivity|].
  cbn [exec r_host r_port]. rewrite L. reflexivity.
Qed.
