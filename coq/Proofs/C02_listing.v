(* C02, the directory listing: what the text of a listing (Model/Listing.v, tied to content/gemtext.py by
   Equiv/EquivGemtext.v) can depend on.

   (a) listing_content_independent   two filesystems of the same shape (same entries, kinds, link targets and file
                                     LENGTHS) have the same listing text: no file content reaches a listing
   (b) listing_factorisation         the text is render fmt base (entries_view f d): a function of the list of
                                     (name, directory-after-following / size-after-following / broken) of d's entries
   (c) listing_lines                 every line is the header, a blank, the parent link, "(empty directory)", or an
                                     entry line built from the NAME of a child of d (and, for a file, its size)
   (d) listing_static / handle_listing_text   Model/Static.v's abstract outcome `OListing d` is exactly "the text exists"

   Each with an example on a small filesystem that has a symbolic link to a file outside the document root. *)
From Coq Require Import List NArith ZArith Bool Lia.
From NV Require Import Prelude.Str Prelude.Res Prelude.Utf8 Model.Fs Model.Static Model.Listing Proofs.Fs_proofs.
Import ListNotations.
Open Scope list_scope.

(* ------------------------------------------------------------------ (b) *)
Theorem listing_factorisation : forall fmt f d base,
  listing_text fmt f d base = render fmt base (entries_view f d).
Proof. reflexivity. Qed.

(* ------------------------------------------------------------------ shapes *)
(* same kind; a link has the same target; a regular file has the same length (its content is free) *)
Definition shape_eq (n n' : node) : Prop :=
  match n, n' with
  | File c, File c' => length c = length c'
  | Dir, Dir => True
  | Link t, Link t' => t = t'
  | _, _ => False
  end.
Definition same_shape (f f' : fs) : Prop :=
  Forall2 (fun e e' => fst e = fst e' /\ shape_eq (snd e) (snd e')) f f'.
Definition oshape_eq (o o' : option node) : Prop :=
  match o, o' with Some n, Some n' => shape_eq n n' | None, None => True | _, _ => False end.

Lemma lstat_shape f f' : same_shape f f' -> forall p, oshape_eq (lstat f p) (lstat f' p).
Proof.
  induction 1 as [|[q n] [q' n'] r r' [Hq Hn] _ IH]; intro p; cbn [lstat]; [exact I|].
  cbn [fst snd] in Hq, Hn. subst q'. destruct (path_eqb p q); [exact Hn|apply IH].
Qed.

Lemma join_real_shape f f' : same_shape f f' -> forall fuel cur rest vis,
  join_real fuel f cur rest vis = join_real fuel f' cur rest vis.
Proof.
  intros H fuel. induction fuel as [|fu IH]; intros cur rest vis; [reflexivity|].
  cbn [join_real]. destruct rest as [|n rest']; [reflexivity|].
  destruct (match n with [] => true | _ => false end || eqb n dot); [apply IH|].
  destruct (eqb n dotdot); [apply IH|]. cbv zeta.
  pose proof (lstat_shape f f' H (cur ++ [n])) as S. unfold oshape_eq, shape_eq in S.
  destruct (lstat f (cur ++ [n])) as [[c| |t]|]; destruct (lstat f' (cur ++ [n])) as [[c'| |t']|]; try contradiction;
    try apply IH.
  subst t'. destruct (existsb (path_eqb (cur ++ [n])) vis); [reflexivity|].
  match goal with |- (let '(a, b) := ?m in _) = _ => destruct m as [start tc] end.
  rewrite IH. destruct (join_real fu f' start tc _); try rewrite IH; reflexivity.
Qed.

Lemma realpath_shape f f' : same_shape f f' -> forall b r, realpath f b r = realpath f' b r.
Proof. intros H b r. apply join_real_shape. assumption. Qed.

Lemma map_fst_shape f f' : same_shape f f' -> map fst f = map fst f'.
Proof. induction 1 as [|e e' r r' [Hq _] _ IH]; [reflexivity|]. cbn [map]. rewrite Hq, IH. reflexivity. Qed.
Lemma lstat_none_shape f f' : same_shape f f' -> forall p, lstat f p = None <-> lstat f' p = None.
Proof.
  intros H p. pose proof (lstat_shape f f' H p) as S. unfold oshape_eq in S.
  destruct (lstat f p), (lstat f' p); try contradiction; split; congruence.
Qed.
Lemma implicit_dir_shape f f' : same_shape f f' -> forall p, implicit_dir f p = implicit_dir f' p.
Proof.
  intros H p. unfold implicit_dir.
  pose proof (lstat_shape f f' H p) as S. unfold oshape_eq in S.
  destruct (lstat f p), (lstat f' p); try contradiction; try reflexivity.
  destruct p; [reflexivity|].
  assert (E : forall g : fs, existsb (fun e => path_prefixb (s :: p) (fst e)) g = existsb (path_prefixb (s :: p)) (map fst g)).
  { induction g as [|e g IH]; [reflexivity|]. cbn [existsb map]. rewrite IH. reflexivity. }
  rewrite !E, (map_fst_shape f f' H). reflexivity.
Qed.
Lemma k_is_dir_shape f f' : same_shape f f' -> forall p, k_is_dir f p = k_is_dir f' p.
Proof.
  intros H p. unfold k_is_dir. rewrite (implicit_dir_shape f f' H).
  pose proof (lstat_shape f f' H p) as S. unfold oshape_eq, shape_eq in S.
  destruct (lstat f p) as [[c| |t]|]; destruct (lstat f' p) as [[c'| |t']|]; try contradiction; reflexivity.
Qed.

Lemma kwalk_shape f f' : same_shape f f' -> forall fuel links cur rest,
  kwalk fuel f links cur rest = kwalk fuel f' links cur rest.
Proof.
  intros H fuel. induction fuel as [|fu IH]; intros links cur rest; [reflexivity|].
  cbn [kwalk]. destruct rest as [|n rest']; [reflexivity|].
  destruct (match n with [] => true | _ => false end || eqb n dot); [apply IH|].
  destruct (eqb n dotdot); [apply IH|]. cbv zeta.
  rewrite <- (implicit_dir_shape f f' H).
  pose proof (lstat_shape f f' H (cur ++ [n])) as S. unfold oshape_eq, shape_eq in S.
  destruct (lstat f (cur ++ [n])) as [[c| |t]|]; destruct (lstat f' (cur ++ [n])) as [[c'| |t']|]; try contradiction;
    try apply IH; try reflexivity.
  - subst t'. destruct links as [|links1]; [reflexivity|].
    match goal with |- (let '(a, b) := ?m in _) = _ => destruct m as [start tc] end.
    rewrite IH. destruct (kwalk fu f' links1 start tc) as [[p links2]|]; [|reflexivity].
    destruct rest'; [reflexivity|]. rewrite (k_is_dir_shape f f' H). destruct (k_is_dir f' p); [apply IH|reflexivity].
  - destruct (implicit_dir f (cur ++ [n])); [apply IH|reflexivity].
Qed.

(* what a listing learns by stat()ing an entry depends on the shape only *)
Lemma kstat_shape f f' : same_shape f f' -> forall p, ent_of (kstat f p) = ent_of (kstat f' p).
Proof.
  intros H p. unfold kstat. rewrite <- (kwalk_shape f f' H).
  pose proof (lstat_shape f f' H p) as S. unfold oshape_eq, shape_eq in S.
  destruct (lstat f p) as [[c| |t]|]; destruct (lstat f' p) as [[c'| |t']|]; try contradiction; try reflexivity.
  - cbn [ent_of]. rewrite S. reflexivity.
  - destruct (kwalk _ f _ _ _) as [[q l2]|]; try reflexivity.
    rewrite <- (implicit_dir_shape f f' H).
    pose proof (lstat_shape f f' H q) as S2. unfold oshape_eq, shape_eq in S2.
    destruct (lstat f q) as [[c| |t2]|]; destruct (lstat f' q) as [[c'| |t2']|]; try contradiction; try reflexivity.
    cbn [ent_of]. rewrite S2. reflexivity.
Qed.

Lemma children_shape f f' : same_shape f f' -> forall d, map fst (children f d) = map fst (children f' d).
Proof.
  intros H d. unfold children.
  induction H as [|[q n] [q' n'] r r' [Hq _] _ IH]; [reflexivity|].
  cbn [fst snd] in Hq. subst q'. cbn [flat_map]. rewrite !map_app, IH. f_equal.
  destruct (_ && _); [|reflexivity]. destruct (rev q); reflexivity.
Qed.

Lemma entries_view_shape f f' : same_shape f f' -> forall d, entries_view f d = entries_view f' d.
Proof.
  intros H d. unfold entries_view.
  pose proof (lstat_shape f f' H d) as S. unfold oshape_eq, shape_eq in S.
  destruct (lstat f d) as [[c| |t]|]; destruct (lstat f' d) as [[c'| |t']|]; try contradiction; try reflexivity.
  f_equal.
  rewrite <- (map_map fst (fun n => (n, ent_of (kstat f (d ++ [n])))) (children f d)).
  rewrite <- (map_map fst (fun n => (n, ent_of (kstat f' (d ++ [n])))) (children f' d)).
  rewrite (children_shape f f' H). apply map_ext. intro n. rewrite (kstat_shape f f' H). reflexivity.
Qed.

(* ------------------------------------------------------------------ (a) *)
Theorem listing_content_independent : forall fmt f f' d base,
  same_shape f f' -> listing_text fmt f d base = listing_text fmt f' d base.
Proof. intros. unfold listing_text. rewrite (entries_view_shape f f') by assumption. reflexivity. Qed.

(* ------------------------------------------------------------------ sorting keeps the elements *)
Lemma In_insert_by {K A} (leb : K -> K -> bool) (x y : K * A) l : In y (insert_by leb x l) <-> y = x \/ In y l.
Proof.
  induction l as [|z r IH]; cbn [insert_by].
  - cbn. intuition.
  - destruct (leb (fst x) (fst z)); cbn [In]; [intuition|]. rewrite IH. cbn [In]. intuition.
Qed.
Lemma In_sort_by {K A} (leb : K -> K -> bool) (y : K * A) l : In y (sort_by leb l) <-> In y l.
Proof.
  induction l as [|z r IH]; cbn [sort_by]; [reflexivity|].
  rewrite In_insert_by, IH. cbn [In]. intuition.
Qed.
Lemma In_sorted_entries x es : In x (sorted_entries es) <-> In x es.
Proof.
  unfold sorted_entries. rewrite in_map_iff. split.
  - intros [[k y] [E Hin]]. cbn [snd] in E. subst y. apply In_sort_by in Hin. apply in_map_iff in Hin.
    destruct Hin as [z [Ez Hz]]. inversion Ez; subst. assumption.
  - intro Hin. exists (key_of x, x). split; [reflexivity|]. apply In_sort_by. apply in_map_iff. exists x. auto.
Qed.

(* ------------------------------------------------------------------ when there is a text *)
Lemma entry_lines_None fmt base l :
  entry_lines fmt base l = None <-> exists x, In x l /\ snd x = EBroken.
Proof.
  induction l as [|x r IH]; cbn [entry_lines].
  - split; [discriminate|intros [x [[] _]]].
  - unfold entry_line. destruct (snd x) eqn:E.
    + destruct (entry_lines fmt base r).
      * split; [discriminate|]. intros [y [[->|Hin] Hb]]; [congruence|].
        destruct IH as [_ IH]. assert (@None (list str) = None -> False); [|tauto].
        intros _. assert (Some l = None) by (apply IH; eauto). discriminate.
      * split; [|reflexivity]. intros _. destruct IH as [IH _]. destruct (IH eq_refl) as [y [Hin Hb]]. exists y. cbn [In]. auto.
    + destruct (entry_lines fmt base r).
      * split; [discriminate|]. intros [y [[->|Hin] Hb]]; [congruence|].
        destruct IH as [_ IH]. assert (Some l = None) by (apply IH; eauto). discriminate.
      * split; [|reflexivity]. intros _. destruct IH as [IH _]. destruct (IH eq_refl) as [y [Hin Hb]]. exists y. cbn [In]. auto.
    + split; [|reflexivity]. intros _. exists x. cbn [In]. auto.
Qed.

Lemma render_None fmt base es :
  render fmt base (Some es) = None <-> exists x, In x es /\ snd x = EBroken.
Proof.
  unfold render. destruct (sorted_entries es) as [|s0 sr] eqn:S.
  - split; [discriminate|]. intros [x [Hin _]]. apply In_sorted_entries in Hin. rewrite S in Hin. destruct Hin.
  - rewrite <- S. clear S. destruct (entry_lines fmt (ensure_slash base) (sorted_entries es)) eqn:E.
    + split; [discriminate|]. intros [x [Hin Hb]].
      assert (N : entry_lines fmt (ensure_slash base) (sorted_entries es) = None).
      { apply entry_lines_None. exists x. split; [apply In_sorted_entries; assumption|assumption]. }
      congruence.
    + split; [|reflexivity]. intros _. apply entry_lines_None in E. destruct E as [x [Hin Hb]].
      exists x. split; [apply In_sorted_entries; assumption|assumption].
Qed.

Lemma kstat_not_link f p t : kstat f p <> Some (Link t).
Proof.
  unfold kstat. destruct (lstat f p) as [[c| |tg]|]; try discriminate.
  destruct (kwalk _ _ _ _ _) as [[q l2]|]; try discriminate.
  destruct (lstat f q) as [[c| |t2]|]; try discriminate. destruct (implicit_dir f q); discriminate.
Qed.
Lemma ent_broken f p : ent_of (kstat f p) = EBroken <-> kstat f p = None.
Proof.
  pose proof (kstat_not_link f p) as NL.
  destruct (kstat f p) as [[c| |t]|]; cbn [ent_of]; split; try discriminate; try reflexivity.
  intros _. exfalso. eapply NL. reflexivity.
Qed.

Lemma listing_text_None fmt f d base : lstat f d = Some Dir ->
  (listing_text fmt f d base = None <-> has_broken f d = true).
Proof.
  intro Hd. unfold listing_text, entries_view. rewrite Hd. rewrite render_None. unfold has_broken. rewrite existsb_exists.
  split.
  - intros [x [Hin Hb]]. apply in_map_iff in Hin. destruct Hin as [ch [E Hch]]. subst x. cbn [snd] in Hb.
    apply ent_broken in Hb. exists ch. rewrite Hb. auto.
  - intros [ch [Hch Hb]]. exists (fst ch, ent_of (kstat f (d ++ [fst ch]))). split.
    + apply in_map_iff. exists ch. auto.
    + cbn [snd]. apply ent_broken. destruct (kstat f (d ++ [fst ch])); [discriminate|reflexivity].
Qed.

(* ------------------------------------------------------------------ (d) Model/Static.v *)
(* `OListing d` of the static model is exactly: the listing text exists; its failure is exactly: the text function
   answers None (an exception in generate_directory_listing).  No difference between the two error conditions. *)
Theorem listing_static : forall fmt f d base, lstat f d = Some Dir ->
  (Static.listing f d = OListing d <-> exists t, listing_text fmt f d base = Some t) /\
  (Static.listing f d = OStatus 40 (lit "Error generating directory listing") <-> listing_text fmt f d base = None).
Proof.
  intros fmt f d base Hd. pose proof (listing_text_None fmt f d base Hd) as N.
  unfold Static.listing. fold (has_broken f d). destruct (has_broken f d).
  - split; split; try discriminate.
    + intros [t Ht]. destruct N as [_ N]. rewrite N in Ht by reflexivity. discriminate.
    + intros _. apply N. reflexivity.
    + reflexivity.
  - destruct (listing_text fmt f d base) as [t|].
    + split; split; try discriminate; eauto.
    + destruct N as [N _]. specialize (N eq_refl). discriminate.
Qed.

(* a listing outcome of handle(): the text of the listing of d with the REQUEST PATH as the base of its links *)
Theorem handle_listing_text : forall fmt c f url d,
  handle c f url = OListing d -> exists t, listing_text fmt f d url = Some t.
Proof.
  intros fmt c f url d H.
  destruct (listing_inside c f url d H) as [_ [_ [Hd _]]].
  pose proof (handle_shape_ok c f url) as S. rewrite H in S. clear H.
  inversion S as [| | |up segs fp o U Cn Z Rf Pf Nl Alt]; subst.
  destruct Alt as [[Hd' Ht]|[[Hd' [Ht [Hl Ho]]]|[Hd' Ho]]].
  - apply try_indices_cases in Ht. destruct Ht as [Ht|[Ht|[i [ip [Hi [Hr [Hp [_ Ho]]]]]]]]; [discriminate|discriminate|].
    symmetry in Ho. apply serve_file_not_listing in Ho. contradiction.
  - destruct (listing_cases f fp) as [E|E]; rewrite E in Ho; [discriminate|].
    inversion Ho; subst. apply (listing_static fmt f fp url Hd). assumption.
  - symmetry in Ho. apply serve_file_not_listing in Ho. contradiction.
Qed.

(* ------------------------------------------------------------------ (c) *)
Inductive listing_line (fmt : N -> str) (f : fs) (d : path) (base : str) : str -> Prop :=
| LHeader : listing_line fmt f d base (header_line base)
| LBlank : listing_line fmt f d base []
| LParent : listing_line fmt f d base (parent_line base)
| LEmpty : listing_line fmt f d base empty_line
| LDir n : In n (map fst (children f d)) -> kstat f (d ++ [n]) = Some Dir ->
    listing_line fmt f d base (link_prefix ++ ((base ++ n) ++ [ch_slash]) ++ [ch_space] ++ n ++ [ch_slash])
| LFile n c : In n (map fst (children f d)) -> kstat f (d ++ [n]) = Some (File c) ->
    listing_line fmt f d base
      (link_prefix ++ (base ++ n) ++ [ch_space] ++ n ++ lit " (" ++ fmt (N.of_nat (length c)) ++ lit ")").

Lemma head_lines_ok fmt f d base : Forall (listing_line fmt f d base) (head_lines base).
Proof.
  unfold head_lines. destruct (eqb base [ch_slash]); cbn [app]; repeat constructor.
Qed.

Lemma entry_lines_ok fmt f d base : forall l lns,
  (forall x, In x l -> In (fst x) (map fst (children f d)) /\ snd x = ent_of (kstat f (d ++ [fst x]))) ->
  entry_lines fmt base l = Some lns -> Forall (listing_line fmt f d base) lns.
Proof.
  induction l as [|x r IH]; intros lns Hl E; cbn [entry_lines] in E.
  - inversion E. constructor.
  - destruct (entry_line fmt base x) as [ln|] eqn:E1; [|discriminate].
    destruct (entry_lines fmt base r) as [lns'|] eqn:E2; [|discriminate]. inversion E; subst. constructor.
    + destruct (Hl x (or_introl eq_refl)) as [Hn Hs]. unfold entry_line in E1. rewrite Hs in E1.
      pose proof (kstat_not_link f (d ++ [fst x])) as NL.
      destruct (kstat f (d ++ [fst x])) as [[c| |t]|] eqn:Ef; cbn [ent_of] in E1; try discriminate.
      * inversion E1. apply LFile; assumption.
      * inversion E1. apply LDir; assumption.
    + apply (IH lns'); [|reflexivity]. intros y Hy. apply Hl. right. assumption.
Qed.

Theorem listing_lines : forall fmt f d base t,
  listing_text fmt f d base = Some t ->
  exists lines, t = join_lf lines /\ Forall (listing_line fmt f d (ensure_slash base)) lines.
Proof.
  intros fmt f d base t H. unfold listing_text, entries_view in H.
  destruct (lstat f d) as [[c| |tg]|]; try discriminate.
  unfold render in H. set (es := map _ (children f d)) in H.
  assert (Hes : forall x, In x (sorted_entries es) ->
            In (fst x) (map fst (children f d)) /\ snd x = ent_of (kstat f (d ++ [fst x]))).
  { intros x Hx. apply (proj1 (In_sorted_entries _ _)) in Hx. unfold es in Hx. apply in_map_iff in Hx.
    destruct Hx as [ch [E Hch]]. subst x. cbn [fst snd]. split; [apply in_map; assumption|reflexivity]. }
  destruct (sorted_entries es) as [|s0 sr] eqn:S.
  - exists (head_lines (ensure_slash base) ++ [empty_line]). split; [congruence|].
    apply Forall_app. split; [apply head_lines_ok|repeat constructor].
  - destruct (entry_lines fmt (ensure_slash base) (s0 :: sr)) as [lns|] eqn:E; [|discriminate].
    exists (head_lines (ensure_slash base) ++ lns). split; [congruence|].
    apply Forall_app. split; [apply head_lines_ok|].
    eapply entry_lines_ok; eassumption.
Qed.

(* ------------------------------------------------------------------ examples *)
(* /srv/root is the document root; journal.gmi lies outside it and is reachable through a symbolic link whose name
   ends in .gmi; its first line is a heading.  (The seeded defect labelled *.gmi entries with that heading.) *)
Definition ex_fs (secret : str) : fs :=
  [ (lit "srv" :: nil, Dir);
    ([lit "srv"; lit "root"], Dir);
    ([lit "srv"; lit "outside"], Dir);
    ([lit "srv"; lit "outside"; lit "journal.gmi"], File secret);
    ([lit "srv"; lit "root"; lit "b.gmi"], File (lit "# Title of b"));
    ([lit "srv"; lit "root"; lit "sub"], Dir);
    ([lit "srv"; lit "root"; lit "sub"; lit "x"], File []);
    ([lit "srv"; lit "root"; lit "journal.gmi"], Link (lit "../outside/journal.gmi"));
    ([lit "srv"; lit "root"; lit "A-dirlink"], Link (lit "sub")) ].
Definition ex_root : path := [lit "srv"; lit "root"].
Definition secret1 : str := lit "# SECRET heading one".
Definition secret2 : str := lit "# another text here.".

Example ex_listing :
  listing_text format_file_size (ex_fs secret1) ex_root (lit "/") =
  Some (join_lf [lit "# Index of /"; lit "";
                 lit "=> /A-dirlink/ A-dirlink/";
                 lit "=> /sub/ sub/";
                 lit "=> /b.gmi b.gmi (12 B)";
                 lit "=> /journal.gmi journal.gmi (20 B)"]).
Proof. vm_compute. reflexivity. Qed.

(* (a) on the example: the outside file's content changes, the listing does not *)
Example ex_same_shape : same_shape (ex_fs secret1) (ex_fs secret2).
Proof. repeat constructor. Qed.
Example ex_independent :
  secret1 <> secret2 /\
  listing_text format_file_size (ex_fs secret1) ex_root (lit "/docs") =
  listing_text format_file_size (ex_fs secret2) ex_root (lit "/docs").
Proof. split; [discriminate|]. apply listing_content_independent. exact ex_same_shape. Qed.
(* ... and the hypothesis is not vacuous the other way round: the length is visible *)
Example ex_length_visible :
  listing_text format_file_size (ex_fs secret1) ex_root (lit "/") <>
  listing_text format_file_size (ex_fs (lit "short")) ex_root (lit "/").
Proof. vm_compute. discriminate. Qed.

(* (b) on the example: what the text is computed from *)
Example ex_view :
  entries_view (ex_fs secret1) ex_root =
  Some [ (lit "b.gmi", EFile 12); (lit "sub", EDir); (lit "journal.gmi", EFile 20); (lit "A-dirlink", EDir) ].
Proof. vm_compute. reflexivity. Qed.

(* (c) on the example, below a sub-directory URL: the parent link; every line is accounted for *)
Example ex_lines :
  let d := [lit "srv"; lit "root"; lit "sub"] in
  listing_text format_file_size (ex_fs secret1) d (lit "/sub") =
  Some (join_lf [lit "# Index of /sub/"; lit ""; lit "=> / .."; lit ""; lit "=> /sub/x x (0 B)"])
  /\ exists lines, join_lf [lit "# Index of /sub/"; lit ""; lit "=> / .."; lit ""; lit "=> /sub/x x (0 B)"] = join_lf lines /\
                   Forall (listing_line format_file_size (ex_fs secret1) d (lit "/sub/")) lines.
Proof.
  intro d.
  assert (H : listing_text format_file_size (ex_fs secret1) d (lit "/sub") =
              Some (join_lf [lit "# Index of /sub/"; lit ""; lit "=> / .."; lit ""; lit "=> /sub/x x (0 B)"]))
    by (vm_compute; reflexivity).
  split; [exact H|]. exact (listing_lines _ _ _ _ _ H).
Qed.

(* a dangling link makes the whole listing fail (status 40), and an empty directory has its own line *)
Example ex_broken :
  listing_text format_file_size ((ex_root ++ [lit "dangling"], Link (lit "nowhere")) :: ex_fs secret1) ex_root (lit "/") = None.
Proof. vm_compute. reflexivity. Qed.
Example ex_empty :
  listing_text format_file_size [([lit "e"], Dir)] [lit "e"] (lit "//") =
  Some (join_lf [lit "# Index of //"; lit ""; lit "=> // .."; lit ""; lit "(empty directory)"]).
Proof. vm_compute. reflexivity. Qed.

(* (d) on the example *)
Example ex_static :
  Static.handle {| s_root := ex_root; s_indices := [lit "index.gmi"]; s_listing := true; s_max := 100 |} (ex_fs secret1) (lit "/")
  = OListing ex_root.
Proof. vm_compute. reflexivity. Qed.

Print Assumptions listing_content_independent.
Print Assumptions listing_factorisation.
Print Assumptions listing_lines.
Print Assumptions listing_static.
Print Assumptions handle_listing_text.
