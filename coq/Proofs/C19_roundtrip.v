(* C19 - URL normalisation round trip: re-parsing the normalised form of a successfully
   parsed URL yields exactly the same parse (same components, same normalised text). *)
From Coq Require Import List NArith Bool Lia ZifyBool ZifyN.
From NV Require Import Prelude.Str Prelude.Res Model.Url Spec.UrlOracle.
From NV Require Spec.C19.
From NV Require Import Proofs.StrLemmas Proofs.UrlLemmas.
Import ListNotations.
Open Scope N_scope.

(* the path component emitted by parse_url ("/" when the split path is empty) *)
Lemma path_facts (P : str) :
  (P = [] \/ exists t, P = ch_slash :: t) -> ~ In ch_qm P -> ~ In ch_hash P -> safe P ->
  let path := match P with [] => [ch_slash] | x :: l => x :: l end in
  (exists t, path = ch_slash :: t) /\ ~ In ch_qm path /\ ~ In ch_hash path /\ safe path.
Proof.
  intros [->|[t ->]] Hq Hh Hs; cbv zeta.
  - split; [exists []; reflexivity|]. split; [|split].
    + apply notin_cons; [discriminate|intros []].
    + apply notin_cons; [discriminate|intros []].
    + apply safe_cons. split; [reflexivity|intros x []].
  - split; [exists t; reflexivity|]. auto.
Qed.

(* character classes of the re-rendered netloc *)
Lemma renorm_class_ascii (nl nl' : str) :
  all_ascii nl = true ->
  (forall x, In x nl' -> In x nl \/ is_lower x = true \/ is_digit x = true \/
                         x = ch_lbr \/ x = ch_rbr \/ x = ch_colon) ->
  all_ascii nl' = true.
Proof.
  intros Ha H. unfold all_ascii in *. rewrite forallb_forall in *. intros x Hx.
  apply H in Hx as [Hx|[Hx|[Hx|[Hx|[Hx|Hx]]]]]; subst; auto using is_lower_ascii, is_digit_ascii.
Qed.
Lemma renorm_class_nodelim (nl nl' : str) :
  (forall x, In x nl -> is_netloc_delim x = false) ->
  (forall x, In x nl' -> In x nl \/ is_lower x = true \/ is_digit x = true \/
                         x = ch_lbr \/ x = ch_rbr \/ x = ch_colon) ->
  forall x, In x nl' -> is_netloc_delim x = false.
Proof.
  intros Ha H x Hx.
  apply H in Hx as [Hx|[Hx|[Hx|[Hx|[Hx|Hx]]]]]; subst; auto using is_lower_nodelim, is_digit_nodelim.
Qed.
Lemma renorm_class_safe (nl nl' : str) :
  safe nl ->
  (forall x, In x nl' -> In x nl \/ is_lower x = true \/ is_digit x = true \/
                         x = ch_lbr \/ x = ch_rbr \/ x = ch_colon) ->
  safe nl'.
Proof.
  intros Ha H x Hx.
  apply H in Hx as [Hx|[Hx|[Hx|[Hx|[Hx|Hx]]]]]; subst; auto using is_lower_safe, is_digit_safe.
Qed.

(* The central fact: a successful parse is a fixed point of "normalise, then parse". *)
Theorem parse_url_norm_fixpoint : forall ip6 u c, oracle_ok ip6 -> parse_url ip6 u = Ok c ->
  parse_url ip6 (p_norm c) = Ok c.
Proof.
  intros ip6 u c Ho H.
  apply parse_url_inv in H as (sp & h & un & pw & po & Es & Esch & Eh & Eu & Et & Ef & Ep & ->).
  destruct (hostname_Some_inv _ _ Eh) as (_ & Hnl & _).
  destruct (urlsplit_inv _ _ _ Es Hnl) as (Ha & Hcb & Hd & Hs & HP & Hq & Hh1 & Hh2).
  apply safe_app in Hs as [Hs1 Hs23]. apply safe_app in Hs23 as [Hs2 Hs3].
  destruct (netloc_renorm ip6 _ h un pw po Ho Hcb Eh Eu Et Ep) as (C1 & C2 & C3 & C4 & C5 & C6 & C7 & C8).
  destruct (path_facts _ HP Hq Hh1 Hs2) as ([t Epath] & Pq & Ph & Ps).
  remember (u_netloc sp) as nl eqn:Enl.
  remember (u_path sp) as P eqn:EP.
  remember (u_query sp) as Q eqn:EQ.
  remember (match P with [] => [ch_slash] | x :: l => x :: l end) as path eqn:Edef.
  remember (renorm_netloc nl h (prt_of po)) as nl' eqn:Enl'.
  assert (Enorm : p_norm (parse_build nl h po P Q) =
                  lit "gemini:" ++ lit "//" ++ nl' ++ path ++ match Q with [] => [] | _ => ch_qm :: Q end).
  { unfold parse_build. cbn [p_norm]. rewrite <- Edef. rewrite Epath.
    rewrite urlunsplit_gemini_slash. rewrite Enl'. reflexivity. }
  assert (Es' : urlsplit ip6 (p_norm (parse_build nl h po P Q)) =
                Ok {| u_scheme := gemini_s; u_netloc := nl'; u_path := path; u_query := Q; u_fragment := [] |}).
  { rewrite Enorm. apply urlsplit_build.
    - apply (renorm_class_ascii nl); assumption.
    - assumption.
    - apply (renorm_class_nodelim nl); assumption.
    - apply safe_app. split; [apply (renorm_class_safe nl); assumption|].
      apply safe_app. split; assumption.
    - exists t. assumption.
    - assumption.
    - assumption.
    - assumption. }
  assert (Hne : p_norm (parse_build nl h po P Q) <> []) by (rewrite Enorm; discriminate).
  rewrite (parse_url_intro ip6 _ _ h _ Hne Es' eq_refl C2 C3 eq_refl C4).
  cbn [u_netloc u_path u_query]. f_equal.
  unfold parse_build.
  assert (Eprt : match (if prt_of po =? 1965 then None else Some (prt_of po)) with
                 | Some n => n | None => 1965 end = match po with Some n => n | None => 1965 end).
  { destruct (prt_of po =? 1965) eqn:E; [apply N.eqb_eq in E; symmetry; exact E|reflexivity]. }
  rewrite Eprt, C5. rewrite <- Edef.
  assert (Epp : match path with [] => [ch_slash] | x :: l => x :: l end = path).
  { rewrite Epath. reflexivity. }
  rewrite Epp. reflexivity.
Qed.

Lemma parse_url_output_wf : forall ip6 u c, parse_url ip6 u = Ok c ->
  p_host c <> [] /\ (p_port c <= 65535)%N /\ prefixb [ch_slash] (p_path c) = true /\
  mem ch_qm (p_path c) = false /\ mem ch_hash (p_path c) = false /\ mem ch_hash (p_query c) = false /\
  (forall x, In x (p_host c ++ p_path c ++ p_query c) -> is_unsafe x = false).
Proof.
  intros ip6 u c H.
  apply parse_url_inv in H as (sp & h & un & pw & po & Es & Esch & Eh & Eu & Et & Ef & Ep & ->).
  destruct (hostname_Some_inv _ _ Eh) as (Hh & Hnl & Hhc).
  destruct (urlsplit_inv _ _ _ Es Hnl) as (Ha & Hcb & Hd & Hs & HP & Hq & Hh1 & Hh2).
  apply safe_app in Hs as [Hs1 Hs23]. apply safe_app in Hs23 as [Hs2 Hs3].
  destruct (path_facts _ HP Hq Hh1 Hs2) as ([t Epath] & Pq & Ph & Ps).
  unfold parse_build. cbn [p_host p_port p_path p_query].
  split; [assumption|]. split; [apply (port_bound _ _ Ep)|].
  split; [rewrite Epath; reflexivity|].
  split; [apply notin_mem_false; assumption|].
  split; [apply notin_mem_false; assumption|].
  split; [apply notin_mem_false; assumption|].
  change (safe (h ++ match u_path sp with [] => [ch_slash] | x :: l => x :: l end ++ u_query sp)).
  apply safe_app. split; [|apply safe_app; split; assumption].
  intros x Hx. apply Hhc in Hx as [Hx|Hx]; [apply Hs1; assumption|apply is_lower_safe; assumption].
Qed.

Lemma roundtrip_components : forall ip6 u c, oracle_ok ip6 -> parse_url ip6 u = Ok c ->
  exists c', parse_url ip6 (p_norm c) = Ok c' /\ p_host c' = p_host c /\ p_port c' = p_port c /\
             p_path c' = p_path c /\ p_query c' = p_query c /\ p_norm c' = p_norm c.
Proof.
  intros ip6 u c Ho H. exists c. split; [apply (parse_url_norm_fixpoint ip6 u); assumption|].
  repeat split; reflexivity.
Qed.

Lemma normalize_idempotent : forall ip6 u c c', oracle_ok ip6 -> parse_url ip6 u = Ok c ->
  parse_url ip6 (p_norm c) = Ok c' -> p_norm c' = p_norm c.
Proof.
  intros ip6 u c c' Ho H H'. rewrite (parse_url_norm_fixpoint ip6 u c Ho H) in H'.
  inversion H'. reflexivity.
Qed.

Lemma roundtrip_ok : forall ip6 u c, oracle_ok ip6 -> parse_url ip6 u = Ok c ->
  Spec.C19.ok (Ok c) (parse_url ip6 (p_norm c)) = true.
Proof.
  intros ip6 u c Ho H. rewrite (parse_url_norm_fixpoint ip6 u c Ho H).
  unfold Spec.C19.ok, Spec.C19.same_components. rewrite !eqb_refl, N.eqb_refl. reflexivity.
Qed.

Print Assumptions roundtrip_ok.
Print Assumptions roundtrip_components.
Print Assumptions normalize_idempotent.
Print Assumptions parse_url_output_wf.
Close Scope N_scope.
