(* Proofs of the Gen = Model lemmas stated in Equiv/EquivStatic.v.
   Gen/StaticGen.v is regenerated on every run by translate/py2coq_static.py: the scripts below never mention a
   generated local name.  They unfold the generated function, replace the library record by its instance over the
   filesystem model and then follow the MODEL's case analysis; every leaf is closed by computation. *)
From Coq Require Import List NArith ZArith Bool Lia.
From NV Require Import Prelude.Str Prelude.Res Prelude.Utf8 Model.Fs Model.Static Model.CertAuth.
From NV Require Import Proofs.StrLemmas Proofs.Fs_proofs Equiv.StaticGlue Gen.StaticGen.
From NV Require Gen.PyGen Proofs.Equiv_proofs.
Import ListNotations.
Open Scope list_scope.

(* ---------- the library instance, field by field ---------- *)
Ltac lib := cbn [model_lib l_canon l_resolve l_resolve_abs l_is_dir l_is_file l_exists l_st_size l_read_text
                 l_listing l_mkdir_parents l_open_new l_write l_replace l_unlink l_token_hex].

(* ---------- _resolve_fully ---------- *)
Lemma resolve_fully_tie : forall flt tok f base rel,
  gen_resolve_fully (model_lib flt tok) f (base, rel) = nul_guard rel (rfull_res (resolve_fully f base rel)).
Proof.
  intros. unfold gen_resolve_fully, nul_guard, resolve_fully. lib.
  unfold m_resolve, m_resolve_abs, m_resolve_from. cbn [fst snd].
  destruct (existsb (mem 0%N) rel); [reflexivity|].
  destruct (realpath f base rel) as [p|l|] eqn:E1; [| |reflexivity].
  - (* resolved: the second resolve() must reproduce it *)
    destruct (realpath f [] p) as [q|l2|] eqn:E2; [| |reflexivity].
    + destruct (path_eqb q p); reflexivity.
    + (* a loop on the way: either RuntimeError, or a path that differs from p *)
      destruct (realpath f [] (lexnorm l2 [])) as [q2|l3|] eqn:E3; try reflexivity;
        (destruct (path_eqb (lexnorm l2 []) p) eqn:Eq; [|reflexivity]);
        apply path_eqb_eq in Eq; rewrite Eq in E3; congruence.
  - (* loop met by realpath: the normalised unresolved join, unless stat() reports the loop *)
    destruct (realpath f [] (lexnorm l [])) as [q|l2|] eqn:E2; try reflexivity.
    + rewrite E2. destruct (path_eqb q (lexnorm l [])); reflexivity.
    + rewrite E2. reflexivity.
Qed.

(* ---------- _is_safe_path (both classes) ---------- *)
Lemma relative_to_cases p base :
  path_relative_to p base = (if path_prefixb base p then Ok (skipn (length base) p)
                             else Err (lit "ValueError") (lit "is not in the subpath of")).
Proof. reflexivity. Qed.

Lemma static_is_safe_path_tie : forall L c f p,
  gen_static_is_safe_path L c f p = Ok (path_prefixb (s_root c) p).
Proof.
  intros. unfold gen_static_is_safe_path. rewrite relative_to_cases.
  destruct (path_prefixb (s_root c) p); reflexivity.
Qed.

Lemma upload_is_safe_path_tie : forall L c f p,
  gen_upload_is_safe_path L c f p = Ok (path_prefixb (u_root c) p).
Proof.
  intros. unfold gen_upload_is_safe_path. rewrite relative_to_cases.
  destruct (path_prefixb (u_root c) p); reflexivity.
Qed.

(* ---------- _get_mime_type ---------- *)
Lemma lower_raw_suffix n : lower (raw_suffix n) = suffix_of n.
Proof.
  unfold raw_suffix, suffix_of. destruct (rbreak_at ch_dot n) as [[a b]|]; [|reflexivity].
  destruct a, b; reflexivity.
Qed.

Lemma mime_tie : forall L c f p, gen_get_mime_type L c f p = Ok (mime_of p).
Proof.
  intros. unfold gen_get_mime_type, mime_of, path_suffix, path_name. cbv zeta.
  rewrite lower_raw_suffix. cbn [existsb]. rewrite !orb_false_r.
  destruct (eqb _ (lit ".gmi") || eqb _ (lit ".gemini")); [reflexivity|].
  match goal with |- (if ?b then _ else _) = _ => destruct b end; reflexivity.
Qed.

Lemma meta_label_mime p : meta_label (mime_of p) = mime_of p.
Proof. unfold mime_of. destruct (_ || _); reflexivity. Qed.

(* ---------- joining canonical segments and resolving them ---------- *)
Lemma fuel_SS : exists n, realpath_fuel = S (S n).
Proof.
  assert (H : (2 <= realpath_fuel)%nat) by (apply Nat.leb_le; vm_compute; reflexivity).
  remember realpath_fuel as k eqn:E. clear E. destruct k as [|[|n]]; [lia|lia|exists n; reflexivity].
Qed.
Lemma realpath_empty_comp f base : realpath f base [[]] = realpath f base [].
Proof. unfold realpath. destruct fuel_SS as [n ->]. reflexivity. Qed.

Lemma canon_good up segs : canon_strict (comps up) [] = Some segs ->
  Forall goodn segs /\ (forall n, In n segs -> ~ In ch_slash n).
Proof.
  intro H. destruct (canon_strict_spec _ _ _ H) as [_ [G I]]. split; [apply G; constructor|].
  intros n Hn. destruct (I n Hn) as [[]|Hc]. eapply comps_noslash; eassumption.
Qed.

Lemma prefixb_slash_join segs : Forall goodn segs -> (forall n, In n segs -> ~ In ch_slash n) ->
  prefixb [ch_slash] (join_slash segs) = false.
Proof.
  intros G S. destruct segs as [|s r]; [reflexivity|].
  inversion G as [|? ? [Hne _] _]; subst. destruct s as [|c s']; [congruence|].
  assert (Hc : (ch_slash =? c)%N = false).
  { apply N.eqb_neq. intro E. apply (S (c :: s')); [left; reflexivity|left; congruence]. }
  destruct r; cbn [join_slash app prefixb]; rewrite Hc; reflexivity.
Qed.

Lemma resolve_joined flt tok f root up segs : canon_strict (comps up) [] = Some segs ->
  gen_resolve_fully (model_lib flt tok) f (pjoin root (join_slash segs))
  = nul_guard segs (rfull_res (resolve_fully f root segs)).
Proof.
  intro H. destruct (canon_good _ _ H) as [G S].
  unfold pjoin. rewrite prefixb_slash_join by assumption. rewrite resolve_fully_tie.
  destruct segs as [|s r].
  - change (comps (join_slash [])) with [@nil N]. unfold resolve_fully. rewrite realpath_empty_comp.
    unfold nul_guard. cbn [existsb mem orb]. reflexivity.
  - unfold comps. rewrite split_on_join; [reflexivity|discriminate|assumption].
Qed.

(* ---------- StaticFileHandler.handle ---------- *)
(* the code after the directory block, for a resolved regular file p *)
Ltac serve_tail c ct En El :=
  unfold serve_file; rewrite ?En, ?El; cbv beta iota;
  destruct (s_max c <? N.of_nat (length ct))%N; [reflexivity|];
  destruct (read_text ct); [|reflexivity];
  rewrite mime_tie; cbn [norm_resp g_status g_meta g_body resp_of_sout]; rewrite meta_label_mime; reflexivity.

(* the generated handle is the model, without any hypothesis *)
Lemma handle_tie : forall flt tok c f url,
  norm_resp (gen_handle (model_lib flt tok) c f url) = resp_of_sout url (handle c f url).
Proof.
  intros flt tok c f url. unfold gen_handle, handle. lib. unfold m_canon.
  destruct (unquote url) as [up|k m|]; try reflexivity.
  destruct (canon_strict (comps up) []) as [segs|] eqn:Ec; [|reflexivity].
  cbv beta iota zeta.
  rewrite (resolve_joined _ _ _ _ _ _ Ec). unfold nul_guard.
  destruct (existsb (mem 0%N) segs); [reflexivity|].
  destruct (resolve_fully f (s_root c) segs) as [fp| |] eqn:Er; try reflexivity.
  cbn [rfull_res]. cbv beta iota. rewrite static_is_safe_path_tie. cbv beta iota.
  destruct (path_prefixb (s_root c) fp) eqn:Ep; [|reflexivity].
  unfold m_is_dir, m_exists, m_is_file, m_st_size, m_read_text.
  destruct (enametoolong f fp) eqn:En; [reflexivity|].
  destruct (lstat f fp) as [[ct| |tg]|] eqn:El; cbv beta iota.
  - serve_tail c ct En El.
  - generalize (s_indices c) as idxs. intro idxs.
    induction idxs as [|i rest IH].
    + cbn [try_indices]. cbv beta iota. cbn [negb]. cbv iota. unfold listing, m_listing.
      destruct (s_listing c); [|reflexivity].
      destruct (Listing.has_broken f fp); reflexivity.
    + cbn [try_indices]. cbv beta iota zeta.
      destruct (pjoin fp i) as [b rel].
      rewrite resolve_fully_tie. unfold nul_guard. cbn [fst snd].
      destruct (existsb (mem 0%N) rel); cbv beta iota; [exact IH|].
      destruct (resolve_fully f b rel) as [ip| |] eqn:Eri; cbn [rfull_res]; cbv beta iota;
        [|exact IH|reflexivity].
      rewrite static_is_safe_path_tie. cbv beta iota.
      destruct (path_prefixb (s_root c) ip) eqn:Epi; [|exact IH].
      destruct (enametoolong f ip) eqn:Eni; [reflexivity|].
      destruct (lstat f ip) as [[cti| |tgi]|] eqn:Eli; cbv beta iota; try exact IH.
      cbn [negb]. cbv iota. serve_tail c cti Eni Eli.
  - unfold serve_file. rewrite El. reflexivity.
  - unfold serve_file. rewrite El. reflexivity.
Qed.

(* ---------- FileUploadHandler._resolve_target ---------- *)
(* what _resolve_target computes (no containment test: handle_upload / _handle_delete apply _is_safe_path) *)
Definition rt_spec (c : ucfg) (f : fs) (p : str) : res (option path) :=
  match unquote p with
  | Ok up => match canon_strict (comps up) [] with
             | Some segs => nul_guard segs (rfull_res (resolve_fully f (u_root c) segs))
             | None => Ok None
             end
  | _ => OutOfModel
  end.

Lemma gen_resolve_target_eq flt tok c f p : gen_resolve_target (model_lib flt tok) c f p = rt_spec c f p.
Proof.
  unfold gen_resolve_target, rt_spec. lib. unfold m_canon.
  destruct (unquote p) as [up|k m|]; try reflexivity.
  destruct (canon_strict (comps up) []) as [segs|] eqn:Ec; [|reflexivity].
  cbv beta iota zeta. rewrite (resolve_joined _ _ _ _ _ _ Ec).
  destruct (nul_guard _ _) as [[t|]|k m|]; reflexivity.
Qed.

Lemma rt_spec_model c f p : resolve_target c f p = contained (u_root c) (rt_spec c f p).
Proof.
  unfold resolve_target, rt_spec, nul_guard.
  destruct (unquote p) as [up|k m|]; try reflexivity.
  destruct (canon_strict (comps up) []) as [segs|]; [|reflexivity].
  destruct (existsb (mem 0%N) segs); [reflexivity|].
  destruct (resolve_fully f (u_root c) segs) as [t| |]; reflexivity.
Qed.

Lemma rt_spec_noerr c f p k m : rt_spec c f p <> Err k m.
Proof.
  unfold rt_spec, nul_guard.
  destruct (unquote p) as [up|k' m'|]; try discriminate.
  destruct (canon_strict (comps up) []) as [segs|]; [|discriminate].
  destruct (existsb (mem 0%N) segs); [discriminate|].
  destruct (resolve_fully f (u_root c) segs); discriminate.
Qed.

Lemma resolve_target_tie : forall flt tok c f p,
  contained (u_root c) (gen_resolve_target (model_lib flt tok) c f p) = resolve_target c f p.
Proof. intros. rewrite gen_resolve_target_eq, rt_spec_model. reflexivity. Qed.

(* ---------- FileUploadHandler._handle_delete ---------- *)
(* the zero-byte branch of Model.Static.handle_upload *)
Definition model_delete (c : ucfg) (f : fs) (p : str) : uout * fs :=
  if negb (u_delete c) then (UResp 50 (lit "Delete operations are disabled"), f)
  else match resolve_target c f p with
       | OutOfModel => (UOom, f)
       | Err k _ => (URaise k, f)
       | Ok None => (UResp 59 (lit "Invalid path"), f)
       | Ok (Some t) =>
           if enametoolong f t then (URaise (lit "oserror"), f) else
           match lstat f t with
           | None => (UResp 51 (lit "Resource not found"), f)
           | Some Dir => (UResp 40 (lit "Delete failed"), f)
           | Some _ => (UResp 20 (lit "text/gemini"), remove_node f t)
           end
       end.

Lemma handle_delete_tie : forall flt tok c f p,
  upload_out (gen_handle_delete (model_lib flt tok) c f p) = model_out (model_delete c f p).
Proof.
  intros. unfold gen_handle_delete, model_delete.
  destruct (u_delete c); cbn [negb]; [|reflexivity].
  rewrite gen_resolve_target_eq, rt_spec_model.
  destruct (rt_spec c f p) as [[t|]|k m|] eqn:E; cbn [contained]; try reflexivity;
    [|exfalso; eapply rt_spec_noerr; eassumption].
  cbv beta iota zeta. rewrite upload_is_safe_path_tie. cbv beta iota.
  destruct (path_prefixb (u_root c) t); [|reflexivity].
  lib. unfold m_exists, m_unlink.
  destruct (enametoolong f t); [reflexivity|].
  destruct (lstat f t) as [[ct| |tg]|]; reflexivity.
Qed.

(* ---------- filesystem facts for the temp-file / rename sequence ---------- *)
Lemma lstat_snoc_same f p n : lstat f p = None -> lstat (f ++ [(p, n)]) p = Some n.
Proof. intro H. rewrite lstat_app, H. cbn [lstat]. rewrite path_eqb_refl. reflexivity. Qed.
Lemma lstat_snoc_other f p n q : path_eqb q p = false -> lstat (f ++ [(p, n)]) q = lstat f q.
Proof. intro H. rewrite lstat_app. destruct (lstat f q); [reflexivity|]. cbn [lstat]. rewrite H. reflexivity. Qed.
Lemma remove_absent f p : lstat f p = None -> remove_node f p = f.
Proof.
  unfold remove_node. induction f as [|[q m] f IH]; cbn [lstat filter fst]; [reflexivity|].
  destruct (path_eqb p q); [discriminate|]. intro H. cbn [negb]. rewrite IH by assumption. reflexivity.
Qed.
Lemma remove_snoc f p n : lstat f p = None -> remove_node (f ++ [(p, n)]) p = f.
Proof.
  intro H. unfold remove_node. rewrite filter_app. cbn [filter fst]. rewrite path_eqb_refl. cbn [negb].
  rewrite app_nil_r. apply remove_absent. assumption.
Qed.

Lemma path_name_snoc l x : path_name (l ++ [x]) = x.
Proof. unfold path_name. rewrite rev_app_distr. reflexivity. Qed.
Lemma path_with_name_snoc l x n : path_with_name (l ++ [x]) n = Ok (l ++ [n]).
Proof. unfold path_with_name. rewrite removelast_last. destruct l; reflexivity. Qed.
Lemma tmp_of_snoc l x tok : tmp_of (l ++ [x]) tok = l ++ [tmp_name x tok].
Proof. unfold tmp_of. rewrite removelast_last, path_name_snoc. reflexivity. Qed.

Lemma tmp_differs l x tok : path_eqb (l ++ [x]) (l ++ [tmp_name x tok]) = false.
Proof.
  unfold tmp_name. apply path_eqb_neq. intro E. apply app_inv_head in E.
  assert (E' : x = lit "." ++ x ++ lit "." ++ tok ++ lit ".tmp") by congruence.
  apply (f_equal (@length N)) in E'.
  change (lit "." ++ x ++ lit "." ++ tok ++ lit ".tmp") with (46%N :: (x ++ lit "." ++ tok ++ lit ".tmp")) in E'.
  cbn [length] in E'. rewrite app_length in E'. lia.
Qed.

Lemma res_pair_eta {A} (x : res A * fs) :
  (let '(a, w) := x in match a with Ok t => (Ok t, w) | Err k m => (Err k m, w) | OutOfModel => (OutOfModel, w) end) = x.
Proof. destruct x as [[t|k m|] w]; reflexivity. Qed.

(* ---------- FileUploadHandler.handle_upload ---------- *)
Lemma set_node_snoc f p n m : lstat f p = None -> set_node (f ++ [(p, n)]) p m = f ++ [(p, m)].
Proof.
  induction f as [|[q k] f IH]; cbn [lstat set_node app].
  - rewrite path_eqb_refl. reflexivity.
  - destruct (path_eqb p q); [discriminate|]. intro H. rewrite IH by assumption. reflexivity.
Qed.
Lemma snoc_match {A B} (l : list A) (x : A) (a b : B) :
  match l ++ [x] with [] => a | _ :: _ => b end = b.
Proof. destruct l; reflexivity. Qed.

(* the save branch of Model.Static.handle_upload *)
Definition model_save (c : ucfg) (f : fs) (r : ureq) (flt : fault) (tok : str) : uout * fs :=
  match resolve_target c f (q_path r) with
  | OutOfModel => (UOom, f)
  | Err k _ => (URaise k, f)
  | Ok None => (UResp 59 (lit "Invalid path"), f)
  | Ok (Some t) =>
      match mkdirs (S (length t)) f [] (short_prefix (removelast t)) with
      | None => (UResp 40 (lit "Upload failed"), f)
      | Some f1 =>
          if name_too_long (removelast t) then (UResp 40 (lit "Upload failed"), f1) else
          match t with
          | [] => (UResp 40 (lit "Upload failed"), f1)
          | _ =>
              if name_too_long (tmp_of t tok) then (UResp 40 (lit "Upload failed"), f1) else
              match lstat f1 (tmp_of t tok) with
              | Some _ => (UResp 40 (lit "Upload failed"), f1)
              | None =>
                  match flt with
                  | Some _ => (UResp 40 (lit "Upload failed"), f1)
                  | None =>
                      match lstat f1 t with
                      | Some Dir => (UResp 40 (lit "Upload failed"), f1)
                      | _ => (UResp 20 (lit "text/gemini"), set_node f1 t (File (q_content r)))
                      end
                  end
              end
          end
      end
  end.

(* the generated handle_upload is the model, without any hypothesis *)
Lemma handle_upload_tie : forall flt tok c f r,
  upload_out (gen_handle_upload (model_lib flt tok) c f r) = model_out (handle_upload c f r flt tok).
Proof.
  intros flt tok c f r. unfold gen_handle_upload.
  (* the two continuations of the admission checks: delete and save *)
  lazymatch goal with
  | |- context [if (q_size r =? 0)%N then ?A else ?B] => set (TD := A); set (TS := B)
  end.
  change (handle_upload c f r flt tok) with
    (if negb (token_ok c (q_token r)) then (UResp 60 (lit "Valid authentication token required"), f)
     else if (u_max c <? q_size r)%N then (UResp 50 (lit "Upload exceeds maximum size"), f)
     else if match u_types c with Some (t :: ts) => negb (existsb (eqb (q_mime r)) (t :: ts)) | _ => false end
          then (UResp 59 (lit "MIME type not allowed"), f)
     else if (q_size r =? 0)%N then model_delete c f (q_path r) else model_save c f r flt tok).
  assert (HD : upload_out TD = model_out (model_delete c f (q_path r))).
  { subst TD. rewrite res_pair_eta. apply handle_delete_tie. }
  assert (HS : upload_out TS = model_out (model_save c f r flt tok)).
  { subst TS. unfold model_save.
    rewrite gen_resolve_target_eq. rewrite rt_spec_model.
    destruct (rt_spec c f (q_path r)) as [[t|]|k m|] eqn:E; cbn [contained]; try reflexivity;
      [|exfalso; eapply rt_spec_noerr; eassumption].
    cbv beta iota zeta. rewrite upload_is_safe_path_tie. cbv beta iota.
    destruct (path_prefixb (u_root c) t) eqn:Ep; [|reflexivity]. clear E Ep.
    lib. unfold m_mkdir_parents, path_parent.
    induction t as [|x l _] using rev_ind.
    - (* the target is the filesystem root: with_name raises ValueError *)
      unfold name_too_long. cbn [removelast length existsb mkdirs short_prefix]. cbv beta iota. reflexivity.
    - rewrite removelast_last.
      rewrite app_length. cbn [length]. rewrite Nat.add_1_r.
      destruct (mkdirs (S (S (length l))) f [] (short_prefix l)) as [f1|] eqn:Em; [|reflexivity].
      destruct (name_too_long l) eqn:Hl; [reflexivity|].
      cbv beta iota. rewrite path_name_snoc, path_with_name_snoc. cbv beta iota.
      rewrite snoc_match, tmp_of_snoc.
      change (lit "." ++ x ++ lit "." ++ tok ++ lit ".tmp") with (tmp_name x tok).
      unfold m_open_new.
      (* open(tmp, "xb") fails (name over-long / exists): nothing was created, nothing is removed *)
      destruct (name_too_long (l ++ [tmp_name x tok])); [reflexivity|].
      destruct (lstat f1 (l ++ [tmp_name x tok])) as [n|] eqn:Hf1; [reflexivity|].
      cbv beta iota. unfold m_write. rewrite lstat_snoc_same by assumption. cbv beta iota.
      destruct flt as [k|]; cbv beta iota; rewrite set_node_snoc by assumption.
      + (* the write fails part-way: the temp file is removed again *)
        unfold m_unlink. rewrite lstat_snoc_same by assumption. cbv beta iota.
        rewrite remove_snoc by assumption. reflexivity.
      + unfold m_replace. rewrite lstat_snoc_same by assumption.
        rewrite lstat_snoc_other by apply tmp_differs.
        destruct (lstat f1 (l ++ [x])) as [[ct| |tg]|]; cbv beta iota;
          try (unfold m_unlink; rewrite lstat_snoc_same by assumption; cbv beta iota);
          rewrite remove_snoc by assumption; reflexivity. }
  clearbody TD TS. unfold token_ok.
  destruct (u_tokens c) as [|tk tks]; cbv beta iota; cbn [negb].
  2: destruct (q_token r) as [[|x tkn]|]; [reflexivity| |reflexivity];
     destruct (existsb (eqb (x :: tkn)) (tk :: tks)); cbn [negb]; [|reflexivity].
  all: destruct (u_max c <? q_size r)%N; [reflexivity|].
  all: destruct (u_types c) as [[|ty tys]|]; cbv beta iota.
  all: try (destruct (existsb (eqb (q_mime r)) (ty :: tys)); cbn [negb]; [|reflexivity]).
  all: destruct (q_size r =? 0)%N; [exact HD|exact HS].
Qed.

(* ---------- the delete branch, stated against Model.Static.handle_upload ---------- *)
Lemma handle_delete_upload_tie : forall flt tok c f r,
  token_ok c (q_token r) = true -> (u_max c <? q_size r)%N = false ->
  match u_types c with Some (t :: ts) => negb (existsb (eqb (q_mime r)) (t :: ts)) | _ => false end = false ->
  q_size r = 0%N ->
  upload_out (gen_handle_delete (model_lib flt tok) c f (q_path r)) = model_out (handle_upload c f r flt tok).
Proof.
  intros flt tok c f r Ht Hm Hty Hz. rewrite handle_delete_tie.
  unfold handle_upload. rewrite Ht, Hm, Hty, Hz. reflexivity.
Qed.

(* ---------- l_canon of the model instance is the translated canonical_path_segments (Gen/PyGen.v) ---------- *)
Lemma canon_lib_tie : forall flt tok p up, unquote p = Ok up ->
  l_canon (model_lib flt tok) p false = NV.Gen.PyGen.gen_canonical_path_segments (fun _ => up) p false.
Proof.
  intros flt tok p up H. rewrite NV.Proofs.Equiv_proofs.canonical_segments_strict_tie.
  lib. unfold m_canon. rewrite H. reflexivity.
Qed.

(* ---------- the corner cases that an earlier version of Model/Static.v got wrong (each confirmed on the real code; the
   model was corrected), kept as computed examples of what model and generated code now both answer ---------- *)
Definition long_name : str := repeat 120%N 300.
(* (1) an index name that is a symlink to an over-long name inside the root: is_file() raises OSError(ENAMETOOLONG),
   which escapes handle() (the old model went on to the next index name and served it) *)
Definition cx1_cfg : scfg := {| s_root := [lit "r"]; s_indices := [lit "index.gmi"; lit "index.gemini"]; s_listing := false; s_max := 1000%N |}.
Definition cx1_fs : fs :=
  [([lit "r"], Dir); ([lit "r"; lit "d"], Dir);
   ([lit "r"; lit "d"; lit "index.gmi"], Link (lit "/r/" ++ long_name));
   ([lit "r"; lit "d"; lit "index.gemini"], File (lit "hello"))].
Example index_over_long_raises :
  handle cx1_cfg cx1_fs (lit "/d/") = ORaise (lit "oserror") /\
  norm_resp (gen_handle (model_lib None []) cx1_cfg cx1_fs (lit "/d/")) = Err (lit "oserror") [].
Proof. split; vm_compute; reflexivity. Qed.

Definition cx_tok : str := lit "0123456789abcdef".
Definition cx_ucfg : ucfg := {| u_root := [lit "u"]; u_max := 1000%N; u_types := None; u_tokens := []; u_delete := false |}.
Definition cx_req (p : str) : ureq := {| q_path := p; q_size := 3%N; q_mime := lit "text/plain"; q_token := None; q_content := lit "abc" |}.
(* (2) a target name of 234..255 bytes: the name of the temporary file is over-long, open() fails: 40 (old model: 20) *)
Definition name240 : str := repeat 97%N 240.
Example upload_tmp_name_over_long :
  handle_upload cx_ucfg [([lit "u"], Dir)] (cx_req (47%N :: name240)) None cx_tok
  = (UResp 40 (lit "Upload failed"), [([lit "u"], Dir)]).
Proof. vm_compute; reflexivity. Qed.
(* (3) an over-long last component below directories that do not exist yet: the code creates them before it fails
   (the old model left the tree unchanged) *)
Example upload_over_long_mkdir :
  handle_upload cx_ucfg [([lit "u"], Dir)] (cx_req (lit "/p/q/" ++ long_name)) None cx_tok
  = (UResp 40 (lit "Upload failed"), [([lit "u"], Dir); ([lit "u"; lit "p"], Dir); ([lit "u"; lit "p"; lit "q"], Dir)]).
Proof. vm_compute; reflexivity. Qed.
(* (4) a file with the name of the temporary file exists: open(.., "xb") refuses it, the upload fails (40) and the
   file is left alone (since /repo commit 998dfce; before, the cleanup handler unlinked it - a defect found by the
   first version of this tie); the old model knew no temporary file and reported success *)
Definition cx4_fs : fs := [([lit "u"], Dir); ([lit "u"; tmp_name (lit "a") cx_tok], File (lit "other"))].
Example upload_tmp_exists :
  handle_upload cx_ucfg cx4_fs (cx_req (lit "/a")) None cx_tok = (UResp 40 (lit "Upload failed"), cx4_fs).
Proof. vm_compute; reflexivity. Qed.
(* (5) ENAMETOOLONG is only met where the over-long component is looked up in an existing directory (found by the C14
   correspondence run once over-long names below missing directories were generated; the model was at fault): a delete
   below a missing directory answers 51, directly inside the upload directory exists() raises; an over-long component
   in the middle of the target's directory: the directories before it are created *)
Definition cx_del (p : str) : ureq := {| q_path := p; q_size := 0%N; q_mime := lit "text/plain"; q_token := None; q_content := [] |}.
Definition cx_ucfg_del : ucfg := {| u_root := [lit "u"]; u_max := 1000%N; u_types := None; u_tokens := []; u_delete := true |}.
Example delete_over_long :
  handle_upload cx_ucfg_del [([lit "u"], Dir)] (cx_del (lit "/a/" ++ long_name)) None cx_tok
  = (UResp 51 (lit "Resource not found"), [([lit "u"], Dir)]) /\
  handle_upload cx_ucfg_del [([lit "u"], Dir)] (cx_del (lit "/" ++ long_name)) None cx_tok
  = (URaise (lit "oserror"), [([lit "u"], Dir)]) /\
  handle_upload cx_ucfg [([lit "u"], Dir)] (cx_req (lit "/p/" ++ long_name ++ lit "/x")) None cx_tok
  = (UResp 40 (lit "Upload failed"), [([lit "u"], Dir); ([lit "u"; lit "p"], Dir)]).
Proof. repeat split; vm_compute; reflexivity. Qed.
