(* Over the listener table regenerated from /repo's source (Gen/TlsConfigGen.v): no loop.create_server call overrides
   asyncio's TLS handshake or shutdown timeouts, so the timing the C06 / C15 harnesses measure is asyncio's default
   (ssl_handshake_timeout 60 s, ssl_shutdown_timeout 30 s) and not a value set by the code. *)
From Coq Require Import List String Bool.
From NV Require Import Gen.TlsConfigGen.
Import ListNotations.
Open Scope string_scope.

Definition timing_keywords : list string := ["ssl_shutdown_timeout"; "ssl_handshake_timeout"].
Definition default_tls_timing (opts : list (string * list string)) : bool :=
  forallb (fun l => forallb (fun k => negb (existsb (String.eqb k) timing_keywords)) (snd l)) opts.

Lemma listeners_default_timing : default_tls_timing listener_options = true.
Proof. vm_compute. reflexivity. Qed.
