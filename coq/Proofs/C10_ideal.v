(* C10 - the model's decisions pass the boolean monitor Spec.C10.ideal_ok (stated as C10_ideal_ok in Props/C10.v). *)
From Coq Require Import List QArith Bool.
From NV Require Import Prelude.Str Model.Bucket.
From NV Require Spec.C10 Proofs.C10_proofs.
Import ListNotations.
Open Scope Q_scope.

Lemma bools_eqb_refl : forall l, Spec.C10.bools_eqb l l = true.
Proof.
  induction l as [|x l IH]; simpl; [reflexivity|].
  rewrite Bool.eqb_reflx, IH. reflexivity.
Qed.

Lemma ideal_ok_run : forall c h,
  0 <= rate c -> Spec.C10.sorted h -> Spec.C10.ideal_ok c (run c [] h) = true.
Proof.
  intros c h Hr S. unfold Spec.C10.ideal_ok.
  apply forallb_forall. intros ip _. cbv zeta.
  destruct (map (fun e => fst (fst e)) (Spec.C10.decisions_of ip (run c [] h)))
    as [|t0 ts] eqn:E; [reflexivity|].
  rewrite (C10_proofs.refuse_only_exhausted c h ip t0 ts Hr S E).
  apply bools_eqb_refl.
Qed.
Print Assumptions ideal_ok_run.

Close Scope Q_scope.
