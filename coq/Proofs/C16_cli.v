(* C16 lifted to the command line: `nauyaca get <url> [-r N] [--no-redirects] ...` (src/nauyaca/__main__.py).

   The command is a wiring layer: it constructs GeminiClient from its options and calls client.get.  The wiring is REGENERATED
   from the source (Gen/CliClientGen.v: gen_get_call, gen_get_exit); composed with the regenerated GeminiClient.__init__ / get
   (Gen/SessionGen.v) and _get_with_redirects (Gen/PyGen.v) it computes the model's walk Redirect.get with follow_redirects =
   not --no-redirects and the bound = the value of --max-redirects (cli_get_is_session_get), so every C16 theorem of
   Props/C16.v holds of the command, for all option values and every server behaviour (`fetch`, which may depend on the hop).
   The clause a wrong wiring breaks (e.g. follow_redirects = max_redirects > 0 and not no_redirects): cli_no_redirect_as_content
   for max_redirects = 0 - and the Examples at the end. *)
From Coq Require Import List NArith ZArith Bool Lia.
From Coq Require QArith.
From NV Require Import Prelude.Str Prelude.Res Model.Redirect Equiv.CliClientGlue Model.CliClient Equiv.SessionGlue
                       Gen.CliClientGen Gen.SessionGen Gen.PyGen.
From NV Require Model.Url Spec.C16 Proofs.C16_proofs Equiv.Equiv Equiv.EquivSessionGet Equiv.EquivCliClient.
Import ListNotations.
Open Scope list_scope.

Definition scripted (tab : str -> option response) : nat -> str -> res response :=
  fun _ x => match tab x with Some r => Ok r | None => Err (lit "unscripted") [] end.

Section Cli.
(* the options of one invocation, as typer hands them to the function *)
Variables (url : str) (mr : nat) (nr : bool) (to : QArith_base.Q) (vb tr vs : bool) (cc ck : option str).

Local Notation call := (gen_get_call url mr nr to vb tr vs cc ck).

(* the CODE: the generated wiring feeding the generated constructor, get and redirect walk (no ssl_context, decode_bodies by default) *)
Definition code_cli_get (vu : str -> res unit) (pu : str -> res Url.parsed) (fetch : nat -> str -> res response) : res response :=
  gen_get vu pu (fun u m ch => gen_get_with_redirects fetch (S (S m)) u m (match ch with Some l => l | None => [] end)) (fetch 0)
    (gen_init (gc_timeout call) (gc_max_redirects call) gen_init_default_ssl_context (gc_verify_ssl call) (gc_trust_on_first_use call)
              gen_init_default_decode_bodies)
    (gc_url call) (gc_follow_redirects call).

(* the same run on the model of GeminiClient.get, with the arguments the generated wiring supplies *)
Definition cli_run (fetch : nat -> str -> res response) : Redirect.outcome * list str :=
  Redirect.get fetch (gc_follow_redirects call) (gc_max_redirects call) (gc_url call).
Definition cli_exit (fetch : nat -> str -> res response) : N := gen_get_exit (outcome_view (fst (cli_run fetch))).

Lemma cli_run_eq : forall fetch, cli_run fetch = Redirect.get fetch (negb nr) mr url.
Proof. intros. unfold cli_run. rewrite EquivCliClient.cli_get_follow, EquivCliClient.cli_get_max.
  destruct (EquivCliClient.cli_get_rest url mr nr to vb tr vs cc ck) as [-> _]. reflexivity. Qed.

(* `cli get` = Session get with the wired parameters: for every option values and every server behaviour *)
Theorem cli_get_is_session_get : forall vu pu fetch pr,
  (forall i u m, fetch i u <> Err (lit "OutOfFuel") m) ->
  vu url = Ok tt -> pu url = Ok pr -> vu (Url.p_norm pr) = Ok tt ->
  Equiv.outcome_of (code_cli_get vu pu fetch) = fst (Redirect.get fetch (negb nr) mr url) /\
  fst (cli_run fetch) = fst (Redirect.get fetch (negb nr) mr url).
Proof.
  intros vu pu fetch pr H H1 H2 H3. split; [|rewrite cli_run_eq; reflexivity].
  unfold code_cli_get. rewrite EquivCliClient.cli_get_follow, EquivCliClient.cli_get_max.
  destruct (EquivCliClient.cli_get_rest url mr nr to vb tr vs cc ck) as [-> _].
  apply (EquivSessionGet.get_redirect_tie vu pu fetch _ mr _ _ _ _ url pr (negb nr) H H1 H2 H3).
Qed.

(* the extracted model the harness runs (Model.CliClient.cli_get) is this run *)
Theorem cli_model_is_code : forall fetch,
  Model.CliClient.cli_get fetch url mr nr = (fst (cli_run fetch), snd (cli_run fetch), cli_exit fetch).
Proof.
  intros. unfold cli_exit. rewrite EquivCliClient.cli_get_exit_tie, cli_run_eq. reflexivity.
Qed.

(* at most max_redirects + 1 connections *)
Theorem cli_bound : forall fetch, length (snd (cli_run fetch)) <= mr + 1.
Proof.
  intros. rewrite cli_run_eq. destruct nr; cbn [negb].
  - unfold Redirect.get. destruct (fetch 0 url); cbn; lia.
  - apply C16_proofs.bound.
Qed.

(* with --no-redirects exactly one connection is made, to the URL given, and the answer (a 3x included) is the result *)
Theorem cli_no_redirects : forall fetch, nr = true ->
  snd (cli_run fetch) = [url] /\ (forall r, fetch 0 url = Ok r -> cli_run fetch = (Final r, [url])).
Proof.
  intros fetch E. rewrite cli_run_eq, E. cbn [negb]. split.
  - unfold Redirect.get. destruct (fetch 0 url); reflexivity.
  - intros r F. apply C16_proofs.disabled. exact F.
Qed.

Theorem cli_terminates : forall fetch, fst (cli_run fetch) <> OutOfFuel.
Proof.
  intros. rewrite cli_run_eq. destruct nr; cbn [negb].
  - unfold Redirect.get. destruct (fetch 0 url); cbn; discriminate.
  - apply C16_proofs.terminates.
Qed.

(* every URL requested after the first starts with gemini:// *)
Theorem cli_scheme : forall fetch, Forall (fun x => prefixb gemini_prefix x = true) (tl (snd (cli_run fetch))).
Proof.
  intros. rewrite cli_run_eq. destruct nr; cbn [negb].
  - unfold Redirect.get. destruct (fetch 0 url); cbn; constructor.
  - apply C16_proofs.scheme.
Qed.

(* no URL is requested twice *)
Theorem cli_loop_free : forall fetch, NoDup (snd (cli_run fetch)).
Proof.
  intros. rewrite cli_run_eq. destruct nr; cbn [negb].
  - unfold Redirect.get. destruct (fetch 0 url); cbn; repeat constructor; intros [].
  - apply C16_proofs.loop_free.
Qed.

(* with following enabled (no --no-redirects) a followable redirect is never the command's final response - for EVERY value of
   --max-redirects, 0 included: a chain longer than the bound is an error, not content *)
Theorem cli_no_redirect_as_content : forall fetch r, nr = false ->
  fst (cli_run fetch) = Final r -> Spec.C16.followable r = false.
Proof.
  intros fetch r E. rewrite cli_run_eq, E. cbn [negb]. apply C16_proofs.no_redirect_as_content.
Qed.

(* a loop-free chain of at most max_redirects redirects through a scripted table is followed to its end *)
Theorem cli_follows : forall tab l final, nr = false ->
  Spec.C16.walk tab mr url = (l, Some final) -> NoDup l -> cli_run (scripted tab) = (Final final, l).
Proof.
  intros tab l final E W ND. rewrite cli_run_eq, E. cbn [negb]. apply C16_proofs.follows; assumption.
Qed.

(* the whole predicate of Spec/C16.v holds of the command against any scripted table *)
Theorem cli_ok : forall tab, Spec.C16.ok tab (negb nr) mr url (cli_run (scripted tab)) = true.
Proof. intros. rewrite cli_run_eq. apply C16_proofs.ok_model. Qed.

(* exit status 0 exactly when the fetch ended in a response with status < 40 *)
Theorem cli_exit_zero : forall fetch,
  cli_exit fetch = 0%N <-> exists r, fst (cli_run fetch) = Final r /\ (r_status r < 40)%Z.
Proof.
  intros. unfold cli_exit. rewrite EquivCliClient.cli_get_exit_tie.
  destruct (fst (cli_run fetch)) as [r|k|]; cbn [outcome_view get_exit].
  - destruct (40 <=? r_status r)%Z eqn:E.
    + split; [discriminate|]. intros [r' [H L]]. inversion H; subst. apply Z.leb_le in E. lia.
    + split; [|reflexivity]. intros _. exists r. split; [reflexivity|]. apply Z.leb_gt in E. exact E.
  - split; [discriminate|]. intros [r [H _]]. discriminate.
  - split; [discriminate|]. intros [r [H _]]. discriminate.
Qed.

(* ... and then, with following enabled, that response is not a redirect that should have been followed: a redirect loop, a chain
   longer than --max-redirects, a redirect without target all end with a non-zero status *)
Theorem cli_exit_zero_final : forall fetch, nr = false -> cli_exit fetch = 0%N ->
  exists r, fst (cli_run fetch) = Final r /\ (r_status r < 40)%Z /\ Spec.C16.followable r = false.
Proof.
  intros fetch E H. apply cli_exit_zero in H. destruct H as [r [F L]].
  exists r. repeat split; try assumption. apply (cli_no_redirect_as_content fetch r E F).
Qed.

(* the command as a whole (pre-checks included), for a peer behaving as fetch: without a client certificate it makes exactly this
   call and ends with this status *)
Theorem cli_command : forall fetch, cc = None -> ck = None ->
  gen_get_command (fun c => outcome_view (fst (Redirect.get fetch (gc_follow_redirects c) (gc_max_redirects c) (gc_url c))))
                  url mr nr to vb tr vs cc ck
  = (Some (get_wiring url mr nr to vb tr vs cc ck), cli_exit fetch).
Proof.
  intros fetch Hc Hk.
  assert (W := EquivCliClient.cli_get_wiring_tie url mr nr to vb tr vs cc ck).
  unfold cli_exit, cli_run. rewrite EquivCliClient.cli_get_command_tie, EquivCliClient.cli_get_exit_tie.
  unfold get_command. rewrite Hc, Hk in *. cbn [get_precheck]. congruence.
Qed.
End Cli.

(* ---------- non-vacuity (vm_compute on the regenerated wiring) ---------- *)
Definition u0 := lit "gemini://h/0".
Definition u1 := lit "gemini://h/1".
Definition u2 := lit "gemini://h/2".
Definition r20 : response := {| r_status := 20; r_meta := lit "text/plain"; r_body := lit "final" |}.
Definition redir (t : str) : response := {| r_status := 31; r_meta := t; r_body := [] |}.
(* a one-hop chain, a two-hop chain behind it, and a loop *)
Definition one_hop (u : str) : option response := if eqb u u0 then Some (redir u1) else if eqb u u1 then Some r20 else None.
Definition loop2 (u : str) : option response := if eqb u u0 then Some (redir u1) else if eqb u u1 then Some (redir u0) else None.
Definition run_ex tab mr nr := let r := cli_run u0 mr nr (QArith_base.Qmake 30 1) false true false None None (scripted tab) in
                               (r, cli_exit u0 mr nr (QArith_base.Qmake 30 1) false true false None None (scripted tab)).

(* -r 0 against a one-hop chain: ONE connection, an error (not the 31 as content), exit status 1 *)
Example ex_cli_r0_one_hop : run_ex one_hop 0 false = ((Fail (lit "too_many"), [u0]), 1%N).
Proof. vm_compute. reflexivity. Qed.
(* -r 1 follows it *)
Example ex_cli_r1_one_hop : run_ex one_hop 1 false = ((Final r20, [u0; u1]), 0%N).
Proof. vm_compute. reflexivity. Qed.
(* --no-redirects: one connection, the 31 is the result, exit status 0 - whatever -r says *)
Example ex_cli_no_redirects : run_ex one_hop 5 true = ((Final (redir u1), [u0]), 0%N) /\ run_ex one_hop 0 true = ((Final (redir u1), [u0]), 0%N).
Proof. vm_compute. split; reflexivity. Qed.
(* a loop is an error after two connections *)
Example ex_cli_loop : run_ex loop2 5 false = ((Fail (lit "loop"), [u0; u1]), 1%N).
Proof. vm_compute. reflexivity. Qed.
(* a 51 is final content with exit status 1 *)
Example ex_cli_51 : run_ex (fun u => if eqb u u0 then Some {| r_status := 51; r_meta := lit "Not found"; r_body := [] |} else None) 5 false
  = ((Final {| r_status := 51; r_meta := lit "Not found"; r_body := [] |}, [u0]), 1%N).
Proof. vm_compute. reflexivity. Qed.
