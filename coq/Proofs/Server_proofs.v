(* Proofs of the server-side property theorems (Props/C01.v, C04.v, C07.v, C15.v).
   The work is done in Server_inv (state invariant), Server_basic (effect summaries, budgets),
   Server_p1, Server_bytes, Server_wire, Server_c01, Server_stream, Server_gate, Server_oblig,
   Server_refusal and Server_refines; this file states the results under the names the Props
   files refer to.

   Three statements of the Props files are false for request lines outside the URL model
   (AOutOfModel: non-ASCII authority, non-ASCII Titan size): C15_no_stuck, C15_ok and
   C01_obligation.  They are proved here as no_stuck_partial, c15_ok_partial and
   obligation_partial under the hypothesis that the trace contains no AOutOfModel action. *)
From Coq Require Import List NArith ZArith Bool.
From NV Require Import Prelude.Str Prelude.Res Model.Url Model.Titan Model.ServerProto Spec.ServerTrace.
From NV Require Spec.C01 Spec.C04 Spec.C07 Spec.C15.
From NV Require Proofs.Server_inv Proofs.Server_basic Proofs.Server_p1 Proofs.Server_c01
  Proofs.Server_gate Proofs.Server_oblig Proofs.Server_refusal Proofs.Server_refines.
Import ListNotations.

(* ---------------- C07 ---------------- *)
Lemma at_most_once : forall ip6 handler mw up ucf ip fp evs,
  Spec.C07.at_most_once (run ip6 handler mw up ucf ip fp init evs) = true.
Proof. intros. apply Server_p1.at_most_once_gen. Qed.

Lemma trailing_ignored : forall ip6 handler mw up ucf ip fp s d,
  line_rcvd s = true -> await_titan s = false ->
  data_received ip6 handler mw up ucf ip fp s d = (set_buf s (buf s ++ d) true, []).
Proof. intros. apply Server_p1.trailing_ignored_gen; assumption. Qed.

Lemma refines : forall ip6 handler mw up ucf ip fp (reads : list (list str)),
  flat (run ip6 handler mw up ucf ip fp init (map ERead reads)) =
  flat (run ip6 handler mw up ucf ip fp init [ERead [concat (concat reads)]]).
Proof. exact Server_refines.refines. Qed.

(* ---------------- C01 ---------------- *)
Lemma single_response : forall ip6 handler mw up ucf ip fp evs,
  Spec.C01.clause_single (run ip6 handler mw up ucf ip fp init evs) = true.
Proof. intros. apply Server_p1.single_response_gen. Qed.

Lemma shape : forall ip6 handler mw up ucf ip fp evs,
  Spec.C01.clause_shape (run ip6 handler mw up ucf ip fp init evs) = true.
Proof. intros. apply Server_c01.shape_gen. Qed.

Lemma faithful : forall ip6 c evs,
  Spec.C01.clause_faithful c evs
    (run ip6 (fun _ => c_hres c) (c_mw c) (c_upload c) (c_upfail c) (c_ip c) (c_fp c) init evs) = true.
Proof. intros. apply Server_c01.faithful_gen. Qed.

Lemma silent_after_lost : forall ip6 handler mw up ucf ip fp evs,
  Spec.C01.clause_silent_after_lost evs (run ip6 handler mw up ucf ip fp init evs) false = true.
Proof. intros. apply Server_p1.silent_after_lost_gen. Qed.

(* C01_obligation is false when the request line is outside the URL model: nothing is sent. *)
Lemma obligation_partial : forall ip6 c evs,
  existsb (fun a => match a with AOutOfModel => true | _ => false end)
          (flat (run ip6 (fun _ => c_hres c) (c_mw c) (c_upload c) (c_upfail c) (c_ip c) (c_fp c) init evs)) = false ->
  Spec.C01.clause_obligation ip6 c evs
    (run ip6 (fun _ => c_hres c) (c_mw c) (c_upload c) (c_upfail c) (c_ip c) (c_fp c) init evs) = true.
Proof.
  intros ip6 c evs.
  exact (Server_oblig.obligation_partial_gen ip6 (fun _ => c_hres c) (c_mw c) (c_upload c) (c_upfail c) (c_ip c) (c_fp c)
           c eq_refl evs).
Qed.

(* ---------------- C04 ---------------- *)
(* Spec.C04.gate does not take the IPv6 oracle (it does not depend on it): the statement in
   Props/C04.v applies it to one argument too many. *)
Lemma gate : forall ip6 c evs,
  Spec.C04.gate c (Spec.C04.expected_url ip6 (stream evs)) evs
    (run ip6 (fun _ => c_hres c) (c_mw c) (c_upload c) (c_upfail c) (c_ip c) (c_fp c) init evs) [] false = true.
Proof. exact Server_gate.gate_gen. Qed.

Lemma no_invocation_without_allow : forall ip6 handler up ucf ip fp evs,
  (forall i t, ~ In (EDone i (OMw true t)) evs) ->
  existsb is_invocation (flat (run ip6 handler true up ucf ip fp init evs)) = false.
Proof.
  intros ip6 handler up ucf ip fp evs H. apply Server_basic.existsb_count.
  apply (Server_p1.na_run ip6 handler true up ucf ip fp eq_refl evs init H).
Qed.

Lemma refusal : forall ip6 c evs, c_mw c = true ->
  valid_reads evs (run ip6 (fun _ => c_hres c) (c_mw c) (c_upload c) (c_upfail c) (c_ip c) (c_fp c) init evs) false = true ->
  Spec.C04.refusal c evs
    (run ip6 (fun _ => c_hres c) (c_mw c) (c_upload c) (c_upfail c) (c_ip c) (c_fp c) init evs) = true.
Proof.
  intros ip6 c evs MW V.
  exact (Server_refusal.refusal_run ip6 (fun _ => c_hres c) (c_mw c) (c_upload c) (c_upfail c) (c_ip c) (c_fp c) MW c evs V).
Qed.

(* ---------------- C15 ---------------- *)
Lemma not_armed_while_answering : forall ip6 handler mw up ucf ip fp evs,
  let s := final ip6 handler mw up ucf ip fp init evs in
  pending s <> [] -> timer s <> TArmed.
Proof. intros ip6 handler mw up ucf ip fp evs. apply Server_p1.not_armed_while_answering_gen. Qed.

Lemma timeout_response : forall ip6 handler mw up ucf ip fp evs,
  let s := final ip6 handler mw up ucf ip fp init evs in
  timer s = TArmed -> sent s = false ->
  snd (step ip6 handler mw up ucf ip fp s ETimer) = [AWrite timeout_line; AClose].
Proof. intros ip6 handler mw up ucf ip fp evs. apply Server_p1.timeout_response_gen. Qed.

(* C15_no_stuck is false for request lines outside the URL model (AOutOfModel): the timer is
   cancelled, nothing is pending and nothing is sent.  It holds on every other schedule. *)
Lemma no_stuck_partial : forall ip6 handler mw up ucf ip fp evs,
  has_lost evs = false ->
  existsb (fun a => match a with AOutOfModel => true | _ => false end)
          (flat (run ip6 handler mw up ucf ip fp init evs)) = false ->
  let s := final ip6 handler mw up ucf ip fp init evs in
  closing s = true \/ timer s = TArmed \/ pending s <> [].
Proof. intros ip6 handler mw up ucf ip fp evs. apply Server_p1.no_stuck_partial_gen. Qed.

Lemma c15_ok_partial : forall ip6 handler mw up ucf ip fp evs,
  existsb (fun a => match a with AOutOfModel => true | _ => false end)
          (flat (run ip6 handler mw up ucf ip fp init evs)) = false ->
  Spec.C15.ok evs (run ip6 handler mw up ucf ip fp init evs) = true.
Proof. intros ip6 handler mw up ucf ip fp evs. apply Server_oblig.c15_ok_partial_gen. Qed.
