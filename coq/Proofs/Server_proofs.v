(* Proofs of the server-side property theorems (Props/C01.v, C04.v, C07.v, C15.v). *)
From Coq Require Import List NArith ZArith Bool.
From NV Require Import Prelude.Str Prelude.Res Model.Url Model.Titan Model.ServerProto Spec.ServerTrace.
From NV Require Spec.C01 Spec.C04 Spec.C07 Spec.C15.
From NV Require Export Proofs.Server_inv Proofs.Server_basic Proofs.Server_p1.
Import ListNotations.

(* ---------------- C07 ---------------- *)
Lemma at_most_once : forall ip6 handler mw up ip fp evs,
  Spec.C07.at_most_once (run ip6 handler mw up ip fp init evs) = true.
Proof. intros. apply at_most_once_gen. Qed.

Lemma trailing_ignored : forall ip6 handler mw up ip fp s d,
  line_rcvd s = true -> await_titan s = false ->
  data_received ip6 handler mw up ip fp s d = (set_buf s (buf s ++ d) true, []).
Proof. intros. apply trailing_ignored_gen; assumption. Qed.

(* ---------------- C01 ---------------- *)
Lemma single_response : forall ip6 handler mw up ip fp evs,
  Spec.C01.clause_single (run ip6 handler mw up ip fp init evs) = true.
Proof. intros. apply single_response_gen. Qed.

Lemma silent_after_lost : forall ip6 handler mw up ip fp evs,
  Spec.C01.clause_silent_after_lost evs (run ip6 handler mw up ip fp init evs) false = true.
Proof. intros. apply silent_after_lost_gen. Qed.

(* ---------------- C15 ---------------- *)
Lemma not_armed_while_answering : forall ip6 handler mw up ip fp evs,
  let s := final ip6 handler mw up ip fp init evs in
  pending s <> [] -> timer s <> TArmed.
Proof. intros ip6 handler mw up ip fp evs. apply not_armed_while_answering_gen. Qed.

Lemma timeout_response : forall ip6 handler mw up ip fp evs,
  let s := final ip6 handler mw up ip fp init evs in
  timer s = TArmed -> sent s = false ->
  snd (step ip6 handler mw up ip fp s ETimer) = [AWrite timeout_line; AClose].
Proof. intros ip6 handler mw up ip fp evs. apply timeout_response_gen. Qed.

(* C15_no_stuck is false for request lines outside the URL model (AOutOfModel): the timer is
   cancelled, nothing is pending and nothing is sent.  It holds on every other schedule. *)
Lemma no_stuck_partial : forall ip6 handler mw up ip fp evs,
  has_lost evs = false ->
  existsb (fun a => match a with AOutOfModel => true | _ => false end)
          (flat (run ip6 handler mw up ip fp init evs)) = false ->
  let s := final ip6 handler mw up ip fp init evs in
  closing s = true \/ timer s = TArmed \/ pending s <> [].
Proof. intros ip6 handler mw up ip fp evs. apply no_stuck_partial_gen. Qed.

(* ---------------- C04 ---------------- *)
Lemma no_invocation_without_allow : forall ip6 handler up ip fp evs,
  (forall i t, ~ In (EDone i (OMw true t)) evs) ->
  existsb is_invocation (flat (run ip6 handler true up ip fp init evs)) = false.
Proof.
  intros ip6 handler up ip fp evs H. apply existsb_count.
  apply (na_run ip6 handler true up ip fp eq_refl evs init H).
Qed.
