(* C16 - proofs of the property theorems stated in Props/C16.v. *)
From Coq Require Import List NArith ZArith Bool Lia.
From NV Require Import Prelude.Str Prelude.Res Model.Redirect.
From NV Require Spec.C16.
Import ListNotations.

(* ---------- list / boolean helpers ---------- *)

Lemma existsb_eqb_In (x : str) (l : list str) : existsb (eqb x) l = true <-> In x l.
Proof.
  rewrite existsb_exists. split.
  - intros [y [Hin E]]. apply eqb_spec in E. subst y. exact Hin.
  - intro Hin. exists x. split; [exact Hin|apply eqb_refl].
Qed.

Lemma existsb_eqb_notIn (x : str) (l : list str) : existsb (eqb x) l = false <-> ~ In x l.
Proof.
  rewrite <- existsb_eqb_In. destruct (existsb (eqb x) l); split; intro H; congruence.
Qed.

Lemma nodupb_spec (l : list str) : Spec.C16.nodupb l = true <-> NoDup l.
Proof.
  induction l as [|x l IH]; simpl.
  - split; [intros _; constructor|reflexivity].
  - rewrite andb_true_iff, negb_true_iff, existsb_eqb_notIn, IH, NoDup_cons_iff. tauto.
Qed.

Lemma list_eqb_refl (l : list str) : Spec.C16.list_eqb l l = true.
Proof. induction l as [|x l IH]; simpl; [reflexivity|]. rewrite eqb_refl, IH. reflexivity. Qed.

Lemma response_eqb_refl (r : response) : Spec.C16.response_eqb r r = true.
Proof. unfold Spec.C16.response_eqb. rewrite Z.eqb_refl, !eqb_refl. reflexivity. Qed.

Lemma prefix_nil_false : prefixb gemini_prefix [] = false.
Proof. reflexivity. Qed.

(* ---------- generic facts about `follow`, for every server behaviour ---------- *)

Section Gen.
Variable fetch : nat -> str -> res response.

Lemma follow_S f max url chain :
  follow fetch (S f) max url chain =
    if existsb (eqb url) chain then (Fail (lit "loop"), [])
    else if Nat.ltb max (length chain) then (Fail (lit "too_many"), [])
    else match fetch (length chain) url with
         | Err k _ => (Fail k, [url])
         | OutOfModel => (Fail (lit "oom"), [url])
         | Ok r =>
           if is_redirect (r_status r) then
             match r_meta r with
             | [] => (Fail (lit "missing_url"), [url])
             | target =>
               if negb (prefixb gemini_prefix target) then (Final r, [url])
               else let (o, l) := follow fetch f max target (chain ++ [url]) in (o, url :: l)
             end
           else (Final r, [url])
         end.
Proof. reflexivity. Qed.

(* case analysis of one unfolding of `follow`; leaves, in order:
   loop | too_many | missing_url | recursive call | non-gemini target | not a redirect | Err | OutOfModel *)
Ltac step :=
  rewrite follow_S;
  destruct (existsb (eqb _) _) eqn:Hloop;
  [ | destruct (Nat.ltb _ _) eqn:Hmax;
      [ | apply Nat.ltb_ge in Hmax;
          destruct (fetch _ _) as [r|kind msg|] eqn:Hfetch;
          [ destruct (is_redirect (r_status r)) eqn:Hred;
            [ destruct (r_meta r) as [|c t] eqn:Hmeta;
              [ | cbv zeta; destruct (prefixb gemini_prefix (c :: t)) eqn:Hpre; cbn [negb] ]
            | ]
          | | ] ] ].

Lemma bound_gen : forall fuel max url chain,
  length (snd (follow fetch fuel max url chain)) <= max + 1 - length chain.
Proof.
  induction fuel as [|f IH]; intros max url chain; [simpl; lia|].
  step; cbn [snd length]; try lia.
  specialize (IH max (c :: t) (chain ++ [url])). rewrite app_length in IH. cbn [length] in IH.
  destruct (follow fetch f max (c :: t) (chain ++ [url])) as [o l]. cbn [snd length] in *. lia.
Qed.

Lemma terminates_gen : forall fuel max url chain,
  1 <= fuel -> max + 2 <= fuel + length chain ->
  fst (follow fetch fuel max url chain) <> OutOfFuel.
Proof.
  induction fuel as [|f IH]; intros max url chain H1 H2; [lia|].
  step; cbn [fst]; try discriminate.
  specialize (IH max (c :: t) (chain ++ [url])). rewrite app_length in IH. cbn [length] in IH.
  destruct (follow fetch f max (c :: t) (chain ++ [url])) as [o l]. cbn [fst] in *.
  apply IH; lia.
Qed.

(* the log is empty or starts with the URL asked for *)
Lemma log_head : forall fuel max url chain,
  snd (follow fetch fuel max url chain) = [] \/
  exists l, snd (follow fetch fuel max url chain) = url :: l.
Proof.
  intros [|f] max url chain; [left; reflexivity|].
  step; cbn [snd]; try (left; reflexivity); try (right; exists []; reflexivity).
  destruct (follow fetch f max (c :: t) (chain ++ [url])) as [o l]. right. exists l. reflexivity.
Qed.

Lemma scheme_gen : forall fuel max url chain,
  Forall (fun x => prefixb gemini_prefix x = true) (tl (snd (follow fetch fuel max url chain))).
Proof.
  induction fuel as [|f IH]; intros max url chain; [constructor|].
  step; cbn [snd tl]; try constructor.
  specialize (IH max (c :: t) (chain ++ [url])).
  pose proof (log_head f max (c :: t) (chain ++ [url])) as Hhd.
  destruct (follow fetch f max (c :: t) (chain ++ [url])) as [o l]. cbn [snd tl] in *.
  destruct Hhd as [E|[l' E]]; subst l.
  - constructor.
  - constructor; [exact Hpre|exact IH].
Qed.

Lemma loop_free_gen : forall fuel max url chain,
  NoDup (snd (follow fetch fuel max url chain)) /\
  (forall x, In x (snd (follow fetch fuel max url chain)) -> ~ In x chain).
Proof.
  assert (Hsingle : forall (url : str) chain, existsb (eqb url) chain = false ->
            NoDup [url] /\ (forall x, In x [url] -> ~ In x chain)).
  { intros url chain Hl. split.
    - constructor; [intros []|constructor].
    - intros x [<-|[]]. apply existsb_eqb_notIn. exact Hl. }
  induction fuel as [|f IH]; intros max url chain.
  { simpl. split; [constructor|intros x []]. }
  step; cbn [snd]; try (apply Hsingle; exact Hloop);
    try (split; [constructor|intros x []]).
  specialize (IH max (c :: t) (chain ++ [url])).
  destruct (follow fetch f max (c :: t) (chain ++ [url])) as [o l]. cbn [snd] in *.
  destruct IH as [Hnd Hnotin].
  apply existsb_eqb_notIn in Hloop.
  split.
  - constructor; [|exact Hnd].
    intro Hin. apply (Hnotin url Hin). apply in_or_app. right. left. reflexivity.
  - intros x [<-|Hin]; [exact Hloop|].
    intro Hc. apply (Hnotin x Hin). apply in_or_app. left. exact Hc.
Qed.

Lemma no_redirect_gen : forall fuel max url chain r0,
  fst (follow fetch fuel max url chain) = Final r0 -> Spec.C16.followable r0 = false.
Proof.
  induction fuel as [|f IH]; intros max url chain r0; [discriminate|].
  step; cbn [fst]; intro H; try discriminate.
  - specialize (IH max (c :: t) (chain ++ [url]) r0).
    destruct (follow fetch f max (c :: t) (chain ++ [url])) as [o l]. cbn [fst] in *.
    apply IH. exact H.
  - inversion H; subst r0. unfold Spec.C16.followable. rewrite Hred, Hmeta, Hpre. reflexivity.
  - inversion H; subst r0. unfold Spec.C16.followable. rewrite Hred. reflexivity.
Qed.

(* ---------- the theorems of Props/C16.v that quantify over every fetch ---------- *)

Lemma bound_sec : forall max u, length (snd (get fetch true max u)) <= max + 1.
Proof.
  intros max u. unfold get.
  pose proof (bound_gen (S (S max)) max u []) as H. cbn [length] in H. lia.
Qed.

Lemma terminates_sec : forall max u, fst (get fetch true max u) <> OutOfFuel.
Proof. intros max u. unfold get. apply terminates_gen; cbn [length]; lia. Qed.

Lemma scheme_sec : forall max u,
  Forall (fun x => prefixb gemini_prefix x = true) (tl (snd (get fetch true max u))).
Proof. intros max u. unfold get. apply scheme_gen. Qed.

Lemma loop_free_sec : forall max u, NoDup (snd (get fetch true max u)).
Proof. intros max u. unfold get. apply loop_free_gen. Qed.

Lemma no_redirect_sec : forall max u r,
  fst (get fetch true max u) = Final r -> Spec.C16.followable r = false.
Proof. intros max u r. unfold get. apply no_redirect_gen. Qed.

Lemma disabled_sec : forall max u r,
  fetch 0 u = Ok r -> get fetch false max u = (Final r, [u]).
Proof. intros max u r H. unfold get. rewrite H. reflexivity. Qed.

End Gen.

Lemma bound : forall fetch max u,
  length (snd (get fetch true max u)) <= max + 1.
Proof. exact bound_sec. Qed.

Lemma terminates : forall fetch max u, fst (get fetch true max u) <> OutOfFuel.
Proof. exact terminates_sec. Qed.

Lemma scheme : forall fetch max u,
  Forall (fun x => prefixb gemini_prefix x = true) (tl (snd (get fetch true max u))).
Proof. exact scheme_sec. Qed.

Lemma loop_free : forall fetch max u, NoDup (snd (get fetch true max u)).
Proof. exact loop_free_sec. Qed.

Lemma no_redirect_as_content : forall fetch max u r,
  fst (get fetch true max u) = Final r -> Spec.C16.followable r = false.
Proof. exact no_redirect_sec. Qed.

Lemma disabled : forall fetch max u r,
  fetch 0 u = Ok r -> get fetch false max u = (Final r, [u]).
Proof. exact disabled_sec. Qed.

(* ---------- scripted tables ---------- *)

Definition tabfetch (tab : str -> option response) : nat -> str -> res response :=
  fun _ x => match tab x with Some r => Ok r | None => Err (lit "unscripted") [] end.

(* a redirect status with an empty meta line: the model (like the Python code) refuses it with
   "missing_url"; Spec.C16.walk leaves that outcome open (returns None) *)
Definition missing (r : response) : bool :=
  is_redirect (r_status r) && match r_meta r with [] => true | _ => false end.

Lemma walk_eq tab k u :
  Spec.C16.walk tab k u =
    match tab u with
    | None => ([u], None)
    | Some r =>
        if Spec.C16.followable r then
          match k with
          | O => ([u], None)
          | S k' => let (l, f) := Spec.C16.walk tab k' (r_meta r) in (u :: l, f)
          end
        else if missing r then ([u], None)
        else ([u], Some r)
    end.
Proof. destruct k; reflexivity. Qed.

(* the response at which a walk stops is scripted, not followable, and not a target-less 3x *)
Lemma walk_final : forall tab k u l final,
  Spec.C16.walk tab k u = (l, Some final) ->
  (exists x, tab x = Some final) /\ Spec.C16.followable final = false /\ missing final = false.
Proof.
  induction k as [|k IHk]; intros u l final Hw; rewrite walk_eq in Hw;
    destruct (tab u) as [r|] eqn:Hu; try discriminate;
    destruct (Spec.C16.followable r) eqn:Hfol; try discriminate.
  - destruct (missing r) eqn:Hmis; [discriminate|]. inversion Hw; subst.
    split; [exists u; exact Hu|split; assumption].
  - destruct (Spec.C16.walk tab k (r_meta r)) as [l' f'] eqn:Hw'. inversion Hw; subst.
    apply (IHk (r_meta r) l'). exact Hw'.
  - destruct (missing r) eqn:Hmis; [discriminate|]. inversion Hw; subst.
    split; [exists u; exact Hu|split; assumption].
Qed.

Lemma follows_gen : forall fuel tab k max u chain l final,
  Spec.C16.walk tab k u = (l, Some final) -> NoDup l ->
  (forall x, In x l -> ~ In x chain) ->
  length chain + k <= max -> k + 1 <= fuel ->
  follow (tabfetch tab) fuel max u chain = (Final final, l).
Proof.
  induction fuel as [|f IH]; intros tab k max u chain l final Hwalk Hnd Hdisj Hlen Hfuel; [lia|].
  rewrite walk_eq in Hwalk.
  destruct (tab u) as [r|] eqn:Htab; [|discriminate].
  assert (Hu : In u l).
  { destruct (Spec.C16.followable r).
    - destruct k as [|k']; [discriminate|].
      destruct (Spec.C16.walk tab k' (r_meta r)) as [l' f']. inversion Hwalk. left. reflexivity.
    - destruct (missing r); [discriminate|]. inversion Hwalk. left. reflexivity. }
  rewrite follow_S.
  assert (Hloop : existsb (eqb u) chain = false) by (apply existsb_eqb_notIn; apply Hdisj; exact Hu).
  assert (Hmax : Nat.ltb max (length chain) = false) by (apply Nat.ltb_ge; lia).
  rewrite Hloop, Hmax. unfold tabfetch at 1. rewrite Htab.
  destruct (Spec.C16.followable r) eqn:Hfol.
  - destruct k as [|k']; [discriminate|].
    destruct (Spec.C16.walk tab k' (r_meta r)) as [l' f'] eqn:Hw'.
    inversion Hwalk; subst l f'; clear Hwalk.
    unfold Spec.C16.followable in Hfol. apply andb_true_iff in Hfol as [Hred Hpre].
    rewrite Hred.
    destruct (r_meta r) as [|c t] eqn:Hmeta.
    { rewrite prefix_nil_false in Hpre. discriminate. }
    cbv zeta. rewrite Hpre. cbn [negb].
    apply NoDup_cons_iff in Hnd as [Hnotin Hnd'].
    rewrite (IH tab k' max (c :: t) (chain ++ [u]) l' final Hw' Hnd').
    + reflexivity.
    + intros x Hin Hc. apply in_app_or in Hc as [Hc|[Hc|[]]].
      * apply (Hdisj x); [right; exact Hin|exact Hc].
      * subst x. exact (Hnotin Hin).
    + rewrite app_length. cbn [length]. lia.
    + lia.
  - destruct (missing r) eqn:Hmis; [discriminate|].
    inversion Hwalk; subst l final; clear Hwalk.
    unfold Spec.C16.followable in Hfol. unfold missing in Hmis.
    destruct (is_redirect (r_status r)) eqn:Hred; [|reflexivity].
    cbn [andb] in *.
    destruct (r_meta r) as [|c t] eqn:Hmeta; [discriminate|].
    cbv zeta. rewrite Hfol. reflexivity.
Qed.

Lemma follows : forall tab max u l final,
  Spec.C16.walk tab max u = (l, Some final) -> NoDup l ->
  get (fun _ x => match tab x with Some r => Ok r | None => Err (lit "unscripted") [] end) true max u = (Final final, l).
Proof.
  intros tab max u l final Hwalk Hnd.
  change (get (tabfetch tab) true max u = (Final final, l)).
  unfold get. apply (follows_gen (S (S max)) tab max max u [] l final Hwalk Hnd).
  - intros x _ [].
  - cbn [length]. lia.
  - lia.
Qed.

(* ---------- the whole predicate ---------- *)

Lemma ok_model_disabled : forall tab max u,
  Spec.C16.ok tab false max u
    (get (fun _ x => match tab x with Some r => Ok r | None => Err (lit "unscripted") [] end) false max u) = true.
Proof.
  intros tab max u. unfold get. destruct (tab u) as [r|] eqn:Htab; unfold Spec.C16.ok; rewrite Htab.
  - rewrite eqb_refl, response_eqb_refl. reflexivity.
  - rewrite eqb_refl. reflexivity.
Qed.

Lemma ok_model : forall tab follow max u,
  Spec.C16.ok tab follow max u
    (get (fun _ x => match tab x with Some r => Ok r | None => Err (lit "unscripted") [] end) follow max u) = true.
Proof.
  intros tab follow max u. destruct follow; [|apply ok_model_disabled].
  set (ft := fun (_ : nat) x => match tab x with Some r => Ok r | None => Err (lit "unscripted") [] end).
  pose proof (bound ft max u) as Hb.
  pose proof (terminates ft max u) as Ht.
  pose proof (scheme ft max u) as Hs.
  pose proof (loop_free ft max u) as Hl.
  pose proof (no_redirect_as_content ft max u) as Hn.
  destruct (get ft true max u) as [o log] eqn:Hget. cbn [fst snd] in *.
  unfold Spec.C16.ok.
  repeat (apply andb_true_iff; split).
  - apply Nat.leb_le. exact Hb.
  - apply forallb_forall. rewrite Forall_forall in Hs. exact Hs.
  - apply nodupb_spec. exact Hl.
  - destruct o as [r|kind|].
    + apply negb_true_iff. apply Hn. reflexivity.
    + reflexivity.
    + exfalso. apply Ht. reflexivity.
  - destruct (Spec.C16.walk tab max u) as [l [final|]] eqn:Hw; [|reflexivity].
    destruct (Spec.C16.nodupb l) eqn:Hnd; [|reflexivity].
    apply nodupb_spec in Hnd.
    unfold ft in Hget. rewrite (follows tab max u l final Hw Hnd) in Hget.
    inversion Hget; subst o log.
    rewrite response_eqb_refl, list_eqb_refl. reflexivity.
Qed.
