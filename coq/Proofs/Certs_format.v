(* What a certificate fingerprint IS (Model/Certs.v `fingerprint`, tied to security/certificates.py by
   Equiv/EquivCerts.v): theorems for ALL certificates and ALL oracles `der`, `sha256`, `sha1`; the only hypotheses are
   that the SHA-256 digest has 32 elements and that digests are byte strings (elements < 256).

   (a) fingerprint_default_canonical / fingerprint_default_strict: the default fingerprint is "sha256:" + 64 characters of
       [0-9a-f], 71 characters in all; it satisfies Tofu.fp_strict (hence fp_valid): whatever the code computes can be
       stored in, imported into and compared by the TOFU store.
   (b) fingerprint_eq_iff_digest_eq (+ _sha1, + the eqb form the store's comparison uses): two fingerprints are equal
       iff the digests are equal - hex_lower is injective (hex_lower_inj, no hypothesis needed): no truncation, no
       case folding.
   (c) fingerprint_sha256_ne_sha1, fingerprint_alg_determined: fingerprints of different algorithms never compare
       equal (a sha1 fingerprint can never satisfy a sha256 pin or allow-list entry, and conversely).
   (d) peer_fingerprint_is_hash_of_presented_der, pyopenssl_fingerprint_is_hash_of_dumped_der: for the certificate the
       get_peer_certificate methods return, the default fingerprint is "sha256:" + hex of sha256 of the DER bytes the
       TLS object handed over - under the ONE hypothesis (a Section Hypothesis, the thing a sampled run has to pin)
       that `x509.load_der_x509_certificate(d).public_bytes(DER) == d`.
   Non-vacuity: Examples by vm_compute with a toy 32-byte "hash"; the hypotheses of (a) and (b) are shown necessary. *)
From Coq Require Import List NArith ZArith Bool Lia ZifyBool ZifyN.
From NV Require Import Prelude.Str Prelude.Res Proofs.StrLemmas Model.Certs Model.Tofu.
Import ListNotations.
Open Scope N_scope.

(* ------------------------------------------------------------------ hex digits *)
Lemma hexdig_hex d : d < 16 -> is_lower_hex (hexdig d) = true.
Proof. intro H. unfold hexdig, is_lower_hex, is_digit. destruct (d <? 10) eqn:E; lia. Qed.

Lemma hexdig_inj a b : hexdig a = hexdig b -> a = b.
Proof. unfold hexdig. destruct (a <? 10) eqn:Ea; destruct (b <? 10) eqn:Eb; lia. Qed.

Lemma lower_hex_not_upper c : is_lower_hex c = true -> is_upper c = false.
Proof. unfold is_lower_hex, is_digit, is_upper. lia. Qed.

Lemma byte_hi b : b < 256 -> b / 16 < 16.
Proof. intro H. apply N.div_lt_upper_bound; lia. Qed.
Lemma byte_lo b : b mod 16 < 16.
Proof. apply N.mod_lt. lia. Qed.

Lemma hex_byte_inj a b : hex_byte a = hex_byte b -> a = b.
Proof.
  intro H. unfold hex_byte in H. inversion H as [[H1 H2]].
  apply hexdig_inj in H1. apply hexdig_inj in H2.
  rewrite (N.div_mod a 16), (N.div_mod b 16) by lia. rewrite H1, H2. reflexivity.
Qed.

Lemma hex_lower_cons b l : hex_lower (b :: l) = hexdig (b / 16) :: hexdig (b mod 16) :: hex_lower l.
Proof. reflexivity. Qed.

Lemma hex_lower_length l : length (hex_lower l) = (2 * length l)%nat.
Proof. induction l as [|b l IH]; [reflexivity|]. rewrite hex_lower_cons. cbn [length]. rewrite IH. lia. Qed.

Lemma all_bytes_cons b l : all_bytes (b :: l) = true <-> b < 256 /\ all_bytes l = true.
Proof. unfold all_bytes. cbn [forallb]. rewrite andb_true_iff, N.ltb_lt. tauto. Qed.

Lemma hex_lower_alphabet l : all_bytes l = true -> forallb is_lower_hex (hex_lower l) = true.
Proof.
  induction l as [|b l IH]; intro H; [reflexivity|].
  apply all_bytes_cons in H as [Hb Hl]. rewrite hex_lower_cons. cbn [forallb].
  rewrite (hexdig_hex _ (byte_hi _ Hb)), (hexdig_hex _ (byte_lo b)), (IH Hl). reflexivity.
Qed.

(* hexdigest() loses nothing: equal hex strings come from equal digests (no hypothesis at all: the two digits of an
   element determine it even when it is not a byte) *)
Theorem hex_lower_inj : forall l l', hex_lower l = hex_lower l' -> l = l'.
Proof.
  induction l as [|b l IH]; intros [|b' l'] E; try reflexivity; try (rewrite hex_lower_cons in E; discriminate).
  rewrite !hex_lower_cons in E. inversion E as [[E1 E2 E3]].
  assert (b = b') by (apply hex_byte_inj; unfold hex_byte; congruence).
  subst b'. f_equal. apply IH; assumption.
Qed.

Lemma lower_fix s : forallb (fun c => negb (is_upper c)) s = true -> lower s = s.
Proof.
  induction s as [|c s IH]; intro H; [reflexivity|]. cbn [forallb] in H. apply andb_true_iff in H as [Hc Hs].
  cbn [lower map]. rewrite lower_ch_fix by (destruct (is_upper c); [discriminate|reflexivity]).
  f_equal. apply IH. exact Hs.
Qed.

Lemma lower_hex_fix s : forallb is_lower_hex s = true -> lower s = s.
Proof.
  intro H. apply lower_fix. rewrite forallb_forall in *. intros c Hc.
  rewrite (lower_hex_not_upper c (H c Hc)). reflexivity.
Qed.

(* ------------------------------------------------------------------ the canonical format *)
Lemma fp_canonical_inv fp : fp_canonical fp = true ->
  exists r, fp = lit "sha256:" ++ r /\ length r = 64%nat /\ forallb is_lower_hex r = true.
Proof.
  unfold fp_canonical. intro H. apply andb_true_iff in H as [H H3]. apply andb_true_iff in H as [H1 H2].
  apply prefixb_spec in H1 as [r ->]. change 7%nat with (length (lit "sha256:")) in *.
  rewrite drop_app_length in *. exists r. split; [reflexivity|]. split; [apply Nat.eqb_eq; exact H2|exact H3].
Qed.

Lemma fp_canonical_intro r : length r = 64%nat -> forallb is_lower_hex r = true -> fp_canonical (lit "sha256:" ++ r) = true.
Proof.
  intros H1 H2. unfold fp_canonical. rewrite prefixb_app. change 7%nat with (length (lit "sha256:")).
  rewrite drop_app_length, H1, H2. reflexivity.
Qed.

Lemma fp_canonical_lower fp : fp_canonical fp = true -> lower fp = fp.
Proof.
  intro H. apply fp_canonical_inv in H as [r [-> [_ H]]]. unfold lower. rewrite map_app.
  change (map lower_ch (lit "sha256:")) with (lit "sha256:"). f_equal. apply lower_hex_fix. exact H.
Qed.

(* the canonical format is the store's format (TOFUDatabase._validate_fingerprint) without its case folding *)
Theorem fp_canonical_strict : forall fp, fp_canonical fp = true -> fp_strict fp = true.
Proof. intros fp H. unfold fp_strict. rewrite (fp_canonical_lower fp H). exact H. Qed.

Theorem fp_canonical_valid : forall fp, fp_canonical fp = true -> fp_valid fp = true.
Proof. intros fp H. unfold fp_valid. rewrite (fp_canonical_strict fp H). reflexivity. Qed.

Theorem fp_canonical_length : forall fp, fp_canonical fp = true -> length fp = 71%nat.
Proof. intros fp H. apply fp_canonical_inv in H as [r [-> [H _]]]. rewrite app_length, H. reflexivity. Qed.

(* ------------------------------------------------------------------ the fingerprint *)
Section Format.
Variable cert : Type.
Variable der : cert -> list N.
Variables sha256 sha1 : list N -> list N.
Notation fp := (fingerprint der sha256 sha1).
Notation fpd := (fingerprint_default der sha256 sha1).

Lemma fingerprint_sha256 c : fp c (lit "sha256") = Ok (lit "sha256:" ++ hex_lower (sha256 (der c))).
Proof. reflexivity. Qed.
Lemma fingerprint_sha1 c : fp c (lit "sha1") = Ok (lit "sha1:" ++ hex_lower (sha1 (der c))).
Proof. reflexivity. Qed.
Lemma fingerprint_default_eq c : fpd c = Ok (lit "sha256:" ++ hex_lower (sha256 (der c))).
Proof. reflexivity. Qed.

(* which algorithms are accepted, and what the refusal says *)
Theorem fingerprint_ok_iff : forall c alg, (exists s, fp c alg = Ok s) <-> alg = lit "sha256" \/ alg = lit "sha1".
Proof.
  intros c alg. unfold fingerprint. split.
  - intros [s H]. destruct (eqb alg (lit "sha256")) eqn:E1; [left; apply eqb_spec; exact E1|].
    destruct (eqb alg (lit "sha1")) eqn:E2; [right; apply eqb_spec; exact E2|discriminate].
  - intros [-> | ->]; eexists; reflexivity.
Qed.
Theorem fingerprint_unsupported : forall c alg, alg <> lit "sha256" -> alg <> lit "sha1" ->
  fp c alg = Err (lit "ValueError") (lit "Unsupported algorithm: " ++ alg).
Proof.
  intros c alg H1 H2. unfold fingerprint. apply eqb_neq in H1, H2. rewrite H1, H2. reflexivity.
Qed.

(* (a) *)
Theorem fingerprint_default_canonical : forall c,
  length (sha256 (der c)) = 32%nat -> all_bytes (sha256 (der c)) = true ->
  exists s, fpd c = Ok s /\ fp_canonical s = true.
Proof.
  intros c Hl Hb. eexists. split; [apply fingerprint_default_eq|].
  apply fp_canonical_intro; [rewrite hex_lower_length, Hl; reflexivity|apply hex_lower_alphabet; exact Hb].
Qed.

Theorem fingerprint_default_strict : forall c,
  length (sha256 (der c)) = 32%nat -> all_bytes (sha256 (der c)) = true ->
  exists s, fpd c = Ok s /\ fp_strict s = true /\ fp_valid s = true /\ length s = 71%nat /\ lower s = s.
Proof.
  intros c Hl Hb. destruct (fingerprint_default_canonical c Hl Hb) as [s [E H]]. exists s.
  repeat split; [exact E|apply fp_canonical_strict|apply fp_canonical_valid|apply fp_canonical_length|apply fp_canonical_lower]; exact H.
Qed.

(* (b) *)
Theorem fingerprint_eq_iff_digest_eq : forall c c',
  fpd c = fpd c' <-> sha256 (der c) = sha256 (der c').
Proof.
  intros c c'. rewrite !fingerprint_default_eq. split.
  - intro E. inversion E as [E']. apply hex_lower_inj; assumption.
  - intros ->. reflexivity.
Qed.

Theorem fingerprint_eq_iff_digest_eq_sha1 : forall c c',
  fp c (lit "sha1") = fp c' (lit "sha1") <-> sha1 (der c) = sha1 (der c').
Proof.
  intros c c'. rewrite !fingerprint_sha1. split.
  - intro E. inversion E as [E']. apply hex_lower_inj; assumption.
  - intros ->. reflexivity.
Qed.

(* the comparison the store (Tofu.verify: `eqb (r_fp r) fp`) and the allow-list (`existsb (eqb fp)`) perform *)
Theorem fingerprint_eqb_iff_digest_eq : forall c c' s s',
  fpd c = Ok s -> fpd c' = Ok s' ->
  (eqb s s' = true <-> sha256 (der c) = sha256 (der c')).
Proof.
  intros c c' s s' E E'. rewrite eqb_spec, <- (fingerprint_eq_iff_digest_eq c c'), E, E'.
  split; [intros ->; reflexivity|intro X; inversion X; reflexivity].
Qed.

(* (c) *)
Theorem fingerprint_sha256_ne_sha1 : forall c c', fp c (lit "sha256") <> fp c' (lit "sha1").
Proof. intros c c'. rewrite fingerprint_sha256, fingerprint_sha1. intro H. inversion H. Qed.

Theorem fingerprint_alg_determined : forall c c' a b s, fp c a = Ok s -> fp c' b = Ok s -> a = b.
Proof.
  intros c c' a b s Ha Hb.
  assert (Xa : exists s, fp c a = Ok s) by (eexists; exact Ha).
  assert (Xb : exists s, fp c' b = Ok s) by (eexists; exact Hb).
  apply fingerprint_ok_iff in Xa, Xb.
  destruct Xa as [-> | ->]; destruct Xb as [-> | ->]; try reflexivity; exfalso.
  - apply (fingerprint_sha256_ne_sha1 c c'). congruence.
  - apply (fingerprint_sha256_ne_sha1 c' c). congruence.
Qed.

(* a sha1 fingerprint is never in the store's format: it cannot be imported as a pin *)
Theorem fingerprint_sha1_not_strict : forall c s, fp c (lit "sha1") = Ok s -> fp_strict s = false.
Proof.
  intros c s H. rewrite fingerprint_sha1 in H. inversion H; subst s. reflexivity.
Qed.
End Format.

(* ------------------------------------------------------------------ (d) the certificate that is fingerprinted *)
Section Sites.
Variables cert transport sslobj ocert : Type.
Variable der : cert -> list N.
Variables sha256 sha1 : list N -> list N.
Variable ssl_object : transport -> option sslobj.
Variable getpeercert_der : sslobj -> res (option (list N)).
Variable load_der : list N -> res cert.
Variable dump_asn1 : ocert -> res (list N).
(* x509.load_der_x509_certificate(d).public_bytes(Encoding.DER) == d : parsing and re-encoding a certificate the TLS
   stack handed over gives the same bytes back.  NOT proved (the X.509 parser is outside the model); a harness check
   has to pin it on sampled certificates. *)
Hypothesis load_der_faithful : forall d c, load_der d = Ok c -> der c = d.

Theorem peer_fingerprint_is_hash_of_presented_der : forall tr c,
  peer_certificate ssl_object getpeercert_der load_der tr = Ok (Some c) ->
  exists t s d, tr = Some t /\ ssl_object t = Some s /\ getpeercert_der s = Ok (Some d) /\ d <> [] /\
                fingerprint_default der sha256 sha1 c = Ok (lit "sha256:" ++ hex_lower (sha256 d)).
Proof.
  intros tr c H. unfold peer_certificate in H.
  destruct tr as [t|]; [|discriminate]. destruct (ssl_object t) as [s|] eqn:Es; [|discriminate].
  destruct (getpeercert_der s) as [[[|b d]|]|k m|] eqn:Eg; try discriminate.
  destruct (load_der (b :: d)) as [c0|k m|] eqn:El; try discriminate. inversion H; subst c0.
  exists t, s, (b :: d). repeat split; try assumption; [discriminate|].
  rewrite fingerprint_default_eq, (load_der_faithful _ _ El). reflexivity.
Qed.

(* no certificate object without DER bytes from the TLS object: the methods never invent one *)
Theorem peer_none_cases : forall tr,
  peer_certificate ssl_object getpeercert_der load_der tr = Ok None \/
  peer_certificate ssl_object getpeercert_der load_der tr = OutOfModel \/
  exists c, peer_certificate ssl_object getpeercert_der load_der tr = Ok (Some c).
Proof.
  intro tr. unfold peer_certificate. destruct tr as [t|]; [|left; reflexivity].
  destruct (ssl_object t) as [s|]; [|left; reflexivity].
  destruct (getpeercert_der s) as [[[|b d]|]|k m|]; try (left; reflexivity); try (right; left; reflexivity).
  destruct (load_der (b :: d)) as [c|k m|]; [right; right; exists c; reflexivity|left; reflexivity|right; left; reflexivity].
Qed.

(* the PyOpenSSL pump: conn.get_peer_certificate() -> x509_to_cryptography -> _SSLObjectWrapper.getpeercert(True)
   -> get_peer_certificate -> get_certificate_fingerprint : still the hash of the bytes OpenSSL dumped *)
Theorem pyopenssl_fingerprint_is_hash_of_dumped_der : forall o c1 tr t s c2,
  x509_to_cryptography dump_asn1 load_der o = Ok c1 ->
  tr = Some t -> ssl_object t = Some s ->
  getpeercert_der s = Ok (wrapper_getpeercert_der der (Some c1)) ->
  peer_certificate ssl_object getpeercert_der load_der tr = Ok (Some c2) ->
  exists d0, dump_asn1 o = Ok d0 /\ fingerprint_default der sha256 sha1 c2 = Ok (lit "sha256:" ++ hex_lower (sha256 d0)).
Proof.
  intros o c1 tr t s c2 Hx -> Es Eg Hp. unfold x509_to_cryptography in Hx.
  destruct (dump_asn1 o) as [d0|k m|] eqn:Ed; try discriminate. exists d0. split; [reflexivity|].
  pose proof (load_der_faithful _ _ Hx) as F1.
  destruct (peer_fingerprint_is_hash_of_presented_der _ _ Hp) as [t' [s' [d [Et [Es' [Eg' [_ Ef]]]]]]].
  inversion Et; subst t'. rewrite Es in Es'. inversion Es'; subst s'. rewrite Eg in Eg'. cbn in Eg'.
  inversion Eg' as [Ed']. rewrite Ef, <- Ed', F1. reflexivity.
Qed.
End Sites.

(* ------------------------------------------------------------------ non-vacuity *)
(* a toy "hash": 32 (resp. 20) bytes that depend on the sum of the input *)
Definition toy256 (x : list N) : list N := map (fun i => (N.of_nat i * 7 + fold_left N.add x 0) mod 256) (seq 0 32).
Definition toy1 (x : list N) : list N := map (fun i => (N.of_nat i * 11 + fold_left N.add x 0) mod 256) (seq 0 20).
Definition toy_der (c : list N) : list N := c.

Example ex_toy_fingerprint :
  fingerprint_default toy_der toy256 toy1 [1; 2; 3]
  = Ok (lit "sha256:060d141b222930373e454c535a61686f767d848b9299a0a7aeb5bcc3cad1d8df").
Proof. vm_compute. reflexivity. Qed.
Example ex_toy_fingerprint_sha1 :
  fingerprint toy_der toy256 toy1 [1; 2; 3] (lit "sha1") = Ok (lit "sha1:06111c27323d48535e69747f8a95a0abb6c1ccd7").
Proof. vm_compute. reflexivity. Qed.
Example ex_toy_unsupported :
  fingerprint toy_der toy256 toy1 [1; 2; 3] (lit "SHA256") = Err (lit "ValueError") (lit "Unsupported algorithm: SHA256").
Proof. vm_compute. reflexivity. Qed.
Example ex_toy_strict :
  match fingerprint_default toy_der toy256 toy1 [255; 255; 200] with Ok s => fp_strict s && fp_canonical s | _ => false end = true.
Proof. vm_compute. reflexivity. Qed.
Example ex_toy_hypotheses : length (toy256 [1; 2; 3]) = 32%nat /\ all_bytes (toy256 [1; 2; 3]) = true.
Proof. split; vm_compute; reflexivity. Qed.
Example ex_toy_differ :
  fingerprint_default toy_der toy256 toy1 [1; 2; 3] <> fingerprint_default toy_der toy256 toy1 [1; 2; 4].
Proof. vm_compute. discriminate. Qed.
Example ex_hex_lower : hex_lower [0; 9; 10; 15; 16; 171; 255] = lit "00090a0f10abff".
Proof. vm_compute. reflexivity. Qed.
(* the hypotheses of (a) are needed: a "digest" element that is not a byte leaves the alphabet; a digest of another
   length is not in the store's format; an upper-case fingerprint is accepted by the store's format but is a
   different string *)
Example ex_nonbyte_leaves_alphabet : hex_lower [256] = lit "g0".
Proof. vm_compute. reflexivity. Qed.
Example ex_truncated_not_strict :
  fp_strict (lit "sha256:" ++ hex_lower (firstn 16 (toy256 [1; 2; 3]))) = false.
Proof. vm_compute. reflexivity. Qed.
Example ex_upper_strict_but_different :
  let u := lit "sha256:060D141B222930373E454C535A61686F767D848B9299A0A7AEB5BCC3CAD1D8DF" in
  fp_strict u = true /\ fp_canonical u = false /\
  eqb u (lit "sha256:060d141b222930373e454c535a61686f767d848b9299a0a7aeb5bcc3cad1d8df") = false.
Proof. repeat split; vm_compute; reflexivity. Qed.

Print Assumptions hex_lower_inj.
Print Assumptions fp_canonical_strict.
Print Assumptions fp_canonical_valid.
Print Assumptions fp_canonical_length.
Print Assumptions fingerprint_ok_iff.
Print Assumptions fingerprint_unsupported.
Print Assumptions fingerprint_default_canonical.
Print Assumptions fingerprint_default_strict.
Print Assumptions fingerprint_eq_iff_digest_eq.
Print Assumptions fingerprint_eq_iff_digest_eq_sha1.
Print Assumptions fingerprint_eqb_iff_digest_eq.
Print Assumptions fingerprint_sha256_ne_sha1.
Print Assumptions fingerprint_alg_determined.
Print Assumptions fingerprint_sha1_not_strict.
Print Assumptions peer_fingerprint_is_hash_of_presented_der.
Print Assumptions peer_none_cases.
Print Assumptions pyopenssl_fingerprint_is_hash_of_dumped_der.
Close Scope N_scope.
