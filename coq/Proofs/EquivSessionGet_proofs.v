(* Proof of the statement of Equiv/EquivSessionGet.v: GeminiClient.get (Gen/SessionGen.v, translate/py2coq_session.py) composed with
   GeminiClient._get_with_redirects (Gen/PyGen.v, translate/py2coq.py) against Model/Redirect.v. *)
From Coq Require Import List NArith ZArith Bool.
From NV Require Import Prelude.Str Prelude.Res Model.Redirect Equiv.SessionGlue Gen.SessionGen Gen.PyGen.
From NV Require Model.Url Proofs.Equiv_proofs Proofs.EquivSession_proofs.
Import ListNotations.
Open Scope list_scope.

Lemma get_redirect_tie : forall vu pu fetch to mr c v t d url pr follow,
  (forall i u m, fetch i u <> Err (lit "OutOfFuel") m) ->
  vu url = Ok tt -> pu url = Ok pr -> vu (Url.p_norm pr) = Ok tt ->
  Equiv_proofs.outcome_of
    (gen_get vu pu (fun u m ch => gen_get_with_redirects fetch (S (S m)) u m (match ch with Some l => l | None => [] end)) (fetch 0)
       (gen_init to mr c v t d) url follow)
  = fst (Redirect.get fetch follow mr url).
Proof.
  intros vu pu fetch to mr c v t d url pr follow H H1 H2 H3.
  rewrite EquivSession_proofs.get_tie, H1, H2, H3. unfold Redirect.get.
  destruct follow.
  - apply Equiv_proofs.get_with_redirects_tie. exact H.
  - destruct (fetch 0 url) as [r|k m|] eqn:F; cbn [Equiv_proofs.outcome_of fst]; try reflexivity.
    destruct (eqb k (lit "OutOfFuel")) eqn:E; [|reflexivity].
    apply eqb_spec in E. subst k. exfalso. exact (H _ _ _ F).
Qed.
