(* C17 - the reverse proxy only talks to its upstream and maps URLs faithfully: proofs. *)
From Coq Require Import List NArith Bool Lia ZifyBool ZifyN ZifyNat.
From NV Require Import Prelude.Str Prelude.Res Model.Url Model.Proxy Spec.UrlOracle.
From NV Require Spec.C17.
From NV Require Import Proofs.StrLemmas Proofs.UrlLemmas Proofs.C19_roundtrip.
Import ListNotations.
Open Scope N_scope.

(* ---------- string helpers ---------- *)
Lemma lstrip_by_app p a b : lstrip_by p a <> [] -> lstrip_by p (a ++ b) = lstrip_by p a ++ b.
Proof.
  induction a as [|x a IH]; simpl; intro H; [congruence|].
  destruct (p x); [auto|reflexivity].
Qed.

Lemma remove_chars_app p a b : remove_chars p (a ++ b) = remove_chars p a ++ remove_chars p b.
Proof. unfold remove_chars. apply filter_app. Qed.

Lemma clean_url_app u x :
  clean_url u <> [] -> clean_url (u ++ x) = clean_url u ++ remove_chars is_unsafe x.
Proof.
  unfold clean_url. intro H.
  rewrite lstrip_by_app; [apply remove_chars_app|].
  intro E. rewrite E in H. apply H. reflexivity.
Qed.

Lemma In_clean_url x u : In x (clean_url u) -> In x u.
Proof.
  unfold clean_url. intro H. apply In_remove_chars in H as [H _].
  apply In_lstrip_by in H. assumption.
Qed.

Lemma starts_with_slash_inv X : starts_with_slash X = true -> exists t, X = ch_slash :: t.
Proof.
  destruct X as [|y t]; simpl; [discriminate|]. intro H. apply N.eqb_eq in H. subst. eauto.
Qed.

Lemma remove_unsafe_slash t :
  remove_chars is_unsafe (ch_slash :: t) = ch_slash :: remove_chars is_unsafe t.
Proof. reflexivity. Qed.

Lemma span_until_app_head p t a b y X : p y = true -> span_until p t = (a, b) ->
  span_until p (t ++ y :: X) = (a, b ++ y :: X).
Proof.
  intro Hy. revert a b. induction t as [|x t IH]; simpl; intros a b H.
  - inversion H; subst. rewrite Hy. reflexivity.
  - destruct (p x).
    + inversion H; subst. reflexivity.
    + destruct (span_until p t) as [a' b']. inversion H; subst.
      rewrite (IH a' b eq_refl). reflexivity.
Qed.

Lemma cut_notin c s : ~ In c s -> cut c s = (s, []).
Proof. intro H. unfold cut. rewrite break_at_notin by assumption. reflexivity. Qed.

Lemma cut_found c a b : ~ In c a -> cut c (a ++ c :: b) = (a, b).
Proof. intro H. unfold cut. rewrite break_at_app by assumption. reflexivity. Qed.

(* ---------- split_scheme under a suffix ---------- *)
Lemma split_scheme_app c X s r :
  split_scheme c = (s, r) -> s <> [] -> split_scheme (c ++ X) = (s, r ++ X).
Proof.
  unfold split_scheme.
  destruct (break_at ch_colon c) as [[[|c0 a] b]|] eqn:E;
    try (intros H Hs; inversion H; subst; congruence).
  destruct (is_alpha c0 && forallb is_scheme_char (c0 :: a)) eqn:Ec;
    intros H Hs; inversion H; subst; [|congruence].
  apply break_at_Some in E as [-> Hn].
  match goal with |- context [break_at ch_colon (((c0 :: a) ++ ch_colon :: ?b) ++ X)] =>
    replace (((c0 :: a) ++ ch_colon :: b) ++ X) with ((c0 :: a) ++ ch_colon :: (b ++ X))
      by (rewrite <- app_assoc; reflexivity);
    rewrite (break_at_app ch_colon (c0 :: a) (b ++ X) Hn)
  end.
  rewrite Ec. reflexivity.
Qed.

Lemma split_scheme_nil_inv c r : split_scheme c = ([], r) -> r = c.
Proof.
  unfold split_scheme.
  destruct (break_at ch_colon c) as [[[|c0 a] b]|];
    try (intro H; inversion H; subst; reflexivity).
  destruct (is_alpha c0 && forallb is_scheme_char (c0 :: a)); intro H; inversion H; reflexivity.
Qed.

Lemma split_scheme_slash t : split_scheme (ch_slash :: t) = ([], ch_slash :: t).
Proof.
  unfold split_scheme. cbn [break_at].
  change (ch_slash =? ch_colon) with false. cbv iota.
  destruct (break_at ch_colon t) as [[a b]|]; reflexivity.
Qed.

(* ---------- the scheme / netloc / remainder decomposition of urlsplit ---------- *)
Definition split_parts (u : str) : str * str * str :=
  let (scheme, u1) := split_scheme u in
  let '(netloc, u2) :=
    if prefixb [47; 47] u1 then span_until is_netloc_delim (drop 2 u1) else ([], u1) in
  (scheme, netloc, u2).

Lemma urlsplit_parts ip6 u sp s n u2 :
  urlsplit ip6 u = Ok sp -> split_parts (clean_url u) = (s, n, u2) ->
  u_scheme sp = s /\ u_netloc sp = n /\
  u_path sp = fst (cut ch_qm (fst (cut ch_hash u2))) /\
  u_query sp = snd (cut ch_qm (fst (cut ch_hash u2))) /\
  u_fragment sp = snd (cut ch_hash u2).
Proof.
  rewrite urlsplit_unfold. unfold split_parts. cbv zeta.
  destruct (split_scheme (clean_url u)) as [scheme u1].
  destruct (if prefixb [47; 47] u1 then span_until is_netloc_delim (drop 2 u1) else ([], u1))
    as [netloc u2'].
  intros H E. inversion E; subst.
  destruct (negb (all_ascii n)); [discriminate|].
  destruct (check_brackets ip6 n); [discriminate|].
  destruct (cut ch_hash u2) as [u3 frag]. cbn [fst snd].
  destruct (cut ch_qm u3) as [pa q]. cbn [fst snd].
  inversion H; subst. cbn. auto.
Qed.

Lemma split_parts_In c s n u2 : split_parts c = (s, n, u2) -> forall x, In x u2 -> In x c.
Proof.
  unfold split_parts. destruct (split_scheme c) as [s0 u1] eqn:Es.
  destruct (prefixb [47; 47] u1) eqn:Ep.
  - destruct (span_until is_netloc_delim (drop 2 u1)) as [n0 u20] eqn:Esp.
    intro H; inversion H; subst. intros x Hx.
    apply (split_scheme_In _ _ _ Es). apply In_drop with (n := 2%nat).
    apply span_until_spec in Esp as (-> & _). apply in_or_app. auto.
  - intro H; inversion H; subst. apply (split_scheme_In _ _ _ Es).
Qed.

Lemma split_parts_app c s n u2 X : split_parts c = (s, n, u2) -> n <> [] ->
  (s <> [] -> split_parts (c ++ ch_slash :: X) = (s, n, u2 ++ ch_slash :: X)) /\
  (s = [] -> fst (fst (split_parts (c ++ ch_slash :: X))) = []).
Proof.
  unfold split_parts. destruct (split_scheme c) as [s0 u1] eqn:Es.
  destruct (prefixb [47; 47] u1) eqn:Ep.
  - destruct (span_until is_netloc_delim (drop 2 u1)) as [n0 u20] eqn:Esp.
    intros H Hn. inversion H; subst.
    apply prefixb_spec in Ep as [t ->]. split.
    + intro Hs. rewrite (split_scheme_app _ _ _ _ Es Hs).
      change (([47; 47] ++ t) ++ ch_slash :: X) with (47 :: 47 :: (t ++ ch_slash :: X)).
      change (prefixb [47; 47] (47 :: 47 :: (t ++ ch_slash :: X))) with true. cbv iota.
      change (drop 2 (47 :: 47 :: (t ++ ch_slash :: X))) with (t ++ ch_slash :: X).
      change (drop 2 ([47; 47] ++ t)) with t in Esp.
      rewrite (span_until_app_head _ _ _ _ _ X (eq_refl : is_netloc_delim ch_slash = true) Esp).
      reflexivity.
    + intro Hs. subst s. apply split_scheme_nil_inv in Es. subst c.
      change (([47; 47] ++ t) ++ ch_slash :: X) with (ch_slash :: 47 :: (t ++ ch_slash :: X)).
      rewrite split_scheme_slash. cbn [fst].
      destruct (if prefixb _ _ then _ else _) as [a b].
      reflexivity.
  - intros H Hn. inversion H; subst. congruence.
Qed.

Lemma split_parts_nil_netloc s n u2 : split_parts [] = (s, n, u2) -> n = [].
Proof. intro H. cbv in H. inversion H. reflexivity. Qed.

(* ---------- mapped ---------- *)
Theorem mapped_spec : forall prefix strip path,
  starts_with_slash path = true ->
  mapped prefix strip path = Spec.C17.expected_suffix prefix strip path /\
  starts_with_slash (mapped prefix strip path) = true.
Proof.
  intros prefix strip path Hp.
  unfold mapped, Spec.C17.expected_suffix, Spec.C17.on_boundary.
  destruct strip; cbn [andb]; [|auto].
  destruct (prefixb prefix path); cbn [andb]; [|auto].
  destruct (ends_with_slash prefix); cbn [orb].
  - destruct (drop (length prefix) path) as [|x r]; cbn [starts_with_slash]; [auto|].
    destruct (x =? ch_slash) eqn:E; cbn [starts_with_slash]; rewrite ?E; auto.
  - destruct (drop (length prefix) path) as [|x r]; cbn [starts_with_slash orb]; [auto|].
    destruct (x =? ch_slash) eqn:E; cbn [starts_with_slash]; rewrite ?E; auto.
Qed.

Lemma mapped_cases prefix strip path : starts_with_slash path = true ->
  exists t, mapped prefix strip path = ch_slash :: t /\ forall x, In x t -> In x path.
Proof.
  intro Hp. unfold mapped.
  assert (Hpath : exists t, path = ch_slash :: t /\ forall x, In x t -> In x path).
  { apply starts_with_slash_inv in Hp as [t ->]. exists t. split; [reflexivity|]. intros; right; assumption. }
  destruct (strip && prefixb prefix path); [|assumption].
  pose proof (fun x => In_drop (length prefix) x path) as Hd.
  destruct (ends_with_slash prefix || match drop (length prefix) path with [] => true | _ => false end
            || starts_with_slash (drop (length prefix) path)); [|assumption].
  destruct (starts_with_slash (drop (length prefix) path)) eqn:E.
  - apply starts_with_slash_inv in E as [t E]. exists t. split; [assumption|].
    intros x Hx. apply Hd. rewrite E. right. assumption.
  - exists (drop (length prefix) path). split; [reflexivity|]. assumption.
Qed.

(* ---------- confinement ---------- *)
Theorem confined : forall ip6 U X pu p,
  parse_url ip6 U = Ok pu -> starts_with_slash X = true -> parse_url ip6 (U ++ X) = Ok p ->
  p_host p = p_host pu /\ p_port p = p_port pu.
Proof.
  intros ip6 U X pu p HU HX HP.
  apply parse_url_inv in HU as (sp & h & un & pw & po & Es & Esch & Eh & Eu & Et & Ef & Ep & ->).
  apply parse_url_inv in HP as (sp' & h' & un' & pw' & po' & Es' & Esch' & Eh' & Eu' & Et' & Ef' & Ep' & ->).
  destruct (hostname_Some_inv _ _ Eh) as (_ & Hnl & _).
  apply starts_with_slash_inv in HX as [t ->].
  destruct (split_parts (clean_url U)) as [[s n] u2] eqn:Esp.
  destruct (urlsplit_parts _ _ _ _ _ _ Es Esp) as (A1 & A2 & _).
  assert (Hc : clean_url U <> []).
  { intro E. rewrite E in Esp. apply split_parts_nil_netloc in Esp. congruence. }
  assert (Esp' : split_parts (clean_url (U ++ ch_slash :: t)) =
                 (s, n, u2 ++ ch_slash :: remove_chars is_unsafe t)).
  { rewrite clean_url_app by assumption. rewrite remove_unsafe_slash.
    apply split_parts_app; [assumption|congruence|]. rewrite <- A1, Esch. discriminate. }
  destruct (urlsplit_parts _ _ _ _ _ _ Es' Esp') as (B1 & B2 & _).
  assert (E : u_netloc sp' = u_netloc sp) by congruence.
  rewrite E in *. rewrite Eh in Eh'. rewrite Ep in Ep'. inversion Eh'; inversion Ep'; subst.
  split; reflexivity.
Qed.

Theorem upstream_confined : forall ip6 c path query pu p,
  parse_url ip6 (rstrip_slash (px_upstream c)) = Ok pu -> starts_with_slash path = true ->
  parse_url ip6 (upstream_url c path query) = Ok p ->
  p_host p = p_host pu /\ p_port p = p_port pu.
Proof.
  intros ip6 c path query pu p HU Hp HP. unfold upstream_url in HP.
  apply (confined ip6 _ _ pu p HU) in HP; [assumption|].
  destruct (mapped_cases (px_prefix c) (px_strip c) path Hp) as (t & -> & _). reflexivity.
Qed.

(* ---------- mapping ---------- *)
Theorem mapping : forall ip6 c path query su p,
  urlsplit ip6 (rstrip_slash (px_upstream c)) = Ok su -> u_netloc su <> [] ->
  ~ In ch_qm (rstrip_slash (px_upstream c)) -> ~ In ch_hash (rstrip_slash (px_upstream c)) ->
  starts_with_slash path = true -> ~ In ch_qm path -> ~ In ch_hash path -> ~ In ch_hash query ->
  (forall x, In x (path ++ query) -> is_unsafe x = false) ->
  parse_url ip6 (upstream_url c path query) = Ok p ->
  p_path p = u_path su ++ mapped (px_prefix c) (px_strip c) path /\ p_query p = query.
Proof.
  intros ip6 c path query su p Hsu Hnl Hq Hh Hsl Hpq Hph Hqh Hsafe HP.
  unfold upstream_url in HP. remember (rstrip_slash (px_upstream c)) as B eqn:EB. clear EB.
  destruct (mapped_cases (px_prefix c) (px_strip c) path Hsl) as (t & Em & Ht).
  rewrite Em in *. clear Em.
  remember (match query with [] => [] | _ :: _ => ch_qm :: query end) as qpart eqn:Eq.
  apply parse_url_inv in HP as (sp' & h' & un' & pw' & po' & Es' & Esch' & _ & _ & _ & Ef' & _ & ->).
  apply safe_app in Hsafe as [Hs1 Hs2].
  assert (Hst : safe t) by (intros x Hx; apply Hs1, Ht, Hx).
  assert (Hsq : safe qpart).
  { subst qpart. destruct query; [intros ? []|]. apply safe_cons. split; [reflexivity|assumption]. }
  assert (Htq : ~ In ch_qm t) by (intro Hx; apply Hpq, Ht, Hx).
  assert (Hth : ~ In ch_hash t) by (intro Hx; apply Hph, Ht, Hx).
  assert (Hqph : ~ In ch_hash qpart).
  { subst qpart. destruct query; [intros []|]. apply notin_cons; [discriminate|assumption]. }
  destruct (split_parts (clean_url B)) as [[s n] u2] eqn:Esp.
  destruct (urlsplit_parts _ _ _ _ _ _ Hsu Esp) as (A1 & A2 & A3 & A4 & A5).
  assert (Hc : clean_url B <> []).
  { intro E. rewrite E in Esp. apply split_parts_nil_netloc in Esp. congruence. }
  assert (Hu2 : forall x, In x u2 -> In x B).
  { intros x Hx. apply In_clean_url. apply (split_parts_In _ _ _ _ Esp). assumption. }
  assert (Hu2q : ~ In ch_qm u2) by (intro Hx; apply Hq, Hu2, Hx).
  assert (Hu2h : ~ In ch_hash u2) by (intro Hx; apply Hh, Hu2, Hx).
  assert (Ecl : clean_url (B ++ (ch_slash :: t) ++ qpart) = clean_url B ++ ch_slash :: (t ++ qpart)).
  { rewrite clean_url_app by assumption. cbn [app]. rewrite remove_unsafe_slash.
    rewrite remove_chars_id; [reflexivity|]. apply safe_app. split; assumption. }
  destruct (split_parts_app (clean_url B) s n u2 (t ++ qpart) Esp) as [P1 P2]; [congruence|].
  destruct (split_parts (clean_url (B ++ (ch_slash :: t) ++ qpart))) as [[s' n'] u2'] eqn:Esp'.
  destruct (urlsplit_parts _ _ _ _ _ _ Es' Esp') as (B1 & B2 & B3 & B4 & B5).
  rewrite Ecl in Esp'.
  destruct s as [|s0 sr].
  { exfalso. rewrite Esp' in P2. cbn [fst] in P2. rewrite (P2 eq_refl) in B1.
    rewrite B1 in Esch'. discriminate. }
  rewrite P1 in Esp' by discriminate. inversion Esp'; subst s' n' u2'. clear Esp' P1 P2.
  (* the upstream's own path is everything after the netloc *)
  rewrite (cut_notin _ _ Hu2h) in A3. cbn [fst] in A3. rewrite (cut_notin _ _ Hu2q) in A3.
  cbn [fst] in A3.
  (* the request's path and query *)
  assert (Hnh : ~ In ch_hash (u2 ++ ch_slash :: t ++ qpart)).
  { apply notin_app; [assumption|]. apply notin_cons; [discriminate|].
    apply notin_app; assumption. }
  rewrite (cut_notin _ _ Hnh) in B3, B4. cbn [fst] in B3, B4.
  assert (Ecut : cut ch_qm (u2 ++ ch_slash :: t ++ qpart) = (u2 ++ ch_slash :: t, query)).
  { subst qpart. destruct query as [|q0 Q].
    - rewrite app_nil_r. apply cut_notin. apply notin_app; [assumption|].
      apply notin_cons; [discriminate|assumption].
    - change (u2 ++ ch_slash :: t ++ ch_qm :: q0 :: Q) with (u2 ++ (ch_slash :: t) ++ ch_qm :: q0 :: Q).
      rewrite app_assoc. apply cut_found. apply notin_app; [assumption|].
      apply notin_cons; [discriminate|assumption]. }
  rewrite Ecut in B3, B4. cbn [fst snd] in B3, B4.
  unfold parse_build. cbn [p_path p_query]. rewrite B3, B4, A3. split; [|reflexivity].
  destruct (u2 ++ ch_slash :: t) eqn:E; [|reflexivity].
  apply app_eq_nil in E as [_ E]. discriminate.
Qed.

(* ---------- the request line ---------- *)
Theorem request_line : forall ip6 c path query p, oracle_ok ip6 ->
  parse_url ip6 (upstream_url c path query) = Ok p -> parse_url ip6 (p_norm p) = Ok p.
Proof.
  intros ip6 c path query p Ho H.
  exact (parse_url_norm_fixpoint ip6 (upstream_url c path query) p Ho H).
Qed.

(* ---------- routing ---------- *)
Theorem route_first_match : forall (H : Type) (rs : list (route H)) path h,
  route_to rs path = Some h <->
  exists l1 r l2, rs = l1 ++ r :: l2 /\ matches path r = true /\ h = rt_handler r /\
                  forall x, In x l1 -> matches path x = false.
Proof.
  intros H rs path h. split.
  - induction rs as [|r rs IH]; cbn [route_to]; [discriminate|].
    destruct (matches path r) eqn:E.
    + intro Hh. inversion Hh. exists [], r, rs. repeat split; auto. intros x [].
    + intro Hh. destruct (IH Hh) as (l1 & r' & l2 & -> & Hm & -> & Hl).
      exists (r :: l1), r', l2. repeat split; auto.
      intros x [Hx|Hx]; [subst; assumption|auto].
  - intros (l1 & r & l2 & -> & Hm & -> & Hl).
    induction l1 as [|x l1 IH]; cbn [app route_to].
    + rewrite Hm. reflexivity.
    + rewrite (Hl x (or_introl eq_refl)). apply IH. intros y Hy. apply Hl. right. assumption.
Qed.

Print Assumptions mapped_spec.
Print Assumptions confined.
Print Assumptions upstream_confined.
Print Assumptions mapping.
Print Assumptions request_line.
Print Assumptions route_first_match.
Close Scope N_scope.
