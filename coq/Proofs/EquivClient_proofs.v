(* Proofs of the Gen = Model statements of Equiv/EquivClient.v (client/protocol.py). *)
From Coq Require Import List NArith ZArith Bool Lia ZifyBool ZifyN ZifyNat.
From NV Require Import Prelude.Str Prelude.Res Prelude.Utf8 Model.Titan Model.ClientProto Equiv.ClientGlue Gen.ClientGen.
From NV Require Proofs.StrLemmas Proofs.C13_proofs.
Import ListNotations.

(* ====================================================================== *)
(* the library models of Equiv/ClientGlue.v against the Prelude functions the model uses *)
(* ====================================================================== *)

Lemma break_sub_crlf : forall s, break_sub [13; 10]%N s = break_crlf s.
Proof.
  induction s as [|x s IH]; [reflexivity|].
  destruct s as [|y s]; [destruct x as [|p]; [reflexivity|]; cbn; destruct (Pos.eqb 13 p); reflexivity|].
  rewrite C13_proofs.bc_cons2. rewrite <- IH.
  change (break_sub [13; 10]%N (x :: y :: s)) with
    (if prefixb [13; 10]%N (x :: y :: s) then Some ([], s)
     else match break_sub [13; 10]%N (y :: s) with Some (a, b) => Some (x :: a, b) | None => None end).
  change (prefixb [13; 10]%N (x :: y :: s)) with ((13 =? x)%N && ((10 =? y)%N && true)).
  rewrite andb_true_r, (N.eqb_sym 13 x), (N.eqb_sym 10 y). reflexivity.
Qed.

Lemma break_sub_char : forall c s, break_sub [c] s = break_at c s.
Proof.
  intros c. induction s as [|x s IH]; [reflexivity|].
  change (break_sub [c] (x :: s)) with
    (if (c =? x)%N && true then Some ([], s)
     else match break_sub [c] s with Some (a, b) => Some (x :: a, b) | None => None end).
  rewrite andb_true_r, IH, (N.eqb_sym c x). reflexivity.
Qed.

Lemma contains_char : forall c s, contains [c] s = mem c s.
Proof.
  intros c s. unfold contains. rewrite break_sub_char.
  induction s as [|x s IH]; [reflexivity|].
  cbn [break_at]. rewrite StrLemmas.mem_cons, (N.eqb_sym c x).
  destruct (x =? c)%N; [reflexivity|]. cbn [orb]. rewrite <- IH.
  destruct (break_at c s) as [[a b]|]; reflexivity.
Qed.

Lemma z_to_N_of_N : forall n, z_to_N (Z.of_N n) = Some n.
Proof. destruct n; reflexivity. Qed.

Lemma is_digit_ascii : forall d, is_digit d = true -> is_ascii d = true.
Proof. intros d. unfold is_digit, is_ascii. lia. Qed.

Lemma digit_cases : forall d, is_digit d = true ->
  In d [48; 49; 50; 51; 52; 53; 54; 55; 56; 57]%N.
Proof. intros d H. unfold is_digit in H. cbn [In]. lia. Qed.

(* int() on two ASCII digits *)
Lemma py_int_two_digits : forall d1 d2, is_digit d1 = true -> is_digit d2 = true ->
  py_int [d1; d2] = Ok (Z.of_N ((d1 - 48) * 10 + (d2 - 48))).
Proof.
  intros d1 d2 H1 H2. apply digit_cases in H1, H2. cbn [In] in H1, H2.
  repeat (destruct H1 as [H1|H1]; [subst d1; repeat (destruct H2 as [H2|H2]; [subst d2; vm_compute; reflexivity|]); contradiction|]).
  contradiction.
Qed.

(* ====================================================================== *)
(* _header_too_long                                                        *)
(* ====================================================================== *)

Lemma max_header_line_tie : gen_MAX_HEADER_LINE_SIZE = max_header_line.
Proof. reflexivity. Qed.

Lemma adj13_match (r : list N) (n : N) :
  match r with 13%N :: _ => (n - 1)%N | _ => n end
  = match r with c :: _ => if (c =? 13)%N then (n - 1)%N else n | [] => n end.
Proof. exact (C13_proofs.adj13_spec r n). Qed.

(* the proof scripts are tactics over the name of the generated definition: they are run once for the Gemini class (gen_m)
   and once for the Titan class (gen_titan_m), each against its own generated text *)
Ltac t_header_too_long g :=
  let s := fresh "s" in let b := fresh "b" in let l := fresh "l" in let r := fresh "r" in
  let H := fresh "H" in let L := fresh "L" in let x := fresh "x" in let t := fresh "t" in
  intros s; unfold g, header_too_long, py_find; rewrite break_sub_crlf;
  rewrite max_header_line_tie; unfold max_header_line;
  generalize (cbuf s); clear s; intro b;
  destruct (break_crlf b) as [[l r]|]; cbv zeta;
  [ assert (H : (Z.of_nat (length l) <? 0)%Z = false) by lia; rewrite H; lia
  | change ((-1 <? 0)%Z) with true; cbv iota;
    unfold suffixb; change (rev [13%N]) with [13%N];
    rewrite adj13_match;
    pose proof (rev_length b) as L;
    destruct (rev b) as [|x t];
    [ cbn [prefixb]; lia
    | cbn [prefixb]; rewrite andb_true_r, (N.eqb_sym 13 x); cbn [length] in L;
      destruct (x =? 13)%N; lia ] ].

Lemma header_too_long_tie : forall s, gen_header_too_long s = header_too_long (cbuf s).
Proof. t_header_too_long gen_header_too_long. Qed.

(* ====================================================================== *)
(* _set_error, send_request, connection_made                               *)
(* ====================================================================== *)

Ltac t_set_error g :=
  let s := fresh "s" in let k := fresh "k" in
  intros s k; unfold g, set_err, fut_done, upd_cfut; destruct (cfut s); reflexivity.

Lemma set_error_tie : forall s k, gen_set_error s k = (set_err s k, []).
Proof. t_set_error gen_set_error. Qed.

Lemma send_request_tie : forall soc db cap dw url b s,
  encode (url ++ [13; 10]%N) = Some b ->
  gen_send_request url s = cstep [b] soc db cap dw s CSend.
Proof.
  intros soc db cap dw url b s H. unfold gen_send_request, cstep. cbv zeta. rewrite H.
  destruct (connected s); reflexivity.
Qed.

Lemma send_request_unencodable : forall url s,
  encode (url ++ [13; 10]%N) = None ->
  gen_send_request url s = (s, if connected s then [CEscape (lit "UnicodeEncodeError")] else []).
Proof.
  intros url s H. unfold gen_send_request. cbv zeta. rewrite H.
  destruct (connected s); reflexivity.
Qed.

Lemma connection_made_gen : forall request soc db cap dw sr s,
  (forall s, sr s = cstep request soc db cap dw s CSend) ->
  gen_connection_made sr soc s = cstep request soc db cap dw s CConnected.
Proof.
  intros request soc db cap dw sr s H. unfold gen_connection_made. cbv zeta. rewrite H.
  unfold cstep, upd_connected. cbn [connected]. destruct soc; reflexivity.
Qed.

Lemma connection_made_tie : forall request soc db cap dw s,
  gen_connection_made (fun s => cstep request soc db cap dw s CSend) soc s = cstep request soc db cap dw s CConnected.
Proof. intros. apply connection_made_gen. reflexivity. Qed.

(* ====================================================================== *)
(* _parse_header                                                           *)
(* ====================================================================== *)

Lemma len3_ne2 : forall (x y z : N) l, (N.of_nat (length (x :: y :: z :: l)) =? 2)%N = false.
Proof. intros. cbn [length]. lia. Qed.

Ltac ph_two Hse :=
  match goal with |- context [(N.of_nat (length [?d1; ?d2]) =? 2)%N] =>
  change (N.of_nat (length [d1; d2]) =? 2)%N with true; cbv iota;
  unfold py_isdigit, all_ascii; cbn [forallb];
  destruct (is_digit d1) eqn:D1;
  [ destruct (is_digit d2) eqn:D2;
    [ rewrite (is_digit_ascii _ D1), (is_digit_ascii _ D2); cbn [andb];
      rewrite (py_int_two_digits _ _ D1 D2), z_to_N_of_N;
      unfold upd_meta, upd_status; cbn [status meta cbuf hdr cfut connected];
      rewrite !Hse, !contains_char;
      destruct (negb _); [reflexivity|];
      destruct (_ || _); reflexivity
    | destruct (is_ascii d1); [destruct (is_ascii d2)|]; reflexivity ]
  | destruct (is_ascii d1); [destruct (is_ascii d2)|]; reflexivity ]
  end.

Ltac ph_case Hse :=
  match goal with |- context [(N.of_nat (length ?a) =? 2)%N] =>
    destruct a as [|? [|? [|? ?]]];
    [ reflexivity | reflexivity | ph_two Hse | rewrite len3_ne2; reflexivity ]
  end.

Ltac t_parse_header g :=
  let a := fresh "a" in let b := fresh "b" in
  let se := fresh "se" in let s := fresh "s" in let line := fresh "line" in let Hse := fresh "Hse" in
  intros se s line Hse; unfold g, parse_header, partition, split1;
  change (lit " ") with [32%N]; rewrite break_sub_char;
  cbv zeta; rewrite !Hse;
  destruct (break_at 32 line) as [[a b]|]; cbn [length nth_error];
  [ change (N.of_nat 2 <? 1)%N with false; change (1 <? N.of_nat 2)%N with true; cbv iota; ph_case Hse
  | change (N.of_nat 1 <? 1)%N with false; change (1 <? N.of_nat 1)%N with false; cbv iota; ph_case Hse ].

Lemma parse_header_gen : forall se s line,
  (forall s k, se s k = (set_err s k, [])) ->
  gen_parse_header se s line = (parse_header s line, []).
Proof. t_parse_header gen_parse_header. Qed.

Lemma parse_header_tie : forall s line,
  gen_parse_header (fun s k => (set_err s k, [])) s line = (parse_header s line, []).
Proof. intros. apply parse_header_gen. reflexivity. Qed.

(* ====================================================================== *)
(* data_received                                                           *)
(* ====================================================================== *)

Lemma connected_set_err s k : connected (set_err s k) = connected s.
Proof. unfold set_err. destruct (cfut s); reflexivity. Qed.

Lemma connected_parse_header s line : connected (parse_header s line) = connected s.
Proof.
  unfold parse_header. destruct (partition 32 line) as [[st found] rest].
  destruct st as [|d1 [|d2 [|d3 st]]]; try apply connected_set_err.
  destruct (is_digit d1 && is_digit d2); [|apply connected_set_err].
  cbv zeta. destruct (negb _); [rewrite connected_set_err; reflexivity|].
  destruct (_ || _); [rewrite connected_set_err; reflexivity|reflexivity].
Qed.

(* after `intros htl ph se s d Hh Hp Hs Hc; unfold <generated data_received>` *)
Ltac t_size_check Hs Hc :=
  let v := fresh "v" in
  match goal with |- context [match status ?s with _ => _ end] =>
    destruct (status s) as [v|]; cbn [negb]; [|reflexivity];
    destruct ((20 <=? v)%N && (v <? 30)%N); [|reflexivity];
    cbn [andb]; destruct (_ <? _)%N; [|reflexivity];
    rewrite Hs, connected_set_err, Hc; reflexivity
  end.

Ltac t_data_received s d Hh Hp Hs Hc :=
  let cap := fresh "cap" in let l := fresh "l" in let body := fresh "body" in let line := fresh "line" in
  let v := fresh "v" in let E2 := fresh "E2" in let Hc0 := fresh "Hc0" in let Hhdr := fresh "Hhdr" in
  unfold data_received;
  generalize gen_MAX_RESPONSE_BODY_SIZE; intro cap;
  cbv zeta;
  change {| cbuf := cbuf s ++ d; hdr := hdr s; status := status s; meta := meta s; cfut := cfut s; connected := connected s |}
    with (upd_cbuf s (cbuf s ++ d));
  assert (Hc0 : connected (upd_cbuf s (cbuf s ++ d)) = true) by exact Hc;
  generalize dependent (upd_cbuf s (cbuf s ++ d)); clear s Hc; intros s Hc;
  rewrite Hh; unfold is_2x;
  destruct (hdr s) eqn:Hhdr; cbn [negb andb];
  [ (* the header was parsed earlier: only the size check *)
    t_size_check Hs Hc
  | destruct (header_too_long (cbuf s));
    [ rewrite Hs, connected_set_err, Hc; reflexivity |];
    unfold contains; rewrite break_sub_crlf;
    destruct (break_crlf (cbuf s)) as [[l body]|];
    [ destruct (decode l) as [line|]; [|reflexivity];
      rewrite Hp; unfold upd_hdr, upd_cbuf; cbn [status connected cbuf hdr meta cfut];
      rewrite connected_parse_header, Hc;
      destruct (status (parse_header s line)) as [v|]; [|reflexivity];
      destruct ((20 <=? v)%N && (v <? 30)%N) eqn:E2; cbn [negb andb status]; rewrite ?E2; cbn [andb];
      [ destruct (cap <? _)%N; [|reflexivity];
        rewrite Hs, connected_set_err; reflexivity
      | reflexivity ]
    | t_size_check Hs Hc ] ].

Lemma data_received_gen : forall htl ph se s d,
  (forall s, htl s = header_too_long (cbuf s)) ->
  (forall s l, ph s l = (parse_header s l, [])) ->
  (forall s k, se s k = (set_err s k, [])) ->
  connected s = true ->
  gen_data_received htl ph se s d = data_received gen_MAX_RESPONSE_BODY_SIZE s d.
Proof.
  intros htl ph se s d Hh Hp Hs Hc. unfold gen_data_received.
  t_data_received s d Hh Hp Hs Hc.
Qed.

Lemma data_received_tie : forall s d,
  connected s = true ->
  gen_data_received (fun s => header_too_long (cbuf s)) (fun s l => (parse_header s l, [])) (fun s k => (set_err s k, [])) s d
  = data_received gen_MAX_RESPONSE_BODY_SIZE s d.
Proof. intros. apply data_received_gen; auto. Qed.

(* ====================================================================== *)
(* connection_lost: the string manipulation (is_text_meta, charset_of)     *)
(* ====================================================================== *)

Definition infix (p s : str) : Prop := exists a b, s = a ++ p ++ b.

Lemma infix_refl s : infix s s.
Proof. exists [], []. rewrite app_nil_r. reflexivity. Qed.
Lemma infix_trans p q s : infix p q -> infix q s -> infix p s.
Proof.
  intros [a [b ->]] [c [d ->]]. exists (c ++ a), (b ++ d). rewrite <- !app_assoc. reflexivity.
Qed.
Lemma infix_lower p s : infix p s -> infix (lower p) (lower s).
Proof. intros [a [b ->]]. exists (lower a), (lower b). unfold lower. rewrite !map_app. reflexivity. Qed.

Lemma contains_infix : forall sub s, infix sub s -> contains sub s = true.
Proof.
  intros sub s [a [b ->]]. unfold contains.
  induction a as [|x a IH].
  - cbn [app]. destruct (sub ++ b) as [|y t] eqn:E.
    + cbn [break_sub]. destruct sub; [reflexivity|discriminate].
    + cbn [break_sub]. rewrite <- E, prefixb_app. reflexivity.
  - cbn [app break_sub]. destruct (prefixb sub (x :: a ++ sub ++ b)); [reflexivity|].
    destruct (break_sub sub (a ++ sub ++ b)) as [[u v]|]; [reflexivity|discriminate].
Qed.

Lemma split_on_aux_infix : forall c s cur q, In q (split_on_aux c cur s) -> infix q (rev cur ++ s).
Proof.
  intros c. induction s as [|x s IH]; intros cur q H.
  - cbn [split_on_aux In] in H. destruct H as [<-|[]]. rewrite app_nil_r. apply infix_refl.
  - cbn [split_on_aux] in H. destruct (x =? c)%N.
    + destruct H as [<-|H].
      * exists [], (x :: s). reflexivity.
      * apply IH in H. cbn [rev app] in H. destruct H as [a [b ->]].
        exists (rev cur ++ x :: a), b. rewrite <- app_assoc. reflexivity.
    + apply IH in H. cbn [rev] in H. rewrite <- app_assoc in H. exact H.
Qed.

Lemma split_on_infix c s q : In q (split_on c s) -> infix q s.
Proof. intro H. apply (split_on_aux_infix c s [] q H). Qed.

Lemma split_on_aux_head : forall c s cur, exists p t, split_on_aux c cur s = p :: t.
Proof.
  intros c. induction s as [|x s IH]; intros cur; cbn [split_on_aux]; [eauto|].
  destruct (x =? c)%N; eauto.
Qed.

Lemma split_on_nth0 c s :
  nth_error (split_on c s) 0 = Some (match split_on c s with p :: _ => p | [] => [] end).
Proof. unfold split_on. destruct (split_on_aux_head c s []) as [p [t ->]]. reflexivity. Qed.

Lemma lstrip_by_suffix p s : exists a, s = a ++ lstrip_by p s.
Proof.
  induction s as [|x s [a IH]]; [exists []; reflexivity|].
  cbn [lstrip_by]. destruct (p x); [exists (x :: a); cbn [app]; f_equal; exact IH|exists []; reflexivity].
Qed.

Lemma strip_by_infix p s : infix (strip_by p s) s.
Proof.
  unfold strip_by, rstrip_by.
  destruct (lstrip_by_suffix p s) as [a Ha].
  destruct (lstrip_by_suffix p (rev (lstrip_by p s))) as [b Hb].
  apply (f_equal (@rev N)) in Hb. rewrite rev_involutive, rev_app_distr in Hb.
  exists a, (rev b). rewrite <- Hb. exact Ha.
Qed.

Definition has_cs (p : str) : bool := prefixb (lit "charset=") (lower p).

(* a part that starts with "charset=" (in any case) contains "=" *)
Lemma has_cs_break p : has_cs p = true -> exists a v, break_at 61 p = Some (a, v).
Proof.
  intro H. destruct (break_at 61 p) as [[a v]|] eqn:E; [eauto|].
  exfalso. apply break_at_None in E. apply E.
  apply prefixb_spec in H. destruct H as [r Hr].
  assert (Hin : In 61%N (lower p)). { rewrite Hr. vm_compute. tauto. }
  apply StrLemmas.In_lower in Hin. destruct Hin as [Hin|Hl]; [exact Hin|discriminate].
Qed.

Lemma find_has_cs_contains m p :
  find has_cs (map ustrip (split_on 59 m)) = Some p -> contains (lit "charset=") (lower m) = true.
Proof.
  intro H. apply find_some in H. destruct H as [Hin Hp].
  apply in_map_iff in Hin. destruct Hin as [q [<- Hq]].
  apply contains_infix. apply prefixb_spec in Hp. destruct Hp as [r Hr].
  apply infix_trans with (lower (ustrip q)).
  - exists [], r. exact Hr.
  - apply infix_lower. apply infix_trans with q; [apply strip_by_infix|apply (split_on_infix _ _ _ Hq)].
Qed.

(* the loop of connection_lost over the ";"-separated parts, as generated *)
Definition charset_of_parts (l : list str) (cs : str) : str :=
  match find has_cs (map ustrip l) with
  | Some p => match break_at ch_eq p with
              | Some (_, v) => strip_by (fun c => (c =? 34)%N || (c =? 39)%N) (ustrip v)
              | None => lit "utf-8"
              end
  | None => cs
  end.

Lemma charset_loop : forall l cs,
  (fix loop1__ (l__ : list str) (charset : str) {struct l__} : res (str) :=
     match l__ with
     | [] => Ok charset
     | part :: l'__ =>
         (let part := (ustrip part) in
          (if (prefixb (lit "charset=") (lower part))
           then (match (nth_error (split1 (lit "=") part) 1) with
                 | Some v4__ => (let charset := (strip_by (fun c__ => (N.eqb c__ 34%N) || (N.eqb c__ 39%N)) (ustrip v4__)) in (Ok charset))
                 | None => (Err (lit "IndexError") (@nil N))
                 end)
           else (loop1__ l'__ charset)))
     end) l cs = Ok (charset_of_parts l cs).
Proof.
  induction l as [|q l IH]; intros cs; [reflexivity|].
  unfold charset_of_parts. cbn [map find]. cbv zeta.
  fold (has_cs (ustrip q)). destruct (has_cs (ustrip q)) eqn:E.
  - destruct (has_cs_break _ E) as [a [v Hb]].
    unfold split1. change (lit "=") with [61%N]. rewrite break_sub_char, Hb.
    change ch_eq with 61%N. rewrite Hb. reflexivity.
  - rewrite IH. reflexivity.
Qed.

Lemma meta_or_empty (m : str) : (if match m with [] => false | _ => true end then m else []) = m.
Proof. destruct m; reflexivity. Qed.

Lemma eqb_nil (m : str) : eqb m [] = match m with [] => true | _ => false end.
Proof. destruct m; reflexivity. Qed.

(* ====================================================================== *)
(* connection_lost                                                         *)
(* ====================================================================== *)

Lemma connection_lost_tie : forall dw url db s exc,
  (cfut s = Pending -> hdr s = true -> status s <> None) ->
  gen_connection_lost dw url db s (option_map (app (lit "conn:")) exc) = (connection_lost db dw s exc, []).
Proof.
  intros dw url db s exc HJ. unfold gen_connection_lost, connection_lost, fut_done.
  destruct (cfut s) eqn:Hf; [|reflexivity].
  assert (SE : forall k, upd_cfut s (Done (RErr k)) = set_err s k).
  { intro k. unfold set_err, upd_cfut. rewrite Hf. reflexivity. }
  cbv zeta. rewrite !meta_or_empty.
  destruct exc as [k|]; cbn [option_map].
  { rewrite <- SE. reflexivity. }
  destruct (hdr s) eqn:Hh; cbn [negb].
  2:{ rewrite <- SE. reflexivity. }
  destruct (status s) as [v|] eqn:Es; [|exfalso; apply HJ; auto].
  unfold is_2x. destruct ((20 <=? v)%N && (v <? 30)%N); [|unfold upd_cfut; rewrite Hh, Es; reflexivity].
  rewrite split_on_nth0. unfold is_text_meta. change ch_semi with 59%N. rewrite eqb_nil.
  destruct ((_ || _) && db); [|unfold upd_cfut; rewrite Hh, Es; reflexivity].
  assert (CS : (if contains (lit "charset=") (lower (meta s))
                then charset_of_parts (split_on 59 (meta s)) (lit "utf-8") else lit "utf-8") = charset_of (meta s)).
  { unfold charset_of, charset_of_parts. change ch_semi with 59%N. fold has_cs.
    destruct (contains (lit "charset=") (lower (meta s))) eqn:Ec; [reflexivity|].
    destruct (find has_cs (map ustrip (split_on 59 (meta s)))) as [p|] eqn:Ef; [|reflexivity].
    apply find_has_cs_contains in Ef. congruence. }
  rewrite <- CS. rewrite charset_loop.
  destruct (contains (lit "charset=") (lower (meta s)));
    (destruct (dw _ (cbuf s)); [unfold upd_cfut; rewrite Hh, Es; reflexivity|rewrite <- SE; reflexivity]).
Qed.

(* ====================================================================== *)
(* the callbacks as a whole: generated callees inside generated callers    *)
(* ====================================================================== *)

Lemma cstep_data_tie : forall request soc db dw s d,
  connected s = true ->
  gen_data_received gen_header_too_long (gen_parse_header gen_set_error) gen_set_error s d
  = cstep request soc db gen_MAX_RESPONSE_BODY_SIZE dw s (CData d).
Proof.
  intros. cbn [cstep]. apply data_received_gen; auto.
  - apply header_too_long_tie.
  - intros. apply parse_header_gen. apply set_error_tie.
  - apply set_error_tie.
Qed.

Lemma cstep_lost_tie : forall request soc db cap dw url s exc,
  (cfut s = Pending -> hdr s = true -> status s <> None) ->
  gen_connection_lost dw url db s (option_map (app (lit "conn:")) exc) = cstep request soc db cap dw s (CLost exc).
Proof. intros. cbn [cstep]. apply connection_lost_tie; assumption. Qed.

Lemma cstep_connected_tie : forall soc db cap dw url b s,
  encode (url ++ [13; 10]%N) = Some b ->
  gen_connection_made (gen_send_request url) soc s = cstep [b] soc db cap dw s CConnected.
Proof. intros. apply connection_made_gen. intro s0. apply send_request_tie. assumption. Qed.

(* ====================================================================== *)
(* the two state hypotheses hold on every state the callbacks can reach    *)
(* ====================================================================== *)

Lemma inv_run : forall request soc db cap dw evs s,
  C13_proofs.J s -> C13_proofs.J (fst (crun request soc db cap dw s evs)).
Proof.
  induction evs as [|e evs IH]; intros s HJ; [exact HJ|].
  cbn [crun]. pose proof (C13_proofs.J_cstep db cap dw request soc s e HJ) as H1.
  destruct (cstep request soc db cap dw s e) as [s1 a]. cbn [fst] in H1.
  specialize (IH s1 H1). destruct (crun request soc db cap dw s1 evs) as [s2 l]. exact IH.
Qed.

Lemma status_known_reachable : forall request soc db cap dw evs,
  let s := fst (crun request soc db cap dw cinit evs) in
  cfut s = Pending -> hdr s = true -> status s <> None.
Proof.
  intros request soc db cap dw evs. apply (inv_run request soc db cap dw evs cinit).
  unfold C13_proofs.J. cbn. discriminate.
Qed.

Lemma connected_data_received cap s d : connected (fst (data_received cap s d)) = connected s.
Proof.
  unfold data_received. cbv zeta. cbn [cbuf hdr status meta cfut connected].
  destruct (negb (hdr s) && _); [cbn [fst]; rewrite connected_set_err; reflexivity|].
  destruct (negb (hdr s)).
  2:{ destruct (_ && _); cbn [fst]; [rewrite connected_set_err|]; reflexivity. }
  destruct (break_crlf (cbuf s ++ d)) as [[l body]|].
  2:{ destruct (_ && _); cbn [fst]; [rewrite connected_set_err|]; reflexivity. }
  destruct (decode l) as [line|]; [|reflexivity].
  destruct (status (parse_header _ line)) as [v|] eqn:Es; cbn [fst connected].
  - destruct (is_2x v); cbn [status]; rewrite ?Es;
      (destruct (_ && _); cbn [fst]; [rewrite connected_set_err|]; cbn [connected]; rewrite connected_parse_header; reflexivity).
  - rewrite connected_parse_header. reflexivity.
Qed.

Lemma connected_connection_lost db dw s exc : connected (connection_lost db dw s exc) = connected s.
Proof.
  unfold connection_lost. destruct (cfut s); [|reflexivity].
  destruct exc; [apply connected_set_err|].
  destruct (negb (hdr s)); [apply connected_set_err|].
  destruct (status s); [|reflexivity].
  destruct (is_2x n); [|reflexivity].
  destruct (_ && _); [|reflexivity].
  destruct (dw _ _); [reflexivity|apply connected_set_err].
Qed.

Lemma connected_stable : forall request soc db cap dw s e,
  connected s = true -> connected (fst (cstep request soc db cap dw s e)) = true.
Proof.
  intros request soc db cap dw s e H. destruct e; cbn [cstep fst].
  - reflexivity.
  - exact H.
  - rewrite connected_data_received. exact H.
  - rewrite connected_connection_lost. exact H.
Qed.

(* ====================================================================== *)
(* TitanClientProtocol: the same model, with request = [line; content] and decode_body = true *)
(* ====================================================================== *)

Lemma titan_header_too_long_tie : forall s, gen_titan_header_too_long s = header_too_long (cbuf s).
Proof. t_header_too_long gen_titan_header_too_long. Qed.

Lemma titan_set_error_tie : forall s k, gen_titan_set_error s k = (set_err s k, []).
Proof. t_set_error gen_titan_set_error. Qed.

Lemma titan_parse_header_gen : forall se s line,
  (forall s k, se s k = (set_err s k, [])) ->
  gen_titan_parse_header se s line = (parse_header s line, []).
Proof. t_parse_header gen_titan_parse_header. Qed.

Lemma titan_parse_header_tie : forall s line,
  gen_titan_parse_header (fun s k => (set_err s k, [])) s line = (parse_header s line, []).
Proof. intros. apply titan_parse_header_gen. reflexivity. Qed.

Lemma titan_data_received_gen : forall htl ph se s d,
  (forall s, htl s = header_too_long (cbuf s)) ->
  (forall s l, ph s l = (parse_header s l, [])) ->
  (forall s k, se s k = (set_err s k, [])) ->
  connected s = true ->
  gen_titan_data_received htl ph se s d = data_received gen_MAX_RESPONSE_BODY_SIZE s d.
Proof.
  intros htl ph se s d Hh Hp Hs Hc. unfold gen_titan_data_received.
  t_data_received s d Hh Hp Hs Hc.
Qed.

Lemma titan_data_received_tie : forall s d,
  connected s = true ->
  gen_titan_data_received (fun s => header_too_long (cbuf s)) (fun s l => (parse_header s l, [])) (fun s k => (set_err s k, [])) s d
  = data_received gen_MAX_RESPONSE_BODY_SIZE s d.
Proof. intros. apply titan_data_received_gen; auto. Qed.

(* Titan's connection_lost decodes every text body: it is the model's connection_lost with decode_body = true *)
Lemma titan_connection_lost_tie : forall dw url s exc,
  (cfut s = Pending -> hdr s = true -> status s <> None) ->
  gen_titan_connection_lost dw url s (option_map (app (lit "conn:")) exc) = (connection_lost true dw s exc, []).
Proof.
  intros dw url s exc HJ. unfold gen_titan_connection_lost, connection_lost, fut_done.
  destruct (cfut s) eqn:Hf; [|reflexivity].
  assert (SE : forall k, upd_cfut s (Done (RErr k)) = set_err s k).
  { intro k. unfold set_err, upd_cfut. rewrite Hf. reflexivity. }
  cbv zeta. rewrite !meta_or_empty.
  destruct exc as [k|]; cbn [option_map].
  { rewrite <- SE. reflexivity. }
  destruct (hdr s) eqn:Hh; cbn [negb].
  2:{ rewrite <- SE. reflexivity. }
  destruct (status s) as [v|] eqn:Es; [|exfalso; apply HJ; auto].
  unfold is_2x. destruct ((20 <=? v)%N && (v <? 30)%N); [|unfold upd_cfut; rewrite Hh, Es; reflexivity].
  rewrite split_on_nth0. unfold is_text_meta. change ch_semi with 59%N. rewrite eqb_nil, andb_true_r.
  destruct (_ || _); [|unfold upd_cfut; rewrite Hh, Es; reflexivity].
  assert (CS : (if contains (lit "charset=") (lower (meta s))
                then charset_of_parts (split_on 59 (meta s)) (lit "utf-8") else lit "utf-8") = charset_of (meta s)).
  { unfold charset_of, charset_of_parts. change ch_semi with 59%N. fold has_cs.
    destruct (contains (lit "charset=") (lower (meta s))) eqn:Ec; [reflexivity|].
    destruct (find has_cs (map ustrip (split_on 59 (meta s)))) as [p|] eqn:Ef; [|reflexivity].
    apply find_has_cs_contains in Ef. congruence. }
  rewrite <- CS. rewrite charset_loop.
  destruct (contains (lit "charset=") (lower (meta s)));
    (destruct (dw _ (cbuf s)); [unfold upd_cfut; rewrite Hh, Es; reflexivity|rewrite <- SE; reflexivity]).
Qed.

Lemma titan_connection_made_gen : forall request soc db cap dw sr s,
  (forall s, sr s = cstep request soc db cap dw s CSend) ->
  gen_titan_connection_made sr soc s = cstep request soc db cap dw s CConnected.
Proof.
  intros request soc db cap dw sr s H. unfold gen_titan_connection_made. cbv zeta. rewrite H.
  unfold cstep, upd_connected. cbn [connected]. destruct soc; reflexivity.
Qed.

(* Titan's send_request writes the request line, then the content: the model's `request` is [line; content] *)
Lemma titan_send_request_tie : forall soc db cap dw url content b s,
  encode (url ++ [13; 10]%N) = Some b ->
  gen_titan_send_request url content s = cstep [b; content] soc db cap dw s CSend.
Proof.
  intros soc db cap dw url content b s H. unfold gen_titan_send_request, cstep. cbv zeta.
  destruct (connected s); [|reflexivity]. rewrite H. reflexivity.
Qed.

Lemma titan_send_request_unencodable : forall url content s,
  encode (url ++ [13; 10]%N) = None ->
  gen_titan_send_request url content s = (s, if connected s then [CEscape (lit "UnicodeEncodeError")] else []).
Proof.
  intros url content s H. unfold gen_titan_send_request. cbv zeta.
  destruct (connected s); [|reflexivity]. rewrite H. reflexivity.
Qed.

Lemma titan_cstep_data_tie : forall request soc db dw s d,
  connected s = true ->
  gen_titan_data_received gen_titan_header_too_long (gen_titan_parse_header gen_titan_set_error) gen_titan_set_error s d
  = cstep request soc db gen_MAX_RESPONSE_BODY_SIZE dw s (CData d).
Proof.
  intros. cbn [cstep]. apply titan_data_received_gen; auto.
  - apply titan_header_too_long_tie.
  - intros. apply titan_parse_header_gen. apply titan_set_error_tie.
  - apply titan_set_error_tie.
Qed.

Lemma titan_cstep_lost_tie : forall request soc cap dw url s exc,
  (cfut s = Pending -> hdr s = true -> status s <> None) ->
  gen_titan_connection_lost dw url s (option_map (app (lit "conn:")) exc) = cstep request soc true cap dw s (CLost exc).
Proof. intros. cbn [cstep]. apply titan_connection_lost_tie; assumption. Qed.

Lemma titan_cstep_connected_tie : forall soc db cap dw url content b s,
  encode (url ++ [13; 10]%N) = Some b ->
  gen_titan_connection_made (gen_titan_send_request url content) soc s = cstep [b; content] soc db cap dw s CConnected.
Proof. intros. apply titan_connection_made_gen. intro s0. apply titan_send_request_tie. assumption. Qed.

(* the response-body cap the client enforces (protocol/constants.py MAX_RESPONSE_BODY_SIZE): 10 MiB *)
Lemma max_response_body_value : gen_MAX_RESPONSE_BODY_SIZE = 10485760%N.
Proof. reflexivity. Qed.
