(* Proofs of the Gen = Model statements of Equiv/EquivClient.v (client/protocol.py). *)
From Coq Require Import List NArith ZArith Bool Lia ZifyBool ZifyN ZifyNat.
From NV Require Import Prelude.Str Prelude.Res Prelude.Utf8 Model.Titan Model.ClientProto Equiv.ClientGlue Gen.ClientGen.
From NV Require Proofs.StrLemmas Proofs.C13_proofs.
Import ListNotations.

(* ====================================================================== *)
(* the library models of Equiv/ClientGlue.v against the Prelude functions the model uses *)
(* ====================================================================== *)

Lemma break_sub_crlf : forall s, break_sub [13; 10]%N s = break_crlf s.
Proof.
  induction s as [|x s IH]; [reflexivity|].
  destruct s as [|y s]; [destruct x as [|p]; [reflexivity|]; cbn; destruct (Pos.eqb 13 p); reflexivity|].
  rewrite C13_proofs.bc_cons2. rewrite <- IH.
  change (break_sub [13; 10]%N (x :: y :: s)) with
    (if prefixb [13; 10]%N (x :: y :: s) then Some ([], s)
     else match break_sub [13; 10]%N (y :: s) with Some (a, b) => Some (x :: a, b) | None => None end).
  change (prefixb [13; 10]%N (x :: y :: s)) with ((13 =? x)%N && ((10 =? y)%N && true)).
  rewrite andb_true_r, (N.eqb_sym 13 x), (N.eqb_sym 10 y). reflexivity.
Qed.

Lemma break_sub_char : forall c s, break_sub [c] s = break_at c s.
Proof.
  intros c. induction s as [|x s IH]; [reflexivity|].
  change (break_sub [c] (x :: s)) with
    (if (c =? x)%N && true then Some ([], s)
     else match break_sub [c] s with Some (a, b) => Some (x :: a, b) | None => None end).
  rewrite andb_true_r, IH, (N.eqb_sym c x). reflexivity.
Qed.

Lemma contains_char : forall c s, contains [c] s = mem c s.
Proof.
  intros c s. unfold contains. rewrite break_sub_char.
  induction s as [|x s IH]; [reflexivity|].
  cbn [break_at]. rewrite StrLemmas.mem_cons, (N.eqb_sym c x).
  destruct (x =? c)%N; [reflexivity|]. cbn [orb]. rewrite <- IH.
  destruct (break_at c s) as [[a b]|]; reflexivity.
Qed.

Lemma z_to_N_of_N : forall n, z_to_N (Z.of_N n) = Some n.
Proof. destruct n; reflexivity. Qed.

Lemma is_digit_ascii : forall d, is_digit d = true -> is_ascii d = true.
Proof. intros d. unfold is_digit, is_ascii. lia. Qed.

Lemma digit_cases : forall d, is_digit d = true ->
  In d [48; 49; 50; 51; 52; 53; 54; 55; 56; 57]%N.
Proof. intros d H. unfold is_digit in H. cbn [In]. lia. Qed.

(* int() on two ASCII digits *)
Lemma py_int_two_digits : forall d1 d2, is_digit d1 = true -> is_digit d2 = true ->
  py_int [d1; d2] = Ok (Z.of_N ((d1 - 48) * 10 + (d2 - 48))).
Proof.
  intros d1 d2 H1 H2. apply digit_cases in H1, H2. cbn [In] in H1, H2.
  repeat (destruct H1 as [H1|H1]; [subst d1; repeat (destruct H2 as [H2|H2]; [subst d2; vm_compute; reflexivity|]); contradiction|]).
  contradiction.
Qed.

(* ====================================================================== *)
(* _header_too_long                                                        *)
(* ====================================================================== *)

Lemma max_header_line_tie : gen_MAX_HEADER_LINE_SIZE = max_header_line.
Proof. reflexivity. Qed.

Lemma header_too_long_tie : forall s, gen_header_too_long s = header_too_long (cbuf s).
Proof.
  intros s. unfold gen_header_too_long, header_too_long, py_find. rewrite break_sub_crlf.
  rewrite max_header_line_tie. unfold max_header_line.
  generalize (cbuf s); clear s; intro b.
  destruct (break_crlf b) as [[l r]|]; cbv zeta.
  - assert (H : (Z.of_nat (length l) <? 0)%Z = false) by lia. rewrite H. lia.
  - change ((-1 <? 0)%Z) with true. cbv iota.
    unfold suffixb. change (rev [13%N]) with [13%N].
    change (match rev b with 13%N :: _ => (N.of_nat (length b) - 1)%N | _ => N.of_nat (length b) end)
      with (C13_proofs.adj13 (rev b) (N.of_nat (length b))).
    rewrite C13_proofs.adj13_spec.
    pose proof (rev_length b) as L.
    destruct (rev b) as [|x t].
    + cbn [prefixb]. lia.
    + cbn [prefixb]. rewrite andb_true_r, (N.eqb_sym 13 x). cbn [length] in L.
      destruct (x =? 13)%N; lia.
Qed.

(* ====================================================================== *)
(* _set_error, send_request, connection_made                               *)
(* ====================================================================== *)

Lemma set_error_tie : forall s k, gen_set_error s k = (set_err s k, []).
Proof.
  intros s k. unfold gen_set_error, set_err, fut_done, upd_cfut.
  destruct (cfut s); reflexivity.
Qed.

Lemma send_request_tie : forall soc db cap dw url b s,
  encode (url ++ [13; 10]%N) = Some b ->
  gen_send_request url s = cstep [b] soc db cap dw s CSend.
Proof.
  intros soc db cap dw url b s H. unfold gen_send_request, cstep. cbv zeta. rewrite H.
  destruct (connected s); reflexivity.
Qed.

Lemma send_request_unencodable : forall url s,
  encode (url ++ [13; 10]%N) = None ->
  gen_send_request url s = (s, if connected s then [CEscape (lit "UnicodeEncodeError")] else []).
Proof.
  intros url s H. unfold gen_send_request. cbv zeta. rewrite H.
  destruct (connected s); reflexivity.
Qed.

Lemma connection_made_gen : forall request soc db cap dw sr s,
  (forall s, sr s = cstep request soc db cap dw s CSend) ->
  gen_connection_made sr soc s = cstep request soc db cap dw s CConnected.
Proof.
  intros request soc db cap dw sr s H. unfold gen_connection_made. cbv zeta. rewrite H.
  unfold cstep, upd_connected. cbn [connected]. destruct soc; reflexivity.
Qed.

Lemma connection_made_tie : forall request soc db cap dw s,
  gen_connection_made (fun s => cstep request soc db cap dw s CSend) soc s = cstep request soc db cap dw s CConnected.
Proof. intros. apply connection_made_gen. reflexivity. Qed.

(* ====================================================================== *)
(* _parse_header                                                           *)
(* ====================================================================== *)

Lemma len3_ne2 : forall (x y z : N) l, (N.of_nat (length (x :: y :: z :: l)) =? 2)%N = false.
Proof. intros. cbn [length]. lia. Qed.

Ltac ph_two Hse :=
  match goal with |- context [(N.of_nat (length [?d1; ?d2]) =? 2)%N] =>
  change (N.of_nat (length [d1; d2]) =? 2)%N with true; cbv iota;
  unfold py_isdigit, all_ascii; cbn [forallb];
  destruct (is_digit d1) eqn:D1;
  [ destruct (is_digit d2) eqn:D2;
    [ rewrite (is_digit_ascii _ D1), (is_digit_ascii _ D2); cbn [andb];
      rewrite (py_int_two_digits _ _ D1 D2), z_to_N_of_N;
      unfold upd_meta, upd_status; cbn [status meta cbuf hdr cfut connected];
      rewrite !Hse, !contains_char;
      destruct (negb _); [reflexivity|];
      destruct (_ || _); reflexivity
    | destruct (is_ascii d1); [destruct (is_ascii d2)|]; reflexivity ]
  | destruct (is_ascii d1); [destruct (is_ascii d2)|]; reflexivity ]
  end.

Ltac ph_case Hse :=
  match goal with |- context [(N.of_nat (length ?a) =? 2)%N] =>
    destruct a as [|? [|? [|? ?]]];
    [ reflexivity | reflexivity | ph_two Hse | rewrite len3_ne2; reflexivity ]
  end.

Lemma parse_header_gen : forall se s line,
  (forall s k, se s k = (set_err s k, [])) ->
  gen_parse_header se s line = (parse_header s line, []).
Proof.
  intros se s line Hse. unfold gen_parse_header, parse_header, partition, split1.
  change (lit " ") with [32%N]. rewrite break_sub_char.
  cbv zeta. rewrite !Hse.
  destruct (break_at 32 line) as [[a b]|]; cbn [length nth_error].
  - change (N.of_nat 2 <? 1)%N with false. change (1 <? N.of_nat 2)%N with true. cbv iota.
    ph_case Hse.
  - change (N.of_nat 1 <? 1)%N with false. change (1 <? N.of_nat 1)%N with false. cbv iota.
    ph_case Hse.
Qed.

Lemma parse_header_tie : forall s line,
  gen_parse_header (fun s k => (set_err s k, [])) s line = (parse_header s line, []).
Proof. intros. apply parse_header_gen. reflexivity. Qed.

(* ====================================================================== *)
(* data_received                                                           *)
(* ====================================================================== *)

Lemma connected_set_err s k : connected (set_err s k) = connected s.
Proof. unfold set_err. destruct (cfut s); reflexivity. Qed.

Lemma connected_parse_header s line : connected (parse_header s line) = connected s.
Proof.
  unfold parse_header. destruct (partition 32 line) as [[st found] rest].
  destruct st as [|d1 [|d2 [|d3 st]]]; try apply connected_set_err.
  destruct (is_digit d1 && is_digit d2); [|apply connected_set_err].
  cbv zeta. destruct (negb _); [rewrite connected_set_err; reflexivity|].
  destruct (_ || _); [rewrite connected_set_err; reflexivity|reflexivity].
Qed.

Lemma data_received_gen : forall htl ph se s d,
  (forall s, htl s = header_too_long (cbuf s)) ->
  (forall s l, ph s l = (parse_header s l, [])) ->
  (forall s k, se s k = (set_err s k, [])) ->
  connected s = true ->
  gen_data_received htl ph se s d = data_received gen_MAX_RESPONSE_BODY_SIZE s d.
Proof.
  intros htl ph se s d Hh Hp Hs Hc. unfold gen_data_received, data_received.
  generalize gen_MAX_RESPONSE_BODY_SIZE; intro cap.
  cbv zeta.
  change {| cbuf := cbuf s ++ d; hdr := hdr s; status := status s; meta := meta s; cfut := cfut s; connected := connected s |}
    with (upd_cbuf s (cbuf s ++ d)).
  assert (Hc0 : connected (upd_cbuf s (cbuf s ++ d)) = true) by exact Hc.
  generalize dependent (upd_cbuf s (cbuf s ++ d)). clear s Hc. intros s Hc.
  rewrite Hh. unfold is_2x.
  destruct (hdr s) eqn:Hhdr; cbn [negb andb].
  - (* the header was parsed earlier: only the size check *)
    destruct (status s) as [v|]; cbn [negb]; [|reflexivity].
    destruct ((20 <=? v)%N && (v <? 30)%N); [|reflexivity].
    cbn [andb]. destruct (cap <? _)%N; [|reflexivity].
    rewrite Hs, connected_set_err, Hc. reflexivity.
  - destruct (header_too_long (cbuf s)).
    { rewrite Hs, connected_set_err, Hc. reflexivity. }
    unfold contains. rewrite break_sub_crlf.
    destruct (break_crlf (cbuf s)) as [[l body]|].
    + destruct (decode l) as [line|]; [|reflexivity].
      rewrite Hp. unfold upd_hdr, upd_cbuf. cbn [status connected cbuf hdr meta cfut].
      rewrite connected_parse_header, Hc.
      destruct (status (parse_header s line)) as [v|]; [|reflexivity].
      destruct ((20 <=? v)%N && (v <? 30)%N) eqn:E2; cbn [negb andb status]; rewrite ?E2; cbn [andb].
      * destruct (cap <? _)%N; [|reflexivity].
        rewrite Hs, connected_set_err. reflexivity.
      * reflexivity.
    + destruct (status s) as [v|]; cbn [negb]; [|reflexivity].
      destruct ((20 <=? v)%N && (v <? 30)%N); [|reflexivity].
      cbn [andb]. destruct (cap <? _)%N; [|reflexivity].
      rewrite Hs, connected_set_err, Hc. reflexivity.
Qed.

Lemma data_received_tie : forall s d,
  connected s = true ->
  gen_data_received (fun s => header_too_long (cbuf s)) (fun s l => (parse_header s l, [])) (fun s k => (set_err s k, [])) s d
  = data_received gen_MAX_RESPONSE_BODY_SIZE s d.
Proof. intros. apply data_received_gen; auto. Qed.
