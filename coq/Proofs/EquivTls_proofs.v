(* Proofs of the Gen = Model statements of Equiv/EquivTls.v (server/tls_protocol.py, the manual PyOpenSSL pump). *)
From Coq Require Import List NArith Bool Arith Lia.
From NV Require Import Prelude.Str Model.TlsPump Equiv.TlsGlue Gen.TlsGen.
From NV Require Proofs.Tls_proofs.
Import ListNotations.

(* the literal of the source is the model's piece size (Tls_proofs makes bio_piece opaque for tactics) *)
Lemma piece_eq : N.to_nat 8192%N = bio_piece.
Proof. reflexivity. Qed.

Ltac sproj := cbn [p_transport p_closing p_conn p_accept p_hc p_inner p_timer p_armed p_lost o_verdict o_flight o_recv o_out
                   upd_transport upd_closing upd_conn upd_accept upd_hc upd_inner upd_timer upd_armed upd_lost
                   set_verdict set_flight set_recv set_out arm_timer disarm_timer ssl_bio_write ssl_set_accept_state set_oracle].

Lemma set_out_same : forall s, set_out s (o_out s) = s.
Proof. intros []. reflexivity. Qed.
Lemma set_recv_same : forall s, set_recv s (o_recv s) = s.
Proof. intros []. reflexivity. Qed.

Lemma take_pos : forall n b (bs : str), 0 < n -> exists t, take n (b :: bs) = b :: t.
Proof. intros [|n] b bs H; [lia|]. simpl. eauto. Qed.

(* ---------- _flush_outgoing ---------- *)
Lemma flush_loop_S : forall f0 h kb n s a,
  gen_flush_outgoing_loop1 f0 h kb (S n) s a =
  if p_conn s then
    match ssl_bio_read s bio_piece with
    | (s1, inl pending) =>
        if negb (match pending with [] => false | _ => true end) then kb s1 a
        else if p_transport s1 then gen_flush_outgoing_loop1 f0 h kb n s1 (a ++ [PWrite pending])
             else h s1 a AttributeError
    | (s1, inr x) => h s1 a x
    end
  else h s a AttributeError.
Proof. reflexivity. Qed.

Lemma flush_fuel_S : forall f b bs,
  flush_fuel (S f) (b :: bs) = take bio_piece (b :: bs) :: flush_fuel f (drop bio_piece (b :: bs)).
Proof. reflexivity. Qed.

Lemma flush_fuel_enough : forall f1 f2 b, length b <= f1 -> length b <= f2 -> flush_fuel f1 b = flush_fuel f2 b.
Proof.
  induction f1 as [|f1 IH]; intros f2 b H1 H2.
  - destruct b; [|simpl in H1; lia]. destruct f2; reflexivity.
  - destruct b as [|x b]; [destruct f2; reflexivity|].
    destruct f2 as [|f2]; [simpl in H2; lia|].
    rewrite !flush_fuel_S. f_equal.
    pose proof Tls_proofs.bio_piece_pos.
    apply IH; rewrite drop_length; cbn [length] in *; lia.
Qed.

Lemma flush_cons : forall b bs,
  flush (b :: bs) = take bio_piece (b :: bs) :: flush (drop bio_piece (b :: bs)).
Proof.
  intros b bs. unfold flush. change (length (b :: bs)) with (S (length bs)). rewrite flush_fuel_S. f_equal.
  pose proof Tls_proofs.bio_piece_pos.
  apply flush_fuel_enough; rewrite ?drop_length; cbn [length]; lia.
Qed.

Lemma flush_loop_spec : forall f0 h kb n s a,
  p_conn s = true -> p_transport s = true -> length (o_out s) < n ->
  gen_flush_outgoing_loop1 f0 h kb n s a =
  h (set_out s []) (a ++ map PWrite (flush (o_out s))) WantReadError.
Proof.
  intros f0 h kb n. induction n as [|n IH]; intros s a Hc Ht Hn; [lia|].
  rewrite flush_loop_S, Hc. unfold ssl_bio_read.
  destruct (o_out s) as [|b bs] eqn:E.
  - replace (set_out s []) with s by (rewrite <- E; symmetry; apply set_out_same).
    unfold flush. cbn [length flush_fuel map]. rewrite app_nil_r. reflexivity.
  - destruct (take_pos bio_piece b bs Tls_proofs.bio_piece_pos) as [t Et].
    rewrite flush_cons. rewrite Et. cbn [negb]. sproj. rewrite Ht.
    rewrite IH; sproj; auto.
    + rewrite <- app_assoc. reflexivity.
    + rewrite drop_length. cbn [length] in *. pose proof Tls_proofs.bio_piece_pos. lia.
Qed.

Lemma flush_outgoing_tie : forall fuel s,
  p_conn s = true -> p_transport s = true -> length (o_out s) < fuel ->
  gen_flush_outgoing fuel s = (set_out s [], map PWrite (flush (o_out s)), None).
Proof.
  intros fuel s Hc Ht Hf. unfold gen_flush_outgoing. rewrite Hc, Ht. cbn [negb orb].
  rewrite flush_loop_spec by assumption. reflexivity.
Qed.

(* ---------- TLSTransportWrapper.write ---------- *)
Lemma wrapper_write_gen : forall fuel s d,
  p_conn s = true -> p_transport s = true ->
  length (o_out s ++ concat (map frame (sendall d))) < fuel ->
  gen_wrapper_write fuel s d =
  (set_out s [], map PWrite (flush (o_out s ++ concat (map frame (sendall d)))), None).
Proof.
  intros fuel s d Hc Ht Hf. unfold gen_wrapper_write. rewrite Hc. unfold ssl_sendall.
  rewrite flush_outgoing_tie by (sproj; assumption). reflexivity.
Qed.

Lemma wrapper_write_tie : forall fuel s d,
  p_conn s = true -> p_transport s = true -> o_out s = [] ->
  length (concat (map frame (sendall d))) < fuel ->
  gen_wrapper_write fuel s d = (s, map PWrite (wrapper_write d), None).
Proof.
  intros fuel s d Hc Ht Ho Hf. rewrite wrapper_write_gen by (rewrite ?Ho; assumption).
  rewrite Ho. cbn [app]. unfold wrapper_write. rewrite <- Ho, set_out_same. reflexivity.
Qed.

(* ---------- the two recv loops, for the answers the model knows ---------- *)
Lemma pending_loop_S : forall f0 h kb n s a,
  gen_process_pending_after_handshake_loop1 f0 h kb (S n) s a =
  if p_conn s then
    match ssl_recv s bio_piece with
    | (s1, inl d) =>
        if (match d with [] => false | _ => true end)
        then (if p_inner s1 then gen_process_pending_after_handshake_loop1 f0 h kb n s1 (a ++ [PInnerData d])
              else h s1 a AttributeError)
        else kb s1 a
    | (s1, inr x) => h s1 a x
    end
  else h s a AttributeError.
Proof. reflexivity. Qed.

Lemma pending_loop_spec : forall f0 h kb n s a,
  p_conn s = true -> p_inner s = true -> forallb plain_ans (o_recv s) = true -> length (o_recv s) < n ->
  gen_process_pending_after_handshake_loop1 f0 h kb n s a =
  h (set_recv s []) (a ++ map PInnerData (datas (o_recv s))) WantReadError.
Proof.
  intros f0 h kb n. induction n as [|n IH]; intros s a Hc Hi Hp Hn; [lia|].
  rewrite pending_loop_S, Hc. unfold ssl_recv.
  destruct (o_recv s) as [|x r] eqn:E.
  - replace (set_recv s []) with s by (rewrite <- E; symmetry; apply set_recv_same).
    cbn [datas map]. rewrite app_nil_r. reflexivity.
  - cbn [forallb] in Hp. apply andb_true_iff in Hp. destruct Hp as [Hx Hr].
    destruct x as [[|c d]| |]; try discriminate Hx.
    sproj. rewrite Hi. rewrite IH; sproj; auto.
    + cbn [datas map]. rewrite <- app_assoc. reflexivity.
    + cbn [length] in Hn. lia.
Qed.

Lemma appdata_loop_S : forall f0 h kb n s a,
  gen_process_application_data_loop1 f0 h kb (S n) s a =
  if p_conn s then
    match ssl_recv s bio_piece with
    | (s1, inl d) =>
        if (match d with [] => false | _ => true end) && p_inner s1
        then (if p_inner s1 then gen_process_application_data_loop1 f0 h kb n s1 (a ++ [PInnerData d])
              else h s1 a AttributeError)
        else gen_process_application_data_loop1 f0 h kb n s1 a
    | (s1, inr x) => h s1 a x
    end
  else h s a AttributeError.
Proof. reflexivity. Qed.

Lemma appdata_loop_spec : forall f0 h kb n s a,
  p_conn s = true -> p_inner s = true -> forallb plain_ans (o_recv s) = true -> length (o_recv s) < n ->
  gen_process_application_data_loop1 f0 h kb n s a =
  h (set_recv s []) (a ++ map PInnerData (datas (o_recv s))) WantReadError.
Proof.
  intros f0 h kb n. induction n as [|n IH]; intros s a Hc Hi Hp Hn; [lia|].
  rewrite appdata_loop_S, Hc. unfold ssl_recv.
  destruct (o_recv s) as [|x r] eqn:E.
  - replace (set_recv s []) with s by (rewrite <- E; symmetry; apply set_recv_same).
    cbn [datas map]. rewrite app_nil_r. reflexivity.
  - cbn [forallb] in Hp. apply andb_true_iff in Hp. destruct Hp as [Hx Hr].
    destruct x as [[|c d]| |]; try discriminate Hx.
    sproj. rewrite Hi. cbn [andb]. rewrite IH; sproj; auto.
    + cbn [datas map]. rewrite <- app_assoc. reflexivity.
    + cbn [length] in Hn. lia.
Qed.

(* ---------- the methods built on them ---------- *)
Lemma cancel_timer_spec : forall fuel s,
  gen_cancel_handshake_timer fuel s =
  (if p_timer s then upd_timer (disarm_timer s) false else s, [], None).
Proof. intros fuel s. unfold gen_cancel_handshake_timer. destruct (p_timer s); reflexivity. Qed.

Lemma close_with_error_spec : forall fuel s,
  p_transport s = true ->
  gen_close_with_error fuel s = (fst (tcp_close s), snd (tcp_close s), None).
Proof.
  intros fuel s Ht. unfold gen_close_with_error. rewrite Ht. destruct (tcp_close s). reflexivity.
Qed.

Lemma process_pending_spec : forall fuel s,
  p_conn s = true -> p_inner s = true -> p_transport s = true ->
  forallb plain_ans (o_recv s) = true -> length (o_recv s) < fuel -> length (o_out s) < fuel ->
  gen_process_pending_after_handshake fuel s =
  (set_out (set_recv s []) [], map PInnerData (datas (o_recv s)) ++ map PWrite (flush (o_out s)), None).
Proof.
  intros fuel s Hc Hi Ht Hp Hr Ho. unfold gen_process_pending_after_handshake.
  rewrite Hc, Hi. cbn [negb orb]. cbv zeta.
  rewrite pending_loop_spec by assumption. cbn [exc_match app].
  rewrite flush_outgoing_tie by (sproj; assumption). reflexivity.
Qed.

Lemma process_application_data_spec : forall fuel s,
  p_conn s = true -> p_inner s = true -> p_transport s = true ->
  forallb plain_ans (o_recv s) = true -> length (o_recv s) < fuel -> length (o_out s) < fuel ->
  gen_process_application_data fuel s =
  (set_out (set_recv s []) [], map PInnerData (datas (o_recv s)) ++ map PWrite (flush (o_out s)), None).
Proof.
  intros fuel s Hc Hi Ht Hp Hr Ho. unfold gen_process_application_data.
  rewrite Hc. cbn [negb]. cbv zeta.
  rewrite appdata_loop_spec by assumption. cbn [exc_match app].
  rewrite flush_outgoing_tie by (sproj; assumption). reflexivity.
Qed.

Lemma flush_nil : flush [] = [].
Proof. reflexivity. Qed.

Lemma initialize_spec : forall fuel s,
  p_conn s = true -> p_transport s = true ->
  forallb plain_ans (o_recv s) = true -> length (o_recv s) < fuel -> length (o_out s) < fuel ->
  gen_initialize_inner_protocol fuel s =
  (set_out (set_recv (upd_inner s true) []) [],
   PInnerMade :: map PWrite (flush (o_out s)) ++ map PInnerData (datas (o_recv s)), None).
Proof.
  intros fuel s Hc Ht Hp Hr Ho. unfold gen_initialize_inner_protocol.
  rewrite Hc. cbn [negb]. sproj.
  rewrite flush_outgoing_tie by (sproj; assumption). sproj.
  rewrite process_pending_spec by (sproj; cbn [length]; auto; lia). sproj.
  rewrite flush_nil. cbn [map app]. rewrite app_nil_r. reflexivity.
Qed.

(* ---------- abstraction of action lists ---------- *)
Lemma abs_acts_app : forall a1 a2, abs_acts (a1 ++ a2) = abs_acts a1 ++ abs_acts a2.
Proof. induction a1 as [|[] a1 IH]; intro a2; cbn [app abs_acts]; rewrite ?IH; reflexivity. Qed.
Lemma abs_acts_writes : forall w, abs_acts (map PWrite w) = [].
Proof. induction w; cbn [map abs_acts]; auto. Qed.
Lemma abs_acts_datas : forall l, abs_acts (map PInnerData l) = map TInnerData l.
Proof. induction l; cbn [map abs_acts]; congruence. Qed.
Lemma writes_app : forall a1 a2, writes (a1 ++ a2) = writes a1 ++ writes a2.
Proof. induction a1 as [|[] a1 IH]; intro a2; cbn [app writes]; rewrite ?IH; reflexivity. Qed.
Lemma writes_writes : forall w, writes (map PWrite w) = w.
Proof. induction w; cbn [map writes]; congruence. Qed.
Lemma writes_datas : forall l, writes (map PInnerData l) = [].
Proof. induction l; cbn [map writes]; auto. Qed.

(* ---------- the callbacks, dispatched as asyncio does ---------- *)
Ltac wf_record s :=
  let tr := fresh "tr" in let cl := fresh "cl" in let cn := fresh "cn" in let ac := fresh "ac" in
  let hc := fresh "hc" in let inn := fresh "inn" in let tm := fresh "tm" in let ar := fresh "ar" in
  let lo := fresh "lo" in
  destruct s as [tr cl cn ac hc inn tm ar lo ov ofl ore oo].

Ltac wf_solve := unfold wf; sproj; repeat split; intros; try reflexivity; try congruence; try discriminate.
Ltac abs_solve := unfold abs; sproj; cbn [app abs_acts]; rewrite ?abs_acts_app, ?abs_acts_writes, ?abs_acts_datas, ?app_nil_r;
                  unfold tstep; cbn [ph hs_timer inner snd fst]; try reflexivity.

(* one event, for every state satisfying the invariant: the callback ends normally, keeps the invariant, performs the
   model's actions and reaches the model's state (exactly if the connection was live; up to the timer flag of a dead
   connection otherwise) *)
Lemma step_char : forall fuel s e,
  wf s -> model_ev e = true -> ev_size e < fuel ->
  exists s' a,
    gen_step fuel s e = (s', a, None) /\ wf s' /\
    abs_acts a = snd (tstep (abs s) (abs_ev e)) /\
    teq (abs s') (fst (tstep (abs s) (abs_ev e))) /\
    (live s -> abs s' = fst (tstep (abs s) (abs_ev e))) /\
    (live s -> forall d v fl ans, e = PRead d v fl ans ->
       if p_hc s then writes a = [] /\ o_out s' = []
       else match v with
            | HsError => writes a = [] /\ o_out s' = fl      (* the flight of a failed handshake (the alert) is never sent *)
            | _ => writes a = flush fl /\ o_out s' = []
            end).
Proof.
  intros fuel s e Hwf He Hf.
  wf_record s. unfold wf, live in *. sproj. cbn [p_transport p_closing p_conn p_accept p_hc p_inner p_timer p_armed p_lost o_out] in *.
  destruct Hwf as (-> & -> & -> & -> & Harm & Hout & Hcl).
  unfold gen_step, loop_step. sproj.
  destruct lo.
  { (* after connection_lost *)
    eexists _, _. split; [reflexivity|]. split; [wf_solve; auto|].
    split; [abs_solve|]. split; [left; abs_solve|]. split; [intros [? ?]; discriminate|intros [? ?]; discriminate]. }
  destruct cl.
  { (* closed by the pump during the handshake *)
    rewrite (Hcl eq_refl eq_refl) in *. clear Hcl Harm Hout.
    destruct e as [d v fl ans| |].
    - eexists _, _. split; [reflexivity|]. split; [wf_solve|].
      split; [abs_solve|]. split; [left; abs_solve|]. split; intros [? ?]; discriminate.
    - destruct ar.
      + eexists _, _. split; [reflexivity|]. split; [wf_solve|].
        split; [abs_solve|]. split; [right; repeat split|]. split; intros [? ?]; discriminate.
      + eexists _, _. split; [reflexivity|]. split; [wf_solve|].
        split; [abs_solve|]. split; [left; abs_solve|]. split; intros [? ?]; discriminate.
    - destruct ar.
      + eexists _, _. split; [reflexivity|]. split; [wf_solve|].
        split; [abs_solve|]. split; [right; repeat split|]. split; intros [? ?]; discriminate.
      + eexists _, _. split; [reflexivity|]. split; [wf_solve|].
        split; [abs_solve|]. split; [left; abs_solve|]. split; intros [? ?]; discriminate. }
  rewrite (Hout eq_refl). clear Hout Hcl.
  destruct e as [d v fl ans| |].
  - cbn [model_ev ev_size abs_ev] in *. unfold gen_data_received. sproj. cbn [negb orb]. cbv zeta.
    destruct hc.
    + rewrite (Harm eq_refl). cbn [negb].
      rewrite process_application_data_spec by (sproj; cbn [length]; auto; lia). sproj. cbn [app].
      eexists _, _. split; [reflexivity|]. split; [wf_solve|].
      split; [abs_solve|]. split; [left; abs_solve|]. split; [intros _; abs_solve|].
      intros _ d0 v0 fl0 ans0 E. sproj. rewrite writes_app, writes_datas, writes_writes. split; reflexivity.
    + cbn [negb]. unfold gen_do_handshake. sproj. cbn [negb]. cbv zeta. unfold ssl_do_handshake. sproj. cbn [app].
      destruct v.
      * cbn [exc_match]. rewrite flush_outgoing_tie by (sproj; auto; lia). sproj. cbn [app].
        eexists _, _. split; [reflexivity|]. split; [wf_solve|].
        split; [abs_solve|]. split; [left; abs_solve|]. split; [intros _; abs_solve|].
        intros _ d0 v0 fl0 ans0 E. inversion E; subst. sproj. rewrite writes_writes. split; reflexivity.
      * rewrite cancel_timer_spec. sproj.
        assert (Hinit : forall s0, p_conn s0 = true -> p_transport s0 = true -> o_recv s0 = ans -> o_out s0 = fl ->
                  gen_initialize_inner_protocol fuel s0 =
                  (set_out (set_recv (upd_inner s0 true) []) [],
                   PInnerMade :: map PWrite (flush fl) ++ map PInnerData (datas ans), None)).
        { intros s0 H1 H2 H3 H4. rewrite initialize_spec; rewrite ?H3, ?H4; auto; lia. }
        destruct ar; (rewrite Hinit by reflexivity); sproj; cbn [app];
          (eexists _, _; split; [reflexivity|]; split; [wf_solve|];
           split; [abs_solve|]; split; [left; abs_solve|]; split; [intros _; abs_solve|];
           intros _ d0 v0 fl0 ans0 E; inversion E; subst; sproj; cbn [writes];
           rewrite writes_app, writes_datas, writes_writes, app_nil_r; split; reflexivity).
      * cbn [exc_match]. rewrite close_with_error_spec by reflexivity. unfold tcp_close. sproj. cbn [fst snd app].
        eexists _, _. split; [reflexivity|]. split; [wf_solve|].
        split; [abs_solve|]. split; [left; abs_solve|]. split; [intros _; abs_solve|].
        intros _ d0 v0 fl0 ans0 E. inversion E; subst. sproj. split; reflexivity.
  - destruct hc; [rewrite (Harm eq_refl)|destruct ar];
      (eexists _, _; split; [reflexivity|]; split; [wf_solve|];
       split; [abs_solve|]; split; [left; abs_solve|]; split; [intros _; abs_solve|intros _ ? ? ? ? E; discriminate E]).
  - destruct hc; [rewrite (Harm eq_refl)|destruct ar];
      (eexists _, _; split; [reflexivity|]; split; [wf_solve|];
       split; [abs_solve|]; split; [left; abs_solve|]; split; [intros _; abs_solve|intros _ ? ? ? ? E; discriminate E]).
Qed.

Theorem tstep_tie : forall fuel s e,
  wf s -> live s -> model_ev e = true -> ev_size e < fuel ->
  abs_res (gen_step fuel s e) = Some (tstep (abs s) (abs_ev e)).
Proof.
  intros fuel s e Hwf Hl He Hf.
  destruct (step_char fuel s e Hwf He Hf) as (s' & a & E & _ & Ha & _ & Hs & _).
  rewrite E. unfold abs_res. rewrite Ha, (Hs Hl). destruct (tstep (abs s) (abs_ev e)). reflexivity.
Qed.

(* ---------- runs ---------- *)
Lemma teq_refl : forall t, teq t t.
Proof. intro t. left. reflexivity. Qed.

Lemma tstep_teq : forall t1 t2 e, teq t1 t2 ->
  snd (tstep t1 e) = snd (tstep t2 e) /\ teq (fst (tstep t1 e)) (fst (tstep t2 e)).
Proof.
  intros t1 t2 e [->|(H1 & H2 & H3)]; [split; [reflexivity|apply teq_refl]|].
  unfold tstep. rewrite H1, H2. cbn [fst snd]. split; [reflexivity|]. right. auto.
Qed.

Lemma teq_trans_l : forall t1 t2 t3, teq t1 t2 -> teq t2 t3 -> teq t1 t3.
Proof.
  intros t1 t2 t3 [->|(H1 & H2 & H3)] [->|(H4 & H5 & H6)]; [left; reflexivity|right; auto|right; auto|].
  right. repeat split; congruence.
Qed.

Lemma trun_cons : forall s e r,
  trun s (e :: r) = (fst (trun (fst (tstep s e)) r), snd (tstep s e) ++ snd (trun (fst (tstep s e)) r)).
Proof.
  intros s e r. cbn [trun]. destruct (tstep s e) as [s1 a]. cbn [fst snd].
  destruct (trun s1 r) as [s2 b]. reflexivity.
Qed.

Lemma trun_tie_gen : forall fuel evs s t,
  wf s -> teq (abs s) t -> forallb model_ev evs = true -> Forall (fun e => ev_size e < fuel) evs ->
  exists s' a,
    gen_run fuel s evs = (s', a, None) /\ wf s' /\
    abs_acts a = snd (trun t (map abs_ev evs)) /\ teq (abs s') (fst (trun t (map abs_ev evs))).
Proof.
  intros fuel evs. induction evs as [|e r IH]; intros s t Hwf Ht Hm Hf.
  - exists s, []. cbn [map trun fst snd abs_acts]. repeat split; auto; apply Hwf.
  - cbn [forallb] in Hm. apply andb_true_iff in Hm. destruct Hm as [He Hr]. inversion Hf as [|? ? Hfe Hfr]; subst.
    destruct (step_char fuel s e Hwf He Hfe) as (s1 & a1 & E1 & Hwf1 & Ha1 & Ht1 & _).
    destruct (tstep_teq (abs s) t (abs_ev e) Ht) as [Hsnd Hfst].
    destruct (IH s1 (fst (tstep t (abs_ev e))) Hwf1 (teq_trans_l _ _ _ Ht1 Hfst) Hr Hfr) as (s2 & a2 & E2 & Hwf2 & Ha2 & Ht2).
    exists s2, (a1 ++ a2). cbn [map]. rewrite trun_cons. cbn [fst snd].
    split; [|split; [exact Hwf2|split; [|exact Ht2]]].
    + unfold gen_run in *. cbn [loop_run]. unfold gen_step in E1. rewrite E1, E2. reflexivity.
    + rewrite abs_acts_app, Ha1, Ha2, Hsnd. reflexivity.
Qed.

Lemma cinit_wf : wf cinit.
Proof. wf_solve. Qed.
Lemma cinit_abs : abs cinit = tinit.
Proof. reflexivity. Qed.

(* a whole connection, from connection_made on: the code's trace of inner-protocol calls and TCP closes is the model's *)
Theorem trun_tie : forall fuel evs,
  forallb model_ev evs = true -> Forall (fun e => ev_size e < fuel) evs ->
  exists s' a,
    gen_run fuel cinit evs = (s', a, None) /\ wf s' /\
    abs_acts a = snd (trun tinit (map abs_ev evs)) /\ teq (abs s') (fst (trun tinit (map abs_ev evs))).
Proof.
  intros fuel evs Hm Hf. rewrite <- cinit_abs.
  apply trun_tie_gen; auto. apply cinit_wf. apply teq_refl.
Qed.

(* ---------- __init__, connection_made ---------- *)
Lemma init_tie : forall fuel, gen_init fuel blank = (blank, [], None).
Proof. reflexivity. Qed.
Lemma connection_made_tie : forall fuel, gen_connection_made fuel blank = (cinit, [], None).
Proof. reflexivity. Qed.
Lemma handshake_timeout_value : gen_handshake_timeout_ms = 30000%N.
Proof. reflexivity. Qed.

(* ---------- the per-event forms of tstep_tie ---------- *)
Lemma handshake_flight : forall fuel s d v fl ans,
  wf s -> live s -> p_hc s = false -> forallb plain_ans ans = true -> length fl + length ans < fuel ->
  exists s' a, gen_step fuel s (PRead d v fl ans) = (s', a, None) /\
    match v with
    | HsError => writes a = [] /\ o_out s' = fl
    | _ => writes a = flush fl /\ o_out s' = []
    end.
Proof.
  intros fuel s d v fl ans Hwf Hl Hh Hp Hf.
  destruct (step_char fuel s (PRead d v fl ans) Hwf Hp Hf) as (s' & a & E & _ & _ & _ & _ & Hw).
  exists s', a. split; [exact E|]. specialize (Hw Hl d v fl ans eq_refl). rewrite Hh in Hw. exact Hw.
Qed.

(* ---------- the rest of TLSTransportWrapper ---------- *)
Lemma wrapper_is_closing_spec : forall s, p_transport s = true -> gen_wrapper_is_closing s = inl (p_closing s).
Proof. intros s H. unfold gen_wrapper_is_closing. rewrite H. reflexivity. Qed.
Lemma wrapper_is_closing_unset : forall s, p_transport s = false -> gen_wrapper_is_closing s = inl true.
Proof. intros s H. unfold gen_wrapper_is_closing. rewrite H. reflexivity. Qed.

Lemma wrapper_close_spec : forall fuel s,
  p_conn s = true -> p_transport s = true -> p_hc s = true -> p_closing s = false ->
  length (o_out s ++ frame [1; 0]%N) < fuel ->
  gen_wrapper_close fuel s =
  (upd_closing (set_out s []) true, map PWrite (flush (o_out s ++ frame [1; 0]%N)) ++ [PClose], None).
Proof.
  intros fuel s Hc Ht Hh Hcl Hf. unfold gen_wrapper_close. rewrite Hc. cbv zeta. unfold ssl_shutdown. rewrite Hh.
  rewrite flush_outgoing_tie by (sproj; assumption). sproj. rewrite Ht. unfold tcp_close. sproj. rewrite Hcl.
  reflexivity.
Qed.

(* ---------- beyond the model: recv() answering ZeroReturnError / Error on an established connection ---------- *)
Definition exc_of (x : recv_ans) : exc := match x with RZeroReturn => ZeroReturnError | _ => SslError end.

Lemma appdata_loop_stop : forall f0 h kb pre x post n s a,
  p_conn s = true -> p_inner s = true -> forallb plain_ans pre = true -> (x = RZeroReturn \/ x = RError) ->
  o_recv s = pre ++ x :: post -> length pre < n ->
  gen_process_application_data_loop1 f0 h kb n s a =
  h (set_recv s post) (a ++ map PInnerData (datas pre)) (exc_of x).
Proof.
  intros f0 h kb pre x post. induction pre as [|y pre IH]; intros n s a Hc Hi Hp Hx Hr Hn.
  - destruct n as [|n]; [cbn [length] in Hn; lia|].
    rewrite appdata_loop_S, Hc. unfold ssl_recv. rewrite Hr. cbn [app datas map]. rewrite app_nil_r.
    destruct Hx as [-> | ->]; reflexivity.
  - destruct n as [|n]; [cbn [length] in Hn; lia|].
    cbn [forallb] in Hp. apply andb_true_iff in Hp. destruct Hp as [Hy Hp].
    destruct y as [[|c d]| |]; try discriminate Hy.
    rewrite appdata_loop_S, Hc. unfold ssl_recv. rewrite Hr. cbn [app]. sproj. rewrite Hi. cbn [andb].
    rewrite (IH n); sproj; auto.
    + cbn [datas map]. rewrite <- app_assoc. reflexivity.
    + cbn [length] in Hn. lia.
Qed.

(* the peer's close_notify: the plaintext before it is delivered, then the inner protocol is told the connection is
   lost and the TCP transport is closed *)
Lemma established_zero_return : forall fuel s d v fl pre post,
  wf s -> live s -> p_hc s = true -> forallb plain_ans pre = true -> length pre < fuel ->
  exists s', gen_step fuel s (PRead d v fl (pre ++ RZeroReturn :: post)) =
             (s', map PInnerData (datas pre) ++ [PInnerLost; PClose], None) /\ p_closing s' = true.
Proof.
  intros fuel s d v fl pre post Hwf [Hl Hcl] Hh Hp Hf.
  wf_record s. unfold wf in *. cbn [p_transport p_closing p_conn p_accept p_hc p_inner p_timer p_armed p_lost o_out] in *.
  destruct Hwf as (-> & -> & -> & -> & Harm & Hout & _). subst. rewrite (Hout eq_refl), (Harm eq_refl).
  unfold gen_step, loop_step. sproj. unfold gen_data_received. sproj. cbn [negb orb]. cbv zeta.
  unfold gen_process_application_data. sproj. cbn [negb]. cbv zeta.
  rewrite (appdata_loop_stop _ _ _ pre RZeroReturn post) by (sproj; auto).
  cbn [exc_of exc_match app]. unfold gen_handle_close. sproj. unfold tcp_close. sproj.
  rewrite flush_outgoing_tie by (sproj; cbn [length]; auto; lia). sproj. rewrite flush_nil. cbn [map app].
  rewrite ?app_nil_r. eexists. split; reflexivity.
Qed.

(* a failing SSL_read: the exception leaves _process_application_data and data_received closes the TCP transport;
   nothing is flushed, the inner protocol is not told (it will be, by connection_lost) *)
Lemma established_recv_error : forall fuel s d v fl pre post,
  wf s -> live s -> p_hc s = true -> forallb plain_ans pre = true -> length pre < fuel ->
  exists s', gen_step fuel s (PRead d v fl (pre ++ RError :: post)) =
             (s', map PInnerData (datas pre) ++ [PClose], None) /\ p_closing s' = true.
Proof.
  intros fuel s d v fl pre post Hwf [Hl Hcl] Hh Hp Hf.
  wf_record s. unfold wf in *. cbn [p_transport p_closing p_conn p_accept p_hc p_inner p_timer p_armed p_lost o_out] in *.
  destruct Hwf as (-> & -> & -> & -> & Harm & Hout & _). subst. rewrite (Hout eq_refl), (Harm eq_refl).
  unfold gen_step, loop_step. sproj. unfold gen_data_received. sproj. cbn [negb orb]. cbv zeta.
  unfold gen_process_application_data. sproj. cbn [negb]. cbv zeta.
  rewrite (appdata_loop_stop _ _ _ pre RError post) by (sproj; auto).
  cbn [exc_of exc_match app]. rewrite close_with_error_spec by reflexivity. unfold tcp_close. sproj. cbn [fst snd].
  eexists. split; reflexivity.
Qed.

(* ---------- concrete runs: where the unrestricted statements fail, and what the model does not show ---------- *)
(* a connection whose handshake has just failed: closing, the timer still armed, the alert still in the BIO *)
Definition failed_hs : pst := fst (fst (gen_step 5 cinit (PRead [] HsError [21; 3; 3; 0; 2; 2; 70]%N []))).
(* an established connection *)
Definition established : pst := fst (fst (gen_step 5 cinit (PRead [] HsDone [] []))).

Lemma failed_hs_wf : wf failed_hs.
Proof. vm_compute. repeat split; intros; try reflexivity; discriminate. Qed.

(* tstep_tie without `live`: the timer of a connection that the pump has closed still fires; the code clears it (and
   calls transport.close() again), the model's Dead state keeps its flag *)
Lemma tstep_tie_dead_counterexample :
  gen_step 5 failed_hs PTimer = (upd_timer (upd_armed failed_hs false) false, [PCloseAgain], None) /\
  abs_res (gen_step 5 failed_hs PTimer) = Some ({| ph := Dead; hs_timer := false; inner := false |}, []) /\
  tstep (abs failed_hs) (abs_ev PTimer) = ({| ph := Dead; hs_timer := true; inner := false |}, []).
Proof. vm_compute. repeat split. Qed.

(* tstep_tie without `model_ev`: an empty plaintext slice (which SSL_read never yields) would be forwarded by the
   model; the code stops reading at it (after the handshake) or skips it (established) *)
Lemma tstep_tie_empty_slice_counterexample :
  abs_res (gen_step 5 cinit (PRead [] HsDone [] [RData []; RData [65]%N])) =
    Some ({| ph := Established; hs_timer := false; inner := true |}, [TInnerMade]) /\
  tstep (abs cinit) (abs_ev (PRead [] HsDone [] [RData []; RData [65]%N])) =
    ({| ph := Established; hs_timer := false; inner := true |}, [TInnerMade; TInnerData []; TInnerData [65]%N]) /\
  abs_res (gen_step 5 established (PRead [] WantRead [] [RData []; RData [65]%N])) =
    Some ({| ph := Established; hs_timer := false; inner := true |}, [TInnerData [65]%N]).
Proof. vm_compute. repeat split. Qed.

(* not in the model: after the peer's close_notify the inner protocol's connection_lost is called by _handle_close and
   again when the TCP connection_lost arrives *)
Lemma close_notify_double_lost :
  snd (fst (gen_run 5 established [PRead [] WantRead [] [RData [65]%N; RZeroReturn]; PLost])) =
  [PInnerData [65]%N; PInnerLost; PClose; PInnerLost].
Proof. vm_compute. reflexivity. Qed.

Print Assumptions flush_outgoing_tie.
Print Assumptions wrapper_write_tie.
Print Assumptions tstep_tie.
Print Assumptions step_char.
Print Assumptions trun_tie.
Print Assumptions established_zero_return.
Print Assumptions established_recv_error.
