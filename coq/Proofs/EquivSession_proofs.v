(* Proofs of the statements of Equiv/EquivSession.v: the whole control flow of GeminiClient._get_single / upload
   (Gen/SessionGen.v, regenerated from client/session.py on every run by translate/py2coq_session.py) against
   Model/Session.v.  The proofs never mention a generated local name. *)
From Coq Require Import List NArith ZArith Bool Lia.
From NV Require Import Prelude.Str Prelude.Res Prelude.Utf8 Model.Tofu Model.ClientProto Model.Session Equiv.TofuGlue Equiv.SessionGlue
                       Gen.TofuGen Gen.SessionGen.
From NV Require Model.Url Spec.C11 Spec.C13 Proofs.EquivTofu_proofs Proofs.C13_proofs Proofs.Tofu_proofs.
Import ListNotations.
Open Scope list_scope.

Definition TE : str := lit "TimeoutError".
Definition CE : str := lit "ConnectionError".
Definition OSE : str := lit "OSError".

(* ---------- observation functions over ++ and over the writes of the request ---------- *)
Lemma gevents_writes req : gevents (map CWrite req) = map GWrite req.
Proof. unfold gevents. rewrite map_map. reflexivity. Qed.
Lemma escaped_writes req : escaped (map CWrite req) = None.
Proof. unfold escaped. induction req as [|b r IH]; [reflexivity|]. cbn [map find]. exact IH. Qed.
Lemma closes_app a b : closes (a ++ b) = closes a + closes b.
Proof. unfold closes. rewrite filter_app, app_length. reflexivity. Qed.
Lemma closes_gevents a : closes (gevents a) = 0.
Proof. unfold closes, gevents. induction a as [|x a IH]; [reflexivity|]. destruct x; exact IH. Qed.
Lemma closes_writes req : closes (map GWrite req) = 0.
Proof. rewrite <- gevents_writes. apply closes_gevents. Qed.
Lemma sview_app a b : sview (a ++ b) = sview a ++ sview b.
Proof. unfold sview. apply flat_map_app. Qed.
Lemma sview_writes req : sview (map GWrite req) = map SWrite req.
Proof. induction req as [|b r IH]; [reflexivity|]. cbn [map]. change (sview (GWrite b :: map GWrite r)) with (SWrite b :: sview (map GWrite r)). now rewrite IH. Qed.

(* ---------- GeminiClient.__init__ ---------- *)
Lemma init_tie : forall to mr c v t d,
  gen_init to mr c v t d = {| cfg_timeout := to; cfg_max_redirects := mr; cfg_verify_ssl := v; cfg_trust_on_first_use := t;
                              cfg_tofu_db := if t then Some tt else None;
                              cfg_ssl_context := match c with Some i => CtxGiven i | None => CtxCreated v v end;
                              cfg_decode_bodies := d |}.
Proof. intros to mr [i|] v t d; destruct t, v; reflexivity. Qed.

Lemma init_defaults :
  gen_init_default_timeout = QArith_base.Qmake 30 1 /\ gen_init_default_max_redirects = gen_MAX_REDIRECTS /\ gen_MAX_REDIRECTS = 5 /\
  gen_init_default_ssl_context = None /\ gen_init_default_verify_ssl = false /\ gen_init_default_trust_on_first_use = true /\
  gen_init_default_decode_bodies = true.
Proof. repeat split; reflexivity. Qed.

(* ---------- GeminiClient.get ---------- *)
Lemma get_tie {A : Type} : forall vu pu (gwr : str -> nat -> option (list str) -> res A) gs to mr c v t d url follow,
  gen_get vu pu gwr gs (gen_init to mr c v t d) url follow
  = match vu url with
    | Ok _ => match pu url with
              | Ok pr => match vu (Url.p_norm pr) with
                         | Ok _ => if follow then gwr url mr None else gs url
                         | Err k m => Err k m | OutOfModel => OutOfModel
                         end
              | Err k m => Err k m | OutOfModel => OutOfModel
              end
    | Err k m => Err k m | OutOfModel => OutOfModel
    end.
Proof. intros. rewrite init_tie. destruct follow; reflexivity. Qed.

Arguments catches : simpl never.

(* ---------- evaluation of `except C` on exceptions whose class is known ---------- *)
Ltac conc :=
  repeat match goal with
  | |- context [catches gen_exc_bases ?e ?t] =>
      let r := eval vm_compute in (catches gen_exc_bases e t) in
      match r with
      | true => change (catches gen_exc_bases e t) with true
      | false => change (catches gen_exc_bases e t) with false
      end
  end.
Ltac fin := cbn [fst snd]; rewrite <- ?app_assoc; cbn [app]; reflexivity.
Ltac norm := rewrite ?gevents_writes, ?escaped_writes, <- ?app_assoc; cbn [app fst snd].
Ltac split_all :=
  repeat match goal with
  | |- context [match ?x with _ => _ end] => destruct x eqn:?
  | |- context [if ?x then _ else _] => destruct x eqn:?
  end.

(* ---------- the flow of one call on a connection that was made: what the generated function computes, written out ---------- *)
Definition st_conn : cst := {| cbuf := []; hdr := false; status := None; meta := []; cfut := Pending; connected := true |}.

(* from the await of the response on *)
Definition wait_out (wo : wait_outcome) : outcome * list gevent :=
  match wo with
  | WResult r => (Returned r, [GWait; GClose])
  | WExc k => if catches gen_exc_bases (XFuture k) TE
              then (Raised (XNewFrom TE (XFuture k)), [GWait; GRaise (XFuture k); GRaise (XNewFrom TE (XFuture k)); GClose])
              else (Raised (XFuture k), [GWait; GRaise (XFuture k); GClose])
  | WTimeout => (Raised (XNewFrom TE (XLib TE)), [GWait; GRaise (XLib TE); GRaise (XNewFrom TE (XLib TE)); GClose])
  end.

Definition expected (request : list str) (t db : bool) (ctx : sslctx) (h : str) (p : N) (s : store) (c : option str) (now : str)
                    (w : mproto -> wait_outcome) : store * outcome * list gevent :=
  let wo := w {| mp_soc := negb t; mp_db := db; mp_st := st_conn |} in
  let pre := [GProto (negb t); GConnect ctx h p h] in
  if t then
    match c with
    | None => (s, Raised (XNew CE), pre ++ [GCert None; GRaise (XNew CE); GClose])
    | Some fp =>
        match fst (verify s h p fp) with
        | VChanged old => (s, Raised (XChanged h p old fp),
                           pre ++ [GCert (Some fp); GVerify (false, lit "changed"); GRaise (XChanged h p old fp); GClose])
        | VMatch => (s, fst (wait_out wo), pre ++ [GCert (Some fp); GVerify (true, lit ""); GSend] ++ map GWrite request ++ snd (wait_out wo))
        | VFirstUse => (finish s (trust_stmts s h p fp now) true, fst (wait_out wo),
                        pre ++ [GCert (Some fp); GVerify (true, lit "first_use"); GTrust; GSend] ++ map GWrite request ++ snd (wait_out wo))
        end
    end
  else (s, fst (wait_out wo), pre ++ map GWrite request ++ snd (wait_out wo)).

Section Flow.
Variables (request : list str) (cap : N) (dw : str -> str -> option str) (now : str).

(* the generated function with the generated TOFUDatabase methods and the model's client protocol *)
Definition code_get_single pu np w :=
  gen_get_single pu (fun s h p c => gen_verify s h p c now) gen_get_host_info (fun s h p c => gen_trust s h p c now)
    np (m_step request cap dw CConnected) (m_step request cap dw CSend) w.
Definition code_upload rp pu w :=
  gen_upload rp pu (fun s h p c => gen_verify s h p c now) gen_get_host_info (fun s h p c => gen_trust s h p c now)
    m_new_titan (m_step request cap dw CConnected) (m_step request cap dw CSend) w.

Lemma flow pu np dbp url pr t v ctx db to mr s c w :
  (forall u soc, np u db soc = {| mp_soc := soc; mp_db := dbp; mp_st := cinit |}) ->
  pu url = Ok pr ->
  code_get_single pu np w (gen_init to mr ctx v t db) s url ConnOk c
  = expected request t dbp (cfg_ssl_context (gen_init to mr ctx v t db)) (Url.p_host pr) (Url.p_port pr) s c now w.
Proof.
  intros Hnp Hp. unfold code_get_single, gen_get_single. rewrite Hp.
  set (h := Url.p_host pr). set (p := Url.p_port pr).
  unfold expected.
  destruct t; cbn -[catches gen_verify gen_get_host_info gen_trust wait_out verify]; rewrite Hnp;
    cbn -[catches gen_verify gen_get_host_info gen_trust wait_out verify].
  - destruct c as [fp|]; [|conc; reflexivity].
    rewrite EquivTofu_proofs.verify_tie. unfold verify.
    destruct (lookup s h p) as [r|] eqn:L; [destruct (eqb (r_fp r) fp) eqn:E|];
      cbn -[catches gen_get_host_info gen_trust wait_out].
    + norm. destruct (w _) as [r0|k|]; cbn -[catches]; [fin| |conc; fin].
      destruct (catches gen_exc_bases (XFuture k) _); fin.
    + rewrite EquivTofu_proofs.get_host_info_tie. cbn -[catches]. rewrite L. conc. reflexivity.
    + rewrite EquivTofu_proofs.trust_tie. cbn -[catches wait_out trust_stmts finish]. norm.
      destruct (w _) as [r0|k|]; cbn -[catches trust_stmts finish]; [fin| |conc; fin].
      destruct (catches gen_exc_bases (XFuture k) _); fin.
  - norm. destruct (w _) as [r0|k|]; cbn -[catches]; [fin| |conc; fin].
    destruct (catches gen_exc_bases (XFuture k) _); fin.
Qed.

Lemma deliver_done db chunks exc :
  cfut (Spec.C13.deliver db cap dw st_conn chunks exc) = Done (Spec.C13.spec_result db cap dw (concat chunks) exc).
Proof. apply (C13_proofs.deliver_spec db cap dw chunks st_conn [] exc). left. repeat split; reflexivity. Qed.

Lemma session_call_nf db t s h p c chunks exc :
  session_call request db cap dw t s h p c now chunks exc =
  let res := CallResult (Spec.C13.spec_result db cap dw (concat chunks) exc) in
  if t then match tofu_check s h p c now with
            | (s', SAccepted) => (s', res, SVerified SAccepted :: map SWrite request)
            | (s', SChanged o n) => (s', CallChanged o n, [SVerified (SChanged o n)])
            | (s', SRefused) => (s', CallRefused, [SVerified SRefused])
            end
  else (s, res, map SWrite request).
Proof.
  unfold session_call. cbn [cstep cinit connected cbuf hdr status meta cfut].
  change {| cbuf := []; hdr := false; status := None; meta := []; cfut := Pending; connected := true |} with st_conn.
  rewrite deliver_done, Tofu_proofs.writes_of_map.
  destruct t; [destruct (tofu_check s h p c now) as [s' [| |]]|]; reflexivity.
Qed.

Lemma tie_of_flow t db ctx h p s c chunks exc :
  model_view (expected request t db ctx h p s c now (m_wait cap dw chunks exc))
  = Some (session_call request db cap dw t s h p (presented_of c) now chunks exc).
Proof.
  rewrite session_call_nf. unfold expected, m_wait. cbn [mp_db mp_st negb]. rewrite deliver_done.
  set (sp := Spec.C13.spec_result db cap dw (concat chunks) exc).
  assert (TV : forall s' pre (mid : list sevent),
            sview pre = mid ->
            model_view (s', fst (wait_out (match sp with ROk r => WResult r | RErr k => WExc k end)),
                        pre ++ map GWrite request ++ snd (wait_out (match sp with ROk r => WResult r | RErr k => WExc k end)))
            = Some (s', CallResult sp, mid ++ map SWrite request)).
  { intros s' pre mid <-. destruct sp as [r|k]; unfold wait_out; [|destruct (catches gen_exc_bases (XFuture k) TE)];
      cbn -[sview]; rewrite !sview_app, sview_writes; cbn; rewrite app_nil_r; reflexivity. }
  cbv zeta. destruct t.
  - destruct c as [fp|]; cbn [presented_of tofu_check]; [|reflexivity].
    destruct (verify s h p fp) as [[| |old] l]; cbn [fst snd].
    + rewrite (app_assoc _ _ (map GWrite request ++ _)). match goal with |- model_view (_, _, ?a ++ _) = _ => rewrite (TV _ a [SVerified SAccepted] eq_refl) end; reflexivity.
    + rewrite (app_assoc _ _ (map GWrite request ++ _)). match goal with |- model_view (_, _, ?a ++ _) = _ => rewrite (TV _ a [SVerified SAccepted] eq_refl) end; reflexivity.
    + reflexivity.
  - match goal with |- model_view (_, _, ?a ++ _) = _ => rewrite (TV _ a [] eq_refl) end; reflexivity.
Qed.
End Flow.

(* ---------- the ties to Model.Session.session_call ---------- *)
Lemma get_single_tie : forall request cap dw now pu url pr t v ctx db to mr s c chunks exc,
  pu url = Ok pr ->
  model_view (gen_get_single pu (fun s h p c => gen_verify s h p c now) gen_get_host_info (fun s h p c => gen_trust s h p c now)
                m_new (m_step request cap dw CConnected) (m_step request cap dw CSend) (m_wait cap dw chunks exc)
                (gen_init to mr ctx v t db) s url ConnOk c)
  = Some (session_call request db cap dw t s (Url.p_host pr) (Url.p_port pr) (presented_of c) now chunks exc).
Proof.
  intros. fold (code_get_single request cap dw now pu m_new (m_wait cap dw chunks exc)).
  rewrite (flow request cap dw now pu m_new db url pr); [apply tie_of_flow|reflexivity|assumption].
Qed.

(* upload = _get_single on the converted URL with the Titan protocol object, once its first statements succeed *)
Lemma upload_reduces {P : Type} : forall rp pu V G T (np : str -> str -> bool -> P) cm sr w cfg s url content mime token conn c cb base,
  content_bytes content = Some cb -> titan_base url = Some base ->
  gen_upload rp pu V G T np cm sr w cfg s url content mime token conn c
  = gen_get_single (fun _ => pu (rp base (lit "titan://") (lit "gemini://"))) V G T
      (fun _ _ soc => np (titan_url base cb mime token) cb soc) cm sr w cfg s url conn c.
Proof.
  intros rp pu V G T np cm sr w cfg s url content mime token conn c cb base Hc Hb.
  unfold gen_upload, gen_get_single, titan_base, content_bytes in *.
  destruct content as [x|x]; [rewrite Hc|injection Hc as ->];
  (destruct (prefixb (lit "gemini://") url); [injection Hb as <-|destruct (prefixb (lit "titan://") url); [injection Hb as <-|discriminate]]);
  destruct token as [[|]|]; reflexivity.
Qed.

Lemma upload_unencodable {P : Type} : forall rp pu V G T (np : str -> str -> bool -> P) cm sr w cfg s url x mime token conn c,
  encode x = None ->
  gen_upload rp pu V G T np cm sr w cfg s url (PStr x) mime token conn c
  = (s, Raised (XLib (lit "UnicodeEncodeError")), [GRaise (XLib (lit "UnicodeEncodeError"))]).
Proof. intros. unfold gen_upload. rewrite H. reflexivity. Qed.

Lemma upload_bad_scheme {P : Type} : forall rp pu V G T (np : str -> str -> bool -> P) cm sr w cfg s url content mime token conn c cb,
  content_bytes content = Some cb -> titan_base url = None ->
  gen_upload rp pu V G T np cm sr w cfg s url content mime token conn c
  = (s, Raised (XNew (lit "ValueError")), [GRaise (XNew (lit "ValueError"))]).
Proof.
  intros rp pu V G T np cm sr w cfg s url content mime token conn c cb Hc Hb.
  unfold gen_upload, titan_base, content_bytes in *.
  destruct content as [x|x]; [rewrite Hc|];
  (destruct (prefixb (lit "gemini://") url); [discriminate|destruct (prefixb (lit "titan://") url); [discriminate|reflexivity]]).
Qed.

Lemma upload_tie : forall request cap dw now rp pu url content mime token cb base pr t v ctx db to mr s c chunks exc,
  content_bytes content = Some cb -> titan_base url = Some base -> pu (rp base (lit "titan://") (lit "gemini://")) = Ok pr ->
  model_view (gen_upload rp pu (fun s h p c => gen_verify s h p c now) gen_get_host_info (fun s h p c => gen_trust s h p c now)
                m_new_titan (m_step request cap dw CConnected) (m_step request cap dw CSend) (m_wait cap dw chunks exc)
                (gen_init to mr ctx v t db) s url content mime token ConnOk c)
  = Some (session_call request true cap dw t s (Url.p_host pr) (Url.p_port pr) (presented_of c) now chunks exc).
Proof.
  intros request cap dw now rp pu url content mime token cb base pr t v ctx db to mr s c chunks exc Hc Hb Hp.
  rewrite (upload_reduces _ _ _ _ _ _ _ _ _ _ _ _ _ _ _ _ _ cb base Hc Hb).
  match goal with |- model_view (gen_get_single ?pu' _ _ _ ?np _ _ ?w _ _ _ _ _) = _ =>
    change (model_view (code_get_single request cap dw now pu' np w (gen_init to mr ctx v t db) s url ConnOk c) = 
            Some (session_call request true cap dw t s (Url.p_host pr) (Url.p_port pr) (presented_of c) now chunks exc));
    rewrite (flow request cap dw now pu' np true url pr); [apply tie_of_flow|reflexivity|exact Hp] end.
Qed.

(* ---------- what the model lacks: failure of the connection, and the `finally` ---------- *)
(* nothing but the two raises happens: no TOFU access, no write, no close (there is no transport) *)
Lemma get_single_connect_failure {P : Type} : forall pu V G T (np : str -> bool -> bool -> P) cm sr w cfg s url pr cls c,
  pu url = Ok pr ->
  gen_get_single pu V G T np cm sr w cfg s url (ConnFail cls) c
  = let pre := [GProto (match cfg_tofu_db cfg with None => true | Some _ => false end);
                GConnect (cfg_ssl_context cfg) (Url.p_host pr) (Url.p_port pr) (Url.p_host pr); GRaise (XLib cls)] in
    if catches gen_exc_bases (XLib cls) TE then (s, Raised (XNewFrom TE (XLib cls)), pre ++ [GRaise (XNewFrom TE (XLib cls))])
    else if catches gen_exc_bases (XLib cls) OSE then (s, Raised (XNewFrom CE (XLib cls)), pre ++ [GRaise (XNewFrom CE (XLib cls))])
    else (s, Raised (XLib cls), pre).
Proof.
  intros pu V G T np cm sr w cfg s url pr cls c Hp. unfold gen_get_single. rewrite Hp. cbv zeta.
  change (lit "TimeoutError") with TE. change (lit "OSError") with OSE. change (lit "ConnectionError") with CE.
  destruct (catches gen_exc_bases (XLib cls) TE); [reflexivity|].
  destruct (catches gen_exc_bases (XLib cls) OSE); reflexivity.
Qed.

Lemma get_single_bad_url {P : Type} : forall pu V G T (np : str -> bool -> bool -> P) cm sr w cfg s url conn c,
  (forall pr, pu url <> Ok pr) ->
  exists k, gen_get_single pu V G T np cm sr w cfg s url conn c = (s, Raised (XLib k), [GRaise (XLib k)]).
Proof.
  intros pu V G T np cm sr w cfg s url conn c H. unfold gen_get_single.
  destruct (pu url) as [pr|k m|]; [destruct (H pr eq_refl)| |]; eexists; reflexivity.
Qed.

(* which exception classes the two handlers of the connection attempt catch (computed on the emitted table) *)
Lemma connect_classes :
  forallb (fun c => catches gen_exc_bases (XLib c) TE) [lit "TimeoutError"] = true /\
  forallb (fun c => negb (catches gen_exc_bases (XLib c) TE) && catches gen_exc_bases (XLib c) OSE)
    [lit "OSError"; lit "ConnectionError"; lit "ConnectionRefusedError"; lit "ConnectionResetError"; lit "ConnectionAbortedError";
     lit "BrokenPipeError"; lit "ssl.SSLError"; lit "ssl.SSLCertVerificationError"; lit "socket.gaierror"] = true /\
  forallb (fun c => negb (catches gen_exc_bases (XLib c) TE) && negb (catches gen_exc_bases (XLib c) OSE))
    [lit "ValueError"; lit "UnicodeEncodeError"; lit "LookupError"; lit "CertificateChangedError"; lit "sqlite3.IntegrityError"; lit "Exception";
     lit "asyncio.CancelledError"] = true.
Proof. repeat split; vm_compute; reflexivity. Qed.

(* which labels of the response future are (not) re-raised as the session's own TimeoutError *)
Lemma future_classes :
  catches gen_exc_bases (XFuture (lit "conn:TimeoutError")) TE = true /\
  forallb (fun k => negb (catches gen_exc_bases (XFuture k) TE))
    [lit "header_too_long"; lit "invalid_status"; lit "out_of_range"; lit "bad_meta"; lit "too_large"; lit "closed_before_header"; lit "decode";
     lit "conn:UnicodeDecodeError"; lit "conn:ConnectionResetError"; lit "conn:BrokenPipeError"; lit "conn:ssl.SSLError"; lit "conn:OSError"] = true.
Proof. split; vm_compute; reflexivity. Qed.

(* transport.close() is called exactly once on every path on which a connection was made - whatever the protocol object, the
   TOFUDatabase methods and the peer do -, it is the last event, and it is never called otherwise *)
Lemma get_single_close_once {P : Type} : forall pu V G T (np : str -> bool -> bool -> P) cm sr w cfg s url conn c,
  let evs := snd (gen_get_single pu V G T np cm sr w cfg s url conn c) in
  closes evs = match conn, pu url with ConnOk, Ok _ => 1 | _, _ => 0 end /\
  (closes evs = 1 -> exists pre, evs = pre ++ [GClose]).
Proof.
  intros. subst evs. unfold gen_get_single. cbv zeta.
  split_all; cbn [snd]; (split; [rewrite ?closes_app, ?closes_gevents; reflexivity|]);
  intro H; first [eexists; reflexivity | exfalso; revert H; rewrite ?closes_app, ?closes_gevents; discriminate].
Qed.

Lemma upload_close_once {P : Type} : forall rp pu V G T (np : str -> str -> bool -> P) cm sr w cfg s url content mime token conn c,
  let evs := snd (gen_upload rp pu V G T np cm sr w cfg s url content mime token conn c) in
  closes evs = match conn, content_bytes content, titan_base url with
               | ConnOk, Some _, Some base => match pu (rp base (lit "titan://") (lit "gemini://")) with Ok _ => 1 | _ => 0 end
               | _, _, _ => 0
               end /\
  (closes evs = 1 -> exists pre, evs = pre ++ [GClose]).
Proof.
  intros. subst evs.
  destruct (content_bytes content) as [cb|] eqn:Hc.
  - destruct (titan_base url) as [base|] eqn:Hb.
    + rewrite (upload_reduces _ _ _ _ _ _ _ _ _ _ _ _ _ _ _ _ _ cb base Hc Hb).
      match goal with |- context [gen_get_single ?pu' ?V ?G ?T ?np' ?cm ?sr ?w ?cfg ?s ?url ?conn ?c] =>
        pose proof (get_single_close_once pu' V G T np' cm sr w cfg s url conn c) as H end.
      cbv zeta in H. destruct conn; exact H.
    + rewrite (upload_bad_scheme _ _ _ _ _ _ _ _ _ _ _ _ _ _ _ _ _ cb Hc Hb). destruct conn; split; [reflexivity|discriminate|reflexivity|discriminate].
  - destruct content as [x|x]; [|discriminate]. cbn [content_bytes] in Hc. rewrite (upload_unencodable _ _ _ _ _ _ _ _ _ _ _ _ _ _ _ _ _ Hc).
    destruct conn; split; [reflexivity|discriminate|reflexivity|discriminate].
Qed.

(* ---------- C11 on the generated function ---------- *)
(* boolean forms of the three statements, computed on the written-out flow *)
Definition soc_off (t : list gevent) : bool := forallb (fun e => match e with GProto b => negb b | _ => true end) t.
Fixpoint wr_guard (seen : bool) (t : list gevent) : bool :=
  match t with
  | [] => true
  | GWrite _ :: r => seen && wr_guard seen r
  | GVerify (true, _) :: r => wr_guard true r
  | _ :: r => wr_guard seen r
  end.
Definition no_write (t : list gevent) : bool := negb (existsb is_write t).

Lemma soc_off_sound t : soc_off t = true -> forall soc, In (GProto soc) t -> soc = false.
Proof.
  unfold soc_off. intros H soc Hin. rewrite forallb_forall in H. specialize (H _ Hin). cbn in H. now destruct soc.
Qed.
Lemma no_write_sound t : no_write t = true -> forall b, ~ In (GWrite b) t.
Proof.
  unfold no_write. intros H b Hin. apply negb_true_iff in H.
  assert (E : existsb is_write t = true) by (apply existsb_exists; exists (GWrite b); split; [exact Hin|reflexivity]).
  congruence.
Qed.
Lemma wr_guard_sound : forall t seen, wr_guard seen t = true ->
  forall pre b post, t = pre ++ GWrite b :: post -> seen = true \/ exists m, In (GVerify (true, m)) pre.
Proof.
  induction t as [|e t IH]; intros seen H pre b post E.
  - destruct pre; discriminate.
  - destruct pre as [|e' pre]; cbn [app] in E; injection E as E1 E2.
    + subst e. cbn [wr_guard] in H. apply andb_prop in H as [H _]. left; exact H.
    + subst e'.
      assert (K : forall seen', wr_guard seen' t = true -> (seen' = true -> seen = true \/ exists m, In (GVerify (true, m)) (e :: pre)) ->
                  seen = true \/ exists m, In (GVerify (true, m)) (e :: pre)).
      { intros seen' H' Hs. destruct (IH seen' H' pre b post E2) as [Hl|[m Hm]]; [auto|right; exists m; right; exact Hm]. }
      destruct e as [x|x y z u|x| |x|x|[[|] m]| | | |x|]; cbn [wr_guard] in H;
        try (apply (K seen H); auto; fail).
      * apply andb_prop in H as [Hs H]. apply (K seen H); auto.
      * apply (K true H). intros _. right. exists m. left. reflexivity.
Qed.

Lemma soc_off_app a b : soc_off (a ++ b) = soc_off a && soc_off b.
Proof. unfold soc_off. apply forallb_app. Qed.
Lemma soc_off_writes req : soc_off (map GWrite req) = true.
Proof. unfold soc_off. rewrite forallb_forall. intros x Hx. apply in_map_iff in Hx as [b [<- _]]. reflexivity. Qed.
Lemma wr_guard_writes req r : wr_guard true (map GWrite req ++ r) = wr_guard true r.
Proof. induction req as [|b req IH]; [reflexivity|exact IH]. Qed.
Lemma c11_writes req r : Spec.C11.ok_from (map SWrite req ++ r) true = Spec.C11.ok_from r true.
Proof. induction req as [|b req IH]; [reflexivity|exact IH]. Qed.

Lemma c11_of_flow request db ctx h p s c now w :
  let evs := snd (expected request true db ctx h p s c now w) in
  soc_off evs = true /\ wr_guard false evs = true /\ Spec.C11.ok (sview evs) = true /\
  (snd (tofu_check s h p (presented_of c) now) <> SAccepted -> no_write evs = true).
Proof.
  unfold expected. cbv zeta. unfold Spec.C11.ok.
  assert (T : forall wo, soc_off (snd (wait_out wo)) = true /\ wr_guard true (snd (wait_out wo)) = true /\
                         Spec.C11.ok_from (sview (snd (wait_out wo))) true = true).
  { intros [r|k|]; unfold wait_out; [|destruct (catches gen_exc_bases (XFuture k) TE)|]; repeat split; reflexivity. }
  assert (A3 : forall pre mid tail, sview pre = [] -> sview mid = [SVerified SAccepted] -> Spec.C11.ok_from (sview tail) true = true ->
                 Spec.C11.ok_from (sview (pre ++ mid ++ map GWrite request ++ tail)) false = true).
  { intros pre mid tail H1 H2 H3. rewrite !sview_app, sview_writes, H1, H2. cbn [app Spec.C11.ok_from]. rewrite c11_writes. exact H3. }
  assert (A1 : forall pre mid tail, soc_off pre = true -> soc_off mid = true -> soc_off tail = true ->
                 soc_off (pre ++ mid ++ map GWrite request ++ tail) = true).
  { intros pre mid tail H1 H2 H3. rewrite !soc_off_app, soc_off_writes, H1, H2, H3. reflexivity. }
  destruct c as [fp|]; cbn [presented_of tofu_check]; [|repeat split; reflexivity].
  destruct (verify s h p fp) as [[| |old] l]; cbn [fst snd].
  - destruct (T (w {| mp_soc := negb true; mp_db := db; mp_st := st_conn |})) as (T1 & T2 & T3).
    repeat split.
    + apply A1; [reflexivity|reflexivity|exact T1].
    + cbn [app wr_guard]. rewrite wr_guard_writes. exact T2.
    + apply A3; [reflexivity|reflexivity|exact T3].
    + intro H; exfalso; apply H; reflexivity.
  - destruct (T (w {| mp_soc := negb true; mp_db := db; mp_st := st_conn |})) as (T1 & T2 & T3).
    repeat split.
    + apply A1; [reflexivity|reflexivity|exact T1].
    + cbn [app wr_guard]. rewrite wr_guard_writes. exact T2.
    + apply A3; [reflexivity|reflexivity|exact T3].
    + intro H; exfalso; apply H; reflexivity.
  - repeat split; reflexivity.
Qed.

Lemma c11_core request cap dw now pu np dbp url v ctx db to mr s c conn w :
  (forall u soc, np u db soc = {| mp_soc := soc; mp_db := dbp; mp_st := cinit |}) ->
  let evs := snd (code_get_single request cap dw now pu np w (gen_init to mr ctx v true db) s url conn c) in
  soc_off evs = true /\ wr_guard false evs = true /\ Spec.C11.ok (sview evs) = true /\
  (forall pr, pu url = Ok pr -> snd (tofu_check s (Url.p_host pr) (Url.p_port pr) (presented_of c) now) <> SAccepted -> no_write evs = true).
Proof.
  intros Hnp evs. subst evs.
  destruct (pu url) as [pr|k m|] eqn:Hp.
  - destruct conn as [|cls].
    + rewrite (flow request cap dw now pu np dbp url pr true v ctx db to mr s c w Hnp Hp).
      destruct (c11_of_flow request dbp (cfg_ssl_context (gen_init to mr ctx v true db)) (Url.p_host pr) (Url.p_port pr) s c now w) as (A & B & C & D).
      repeat split; try assumption. intros pr' E. injection E as <-. exact D.
    + unfold code_get_single. rewrite (get_single_connect_failure _ _ _ _ _ _ _ _ _ _ _ pr cls c Hp). cbv zeta.
      destruct (catches gen_exc_bases (XLib cls) TE); [|destruct (catches gen_exc_bases (XLib cls) OSE)]; repeat split; reflexivity.
  - unfold code_get_single.
    destruct (get_single_bad_url pu (fun s h p c => gen_verify s h p c now) gen_get_host_info (fun s h p c => gen_trust s h p c now) np
                (m_step request cap dw CConnected) (m_step request cap dw CSend) w (gen_init to mr ctx v true db) s url conn c) as [k' ->];
      [intros pr; rewrite Hp; discriminate|]. repeat split; reflexivity.
  - unfold code_get_single.
    destruct (get_single_bad_url pu (fun s h p c => gen_verify s h p c now) gen_get_host_info (fun s h p c => gen_trust s h p c now) np
                (m_step request cap dw CConnected) (m_step request cap dw CSend) w (gen_init to mr ctx v true db) s url conn c) as [k' ->];
      [intros pr; rewrite Hp; discriminate|]. repeat split; reflexivity.
Qed.

Lemma c11_logical evs : soc_off evs = true -> wr_guard false evs = true ->
  (forall soc, In (GProto soc) evs -> soc = false) /\
  (forall pre b post, evs = pre ++ GWrite b :: post -> exists m, In (GVerify (true, m)) pre).
Proof.
  intros A B. split; [apply soc_off_sound; exact A|].
  intros pre b post E. destruct (wr_guard_sound evs false B pre b post E) as [F|H]; [discriminate|exact H].
Qed.

(* trust_on_first_use on: the protocol object is created with send_on_connect = False; every write of the protocol follows a verify
   call that returned is_valid = True; the trace satisfies the monitor of C11; and when the pin check does not accept (changed
   certificate, unreadable certificate) nothing is written at all - for every URL parser, connection outcome, certificate, store
   and behaviour of the peer *)
Lemma get_single_c11 : forall request cap dw now pu url v ctx db to mr s c conn w,
  let evs := snd (gen_get_single pu (fun s h p c => gen_verify s h p c now) gen_get_host_info (fun s h p c => gen_trust s h p c now)
                    m_new (m_step request cap dw CConnected) (m_step request cap dw CSend) w (gen_init to mr ctx v true db) s url conn c) in
  (forall soc, In (GProto soc) evs -> soc = false) /\
  (forall pre b post, evs = pre ++ GWrite b :: post -> exists m, In (GVerify (true, m)) pre) /\
  Spec.C11.ok (sview evs) = true /\
  (forall pr, pu url = Ok pr -> snd (tofu_check s (Url.p_host pr) (Url.p_port pr) (presented_of c) now) <> SAccepted ->
   forall b, ~ In (GWrite b) evs).
Proof.
  intros. subst evs.
  destruct (c11_core request cap dw now pu m_new db url v ctx db to mr s c conn w (fun _ _ => eq_refl)) as (A & B & C & D).
  destruct (c11_logical _ A B) as [E F]. repeat split; try assumption.
  intros pr Hp Hn. apply no_write_sound. exact (D pr Hp Hn).
Qed.

Lemma upload_c11 : forall request cap dw now rp pu url content mime token v ctx db to mr s c conn w,
  let evs := snd (gen_upload rp pu (fun s h p c => gen_verify s h p c now) gen_get_host_info (fun s h p c => gen_trust s h p c now)
                    m_new_titan (m_step request cap dw CConnected) (m_step request cap dw CSend) w (gen_init to mr ctx v true db) s url content mime token conn c) in
  (forall soc, In (GProto soc) evs -> soc = false) /\
  (forall pre b post, evs = pre ++ GWrite b :: post -> exists m, In (GVerify (true, m)) pre) /\
  Spec.C11.ok (sview evs) = true /\
  (forall base pr, titan_base url = Some base -> pu (rp base (lit "titan://") (lit "gemini://")) = Ok pr ->
   snd (tofu_check s (Url.p_host pr) (Url.p_port pr) (presented_of c) now) <> SAccepted -> forall b, ~ In (GWrite b) evs).
Proof.
  intros. subst evs.
  assert (Z : forall e, Spec.C11.ok (sview [GRaise e]) = true -> let evs := [GRaise e] in
            (forall soc, In (GProto soc) evs -> soc = false) /\
            (forall pre b post, evs = pre ++ GWrite b :: post -> exists m, In (GVerify (true, m)) pre) /\
            Spec.C11.ok (sview evs) = true /\ (forall b, ~ In (GWrite b) evs)).
  { intros e He evs. subst evs. destruct (c11_logical [GRaise e] eq_refl eq_refl) as [E F].
    repeat split; try assumption. intros b [H|[]]; discriminate. }
  destruct (content_bytes content) as [cb|] eqn:Hc.
  - destruct (titan_base url) as [base|] eqn:Hb.
    + rewrite (upload_reduces _ _ _ _ _ _ _ _ _ _ _ _ _ _ _ _ _ cb base Hc Hb).
      match goal with |- context [gen_get_single ?pu' _ _ _ ?np' _ _ _ _ _ _ _ _] =>
        destruct (c11_core request cap dw now pu' np' true url v ctx db to mr s c conn w (fun _ _ => eq_refl)) as (A & B & C & D) end.
      unfold code_get_single in *. destruct (c11_logical _ A B) as [E F]. repeat split; try assumption.
      intros base' pr Hb' Hp Hn. injection Hb' as <-. apply no_write_sound. exact (D pr Hp Hn).
    + rewrite (upload_bad_scheme _ _ _ _ _ _ _ _ _ _ _ _ _ _ _ _ _ cb Hc Hb). cbn [snd].
      destruct (Z (XNew (lit "ValueError")) eq_refl) as (A & B & C & D). repeat split; try assumption. intros; apply D.
  - destruct content as [x|x]; [|discriminate]. cbn [content_bytes] in Hc. rewrite (upload_unencodable _ _ _ _ _ _ _ _ _ _ _ _ _ _ _ _ _ Hc). cbn [snd].
    destruct (Z (XLib (lit "UnicodeEncodeError")) eq_refl) as (A & B & C & D). repeat split; try assumption. intros; apply D.
Qed.

(* ---------- any outcome of the wait for the response (the peer stalls: WTimeout) ---------- *)
Lemma sview_wait_out wo : sview (snd (wait_out wo)) = [].
Proof. destruct wo as [r|k|]; unfold wait_out; [|destruct (catches gen_exc_bases (XFuture k) TE)|]; reflexivity. Qed.

Lemma wait_core request cap dw now t db ctx h p s c wo chunks exc :
  let r := expected request t db ctx h p s c now (fun _ => wo) in
  let m := session_call request db cap dw t s h p (presented_of c) now chunks exc in
  fst (fst r) = fst (fst m) /\ sview (snd r) = snd m /\
  (t = false \/ snd (tofu_check s h p (presented_of c) now) = SAccepted -> snd (fst r) = fst (wait_out wo)).
Proof.
  cbv zeta. rewrite session_call_nf. unfold expected. cbv zeta.
  destruct t.
  - destruct c as [fp|]; cbn [presented_of tofu_check].
    + destruct (verify s h p fp) as [[| |old] l]; cbn [fst snd app].
      * repeat split. cbn [sview flat_map app].
        fold (sview (map GWrite request ++ snd (wait_out wo))). rewrite sview_app, sview_writes, sview_wait_out, app_nil_r. reflexivity.
      * repeat split. cbn [sview flat_map app].
        fold (sview (map GWrite request ++ snd (wait_out wo))). rewrite sview_app, sview_writes, sview_wait_out, app_nil_r. reflexivity.
      * repeat split. intros [H|H]; discriminate.
    + repeat split. intros [H|H]; discriminate.
  - cbn [fst snd app]. repeat split. cbn [sview flat_map app].
    fold (sview (map GWrite request ++ snd (wait_out wo))). rewrite sview_app, sview_writes, sview_wait_out, app_nil_r. reflexivity.
Qed.

Lemma get_single_wait : forall request cap dw now pu url pr t v ctx db to mr s c wo chunks exc,
  pu url = Ok pr ->
  let r := gen_get_single pu (fun s h p c => gen_verify s h p c now) gen_get_host_info (fun s h p c => gen_trust s h p c now)
             m_new (m_step request cap dw CConnected) (m_step request cap dw CSend) (fun _ => wo) (gen_init to mr ctx v t db) s url ConnOk c in
  let m := session_call request db cap dw t s (Url.p_host pr) (Url.p_port pr) (presented_of c) now chunks exc in
  fst (fst r) = fst (fst m) /\ sview (snd r) = snd m /\
  (t = false \/ snd (tofu_check s (Url.p_host pr) (Url.p_port pr) (presented_of c) now) = SAccepted ->
   snd (fst r) = match wo with
                 | WResult x => Returned x
                 | WExc k => if catches gen_exc_bases (XFuture k) (lit "TimeoutError")
                             then Raised (XNewFrom (lit "TimeoutError") (XFuture k)) else Raised (XFuture k)
                 | WTimeout => Raised (XNewFrom (lit "TimeoutError") (XLib (lit "TimeoutError")))
                 end).
Proof.
  intros request cap dw now pu url pr t v ctx db to mr s c wo chunks exc Hp.
  fold (code_get_single request cap dw now pu m_new (fun _ : mproto => wo)).
  rewrite (flow request cap dw now pu m_new db url pr t v ctx db to mr s c _ (fun _ _ => eq_refl) Hp).
  destruct (wait_core request cap dw now t db (cfg_ssl_context (gen_init to mr ctx v t db)) (Url.p_host pr) (Url.p_port pr) s c wo chunks exc) as (A & B & C).
  repeat split; [exact A|exact B|]. intro H. rewrite (C H).
  destruct wo as [x|k|]; unfold wait_out; [reflexivity| |reflexivity].
  change (lit "TimeoutError") with TE. destruct (catches gen_exc_bases (XFuture k) TE); reflexivity.
Qed.

Lemma upload_wait : forall request cap dw now rp pu url content mime token cb base pr t v ctx db to mr s c wo chunks exc,
  content_bytes content = Some cb -> titan_base url = Some base -> pu (rp base (lit "titan://") (lit "gemini://")) = Ok pr ->
  let r := gen_upload rp pu (fun s h p c => gen_verify s h p c now) gen_get_host_info (fun s h p c => gen_trust s h p c now)
             m_new_titan (m_step request cap dw CConnected) (m_step request cap dw CSend) (fun _ => wo) (gen_init to mr ctx v t db) s url content mime token ConnOk c in
  let m := session_call request true cap dw t s (Url.p_host pr) (Url.p_port pr) (presented_of c) now chunks exc in
  fst (fst r) = fst (fst m) /\ sview (snd r) = snd m /\
  (t = false \/ snd (tofu_check s (Url.p_host pr) (Url.p_port pr) (presented_of c) now) = SAccepted ->
   snd (fst r) = match wo with
                 | WResult x => Returned x
                 | WExc k => if catches gen_exc_bases (XFuture k) (lit "TimeoutError")
                             then Raised (XNewFrom (lit "TimeoutError") (XFuture k)) else Raised (XFuture k)
                 | WTimeout => Raised (XNewFrom (lit "TimeoutError") (XLib (lit "TimeoutError")))
                 end).
Proof.
  intros request cap dw now rp pu url content mime token cb base pr t v ctx db to mr s c wo chunks exc Hc Hb Hp.
  rewrite (upload_reduces _ _ _ _ _ _ _ _ _ _ _ _ _ _ _ _ _ cb base Hc Hb).
  match goal with |- context [gen_get_single ?pu' _ _ _ ?np' _ _ _ _ _ _ _ _] =>
    fold (code_get_single request cap dw now pu' np' (fun _ : mproto => wo));
    rewrite (flow request cap dw now pu' np' true url pr t v ctx db to mr s c _ (fun _ _ => eq_refl) Hp) end.
  destruct (wait_core request cap dw now t true (cfg_ssl_context (gen_init to mr ctx v t db)) (Url.p_host pr) (Url.p_port pr) s c wo chunks exc) as (A & B & C).
  repeat split; [exact A|exact B|]. intro H. rewrite (C H).
  destruct wo as [x|k|]; unfold wait_out; [reflexivity| |reflexivity].
  change (lit "TimeoutError") with TE. destruct (catches gen_exc_bases (XFuture k) TE); reflexivity.
Qed.

(* the connection attempt of upload, through the reduction *)
Lemma upload_connect_failure {P : Type} : forall rp pu V G T (np : str -> str -> bool -> P) cm sr w cfg s url content mime token cb base pr cls c,
  content_bytes content = Some cb -> titan_base url = Some base -> pu (rp base (lit "titan://") (lit "gemini://")) = Ok pr ->
  gen_upload rp pu V G T np cm sr w cfg s url content mime token (ConnFail cls) c
  = let pre := [GProto (match cfg_tofu_db cfg with None => true | Some _ => false end);
                GConnect (cfg_ssl_context cfg) (Url.p_host pr) (Url.p_port pr) (Url.p_host pr); GRaise (XLib cls)] in
    if catches gen_exc_bases (XLib cls) TE then (s, Raised (XNewFrom TE (XLib cls)), pre ++ [GRaise (XNewFrom TE (XLib cls))])
    else if catches gen_exc_bases (XLib cls) OSE then (s, Raised (XNewFrom CE (XLib cls)), pre ++ [GRaise (XNewFrom CE (XLib cls))])
    else (s, Raised (XLib cls), pre).
Proof.
  intros rp pu V G T np cm sr w cfg s url content mime token cb base pr cls c Hc Hb Hp.
  rewrite (upload_reduces _ _ _ _ _ _ _ _ _ _ _ _ _ _ _ _ _ cb base Hc Hb).
  apply (get_single_connect_failure (fun _ => pu (rp base (lit "titan://") (lit "gemini://")))). exact Hp.
Qed.

(* ---------- the generated calls depend on their callees only through the values they return: any protocol object whose
   methods agree pointwise with the model's (e.g. the methods generated from client/protocol.py, Equiv/EquivClient.v) can be
   substituted in every statement above ---------- *)
Lemma get_single_ext {P : Type} : forall pu V G T (np : str -> bool -> bool -> P) cm cm' sr sr' w w' cfg s url conn c,
  (forall p, cm p = cm' p) -> (forall p, sr p = sr' p) -> (forall p, w p = w' p) ->
  gen_get_single pu V G T np cm sr w cfg s url conn c = gen_get_single pu V G T np cm' sr' w' cfg s url conn c.
Proof.
  intros pu V G T np cm cm' sr sr' w w' cfg s url conn c Hcm Hsr Hw. unfold gen_get_single. cbv zeta.
  repeat match goal with
  | |- context [cm ?p] => rewrite (Hcm p)
  | |- context [sr ?p] => rewrite (Hsr p)
  | |- context [w ?p] => rewrite (Hw p)
  | |- context [match ?x with _ => _ end] => destruct x eqn:?
  | |- context [if ?x then _ else _] => destruct x eqn:?
  end; reflexivity.
Qed.

Lemma upload_ext {P : Type} : forall rp pu V G T (np : str -> str -> bool -> P) cm cm' sr sr' w w' cfg s url content mime token conn c,
  (forall p, cm p = cm' p) -> (forall p, sr p = sr' p) -> (forall p, w p = w' p) ->
  gen_upload rp pu V G T np cm sr w cfg s url content mime token conn c = gen_upload rp pu V G T np cm' sr' w' cfg s url content mime token conn c.
Proof.
  intros rp pu V G T np cm cm' sr sr' w w' cfg s url content mime token conn c Hcm Hsr Hw.
  destruct (content_bytes content) as [cb|] eqn:Hc.
  - destruct (titan_base url) as [base|] eqn:Hb.
    + rewrite !(upload_reduces _ _ _ _ _ _ _ _ _ _ _ _ _ _ _ _ _ cb base Hc Hb). apply get_single_ext; assumption.
    + rewrite !(upload_bad_scheme _ _ _ _ _ _ _ _ _ _ _ _ _ _ _ _ _ cb Hc Hb). reflexivity.
  - destruct content as [x|x]; [|discriminate]. cbn [content_bytes] in Hc. rewrite !(upload_unencodable _ _ _ _ _ _ _ _ _ _ _ _ _ _ _ _ _ Hc). reflexivity.
Qed.

(* the protocol object of _get_single is constructed from exactly (the normalised URL, self.decode_bodies, send_on_connect) *)
Lemma get_single_protocol_args {P : Type} : forall pu V G T (np : str -> bool -> bool -> P) cm sr w cfg s url pr conn c,
  pu url = Ok pr ->
  gen_get_single pu V G T np cm sr w cfg s url conn c
  = gen_get_single pu V G T (fun _ _ soc => np (Url.p_norm pr) (cfg_decode_bodies cfg) soc) cm sr w cfg s url conn c.
Proof. intros pu V G T np cm sr w cfg s url pr conn c Hp. unfold gen_get_single. rewrite Hp. reflexivity. Qed.
