(* The one assumed fact about CPython's lenient UTF-8 decoder (reenc_ok of Equiv/EquivServerLoop.v, the hypothesis of
   send_response_tie) is satisfiable: a re-encoder with that property exists.

   `pick b` drops at most three trailing bytes of b: it is the longest of b, b[:-1], b[:-2], b[:-3] that strict
   UTF-8 decoding accepts (b[:-3] unconditionally).  A valid UTF-8 string cut after n bytes is a valid string followed
   by at most three bytes of a cut-off character, and no non-empty proper prefix of a character decodes; so on
   take n (encode_replace m), pick is encode_replace_upto n m - for every n, over-long m or not. *)
From Coq Require Import List NArith ZArith Bool Lia ZifyN ZifyBool ZifyNat.
From NV Require Import Prelude.Str Prelude.Utf8 Proofs.Utf8Lemmas.
Import ListNotations.
Open Scope N_scope.

Ltac Zify.zify_post_hook ::= Z.to_euclidean_division_equations.

Definition ok (o : option str) : bool := match o with Some _ => true | None => false end.

Definition pick (b : list N) : list N :=
  if ok (decode b) then b else
  let b1 := removelast b in
  if ok (decode b1) then b1 else
  let b2 := removelast b1 in
  if ok (decode b2) then b2 else removelast b2.

(* ---------- take over an append ---------- *)
Lemma take_app_ge : forall (e r : str) n, (length e <= n)%nat -> take n (e ++ r) = e ++ take (n - length e) r.
Proof.
  induction e as [|x e IH]; intros r n H.
  - cbn [app length]. rewrite Nat.sub_0_r. reflexivity.
  - destruct n as [|n]; cbn [length] in H; [lia|].
    cbn [app take length Nat.sub]. f_equal. apply IH. lia.
Qed.

Lemma take_app_lt : forall (e r : str) n, (n < length e)%nat -> take n (e ++ r) = take n e.
Proof.
  induction e as [|x e IH]; intros r n H; cbn [length] in H; [lia|].
  destruct n as [|n]; [reflexivity|]. cbn [app take]. f_equal. apply IH. lia.
Qed.

(* ---------- a character in front does not change whether the rest decodes ---------- *)
Lemma dec_app_cp : forall c r, is_scalar c = true -> ok (decode (enc_cp c ++ r)) = ok (decode r).
Proof.
  intros c r Sc. unfold is_scalar, is_surrogate in Sc. unfold enc_cp.
  destruct (c <? 128) eqn:E1.
  { cbn [app]. rewrite decode_cons, E1. destruct (decode r); reflexivity. }
  destruct (c <? 2048) eqn:E2.
  { cbn [app]. rewrite decode_cons.
    set (x := 192 + c / 64). set (y := 128 + c mod 64).
    assert (A1 : (x <? 128) = false) by (subst x; lia).
    assert (A2 : (194 <=? x) && (x <=? 223) = true) by (subst x; lia).
    assert (A3 : cont y = true) by (unfold cont; subst y; lia).
    rewrite A1, A2, A3. destruct (decode r); reflexivity. }
  destruct (c <? 65536) eqn:E3.
  { cbn [app]. rewrite decode_cons.
    set (x := 224 + c / 4096). set (y := 128 + (c / 64) mod 64). set (z := 128 + c mod 64).
    assert (A1 : (x <? 128) = false) by (subst x; lia).
    assert (A2 : (194 <=? x) && (x <=? 223) = false) by (subst x; lia).
    assert (A3 : (224 <=? x) && (x <=? 239) = true) by (subst x; lia).
    assert (A4 : ((if x =? 224 then 160 else 128) <=? y) && (y <=? (if x =? 237 then 159 else 191)) && cont z = true).
    { unfold cont. destruct (x =? 224) eqn:Ea; destruct (x =? 237) eqn:Eb; subst x y z; lia. }
    rewrite A1, A2, A3. cbv zeta. rewrite A4. destruct (decode r); reflexivity. }
  { cbn [app]. rewrite decode_cons.
    set (x := 240 + c / 262144). set (y := 128 + (c / 4096) mod 64).
    set (z := 128 + (c / 64) mod 64). set (w := 128 + c mod 64).
    assert (A1 : (x <? 128) = false) by (subst x; lia).
    assert (A2 : (194 <=? x) && (x <=? 223) = false) by (subst x; lia).
    assert (A3 : (224 <=? x) && (x <=? 239) = false) by (subst x; lia).
    assert (A4 : (240 <=? x) && (x <=? 244) = true) by (subst x; lia).
    assert (A5 : ((if x =? 240 then 144 else 128) <=? y) && (y <=? (if x =? 244 then 143 else 191))
                 && cont z && cont w = true).
    { unfold cont. destruct (x =? 240) eqn:Ea; destruct (x =? 244) eqn:Eb; subst x y z w; lia. }
    rewrite A1, A2, A3, A4. cbv zeta. rewrite A5. destruct (decode r); reflexivity. }
Qed.

Lemma dec_app_repl : forall c r,
  ok (decode ((if is_scalar c then enc_cp c else [63]) ++ r)) = ok (decode r).
Proof.
  intros c r. destruct (is_scalar c) eqn:Sc; [apply dec_app_cp; exact Sc|].
  cbn [app]. rewrite decode_cons. change (63 <? 128) with true. cbv iota. destruct (decode r); reflexivity.
Qed.

(* ---------- pick commutes with such a prefix ---------- *)
Lemma pick_step : forall e X, (forall Y, ok (decode (e ++ Y)) = ok (decode Y)) ->
  ok (decode X) = false -> ok (decode (e ++ X)) = false /\ removelast (e ++ X) = e ++ removelast X.
Proof.
  intros e X H D. split; [rewrite H; exact D|].
  apply removelast_app. intros ->. cbn in D. discriminate.
Qed.

Lemma pick_app : forall e, (forall Y, ok (decode (e ++ Y)) = ok (decode Y)) -> forall X, pick (e ++ X) = e ++ pick X.
Proof.
  intros e H X. unfold pick. cbv zeta.
  destruct (ok (decode X)) eqn:D0; [rewrite H, D0; reflexivity|].
  destruct (pick_step e X H D0) as [A0 B0]. rewrite A0, B0.
  destruct (ok (decode (removelast X))) eqn:D1; [rewrite H, D1; reflexivity|].
  destruct (pick_step e _ H D1) as [A1 B1]. rewrite A1, B1.
  destruct (ok (decode (removelast (removelast X)))) eqn:D2; [rewrite H, D2; reflexivity|].
  destruct (pick_step e _ H D2) as [A2 B2]. rewrite A2, B2. reflexivity.
Qed.

(* ---------- a cut-off character does not decode, and pick removes it ---------- *)
Lemma dec_short : forall x r, 128 <= x ->
  (x <= 223 -> r = []) -> (x <= 239 -> (length r <= 1)%nat) -> (length r <= 2)%nat ->
  decode (x :: r) = None.
Proof.
  intros x r Hx H2 H3 H4. rewrite decode_cons.
  destruct (x <? 128) eqn:E1; [lia|].
  destruct ((194 <=? x) && (x <=? 223)) eqn:E2.
  { rewrite H2 by lia. reflexivity. }
  destruct ((224 <=? x) && (x <=? 239)) eqn:E3.
  { destruct r as [|y [|z r]]; try reflexivity. specialize (H3 ltac:(lia)). cbn [length] in H3. lia. }
  destruct ((240 <=? x) && (x <=? 244)) eqn:E4; [|reflexivity].
  destruct r as [|y [|z [|w r]]]; try reflexivity. cbn [length] in H4. lia.
Qed.

Lemma pick_short : forall x r, 128 <= x ->
  (x <= 223 -> r = []) -> (x <= 239 -> (length r <= 1)%nat) -> (length r <= 2)%nat ->
  pick (x :: r) = [].
Proof.
  intros x r Hx H2 H3 H4.
  assert (D1 : decode [x] = None) by (apply dec_short; cbn [length]; auto; lia).
  destruct r as [|y [|z [|w r]]].
  - unfold pick. rewrite D1. reflexivity.
  - assert (D2 : decode [x; y] = None) by (apply dec_short; cbn [length]; auto; lia).
    unfold pick. rewrite D2. cbn [ok removelast]. rewrite D1. reflexivity.
  - assert (D2 : decode [x; y] = None).
    { apply dec_short; cbn [length]; auto; try lia. intro. specialize (H2 ltac:(lia)). discriminate. }
    assert (D3 : decode [x; y; z] = None) by (apply dec_short; cbn [length]; auto; lia).
    unfold pick. rewrite D3. cbn [ok removelast]. rewrite D2. cbn [ok removelast]. rewrite D1. reflexivity.
  - cbn [length] in H4. lia.
Qed.

Lemma pick_take_cp : forall c n, is_scalar c = true -> (n < length (enc_cp c))%nat -> pick (take n (enc_cp c)) = [].
Proof.
  intros c n Sc. unfold is_scalar, is_surrogate in Sc. unfold enc_cp.
  destruct (c <? 128) eqn:E1; [|destruct (c <? 2048) eqn:E2; [|destruct (c <? 65536) eqn:E3]];
    cbn [length]; intro L.
  - destruct n as [|n]; [reflexivity|lia].
  - assert (X1 : 194 <= 192 + c / 64) by lia.
    destruct n as [|[|n]]; [reflexivity| |lia]. cbn [take].
    apply pick_short; cbn [length]; auto; lia.
  - assert (X1 : 224 <= 224 + c / 4096) by lia.
    destruct n as [|[|[|n]]]; [reflexivity| | |lia]; cbn [take];
      (apply pick_short; cbn [length]; [lia | intro; exfalso; lia | lia | lia]).
  - assert (X1 : 240 <= 240 + c / 262144) by lia.
    destruct n as [|[|[|[|n]]]]; [reflexivity| | | |lia]; cbn [take];
      (apply pick_short; cbn [length]; [lia | intro; exfalso; lia | intro; exfalso; lia | lia]).
Qed.

(* ---------- the re-encoder ---------- *)
Theorem pick_take : forall m n, pick (take n (encode_replace m)) = encode_replace_upto (N.of_nat n) m.
Proof.
  induction m as [|c m IH]; intros n.
  - destruct n; reflexivity.
  - rewrite encode_replace_cons, encode_replace_upto_cons. cbv zeta.
    destruct (N.of_nat (length (if is_scalar c then enc_cp c else [63])) <=? N.of_nat n) eqn:E.
    + rewrite take_app_ge by lia. rewrite (pick_app _ (dec_app_repl c)). f_equal.
      rewrite IH. f_equal. lia.
    + rewrite take_app_lt by lia.
      destruct (is_scalar c) eqn:Sc.
      * apply pick_take_cp; [exact Sc|lia].
      * cbn [length] in E. destruct n; [reflexivity|lia].
Qed.

Theorem reenc_exists : exists reenc : str -> str,
  forall m, (1024 < N.of_nat (length (encode_replace m)))%N ->
            reenc (take 1024 (encode_replace m)) = encode_replace_upto 1024 m.
Proof.
  exists pick. intros m _. change 1024%N with (N.of_nat 1024). apply pick_take.
Qed.
Print Assumptions reenc_exists.
