(* Server protocol model: segmentation independence (C07_refines).
   Delivering the client's bytes in any number of reads / slices produces the same
   actions as delivering them in one piece. *)
From Coq Require Import List NArith ZArith Bool Lia ZifyBool ZifyN ZifyNat.
From NV Require Import Prelude.Str Prelude.Res Prelude.Utf8 Model.Url Model.Titan Model.ServerProto Spec.ServerTrace.
From NV Require Import Proofs.Server_inv Proofs.Server_basic.
Import ListNotations.
Set Default Proof Using "Type".

(* ================= break_crlf and take under extension of the input ================= *)
Lemma break_crlf_cons2 x y s :
  break_crlf (x :: y :: s) =
  if ((x =? 13) && (y =? 10))%N then Some ([], s)
  else match break_crlf (y :: s) with Some (a, b) => Some (x :: a, b) | None => None end.
Proof. reflexivity. Qed.

(* the first CRLF stays the first CRLF *)
Lemma break_crlf_app_Some B d : forall l r,
  break_crlf B = Some (l, r) -> break_crlf (B ++ d) = Some (l, r ++ d).
Proof.
  induction B as [|x B IH]; intros l r H; [discriminate|].
  destruct B as [|y s]; [discriminate|].
  rewrite break_crlf_cons2 in H. cbn [app]. rewrite break_crlf_cons2.
  destruct ((x =? 13) && (y =? 10))%N.
  - inversion H; subst. reflexivity.
  - destruct (break_crlf (y :: s)) as [[a b]|]; [|discriminate]. inversion H; subst.
    change (y :: s ++ d) with ((y :: s) ++ d). rewrite (IH a r eq_refl). reflexivity.
Qed.

(* a CRLF that appears only after extension starts at the last byte of B at the earliest *)
Lemma break_crlf_app_None B d : forall l r,
  break_crlf B = None -> break_crlf (B ++ d) = Some (l, r) -> (length B <= length l + 1)%nat.
Proof.
  induction B as [|x B IH]; intros l r H1 H2; [cbn; lia|].
  destruct B as [|y s]; [cbn; lia|].
  rewrite break_crlf_cons2 in H1. cbn [app] in H2. rewrite break_crlf_cons2 in H2.
  destruct ((x =? 13) && (y =? 10))%N; [discriminate|].
  destruct (break_crlf (y :: s)) as [[a b]|] eqn:E; [discriminate|].
  change (y :: s ++ d) with ((y :: s) ++ d) in H2.
  destruct (break_crlf ((y :: s) ++ d)) as [[a b]|] eqn:E2; [|discriminate].
  specialize (IH a b eq_refl eq_refl). inversion H2; subst. cbn [length] in *. lia.
Qed.

Lemma take_app_le n (a b : str) : (n <= length a)%nat -> take n (a ++ b) = take n a.
Proof.
  revert a; induction n as [|n IH]; intros [|x a] H; cbn in *; try reflexivity; try lia.
  f_equal. apply IH. lia.
Qed.

(* the request-size verdict of data_received on a buffer without a dispatched line *)
Definition toobig (b : str) : bool :=
  match break_crlf b with
  | None => (1024 <? N.of_nat (length b))%N
  | Some (l, _) => (1024 <? N.of_nat (length l) + 2)%N
  end.

Lemma toobig_app B d : toobig B = true -> toobig (B ++ d) = true.
Proof.
  unfold toobig. destruct (break_crlf B) as [[l r]|] eqn:E.
  - rewrite (break_crlf_app_Some B d l r E). auto.
  - intro H. destruct (break_crlf (B ++ d)) as [[l r]|] eqn:E2.
    + pose proof (break_crlf_app_None B d l r E E2). lia.
    + rewrite app_length. lia.
Qed.

(* ================= state helpers ================= *)
Definition app_buf (s : st) (d : str) : st := set_buf s (buf s ++ d) (line_rcvd s).
Definition lift (b : str) (l : bool) (p : st * list action) : st * list action :=
  (set_buf (fst p) b l, snd p).

Lemma app_buf_app s d1 d2 : app_buf (app_buf s d1) d2 = app_buf s (d1 ++ d2).
Proof. unfold app_buf. cbn [buf line_rcvd set_buf]. rewrite app_assoc. reflexivity. Qed.
Lemma app_buf_nil s : app_buf s [] = s.
Proof. unfold app_buf. rewrite app_nil_r. destruct s; reflexivity. Qed.

(* buffer-related fields untouched *)
Definition Same (s s' : st) : Prop :=
  buf s' = buf s /\ line_rcvd s' = line_rcvd s /\ await_titan s' = await_titan s.
Lemma Same_refl s : Same s s.
Proof. repeat split. Qed.

Lemma send_buf s b l r : send_response (set_buf s b l) r = lift b l (send_response s r).
Proof.
  rewrite !send_response_eq. change (muted (set_buf s b l)) with (muted s).
  destruct (muted s); reflexivity.
Qed.
Lemma Same_send s r : Same s (fst (send_response s r)).
Proof. rewrite send_response_eq. destruct (muted s); repeat split. Qed.
Lemma muted_send s r : muted (fst (send_response s r)) = true.
Proof. rewrite send_response_eq. destruct (muted s) eqn:E; [exact E|]. unfold muted. cbn. apply orb_true_r. Qed.

Section Proto.
Variable ip6 : str -> option str.
Variable handler : str -> hres.
Variable has_mw has_upload : bool.
Variable up_call_fails : option str.
Variable peer_ip : str.
Variable peer_fp : option str.

Notation route := (route handler).
Notation handle_gemini := (handle_gemini ip6 handler has_mw peer_ip peer_fp).
Notation start_upload := (start_upload has_upload up_call_fails).
Notation process_titan_upload := (process_titan_upload has_mw has_upload up_call_fails peer_ip peer_fp).
Notation handle_titan_url := (handle_titan_url ip6 has_mw has_upload up_call_fails peer_ip peer_fp).
Notation data_received := (data_received ip6 handler has_mw has_upload up_call_fails peer_ip peer_fp).
Notation feed := (feed ip6 handler has_mw has_upload up_call_fails peer_ip peer_fp).
Notation step := (step ip6 handler has_mw has_upload up_call_fails peer_ip peer_fp).
Notation run := (run ip6 handler has_mw has_upload up_call_fails peer_ip peer_fp).
Notation Inv := (Inv has_upload).

(* ---------- the dispatch helpers commute with set_buf and keep buf / line_rcvd / await ---------- *)
Lemma route_buf s b l line : route (set_buf s b l) line = lift b l (route s line).
Proof.
  unfold ServerProto.route. destruct (handler line).
  - rewrite send_buf. destruct (send_response s r); reflexivity.
  - rewrite !send_error_eq, send_buf. destruct (send_response s _); reflexivity.
  - reflexivity.
Qed.
Lemma Same_route s line : Same s (fst (route s line)).
Proof.
  unfold ServerProto.route. destruct (handler line).
  - generalize (Same_send s r). destruct (send_response s r); auto.
  - rewrite send_error_eq. generalize (Same_send s (err_resp 40 (lit "Server error: " ++ msg))).
    destruct (send_response s _); auto.
  - repeat split.
Qed.

Lemma hg_buf s b l line : handle_gemini (set_buf s b l) line = lift b l (handle_gemini s line).
Proof.
  unfold ServerProto.handle_gemini. destruct (gemini_from_line ip6 line).
  - destruct has_mw; [reflexivity|apply route_buf].
  - rewrite !send_error_eq. apply send_buf.
  - reflexivity.
Qed.
Lemma Same_hg s line : Same s (fst (handle_gemini s line)).
Proof.
  unfold ServerProto.handle_gemini. destruct (gemini_from_line ip6 line).
  - destruct has_mw; [repeat split|apply Same_route].
  - rewrite send_error_eq. apply Same_send.
  - apply Same_refl.
Qed.

Lemma su_buf s b l : start_upload (set_buf s b l) = lift b l (start_upload s).
Proof.
  unfold ServerProto.start_upload. cbn [titan content set_buf].
  destruct (titan s); [|reflexivity]. destruct has_upload; [|reflexivity].
  destruct up_call_fails as [msg|]; [|reflexivity].
  rewrite !upload_failed_eq, send_buf. destruct (send_response s _); reflexivity.
Qed.
Lemma Same_su s : Same s (fst (start_upload s)).
Proof.
  unfold ServerProto.start_upload. destruct (titan s); [|apply Same_refl].
  destruct has_upload; [|repeat split]. destruct up_call_fails as [msg|]; [|repeat split].
  rewrite upload_failed_eq. generalize (Same_send s (err_resp 40 (lit "Upload error: " ++ msg))).
  destruct (send_response s _); auto.
Qed.

Lemma ptu_buf s b l : process_titan_upload (set_buf s b l) = lift b l (process_titan_upload s).
Proof.
  unfold ServerProto.process_titan_upload.
  change (set_await (set_buf s b l) false) with (set_buf (set_await s false) b l).
  set (s1 := set_await s false). change (titan (set_buf s1 b l)) with (titan s1).
  destruct (titan s1).
  - destruct (negb has_upload); [rewrite !send_error_eq; apply send_buf|].
    destruct has_mw; [reflexivity|apply su_buf].
  - rewrite !send_error_eq; apply send_buf.
Qed.
Lemma ptu_frame s :
  buf (fst (process_titan_upload s)) = buf s /\
  line_rcvd (fst (process_titan_upload s)) = line_rcvd s /\
  await_titan (fst (process_titan_upload s)) = false.
Proof.
  change (Same (set_await s false) (fst (process_titan_upload s))).
  unfold ServerProto.process_titan_upload. set (s1 := set_await s false).
  destruct (titan s1).
  - destruct (negb has_upload); [rewrite send_error_eq; apply Same_send|].
    destruct has_mw; [repeat split|apply Same_su].
  - rewrite send_error_eq; apply Same_send.
Qed.

Lemma ptu_frame_cc s c :
  buf (fst (process_titan_upload (set_content (cancel_timer s) c))) = buf s /\
  line_rcvd (fst (process_titan_upload (set_content (cancel_timer s) c))) = line_rcvd s /\
  await_titan (fst (process_titan_upload (set_content (cancel_timer s) c))) = false.
Proof.
  destruct (ptu_frame (set_content (cancel_timer s) c)) as [E1 [E2 E3]]. rewrite E1, E2, E3.
  rewrite cancel_timer_eq. repeat split.
Qed.
Lemma ptu_frame_c s :
  buf (fst (process_titan_upload (cancel_timer s))) = buf s /\
  line_rcvd (fst (process_titan_upload (cancel_timer s))) = line_rcvd s /\
  await_titan (fst (process_titan_upload (cancel_timer s))) = false.
Proof.
  destruct (ptu_frame (cancel_timer s)) as [E1 [E2 E3]]. rewrite E1, E2, E3.
  rewrite cancel_timer_eq. repeat split.
Qed.
Lemma Same_hg_c s line : Same s (fst (handle_gemini (cancel_timer s) line)).
Proof.
  destruct (Same_hg (cancel_timer s) line) as [E1 [E2 E3]]. unfold Same. rewrite E1, E2, E3.
  rewrite cancel_timer_eq. repeat split.
Qed.

(* ---------- data_received = append, then look at the buffer ---------- *)
Definition dispatch (s1 : st) (line : str) : st * list action :=
  match decode line with
  | None => send_error s1 59 (lit "Invalid UTF-8 encoding")
  | Some url =>
      if prefixb titan_prefix url then handle_titan_url s1 url
      else handle_gemini (cancel_timer s1) url
  end.

Definition look (s : st) : st * list action :=
  if line_rcvd s then
    if await_titan s then
      match titan s with
      | Some t =>
          if (t_size t <=? N.of_nat (length (buf s)))%N
          then process_titan_upload (set_content (cancel_timer s) (take (N.to_nat (t_size t)) (buf s)))
          else (s, [])
      | None => (s, [])
      end
    else (s, [])
  else if toobig (buf s) then send_error s 59 too_big
  else match break_crlf (buf s) with
       | None => (s, [])
       | Some (line, rest) => dispatch (set_buf s rest true) line
       end.

Lemma data_received_look s d : data_received s d = look (app_buf s d).
Proof.
  unfold ServerProto.data_received, look, dispatch, toobig, app_buf.
  cbn [buf line_rcvd await_titan titan set_buf].
  destruct (line_rcvd s); cbn [negb]; [reflexivity|].
  destruct (break_crlf (buf s ++ d)) as [[l r]|]; destruct (N.ltb _ _); reflexivity.
Qed.

(* one more slice after the outcome p of an earlier one *)
Definition then_app (p : st * list action) (d : str) : st * list action :=
  (fst (look (app_buf (fst p) d)), snd p ++ snd (look (app_buf (fst p) d))).

Lemma then_app_id s d : then_app (s, []) d = look (app_buf s d).
Proof. unfold then_app. cbn [fst snd app]. destruct (look _); reflexivity. Qed.

Lemma look_done s : line_rcvd s = true -> await_titan s = false -> look s = (s, []).
Proof. intros H1 H2. unfold look. rewrite H1, H2. reflexivity. Qed.

Lemma look_toobig s : line_rcvd s = false -> toobig (buf s) = true -> look s = send_error s 59 too_big.
Proof. intros H1 H2. unfold look. rewrite H1, H2. reflexivity. Qed.

(* the request is complete after p: the slice is only buffered *)
Lemma then_app_done p b d :
  line_rcvd (fst p) = true -> await_titan (fst p) = false -> buf (fst p) = b ->
  then_app p d = lift (b ++ d) true p.
Proof.
  intros H1 H2 H3. unfold then_app. rewrite look_done by assumption.
  unfold app_buf, lift. cbn [fst snd]. rewrite H1, H3, app_nil_r. reflexivity.
Qed.

(* the size error was answered (or suppressed) in p: it is suppressed again *)
Lemma then_app_toobig p b d :
  line_rcvd (fst p) = false -> buf (fst p) = b -> toobig b = true -> muted (fst p) = true ->
  then_app p d = lift (b ++ d) false p.
Proof.
  intros H1 H2 H3 H4. unfold then_app.
  rewrite look_toobig; [|exact H1|cbn [buf app_buf set_buf]; rewrite H2; apply toobig_app, H3].
  rewrite send_error_eq, send_response_eq.
  change (muted (app_buf (fst p) d)) with (muted (fst p)). rewrite H4.
  unfold app_buf, lift. cbn [fst snd]. rewrite H1, H2, app_nil_r. reflexivity.
Qed.

Lemma cancel_buf s b l : cancel_timer (set_buf s b l) = set_buf (cancel_timer s) b l.
Proof. rewrite !cancel_timer_eq. reflexivity. Qed.

(* ---------- the dispatched line ---------- *)
Lemma dispatch_merge s line d :
  line_rcvd s = true -> await_titan s = false ->
  then_app (dispatch s line) d = dispatch (app_buf s d) line.
Proof.
  intros L A. unfold dispatch. destruct (decode line) as [url|].
  2:{ unfold app_buf. rewrite !send_error_eq, send_buf, L.
      destruct (Same_send s (err_resp 59 (lit "Invalid UTF-8 encoding"))) as [E1 [E2 E3]].
      apply then_app_done; congruence. }
  destruct (prefixb titan_prefix url).
  2:{ unfold app_buf. rewrite cancel_buf, hg_buf, L.
      destruct (Same_hg_c s url) as [E1 [E2 E3]].
      apply then_app_done; congruence. }
  unfold ServerProto.handle_titan_url.
  destruct (negb has_upload).
  { unfold app_buf. rewrite !send_error_eq, send_buf, L.
    destruct (Same_send s (err_resp 50 (lit "Titan uploads not supported on this server"))) as [E1 [E2 E3]].
    apply then_app_done; congruence. }
  destruct (titan_from_line ip6 url) as [t|k m|].
  - fold (set_titan s t). fold (set_titan (app_buf s d) t).
    destruct (N.eqb (t_size t) 0).
    + change (cancel_timer (set_titan (app_buf s d) t))
        with (cancel_timer (set_buf (set_titan s t) (buf s ++ d) (line_rcvd s))).
      rewrite cancel_buf, ptu_buf, L.
      destruct (ptu_frame_c (set_titan s t)) as [E1 [E2 E3]].
      cbn [buf line_rcvd set_titan] in E1, E2.
      apply then_app_done; congruence.
    + cbn [buf set_await set_titan app_buf set_buf].
      destruct (N.leb (t_size t) (N.of_nat (length (buf s)))) eqn:Le.
      * assert (Le2 : N.leb (t_size t) (N.of_nat (length (buf s ++ d))) = true)
          by (rewrite app_length; clear - Le; lia).
        rewrite Le2. rewrite take_app_le by (clear - Le; lia).
        set (c := take _ _).
        change (set_content (cancel_timer (set_await (set_titan (app_buf s d) t) true)) c)
          with (set_content (cancel_timer (set_buf (set_await (set_titan s t) true) (buf s ++ d) (line_rcvd s))) c).
        rewrite cancel_buf.
        change (set_content (set_buf (cancel_timer (set_await (set_titan s t) true)) (buf s ++ d) (line_rcvd s)) c)
          with (set_buf (set_content (cancel_timer (set_await (set_titan s t) true)) c) (buf s ++ d) (line_rcvd s)).
        rewrite ptu_buf, L.
        destruct (ptu_frame_cc (set_await (set_titan s t) true) c) as [E1 [E2 E3]].
        cbn [buf line_rcvd set_titan set_await] in E1, E2.
        apply then_app_done; congruence.
      * rewrite then_app_id. unfold look.
        cbn [line_rcvd await_titan titan buf app_buf set_buf set_await set_titan].
        rewrite L. reflexivity.
  - unfold app_buf. rewrite !send_error_eq, send_buf, L.
    destruct (Same_send s (err_resp 59 (lit "Invalid Titan URL: " ++ m))) as [E1 [E2 E3]].
    apply then_app_done; congruence.
  - rewrite (then_app_done _ (buf s)) by (cbn [fst]; first [assumption|reflexivity]). unfold lift, app_buf. cbn [fst snd]. rewrite L. reflexivity.
Qed.

(* ---------- the merge lemma: two slices = their concatenation ---------- *)
Lemma look_merge s d :
  (line_rcvd s = false -> await_titan s = false) ->
  then_app (look s) d = look (app_buf s d).
Proof.
  intro J. unfold look at 1. destruct (line_rcvd s) eqn:L.
  - destruct (await_titan s) eqn:A; [|apply then_app_id].
    destruct (titan s) as [t|] eqn:T; [|apply then_app_id].
    destruct (N.leb (t_size t) (N.of_nat (length (buf s)))) eqn:Le; [|apply then_app_id].
    unfold look. cbn [line_rcvd await_titan titan buf app_buf set_buf]. rewrite L, A, T.
    assert (Le2 : N.leb (t_size t) (N.of_nat (length (buf s ++ d))) = true)
      by (rewrite app_length; clear - Le; lia).
    rewrite Le2. rewrite take_app_le by (clear - Le; lia). set (c := take _ _).
    unfold app_buf. rewrite cancel_buf, L.
    change (set_content (set_buf (cancel_timer s) (buf s ++ d) true) c)
      with (set_buf (set_content (cancel_timer s) c) (buf s ++ d) true).
    rewrite ptu_buf.
    destruct (ptu_frame_cc s c) as [E1 [E2 E3]].
    apply then_app_done; congruence.
  - specialize (J eq_refl). destruct (toobig (buf s)) eqn:TB.
    + unfold look. cbn [line_rcvd buf app_buf set_buf]. rewrite L, (toobig_app _ d TB).
      rewrite !send_error_eq. unfold app_buf. rewrite send_buf, L.
      destruct (Same_send s (err_resp 59 too_big)) as [E1 [E2 E3]].
      apply then_app_toobig; try congruence. apply muted_send.
    + destruct (break_crlf (buf s)) as [[line rest]|] eqn:B; [|apply then_app_id].
      unfold look. cbn [line_rcvd buf app_buf set_buf]. rewrite L.
      assert (TB2 : toobig (buf s ++ d) = false).
      { unfold toobig in *. rewrite B in TB. rewrite (break_crlf_app_Some _ d _ _ B). exact TB. }
      rewrite TB2, (break_crlf_app_Some _ d _ _ B).
      rewrite (dispatch_merge (set_buf s rest true) line d eq_refl J). reflexivity.
Qed.

Lemma data_received_merge s d1 d2 :
  (line_rcvd s = false -> await_titan s = false) ->
  (fst (data_received (fst (data_received s d1)) d2),
   snd (data_received s d1) ++ snd (data_received (fst (data_received s d1)) d2))
  = data_received s (d1 ++ d2).
Proof.
  intro J. rewrite !data_received_look. rewrite <- app_buf_app.
  rewrite <- (look_merge (app_buf s d1) d2 J). reflexivity.
Qed.

(* ---------- feed = one data_received of the concatenation ---------- *)
Lemma feed_cons s d r :
  feed s (d :: r) = (fst (feed (fst (data_received s d)) r),
                     snd (data_received s d) ++ snd (feed (fst (data_received s d)) r)).
Proof. cbn [ServerProto.feed]. destruct (data_received s d) as [s1 a1]. cbn [fst snd]. destruct (feed s1 r). reflexivity. Qed.

Lemma feed_concat sl : forall s d, Inv s -> feed s (d :: sl) = data_received s (concat (d :: sl)).
Proof.
  induction sl as [|d' sl IH]; intros s d I.
  - rewrite feed_cons. cbn [ServerProto.feed concat fst snd]. rewrite !app_nil_r.
    destruct (data_received s d); reflexivity.
  - rewrite feed_cons.
    rewrite IH by (apply Inv_data_received; exact I).
    change (concat (d :: d' :: sl)) with (d ++ concat (d' :: sl)).
    apply data_received_merge. apply (i_line _ _ I).
Qed.

Lemma feed_app l1 : forall s l2,
  feed s (l1 ++ l2) = (fst (feed (fst (feed s l1)) l2), snd (feed s l1) ++ snd (feed (fst (feed s l1)) l2)).
Proof.
  induction l1 as [|d l1 IH]; intros s l2.
  - cbn. destruct (feed s l2); reflexivity.
  - rewrite <- app_comm_cons, !feed_cons, IH. cbn [fst snd]. rewrite app_assoc. reflexivity.
Qed.

(* ---------- run over reads only ---------- *)
Lemma run_reads reads : forall s, tr s = true ->
  flat (run s (map ERead reads)) = snd (feed s (concat reads)).
Proof.
  induction reads as [|sl reads IH]; intros s T; [reflexivity|].
  cbn [map concat]. rewrite run_cons, flat_cons. cbn [ServerProto.step]. rewrite T.
  rewrite IH by (rewrite (e_tr _ _ _ (Eff_feed ip6 handler has_mw has_upload up_call_fails peer_ip peer_fp sl s)); exact T).
  rewrite feed_app. reflexivity.
Qed.

Lemma refines_sec (reads : list (list str)) :
  flat (run init (map ERead reads)) = flat (run init [ERead [concat (concat reads)]]).
Proof.
  change [ERead [concat (concat reads)]] with (map ERead [[concat (concat reads)]]).
  rewrite !run_reads by reflexivity. cbn [concat]. rewrite app_nil_r.
  destruct (concat reads) as [|d sl].
  - reflexivity.
  - rewrite !feed_concat by apply Inv_init. cbn [concat]. rewrite !app_nil_r. reflexivity.
Qed.

End Proto.

Lemma refines : forall ip6 handler mw up ucf ip fp (reads : list (list str)),
  flat (run ip6 handler mw up ucf ip fp init (map ERead reads)) =
  flat (run ip6 handler mw up ucf ip fp init [ERead [concat (concat reads)]]).
Proof. exact refines_sec. Qed.
