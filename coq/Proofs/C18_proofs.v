(* C18 - proofs of the reverse-proxy relay theorems (Props/C18.v). *)
From Coq Require Import List NArith ZArith Bool Lia ZifyN ZifyBool ZifyNat.
From NV Require Import Prelude.Str Prelude.Res Prelude.Utf8 Model.ClientProto Model.ServerProto Model.Session Spec.ServerTrace.
From NV Require Import Proofs.StrLemmas Proofs.Utf8Lemmas.
From NV Require Proofs.C08_proofs.
From NV Require Spec.C13 Spec.C18.
Import ListNotations.
Open Scope N_scope.

Ltac Zify.zify_post_hook ::= Z.to_euclidean_division_equations.

(* ====================================================================== *)
(* UTF-8 round trip                                                        *)
(* ====================================================================== *)

Lemma encode_decode : forall b s, decode b = Some s -> encode_replace s = b.
Proof. exact Utf8Lemmas.encode_decode. Qed.

(* ====================================================================== *)
(* break_crlf                                                              *)
(* ====================================================================== *)

Lemma break_crlf_inv : forall s a b, break_crlf s = Some (a, b) -> s = a ++ [13; 10] ++ b.
Proof.
  induction s as [|x s IH]; intros a b H; [discriminate|].
  destruct s as [|y s'']; [discriminate|].
  rewrite C08_proofs.break_crlf_cons2 in H.
  destruct ((x =? 13) && (y =? 10)) eqn:E.
  - inversion H; subst. apply andb_true_iff in E as [E1 E2].
    apply N.eqb_eq in E1. apply N.eqb_eq in E2. subst. reflexivity.
  - destruct (break_crlf (y :: s'')) as [[a' b']|] eqn:B; [|discriminate].
    inversion H; subst. rewrite (IH a' b eq_refl). reflexivity.
Qed.

Lemma no_cr_has_crlf h : ~ In 13 h -> has_crlf h = false.
Proof.
  intro H. unfold has_crlf. destruct (break_crlf h) as [[a b]|] eqn:B; [|reflexivity].
  apply break_crlf_inv in B. exfalso. apply H. rewrite B. apply in_or_app. right. left. reflexivity.
Qed.

Lemma no_cr_end h : ~ In 13 h -> forall a, h <> a ++ [13].
Proof. intros H a E. apply H. rewrite E. apply in_or_app. right. left. reflexivity. Qed.

Lemma break_crlf_no_cr h rest : ~ In 13 h -> break_crlf (h ++ [13; 10] ++ rest) = Some (h, rest).
Proof. intro H. apply C08_proofs.break_crlf_at; [apply no_cr_has_crlf|apply no_cr_end]; assumption. Qed.

Lemma response_shape_cons w : w <> [] ->
  response_shape w = match break_crlf w with
                     | None => false
                     | Some (h, body) => header_ok h && (is_2x h || match body with [] => true | _ => false end)
                     end.
Proof. destruct w; [congruence|reflexivity]. Qed.

(* ====================================================================== *)
(* two-digit status codes                                                  *)
(* ====================================================================== *)

Lemma two_digits_tbl :
  forallb (fun v => Str.eqb (str_of_Z (Z.of_N v)) [48 + v / 10; 48 + v mod 10]) (map N.of_nat (seq 10 60)) = true.
Proof. vm_compute. reflexivity. Qed.

Lemma two_digits v : 10 <= v -> v <= 69 -> str_of_Z (Z.of_N v) = [48 + v / 10; 48 + v mod 10].
Proof.
  intros H1 H2. apply Str.eqb_spec. pose proof two_digits_tbl as T.
  rewrite forallb_forall in T. apply (T v).
  apply in_map_iff. exists (N.to_nat v). split; [lia|]. apply in_seq. lia.
Qed.

(* ====================================================================== *)
(* shape of everything `serialize` produces                                *)
(* ====================================================================== *)

Lemma clean_meta_no_crlf m : ~ In 13 (clean_meta m) /\ ~ In 10 (clean_meta m).
Proof.
  unfold clean_meta. split; intro H; apply in_map_iff in H; destruct H as [c [E _]];
    destruct (c =? 13) eqn:E1; destruct (c =? 10) eqn:E2; cbn [orb] in E; lia.
Qed.

Lemma clean_meta_id m : ~ In 13 m -> ~ In 10 m -> clean_meta m = m.
Proof.
  unfold clean_meta. induction m as [|c m IH]; intros H1 H2; [reflexivity|].
  cbn [map]. rewrite IH.
  - destruct (c =? 13) eqn:E1; [exfalso; apply H1; left; lia|].
    destruct (c =? 10) eqn:E2; [exfalso; apply H2; left; lia|]. reflexivity.
  - intro; apply H1; right; assumption.
  - intro; apply H2; right; assumption.
Qed.

Lemma meta_bytes_ok m :
  let e := encode_replace_upto 1024 (clean_meta m) in
  ~ In 13 e /\ ~ In 10 e /\ N.of_nat (length e) <= 1024.
Proof.
  cbv zeta. destruct (clean_meta_no_crlf m) as [A B]. repeat split.
  - intro H. apply encode_replace_upto_In in H; [|lia]. destruct H as [H|H]; [lia|contradiction].
  - intro H. apply encode_replace_upto_In in H; [|lia]. destruct H as [H|H]; [lia|contradiction].
  - apply encode_replace_upto_length.
Qed.

Lemma header_shape v e body :
  10 <= v -> v <= 69 -> ~ In 13 e -> ~ In 10 e -> N.of_nat (length e) <= 1024 ->
  ((20 <= v /\ v <= 29) \/ body = []) ->
  response_shape ((str_of_Z (Z.of_N v) ++ [32] ++ e ++ crlf) ++ body) = true.
Proof.
  intros V1 V2 E13 E10 EL HB. rewrite two_digits by assumption.
  set (d1 := 48 + v / 10). set (d2 := 48 + v mod 10).
  assert (D1 : 49 <= d1 /\ d1 <= 54) by (subst d1; lia).
  assert (D2 : 48 <= d2 /\ d2 <= 57) by (subst d2; lia).
  assert (DV : (d1 - 48) * 10 + (d2 - 48) = v) by (subst d1 d2; lia).
  replace (([d1; d2] ++ [32] ++ e ++ crlf) ++ body) with ((d1 :: d2 :: 32 :: e) ++ [13; 10] ++ body)
    by (unfold crlf; cbn [app]; rewrite <- app_assoc; reflexivity).
  rewrite response_shape_cons by discriminate.
  rewrite break_crlf_no_cr.
  2:{ intros [H|[H|[H|H]]]; try lia. contradiction. }
  apply andb_true_iff. split.
  - unfold header_ok. rewrite DV.
    apply notin_mem_false in E13. apply notin_mem_false in E10. rewrite E13, E10.
    unfold is_digit. cbn [negb]. lia.
  - unfold is_2x, status_of. rewrite DV. destruct HB as [HB| ->]; [|apply orb_true_r].
    apply orb_true_iff. left. lia.
Qed.

Lemma serialize_shape r : response_shape (fst (serialize r) ++ snd (serialize r)) = true.
Proof.
  unfold serialize. destruct (status_ok (rs_status r)) eqn:S.
  - cbn [fst snd]. unfold status_ok in S.
    set (z := rs_status r) in *.
    assert (Ez : z = Z.of_N (Z.to_N z)) by lia.
    destruct (meta_bytes_ok (rs_meta r)) as (A & B & C).
    unfold header_bytes. rewrite Ez at 1.
    apply header_shape; try assumption; try lia.
    unfold body_bytes. destruct ((20 <=? z)%Z && (z <=? 29)%Z) eqn:T; [left; lia|right; reflexivity].
  - vm_compute. reflexivity.
Qed.

Lemma relay_fst_snd cap u :
  relay cap u = fst (serialize (proxy_response cap u)) ++ snd (serialize (proxy_response cap u)).
Proof. unfold relay. destruct (serialize (proxy_response cap u)). reflexivity. Qed.

Lemma always_wellformed : forall cap u, response_shape (relay cap u) = true.
Proof. intros. rewrite relay_fst_snd. apply serialize_shape. Qed.

(* ====================================================================== *)
(* fault containment                                                       *)
(* ====================================================================== *)

Lemma serialize_43_prefix m bd :
  let r := serialize {| rs_status := 43; rs_meta := m; rs_body := bd |} in
  prefixb (lit "43 ") (fst r ++ snd r) = true.
Proof.
  cbv zeta. unfold serialize. cbn [rs_status rs_meta rs_body].
  change (status_ok 43) with true. cbv iota. cbn [fst snd].
  unfold header_bytes. change (str_of_Z 43) with [52; 51].
  reflexivity.
Qed.

Lemma fault_43 : forall cap u,
  u = UConnectFail \/ u = UTimeout \/
  (exists b exc k, u = UStream b exc /\ Spec.C13.spec_result false cap (fun _ _ => None) b exc = RErr k) ->
  prefixb (lit "43 ") (relay cap u) = true /\ response_shape (relay cap u) = true.
Proof.
  intros cap u H. split; [|apply always_wellformed].
  rewrite relay_fst_snd.
  destruct H as [->|[->|(b & exc & k & -> & E)]].
  - apply serialize_43_prefix.
  - apply serialize_43_prefix.
  - unfold proxy_response. rewrite E. apply serialize_43_prefix.
Qed.

(* ====================================================================== *)
(* verbatim relay                                                          *)
(* ====================================================================== *)

Lemma decode_no_ctl meta m c : c < 128 -> decode meta = Some m -> mem c meta = false -> mem c m = false.
Proof.
  intros Hc D H. apply notin_mem_false. intro Hin. apply mem_false_notin in H. apply H.
  eapply decode_In_ascii; eassumption.
Qed.

Lemma relay_verbatim : forall cap b, Spec.C18.wf_upstream cap b = true -> relay cap (UStream b None) = b.
Proof.
  intros cap b H. unfold Spec.C18.wf_upstream in H.
  destruct (break_crlf b) as [[h body]|] eqn:B; [|discriminate].
  apply andb_true_iff in H as [H Hbody]. apply andb_true_iff in H as [Hh Hd].
  destruct (decode (drop 3 h)) as [m|] eqn:D; [|discriminate]. clear Hd.
  destruct h as [|d1 [|d2 [|sp meta]]]; try discriminate.
  cbn [drop] in D.
  unfold header_ok in Hh.
  apply andb_true_iff in Hh as [Hh Hlen]. apply andb_true_iff in Hh as [Hh H10].
  apply andb_true_iff in Hh as [Hh H13]. apply andb_true_iff in Hh as [Hh Hv].
  apply andb_true_iff in Hh as [Hh Hsp]. apply andb_true_iff in Hh as [Hd1 Hd2].
  cbv zeta in Hv.
  apply N.eqb_eq in Hsp. subst sp.
  apply negb_true_iff in H13. apply negb_true_iff in H10.
  unfold is_2x, status_of in Hbody.
  set (v := (d1 - 48) * 10 + (d2 - 48)) in *.
  pose proof (break_crlf_inv _ _ _ B) as Eb.
  assert (Hd1' := Hd1). assert (Hd2' := Hd2). unfold is_digit in Hd1', Hd2'.
  assert (M13 : mem 13 m = false) by (eapply decode_no_ctl; [|eassumption|assumption]; lia).
  assert (M10 : mem 10 m = false) by (eapply decode_no_ctl; [|eassumption|assumption]; lia).
  (* the client's result *)
  assert (R : Spec.C13.spec_result false cap (fun _ _ => None) b None =
              ROk {| cr_status := v; cr_meta := m;
                     cr_body := if ClientProto.is_2x v then CBytes body else CNone |}).
  { unfold Spec.C13.spec_result. rewrite B.
    destruct (max_header_line <? N.of_nat (length (d1 :: d2 :: 32 :: meta))) eqn:L.
    { unfold max_header_line in L. cbn [length] in L. lia. }
    rewrite (decode_ascii_cons d1 (d2 :: 32 :: meta) (d2 :: 32 :: m)); [|lia|].
    2:{ apply decode_ascii_cons; [lia|]. apply decode_ascii_cons; [lia|assumption]. }
    change (d1 :: d2 :: 32 :: m) with ([d1; d2] ++ 32 :: m).
    rewrite partition_found.
    2:{ intros [A|[A|[]]]; lia. }
    cbv beta iota. rewrite Hd1, Hd2. cbn [andb]. cbv zeta. fold v.
    replace ((10 <=? v) && (v <? 70)) with true by lia. cbn [negb].
    rewrite M13, M10. cbn [orb].
    destruct (ClientProto.is_2x v) eqn:T2.
    - unfold ClientProto.is_2x in T2.
      replace ((20 <=? v) && (v <=? 29)) with true in Hbody by lia.
      replace (cap <? N.of_nat (length body)) with false by lia.
      rewrite andb_false_r. reflexivity.
    - reflexivity. }
  rewrite relay_fst_snd. unfold proxy_response. rewrite R. cbn [cr_status cr_meta cr_body].
  unfold serialize. cbn [rs_status rs_meta rs_body].
  assert (V : 10 <= v /\ v <= 69) by lia.
  replace (status_ok (Z.of_N v)) with true by (unfold status_ok; lia).
  cbn [fst snd]. unfold header_bytes.
  rewrite two_digits by lia.
  replace (48 + v / 10) with d1 by (subst v; lia).
  replace (48 + v mod 10) with d2 by (subst v; lia).
  rewrite clean_meta_id by (apply mem_false_notin; assumption).
  rewrite encode_replace_upto_fits by (rewrite (encode_decode _ _ D); lia).
  rewrite (encode_decode _ _ D).
  unfold body_bytes.
  destruct (ClientProto.is_2x v) eqn:T2; unfold ClientProto.is_2x in T2.
  - replace ((20 <=? Z.of_N v)%Z && (Z.of_N v <=? 29)%Z) with true by lia.
    rewrite Eb. unfold crlf. cbn [app]. rewrite <- app_assoc. reflexivity.
  - replace ((20 <=? v) && (v <=? 29)) with false in Hbody by lia.
    destruct body; [|discriminate].
    rewrite Eb. unfold crlf.
    destruct ((20 <=? Z.of_N v)%Z && (Z.of_N v <=? 29)%Z); cbn [app]; rewrite <- app_assoc; reflexivity.
Qed.
