(* Server protocol model: what reaches the wire is at most one serialised response. *)
From Coq Require Import List NArith ZArith Bool Lia ZifyBool ZifyN ZifyNat.
From NV Require Import Prelude.Str Prelude.Res Prelude.Utf8 Model.Url Model.Titan Model.ServerProto Spec.ServerTrace.
From NV Require Spec.C01.
From NV Require Import Proofs.Server_inv Proofs.Server_basic.
Import ListNotations.
Set Default Proof Using "Type".

(* writes and closes of an action list *)
Definition is_wc (x : action) : bool := is_write x || is_close x.
Definition wc (a : list action) : list action := filter is_wc a.

Lemma wire_wc a : wire a = wire (wc a).
Proof.
  induction a as [|x a IH]; [reflexivity|]. destruct x; cbn; try exact IH; try reflexivity.
  rewrite IH. reflexivity.
Qed.
Lemma wc_app a b : wc (a ++ b) = wc a ++ wc b.
Proof. apply filter_app. Qed.
Lemma wc_resp_acts r : wc (resp_acts r) = resp_acts r.
Proof. unfold resp_acts, body_acts. destruct (snd (serialize r)); reflexivity. Qed.
Lemma wire_resp_acts r : wire (resp_acts r) = (fst (serialize r) ++ snd (serialize r), true).
Proof.
  unfold resp_acts, body_acts. destruct (snd (serialize r)); cbn; rewrite ?app_nil_r; reflexivity.
Qed.

Definition timeout_resp : resp := err_resp 40 (lit "Request timeout").
Lemma timeout_acts : [AWrite timeout_line; AClose] = resp_acts timeout_resp.
Proof. vm_compute. reflexivity. Qed.

(* W P s s' a: a writes nothing, or it is the one response, which satisfies P *)
Definition W (P : resp -> Prop) (s s' : st) (a : list action) : Prop :=
  (wc a = [] /\ sent s' = sent s) \/
  (sent s = false /\ sent s' = true /\ exists r, wc a = resp_acts r /\ P r).

Lemma W_refl P s : W P s s [].
Proof. left. split; reflexivity. Qed.
Lemma W_same P s s' : sent s' = sent s -> W P s s' [].
Proof. left. split; [reflexivity|assumption]. Qed.
Lemma W_trans P s s1 s2 a1 a2 : W P s s1 a1 -> W P s1 s2 a2 -> W P s s2 (a1 ++ a2).
Proof.
  unfold W. intros [[H1 H2]|[H1 [H2 [r [H3 H4]]]]] [[K1 K2]|[K1 [K2 [r' [K3 K4]]]]]; rewrite wc_app.
  - left. rewrite H1, K1. split; [reflexivity|congruence].
  - right. rewrite H1. split; [congruence|]. split; [assumption|]. exists r'. auto.
  - right. rewrite K1, app_nil_r. split; [assumption|]. split; [congruence|]. exists r. auto.
  - congruence.
Qed.
Lemma W_pre P s s1 s2 a : W P s s1 [] -> W P s1 s2 a -> W P s s2 a.
Proof. intros H1 H2. exact (W_trans _ _ _ _ _ _ H1 H2). Qed.
Lemma W_cons P s s' x a : is_wc x = false -> W P s s' a -> W P s s' (x :: a).
Proof. intros H. unfold W, wc. cbn. rewrite H. auto. Qed.
Lemma W_weaken (P Q : resp -> Prop) s s' a : (forall r, P r -> Q r) -> W P s s' a -> W Q s s' a.
Proof.
  intros PQ [H|[H1 [H2 [r [H3 H4]]]]]; [left; assumption|].
  right. split; [assumption|]. split; [assumption|]. exists r. auto.
Qed.

Lemma W_send (P : resp -> Prop) s r : P r -> W P s (fst (send_response s r)) (snd (send_response s r)).
Proof.
  intro HP. rewrite send_response_eq. unfold muted.
  destruct (tr s) eqn:T; destruct (sent s) eqn:S; cbn; try apply W_refl.
  right. split; [assumption|]. split; [reflexivity|]. exists r. split; [apply wc_resp_acts|assumption].
Qed.
Lemma W_spawn P s k act : is_wc act = false -> W P s (fst (spawn s k)) [act].
Proof. intro H. apply W_cons; [assumption|]. apply W_same. reflexivity. Qed.

Section Proto.
Variable ip6 : str -> option str.
Variable handler : str -> hres.
Variable has_mw has_upload : bool.
Variable up_call_fails : option str.
Variable peer_ip : str.
Variable peer_fp : option str.

Notation route := (route handler).
Notation handle_gemini := (handle_gemini ip6 handler has_mw peer_ip peer_fp).
Notation start_upload := (start_upload has_upload up_call_fails).
Notation process_titan_upload := (process_titan_upload has_mw has_upload up_call_fails peer_ip peer_fp).
Notation handle_titan_url := (handle_titan_url ip6 has_mw has_upload up_call_fails peer_ip peer_fp).
Notation data_received := (data_received ip6 handler has_mw has_upload up_call_fails peer_ip peer_fp).
Notation feed := (feed ip6 handler has_mw has_upload up_call_fails peer_ip peer_fp).
Notation task_done := (task_done handler has_upload up_call_fails).
Notation step := (step ip6 handler has_mw has_upload up_call_fails peer_ip peer_fp).
Notation run := (run ip6 handler has_mw has_upload up_call_fails peer_ip peer_fp).
Notation final := (final ip6 handler has_mw has_upload up_call_fails peer_ip peer_fp).

(* responses that do not come from a completed task *)
Definition Src0 (r : resp) : Prop := rs_body r = BNone \/ exists line, handler line = HValue r.
Definition SrcO (o : outcome) (r : resp) : Prop := Src0 r \/ o = OResp r.
Definition SrcE (evs : list event) (r : resp) : Prop := Src0 r \/ exists id, In (EDone id (OResp r)) evs.

Lemma Src0_err z m : Src0 (err_resp z m).
Proof. left. reflexivity. Qed.
Lemma Src0_rej t : Src0 (rejection_resp t).
Proof. left. apply rejection_resp_body. Qed.
Hint Resolve Src0_err Src0_rej : core.

Ltac w_err := rewrite send_error_eq; apply W_send; auto.

Lemma W_route s line : W Src0 s (fst (route s line)) (snd (route s line)).
Proof.
  unfold ServerProto.route. destruct (handler line) eqn:E.
  - pose proof (W_send Src0 s r) as H. destruct (send_response s r). cbn [fst snd] in *.
    apply W_cons; [reflexivity|]. apply H. right. exists line. assumption.
  - rewrite send_error_eq. pose proof (W_send Src0 s (err_resp 40 (lit "Server error: " ++ msg))) as H.
    destruct (send_response s _). cbn [fst snd] in *. apply W_cons; [reflexivity|]. apply H. auto.
  - rewrite spawn_let; cbn [fst snd]. apply W_cons; [reflexivity|]. apply W_spawn. reflexivity.
Qed.

Lemma W_handle_gemini s line : W Src0 s (fst (handle_gemini s line)) (snd (handle_gemini s line)).
Proof.
  unfold ServerProto.handle_gemini. destruct (gemini_from_line ip6 line).
  - destruct has_mw; [|apply W_route]. rewrite spawn_let; cbn [fst snd]. apply W_spawn. reflexivity.
  - w_err.
  - cbn. apply W_cons; [reflexivity|apply W_refl].
Qed.

Lemma W_start_upload s : W Src0 s (fst (start_upload s)) (snd (start_upload s)).
Proof.
  unfold ServerProto.start_upload. destruct (titan s); [|apply W_refl].
  destruct has_upload; [|apply W_refl]. destruct up_call_fails as [msg|].
  - rewrite upload_failed_eq. pose proof (W_send Src0 s (err_resp 40 (lit "Upload error: " ++ msg))) as H.
    destruct (send_response s _). cbn [fst snd] in *. apply W_cons; [reflexivity|]. apply H. auto.
  - rewrite spawn_let; cbn [fst snd]. apply W_spawn. reflexivity.
Qed.

Lemma W_ptu s : W Src0 s (fst (process_titan_upload s)) (snd (process_titan_upload s)).
Proof.
  unfold ServerProto.process_titan_upload. eapply W_pre; [apply (W_same _ s (set_await s false)); reflexivity|].
  set (s1 := set_await s false). destruct (titan s1).
  - destruct (negb has_upload); [w_err|].
    destruct has_mw; [|apply W_start_upload]. rewrite spawn_let; cbn [fst snd]. apply W_spawn. reflexivity.
  - w_err.
Qed.

Lemma W_cancel P s : W P s (cancel_timer s) [].
Proof. apply W_same. rewrite cancel_timer_eq. reflexivity. Qed.

Lemma W_htu s line : W Src0 s (fst (handle_titan_url s line)) (snd (handle_titan_url s line)).
Proof.
  unfold ServerProto.handle_titan_url.
  destruct (negb has_upload); [w_err|].
  destruct (titan_from_line ip6 line) as [t|k m|].
  - fold (set_titan s t). eapply W_pre; [apply (W_same _ s (set_titan s t)); reflexivity|].
    set (s1 := set_titan s t). destruct (N.eqb (t_size t) 0).
    + eapply W_pre; [apply W_cancel|apply W_ptu].
    + eapply W_pre; [apply (W_same _ s1 (set_await s1 true)); reflexivity|]. set (s2 := set_await s1 true).
      destruct (N.leb _ _); [|apply W_refl].
      eapply W_pre; [apply W_cancel|].
      eapply W_pre; [|apply W_ptu]. apply W_same; reflexivity.
  - w_err.
  - cbn. apply W_cons; [reflexivity|apply W_refl].
Qed.

Lemma W_data_received s d : W Src0 s (fst (data_received s d)) (snd (data_received s d)).
Proof.
  unfold ServerProto.data_received.
  eapply W_pre; [apply (W_same _ s (set_buf s (buf s ++ d) (line_rcvd s))); reflexivity|].
  set (s1 := set_buf s (buf s ++ d) (line_rcvd s)).
  destruct (negb (line_rcvd s1)).
  - destruct (break_crlf (buf s1)) as [[line rest]|].
    + destruct (N.ltb 1024 _); [w_err|].
      eapply W_pre; [apply (W_same _ s1 (set_buf s1 rest true)); reflexivity|]. set (s2 := set_buf s1 rest true).
      destruct (decode line) as [url|]; [|w_err].
      destruct (prefixb titan_prefix url); [apply W_htu|].
      eapply W_pre; [apply W_cancel|apply W_handle_gemini].
    + destruct (N.ltb 1024 _); [w_err|apply W_refl].
  - destruct (await_titan s1); [|apply W_refl]. destruct (titan s1); [|apply W_refl].
    destruct (N.leb _ _); [|apply W_refl].
    eapply W_pre; [apply W_cancel|].
    eapply W_pre; [|apply W_ptu]. apply W_same; reflexivity.
Qed.

Lemma W_feed sl : forall s, W Src0 s (fst (feed s sl)) (snd (feed s sl)).
Proof.
  induction sl as [|d r IH]; intros s; cbn; [apply W_refl|].
  pose proof (W_data_received s d) as H1. destruct (data_received s d) as [s1 a1].
  specialize (IH s1). destruct (feed s1 r) as [s2 a2]. cbn in *. eapply W_trans; eassumption.
Qed.

Lemma W_task_done s id o : W (SrcO o) s (fst (task_done s id o)) (snd (task_done s id o)).
Proof.
  unfold ServerProto.task_done.
  destruct (take_task id (pending s)) as [[k|] rest]; [|apply W_refl].
  eapply W_pre; [apply (W_same _ s (set_pending s rest)); reflexivity|]. set (s1 := set_pending s rest).
  assert (L : forall r, Src0 r -> SrcO o r) by (intros r H; left; exact H).
  destruct k; destruct o as [r|m|[|] text|]; norm_err;
    first [ apply W_send; first [right; reflexivity | left; auto]
          | eapply W_weaken; [exact L|apply W_route]
          | eapply W_weaken; [exact L|apply W_start_upload] ].
Qed.

Lemma W_step s e evs : In e evs -> W (SrcE evs) s (fst (step s e)) (snd (step s e)).
Proof.
  intro HIn. assert (L : forall r, Src0 r -> SrcE evs r) by (intros r H; left; exact H).
  destruct e; cbn [ServerProto.step].
  - destruct (tr s); [eapply W_weaken; [exact L|apply W_feed]|apply W_refl].
  - destruct (timer s) eqn:T; try apply W_refl.
    cbn. destruct (tr s) eqn:TR; cbn; [|apply W_same; reflexivity].
    destruct (closing s) eqn:C; cbn; [apply W_same; reflexivity|].
    destruct (sent s) eqn:S; cbn; [apply W_same; cbn; congruence|].
    right. split; [assumption|]. split; [reflexivity|]. exists timeout_resp.
    split; [rewrite <- timeout_acts; reflexivity|]. left. left. reflexivity.
  - eapply W_weaken; [|apply W_task_done]. intros r [H|H]; [left; exact H|].
    right. exists id. subst o. exact HIn.
  - destruct (tr s); [|apply W_refl]. cbn. apply W_same. cbn. rewrite cancel_timer_eq. reflexivity.
Qed.

Lemma W_run all evs : (forall e, In e evs -> In e all) ->
  forall s, W (SrcE all) s (final s evs) (flat (run s evs)).
Proof.
  induction evs as [|e r IH]; intros Sub s; [apply W_refl|].
  rewrite run_cons, final_cons, flat_cons. eapply W_trans.
  - apply W_step. apply Sub. left. reflexivity.
  - apply IH. intros x Hx. apply Sub. right. assumption.
Qed.

(* the wire of a whole run *)
Lemma wire_run evs :
  wire (flat (run init evs)) = ([], false) \/
  exists r, SrcE evs r /\ wire (flat (run init evs)) = (fst (serialize r) ++ snd (serialize r), true).
Proof.
  destruct (W_run evs evs (fun e H => H) init) as [[H1 H2]|[H1 [H2 [r [H3 H4]]]]]; rewrite wire_wc.
  - left. rewrite H1. reflexivity.
  - right. exists r. split; [assumption|]. rewrite H3. apply wire_resp_acts.
Qed.

End Proto.
