(* Proofs of the Gen = Model statements of Equiv/EquivServer.v (server/protocol.py). *)
From Coq Require Import List NArith ZArith Bool.
From NV Require Import Prelude.Str Prelude.Res Model.Url Model.Titan Model.ServerProto Equiv.ServerGlue Gen.ServerGen.
Import ListNotations.

(* a pair rebuilt from its components through the generated `let '(s, b) := p in (s, [] ++ b)` *)
Lemma repair : forall (p : st * list action), (let '(s, b) := p in (s, [] ++ b)) = p.
Proof. intros [s b]. reflexivity. Qed.

Ltac fin := rewrite ?repair; reflexivity.

Lemma cancel_timer_proj : forall s,
  buf (cancel_timer s) = buf s /\ line_rcvd (cancel_timer s) = line_rcvd s /\
  await_titan (cancel_timer s) = await_titan s /\ titan (cancel_timer s) = titan s /\
  content (cancel_timer s) = content s /\ tr (cancel_timer s) = tr s /\
  closing (cancel_timer s) = closing s /\ sent (cancel_timer s) = sent s /\
  next_id (cancel_timer s) = next_id s /\ pending (cancel_timer s) = pending s.
Proof. intros [b l a t c [] r cl se n p]; cbv [cancel_timer set_timer timer]; repeat split. Qed.

Lemma send_error_tie : forall s status msg,
  gen_send_error_response send_response s status msg = send_error s status msg.
Proof.
  intros s status msg. unfold gen_send_error_response, send_error, mk_resp.
  rewrite repair. destruct (tr s) eqn:E; cbn [negb]; [reflexivity|].
  unfold send_response. rewrite E. reflexivity.
Qed.

Lemma start_titan_upload_tie : forall mw up ucf ip fp s,
  gen_start_titan_upload send_error mw up ip fp (upcall_of ucf) s = start_upload up ucf s.
Proof.
  intros mw up ucf ip fp s. unfold gen_start_titan_upload, start_upload, upload_failed, upcall_of, tline, spawn.
  destruct (titan s) as [t|] eqn:Et; destruct up; cbn [negb orb]; try reflexivity.
  destruct ucf as [msg|]; [|reflexivity].
  cbv zeta. destruct (send_error s 40 (lit "Upload error: " ++ msg)) as [s' b']. reflexivity.
Qed.

Lemma process_titan_upload_tie : forall mw up ucf ip fp s,
  gen_process_titan_upload send_error (start_upload up ucf) mw up ip fp s = process_titan_upload mw up ucf ip fp s.
Proof.
  intros mw up ucf ip fp s. unfold gen_process_titan_upload, process_titan_upload.
  cbv zeta. rewrite !repair.
  change (set_await s false) with (upd_await s false).
  generalize (upd_await s false); clear s; intro s.
  unfold tnorm, spawn.
  destruct s as [b l a t c ti r cl se n p]; cbn [titan].
  destruct t as [t|]; destruct up; destruct mw; reflexivity.
Qed.

Lemma handle_titan_url_tie : forall ip6 mw up ucf ip fp s url,
  gen_handle_titan_url send_error (process_titan_upload mw up ucf ip fp) mw up ip fp ip6 s url
  = handle_titan_url ip6 mw up ucf ip fp s url.
Proof.
  intros ip6 mw up ucf ip fp s url. unfold gen_handle_titan_url, handle_titan_url.
  cbv zeta. rewrite !repair.
  destruct (negb up); [fin|].
  destruct (titan_from_line ip6 url) as [t|k e|]; [|fin|fin].
  change (upd_titan s (Some t)) with
    {| buf := buf s; line_rcvd := line_rcvd s; await_titan := await_titan s; titan := Some t;
       content := content s; timer := timer s; tr := tr s; closing := closing s; sent := sent s;
       next_id := next_id s; pending := pending s |}.
  set (s1 := {| buf := buf s; titan := Some t |}).
  assert (T1 : tsize s1 = t_size t) by reflexivity. rewrite T1.
  destruct (N.eqb (t_size t) 0); [fin|].
  change (upd_await s1 true) with (set_await s1 true).
  set (s2 := set_await s1 true).
  assert (T2 : tsize s2 = t_size t) by reflexivity. rewrite T2.
  destruct (N.leb (t_size t) (N.of_nat (length (buf s2)))); [|fin].
  unfold tsize. destruct (cancel_timer_proj s2) as (Hb & _ & _ & Ht & _). rewrite Hb, Ht.
  fin.
Qed.

Lemma data_received_tie : forall ip6 handler mw up ucf ip fp s d,
  gen_data_received send_error (handle_titan_url ip6 mw up ucf ip fp) (handle_gemini ip6 handler mw ip fp)
                    (process_titan_upload mw up ucf ip fp) s d
  = data_received ip6 handler mw up ucf ip fp s d.
Proof.
  intros ip6 handler mw up ucf ip fp s d. unfold gen_data_received, data_received.
  cbv zeta. rewrite !repair.
  change (upd_buf s (buf s ++ d)) with (set_buf s (buf s ++ d) (line_rcvd s)).
  generalize (set_buf s (buf s ++ d) (line_rcvd s)); clear s; intro s.
  destruct (negb (line_rcvd s)).
  - unfold has_crlf. destruct (break_crlf (buf s)) as [[line rest]|].
    + rewrite andb_false_r.
      change (N.ltb 1024 (N.of_nat (length line) + 2)) with (1024 <? N.of_nat (length line) + 2)%N.
      destruct (1024 <? N.of_nat (length line) + 2)%N; [fin|].
      change (upd_line_rcvd (upd_buf s rest) true) with (set_buf s rest true).
      destruct (Utf8.decode line) as [url|]; [|fin].
      fold titan_prefix. destruct (prefixb titan_prefix url); fin.
    + rewrite andb_true_r. fin.
  - destruct (await_titan s); cbn [andb]; [|fin].
    unfold tsize at 1 2. destruct (titan s) as [t|] eqn:Et; [|fin].
    destruct (N.leb (t_size t) (N.of_nat (length (buf s)))); [|fin].
    unfold tsize. destruct (cancel_timer_proj s) as (Hb & _ & _ & Ht & _). rewrite Hb, Ht, Et.
    fin.
Qed.

Lemma connection_lost_tie : forall ip6 handler mw up ucf ip fp s,
  tr s = true ->
  step ip6 handler mw up ucf ip fp s ELost = gen_connection_lost s.
Proof.
  intros ip6 handler mw up ucf ip fp s H. unfold step, gen_connection_lost. rewrite H. reflexivity.
Qed.

Lemma timeout_bytes :
  encode_total [52; 48; 32; 82; 101; 113; 117; 101; 115; 116; 32; 116; 105; 109; 101; 111; 117; 116; 13; 10]%N
  = timeout_line.
Proof. vm_compute. reflexivity. Qed.

Lemma handle_timeout_tie : forall ip6 handler mw up ucf ip fp s,
  timer s = TArmed ->
  step ip6 handler mw up ucf ip fp s ETimer = gen_handle_timeout (set_timer s TFired).
Proof.
  intros ip6 handler mw up ucf ip fp s H. unfold step, gen_handle_timeout. rewrite H.
  rewrite timeout_bytes.
  generalize timeout_line; intro tl.
  destruct s as [b l a t c ti r cl se n p].
  cbv [set_timer buf line_rcvd await_titan titan content timer tr closing sent next_id pending].
  destruct r, cl, se; reflexivity.
Qed.

(* __init__, connection_made, REQUEST_TIMEOUT *)
Lemma init_tie : gen_init blank = (blank, []).
Proof. reflexivity. Qed.
Lemma connection_made_tie : gen_connection_made (fst (gen_init blank)) = (init, []).
Proof. reflexivity. Qed.
Lemma request_timeout_value : gen_request_timeout_ms = 30000%N.
Proof. reflexivity. Qed.
