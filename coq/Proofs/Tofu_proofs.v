(* Proofs for C03 (TOFU pinning), C12 (atomic trust store, export/import) and C11 (nothing is
   written before verification).  Referenced by Props/C03.v, Props/C12.v, Props/C11.v. *)
From Coq Require Import List NArith ZArith Bool Lia ZifyBool ZifyN ZifyNat.
From NV Require Import Prelude.Str Prelude.Res Model.Tofu Model.ClientProto Model.Session Proofs.StrLemmas.
From NV Require Spec.C03 Spec.C12 Spec.C11.
Import ListNotations.
Open Scope N_scope.

(* ------------------------------------------------------------------------------------------ *)
(* keys and lookup                                                                            *)
(* ------------------------------------------------------------------------------------------ *)

Lemma key_eqb_true h p r : key_eqb h p r = true <-> h = r_host r /\ p = r_port r.
Proof. unfold key_eqb. rewrite andb_true_iff, eqb_spec, N.eqb_eq. tauto. Qed.

Lemma key_eqb_refl r : key_eqb (r_host r) (r_port r) r = true.
Proof. apply key_eqb_true; split; reflexivity. Qed.

Lemma key_other h p h' p' r : (h', p') <> (h, p) -> key_eqb h' p' r = true -> key_eqb h p r = false.
Proof.
  intros Hne H. apply key_eqb_true in H as [H1 H2].
  destruct (key_eqb h p r) eqn:E; [|reflexivity].
  apply key_eqb_true in E as [E1 E2]. exfalso; apply Hne. congruence.
Qed.

Lemma key_eqb_upd h' p' a fp :
  key_eqb h' p' {| r_host := r_host a; r_port := r_port a; r_fp := fp; r_first := r_first a |} = key_eqb h' p' a.
Proof. reflexivity. Qed.

Lemma lookup_app s t h p :
  lookup (s ++ t) h p = match lookup s h p with Some r => Some r | None => lookup t h p end.
Proof.
  unfold lookup. induction s as [|a s IH]; cbn [app find]; [reflexivity|].
  destruct (key_eqb h p a); [reflexivity|exact IH].
Qed.

Lemma lookup_single h p r : lookup [r] h p = if key_eqb h p r then Some r else None.
Proof. reflexivity. Qed.

Lemma lookup_snoc_other s r h p h' p' :
  (h', p') <> (h, p) -> key_eqb h p r = true -> lookup (s ++ [r]) h' p' = lookup s h' p'.
Proof.
  intros Hne Hk. rewrite lookup_app, lookup_single.
  destruct (lookup s h' p'); [reflexivity|].
  destruct (key_eqb h' p' r) eqn:E; [|reflexivity].
  apply (key_other h p) in E; [congruence|assumption].
Qed.

Lemma lookup_upsert_other s h p fp h' p' :
  (h', p') <> (h, p) -> lookup (upsert_fp s h p fp) h' p' = lookup s h' p'.
Proof.
  intros Hne. unfold lookup, upsert_fp. induction s as [|a s IH]; cbn [map find]; [reflexivity|].
  destruct (key_eqb h p a) eqn:E1.
  - rewrite key_eqb_upd. destruct (key_eqb h' p' a) eqn:E2.
    + apply (key_other h p) in E2; [congruence|assumption].
    + exact IH.
  - destruct (key_eqb h' p' a); [reflexivity|exact IH].
Qed.

Lemma lookup_delete_other s h p h' p' :
  (h', p') <> (h, p) -> lookup (delete s h p) h' p' = lookup s h' p'.
Proof.
  intros Hne. unfold lookup, delete. induction s as [|a s IH]; cbn [filter find]; [reflexivity|].
  destruct (key_eqb h p a) eqn:E1; cbn [negb find].
  - destruct (key_eqb h' p' a) eqn:E2.
    + apply (key_other h p) in E2; [congruence|assumption].
    + exact IH.
  - destruct (key_eqb h' p' a); [reflexivity|exact IH].
Qed.

Lemma lookup_delete_same s h p : lookup (delete s h p) h p = None.
Proof.
  unfold lookup, delete. induction s as [|a s IH]; cbn [filter find]; [reflexivity|].
  destruct (key_eqb h p a) eqn:E1; cbn [negb find]; [exact IH|]. rewrite E1. exact IH.
Qed.

Lemma delete_snoc s r h p : key_eqb h p r = true -> delete (s ++ [r]) h p = delete s h p.
Proof. intro H. unfold delete. rewrite filter_app. cbn [filter]. rewrite H. cbn [negb]. apply app_nil_r. Qed.

Lemma pair_dec (h' h : str) (p' p : N) : (h', p') = (h, p) \/ (h', p') <> (h, p).
Proof.
  destruct (eqb h' h) eqn:E1.
  - apply eqb_spec in E1. destruct (p' =? p) eqn:E2.
    + apply N.eqb_eq in E2. left; congruence.
    + apply N.eqb_neq in E2. right; congruence.
  - apply eqb_neq in E1. right; congruence.
Qed.

(* ------------------------------------------------------------------------------------------ *)
(* the operations                                                                             *)
(* ------------------------------------------------------------------------------------------ *)

Definition mkrow (h : str) (p : N) (fp now : str) : row :=
  {| r_host := h; r_port := p; r_fp := fp; r_first := now |}.

Lemma key_eqb_mkrow h p fp now : key_eqb h p (mkrow h p fp now) = true.
Proof. apply (key_eqb_refl (mkrow h p fp now)). Qed.

Lemma finish_trust s h p fp now :
  finish s (trust_stmts s h p fp now) true =
  match lookup s h p with None => s ++ [mkrow h p fp now] | Some _ => upsert_fp s h p fp end.
Proof.
  unfold finish, trust_stmts, after_crash. destruct (lookup s h p) eqn:E.
  - reflexivity.
  - cbn [length run_stmts exec r_host r_port]. rewrite E. reflexivity.
Qed.

Lemma finish_revoke s h p : finish s [SDelete h p; SCommit] true = delete s h p.
Proof. reflexivity. Qed.

Lemma tofu_check_cases s h p c now :
  (c = PUnreadable /\ tofu_check s h p c now = (s, SRefused)) \/
  (exists fp r, c = PCert fp /\ lookup s h p = Some r /\ r_fp r = fp /\
                tofu_check s h p c now = (s, SAccepted)) \/
  (exists fp r, c = PCert fp /\ lookup s h p = Some r /\ r_fp r <> fp /\
                tofu_check s h p c now = (s, SChanged (r_fp r) fp)) \/
  (exists fp, c = PCert fp /\ lookup s h p = None /\
              tofu_check s h p c now = (s ++ [mkrow h p fp now], SAccepted)).
Proof.
  destruct c as [fp|].
  - right. unfold tofu_check. rewrite finish_trust. unfold verify.
    destruct (lookup s h p) as [r|] eqn:E.
    + destruct (eqb (r_fp r) fp) eqn:Ef.
      * left. exists fp, r. apply eqb_spec in Ef. auto.
      * right; left. exists fp, r. apply eqb_neq in Ef. auto.
    + right; right. exists fp. auto.
  - left. split; reflexivity.
Qed.

(* the store after a check is the old one, or the old one plus a row for the checked key *)
Lemma tofu_check_fst s h p c now :
  fst (tofu_check s h p c now) = s \/
  exists r, key_eqb h p r = true /\ lookup s h p = None /\ fst (tofu_check s h p c now) = s ++ [r].
Proof.
  destruct (tofu_check_cases s h p c now) as [[_ E]|[(fp & r & _ & _ & _ & E)|[(fp & r & _ & _ & _ & E)|(fp & _ & L & E)]]];
    rewrite E; cbn [fst]; auto.
  right. exists (mkrow h p fp now). split; [apply (key_eqb_mkrow h p fp now)|auto].
Qed.

(* ------------------------------------------------------------------------------------------ *)
(* C03                                                                                        *)
(* ------------------------------------------------------------------------------------------ *)

Lemma accept_iff : forall s h p c now s',
  tofu_check s h p c now = (s', SAccepted) ->
  exists fp, c = PCert fp /\
    ((Spec.C03.pin s h p = Some fp /\ s' = s) \/
     (Spec.C03.pin s h p = None /\ Spec.C03.pin s' h p = Some fp)).
Proof.
  intros s h p c now s' H. unfold Spec.C03.pin.
  destruct (tofu_check_cases s h p c now) as [[_ E]|[(fp & r & Hc & L & Hf & E)|[(fp & r & _ & _ & _ & E)|(fp & Hc & L & E)]]];
    rewrite E in H; inversion H; subst.
  - exists (r_fp r). split; [reflexivity|]. left. rewrite L. auto.
  - exists fp. split; [reflexivity|]. right. rewrite lookup_app, L, lookup_single.
    rewrite (key_eqb_mkrow h p fp now). auto.
Qed.

Lemma changed : forall s h p f g now,
  Spec.C03.pin s h p = Some f -> g <> f ->
  tofu_check s h p (PCert g) now = (s, SChanged f g).
Proof.
  intros s h p f g now H Hne. unfold Spec.C03.pin in H. unfold tofu_check, verify.
  destruct (lookup s h p) as [r|]; [|discriminate]. inversion H; subst.
  destruct (eqb (r_fp r) g) eqn:E; [|reflexivity]. apply eqb_spec in E. congruence.
Qed.

Lemma isolation : forall s h p c now h' p',
  (h', p') <> (h, p) ->
  Spec.C03.pin (fst (tofu_check s h p c now)) h' p' = Spec.C03.pin s h' p'.
Proof.
  intros s h p c now h' p' Hne. unfold Spec.C03.pin.
  destruct (tofu_check_fst s h p c now) as [E|(r & Hk & _ & E)]; rewrite E; [reflexivity|].
  rewrite (lookup_snoc_other s r h p h' p' Hne Hk). reflexivity.
Qed.

Lemma unreadable_refused : forall s h p now, tofu_check s h p PUnreadable now = (s, SRefused).
Proof. reflexivity. Qed.

Lemma pin_preserved s h0 p0 c now h p f :
  Spec.C03.pin s h p = Some f -> Spec.C03.pin (fst (tofu_check s h0 p0 c now)) h p = Some f.
Proof.
  intro H. destruct (tofu_check_fst s h0 p0 c now) as [E|(r & _ & _ & E)]; rewrite E; [exact H|].
  unfold Spec.C03.pin in *. rewrite lookup_app. destruct (lookup s h p); [exact H|discriminate].
Qed.

Lemma history : forall (ops : list (str * N * presented * str)) s h p f,
  Spec.C03.pin s h p = Some f ->
  Spec.C03.pin (fold_left (fun st o => fst (tofu_check st (fst (fst (fst o))) (snd (fst (fst o))) (snd (fst o)) (snd o))) ops s) h p = Some f.
Proof.
  induction ops as [|o ops IH]; intros s h p f H; cbn [fold_left]; [exact H|].
  apply IH. apply pin_preserved. exact H.
Qed.

(* every row is found under its own key: what key uniqueness buys *)
Definition found_self (s : store) : Prop := forall r, In r s -> lookup s (r_host r) (r_port r) = Some r.

Lemma unique_found_self s :
  (forall r1 r2 i j, nth_error s i = Some r1 -> nth_error s j = Some r2 ->
                     r_host r1 = r_host r2 -> r_port r1 = r_port r2 -> i = j) -> found_self s.
Proof.
  intros K r Hin. destruct (In_nth_error _ _ Hin) as [i Hi].
  destruct (lookup s (r_host r) (r_port r)) as [r'|] eqn:E; unfold lookup in E.
  - apply find_some in E as [Hin' Hk]. destruct (In_nth_error _ _ Hin') as [j Hj].
    apply key_eqb_true in Hk as [Hh Hp].
    assert (i = j) by (eapply K; eauto). subst. congruence.
  - apply (find_none _ _ E) in Hin. rewrite key_eqb_refl in Hin. discriminate.
Qed.

Lemma found_self_delete s h p : found_self s -> found_self (delete s h p).
Proof.
  intros U r Hin. unfold delete in Hin. apply filter_In in Hin as [Hin Hk].
  rewrite lookup_delete_other; [apply U; exact Hin|].
  intro Heq. inversion Heq; subst. rewrite key_eqb_refl in Hk. discriminate.
Qed.

Lemma same_pins_refl s : found_self s -> Spec.C03.same_pins s s = true.
Proof.
  intro U. unfold Spec.C03.same_pins. rewrite andb_diag. unfold Spec.C03.pins_subset.
  apply forallb_forall. intros r Hin. unfold Spec.C03.pin. rewrite (U r Hin). apply eqb_refl.
Qed.

Lemma ok_model : forall s h p c now,
  (forall r1 r2 i j, nth_error s i = Some r1 -> nth_error s j = Some r2 -> r_host r1 = r_host r2 -> r_port r1 = r_port r2 -> i = j) ->
  Spec.C03.ok s h p c (snd (tofu_check s h p c now)) (fst (tofu_check s h p c now)) = true.
Proof.
  intros s h p c now K. apply unique_found_self in K.
  pose proof (same_pins_refl s K) as R.
  pose proof (same_pins_refl _ (found_self_delete s h p K)) as Rd.
  unfold Spec.C03.ok, Spec.C03.same_pins_except.
  destruct (tofu_check_cases s h p c now) as [[Hc E]|[(fp & r & Hc & L & Hf & E)|[(fp & r & Hc & L & Hf & E)|(fp & Hc & L & E)]]];
    rewrite E; cbn [fst snd]; subst c.
  - rewrite Rd, R. reflexivity.
  - rewrite Rd. unfold Spec.C03.pin. rewrite L. subst fp. rewrite !eqb_refl. reflexivity.
  - rewrite Rd, R. unfold Spec.C03.pin. rewrite L.
    apply eqb_neq in Hf. rewrite Hf, !eqb_refl. reflexivity.
  - rewrite (delete_snoc s (mkrow h p fp now) h p (key_eqb_mkrow h p fp now)), Rd.
    unfold Spec.C03.pin. rewrite lookup_app, L, lookup_single.
    rewrite (key_eqb_mkrow h p fp now). cbn [r_fp mkrow]. rewrite eqb_refl. reflexivity.
Qed.

(* ------------------------------------------------------------------------------------------ *)
(* C12: transactions                                                                          *)
(* ------------------------------------------------------------------------------------------ *)

Lemma run_no_commit l : ~ In SCommit l -> forall c w k, fst (fst (run_stmts c w l k)) = c.
Proof.
  induction l as [|a l IH]; intros H c w k; destruct k as [|k]; cbn [run_stmts]; try reflexivity.
  destruct (exec w a) as [w'|] eqn:E; [|reflexivity].
  destruct a; try (apply IH; intro; apply H; right; assumption).
  exfalso; apply H; left; reflexivity.
Qed.

Lemma atomic_gen body : ~ In SCommit body -> forall c w k,
  fst (fst (run_stmts c w (body ++ [SCommit]) k)) = c \/
  fst (fst (run_stmts c w (body ++ [SCommit]) k)) =
  fst (fst (run_stmts c w (body ++ [SCommit]) (length (body ++ [SCommit])))).
Proof.
  induction body as [|a body IH]; intros H c w k.
  - destruct k as [|k]; [left; reflexivity|]. right. cbn. destruct k; reflexivity.
  - destruct k as [|k]; [left; reflexivity|].
    cbn [app length run_stmts].
    destruct (exec w a) as [w'|] eqn:E; [|left; reflexivity].
    assert (H' : ~ In SCommit body) by (intro; apply H; right; assumption).
    destruct a; try (apply IH; exact H').
    exfalso; apply H; left; reflexivity.
Qed.

Lemma atomic : forall s body k,
  ~ In SCommit body ->
  after_crash s (body ++ [SCommit]) k = s \/
  after_crash s (body ++ [SCommit]) k = after_crash s (body ++ [SCommit]) (length (body ++ [SCommit])).
Proof. intros s body k H. unfold after_crash. apply atomic_gen. exact H. Qed.

Lemma single_commit_trust : forall s h p fp now,
  exists body, trust_stmts s h p fp now = body ++ [SCommit] /\ ~ In SCommit body.
Proof.
  intros s h p fp now. unfold trust_stmts. destruct (lookup s h p).
  - exists [SUpdateFp h p fp]. split; [reflexivity|]. intros [H|[]]; discriminate.
  - exists [SInsert {| r_host := h; r_port := p; r_fp := fp; r_first := now |}].
    split; [reflexivity|]. intros [H|[]]; discriminate.
Qed.

Lemma notin_commit_snoc acc x : ~ In SCommit acc -> x <> SCommit -> ~ In SCommit (acc ++ [x]).
Proof. intros H Hx Hin. apply in_app_or in Hin as [Hin|[Hin|[]]]; [auto|congruence]. Qed.

Lemma import_loop_shape cb : forall es w acc l b,
  import_loop cb w es acc = (l, b) -> ~ In SCommit acc ->
  if b then exists body, l = body ++ [SCommit] /\ ~ In SCommit body else ~ In SCommit l.
Proof.
  induction es as [|e es IH]; intros w acc l b H Hacc; cbn [import_loop] in H.
  - inversion H; subst. exists acc. auto.
  - destruct (negb (e_complete e)); [inversion H; subst; exact Hacc|].
    destruct (negb (e_port_is_int e) || (e_port e <? 1)%Z || (65535 <? e_port e)%Z); [inversion H; subst; exact Hacc|].
    destruct (negb (fp_valid (e_fp e))); [inversion H; subst; exact Hacc|].
    destruct (lookup w (e_host e) (Z.to_N (e_port e))) as [r|].
    + destruct (eqb (r_fp r) (e_fp e)); [eapply IH; eauto|].
      destruct cb as [f|]; [|eapply IH; eauto].
      destruct (f (e_host e) (Z.to_N (e_port e)) (r_fp r) (e_fp e)).
      * eapply IH; [exact H|]. apply notin_commit_snoc; [exact Hacc|discriminate].
      * eapply IH; eauto.
      * inversion H; subst; exact Hacc.
    + eapply IH; [exact H|]. apply notin_commit_snoc; [exact Hacc|discriminate].
Qed.

Lemma single_commit_import : forall cb s merge es l,
  import_stmts cb s merge es = (l, true) -> exists body, l = body ++ [SCommit] /\ ~ In SCommit body.
Proof.
  intros cb s merge es l H. unfold import_stmts in H. destruct merge.
  - apply (import_loop_shape cb es s [] l true H). intros [].
  - apply (import_loop_shape cb es [] [SDeleteAll] l true H). intros [E|[]]; discriminate.
Qed.

Lemma failed_import_is_noop : forall cb s merge es l k,
  import_stmts cb s merge es = (l, false) -> after_crash s l k = s.
Proof.
  intros cb s merge es l k H. unfold after_crash. apply run_no_commit.
  unfold import_stmts in H. destruct merge.
  - apply (import_loop_shape cb es s [] l false H). intros [].
  - apply (import_loop_shape cb es [] [SDeleteAll] l false H). intros [E|[]]; discriminate.
Qed.

Lemma frame_trust : forall s h p fp now h' p', (h', p') <> (h, p) ->
  Spec.C03.pin (finish s (trust_stmts s h p fp now) true) h' p' = Spec.C03.pin s h' p'.
Proof.
  intros s h p fp now h' p' Hne. rewrite finish_trust. unfold Spec.C03.pin.
  destruct (lookup s h p).
  - rewrite lookup_upsert_other by exact Hne. reflexivity.
  - rewrite (lookup_snoc_other s (mkrow h p fp now) h p h' p' Hne (key_eqb_mkrow h p fp now)).
    reflexivity.
Qed.

Lemma frame_revoke : forall s h p h' p', (h', p') <> (h, p) ->
  Spec.C03.pin (finish s [SDelete h p; SCommit] true) h' p' = Spec.C03.pin s h' p'.
Proof.
  intros s h p h' p' Hne. rewrite finish_revoke. unfold Spec.C03.pin.
  rewrite lookup_delete_other by exact Hne. reflexivity.
Qed.

(* ------------------------------------------------------------------------------------------ *)
(* C12: export / import                                                                       *)
(* ------------------------------------------------------------------------------------------ *)

Lemma rbreak_at_app c a b : ~ In c b -> rbreak_at c (a ++ c :: b) = Some (a, b).
Proof.
  intro H. induction a as [|x a IH]; cbn [app rbreak_at].
  - rewrite (rbreak_at_notin c b H), N.eqb_refl. reflexivity.
  - rewrite IH. reflexivity.
Qed.

Lemma colon_notin_dec n : ~ In ch_colon (dec n).
Proof. intro H. apply dec_digits in H. vm_compute in H. discriminate. Qed.

Lemma key_injective : forall r1 r2, export_key r1 = export_key r2 -> r_host r1 = r_host r2 /\ r_port r1 = r_port r2.
Proof.
  intros r1 r2 H. unfold export_key in H.
  apply (f_equal (rbreak_at ch_colon)) in H.
  rewrite !rbreak_at_app in H by apply colon_notin_dec.
  inversion H as [[Hh Hd]]. split; [reflexivity|].
  apply (f_equal undec) in Hd. rewrite !undec_dec in Hd. congruence.
Qed.

Definition entry_of (r : row) : entry :=
  {| e_host := r_host r; e_port := Z.of_N (r_port r); e_port_is_int := true;
     e_fp := r_fp r; e_first := r_first r; e_complete := true |}.

Lemma map_snd_export s : map snd (export_entries s) = map entry_of s.
Proof. unfold export_entries. rewrite map_map. reflexivity. Qed.

Lemma lookup_prefix_none pre r rest :
  Spec.C12.keys_unique (pre ++ r :: rest) -> lookup pre (r_host r) (r_port r) = None.
Proof.
  intro K. destruct (lookup pre (r_host r) (r_port r)) as [r'|] eqn:E; [|reflexivity].
  unfold lookup in E. apply find_some in E as [Hin Hk].
  destruct (In_nth_error _ _ Hin) as [j Hj].
  assert (Hlt : (j < length pre)%nat) by (apply nth_error_Some; congruence).
  apply key_eqb_true in Hk as [Hh Hp].
  assert (j = length pre).
  { apply (K j (length pre) r' r).
    - rewrite nth_error_app1 by exact Hlt. exact Hj.
    - rewrite nth_error_app2 by lia. rewrite Nat.sub_diag. reflexivity.
    - congruence.
    - congruence. }
  lia.
Qed.

Lemma import_rt cb : forall rest pre acc, Spec.C12.wf_store (pre ++ rest) ->
  import_loop cb pre (map entry_of rest) acc = (acc ++ map SInsert rest ++ [SCommit], true).
Proof.
  induction rest as [|r rest IH]; intros pre acc W.
  - reflexivity.
  - destruct W as [K F].
    assert (Hr : 1 <= r_port r <= 65535 /\ fp_valid (r_fp r) = true).
    { rewrite Forall_forall in F. apply F. apply in_elt. }
    destruct Hr as [Hport Hfp].
    cbn [map import_loop].
    cbn [entry_of e_complete e_port_is_int e_port e_fp e_host e_first negb orb].
    replace (Z.of_N (r_port r) <? 1)%Z with false by lia.
    replace (65535 <? Z.of_N (r_port r))%Z with false by lia.
    rewrite Hfp. cbn [negb]. rewrite N2Z.id.
    rewrite (lookup_prefix_none pre r rest K).
    replace {| r_host := r_host r; r_port := r_port r; r_fp := r_fp r; r_first := r_first r |} with r
      by (destruct r; reflexivity).
    rewrite IH.
    + rewrite <- app_assoc. reflexivity.
    + rewrite <- app_assoc. split; assumption.
Qed.

Lemma run_inserts : forall rest pre c, Spec.C12.keys_unique (pre ++ rest) ->
  run_stmts c pre (map SInsert rest ++ [SCommit]) (length (map SInsert rest ++ [SCommit])) =
  (pre ++ rest, pre ++ rest, true).
Proof.
  induction rest as [|r rest IH]; intros pre c K.
  - cbn. rewrite app_nil_r. reflexivity.
  - cbn [map app length run_stmts exec]. rewrite (lookup_prefix_none pre r rest K).
    rewrite IH; rewrite <- app_assoc; [reflexivity|exact K].
Qed.

Lemma roundtrip : forall cb s, Spec.C12.wf_store s ->
  let (l, okb) := import_stmts cb [] true (map snd (export_entries s)) in
  okb = true /\ finish [] l true = s.
Proof.
  intros cb s W. unfold import_stmts. rewrite map_snd_export.
  rewrite (import_rt cb s [] [] W). split; [reflexivity|].
  unfold finish, after_crash. cbn [app]. rewrite (run_inserts s [] []); [reflexivity|exact (proj1 W)].
Qed.

(* ------------------------------------------------------------------------------------------ *)
(* C11                                                                                        *)
(* ------------------------------------------------------------------------------------------ *)

Lemma writes_of_map req : writes_of (map CWrite req) = map SWrite req.
Proof. unfold writes_of. induction req as [|b req IH]; cbn [map flat_map app]; [reflexivity|]. rewrite IH. reflexivity. Qed.

Lemma session_trace request db cap dw s h p c now chunks exc :
  snd (session_call request db cap dw true s h p c now chunks exc) =
  match snd (tofu_check s h p c now) with
  | SAccepted => SVerified SAccepted :: map SWrite request
  | r => [SVerified r]
  end.
Proof.
  unfold session_call. cbn [cstep cinit connected].
  destruct (tofu_check s h p c now) as [s' [| |]]; cbn [snd writes_of flat_map app]; try reflexivity.
  f_equal. apply writes_of_map.
Qed.

Lemma ok_from_writes req : Spec.C11.ok_from (map SWrite req) true = true.
Proof. induction req as [|b req IH]; cbn [map Spec.C11.ok_from andb]; auto. Qed.

Lemma no_write_before_verify : forall request decode_body cap dw s h p c now chunks exc,
  Spec.C11.ok (snd (session_call request decode_body cap dw true s h p c now chunks exc)) = true.
Proof.
  intros. rewrite session_trace. unfold Spec.C11.ok.
  destruct (snd (tofu_check s h p c now)); cbn [Spec.C11.ok_from]; [apply ok_from_writes|reflexivity|reflexivity].
Qed.

Lemma nothing_on_failure : forall request decode_body cap dw s h p c now chunks exc,
  snd (tofu_check s h p c now) <> SAccepted ->
  forall b, ~ In (SWrite b) (snd (session_call request decode_body cap dw true s h p c now chunks exc)).
Proof.
  intros request decode_body cap dw s h p c now chunks exc H b. rewrite session_trace.
  destruct (snd (tofu_check s h p c now)); [congruence| |]; intros [E|[]]; discriminate.
Qed.

Lemma sent_after_accept : forall request decode_body cap dw s h p c now chunks exc s',
  tofu_check s h p c now = (s', SAccepted) ->
  snd (session_call request decode_body cap dw true s h p c now chunks exc) = SVerified SAccepted :: map SWrite request.
Proof. intros. rewrite session_trace. rewrite H. reflexivity. Qed.
