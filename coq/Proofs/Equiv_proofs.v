(* Proofs of the Gen = Model lemmas stated in Equiv/Equiv.v.
   Gen/PyGen.v is regenerated on every run: the proofs below never mention a generated local
   name; every loop is handled by induction on its list (generalised over the accumulators)
   followed by case analysis on the conditions met. *)
From Coq Require Import List NArith ZArith QArith Bool Lia.
From NV Require Import Prelude.Str Prelude.Res Model.Bucket Model.Ip Model.CertAuth Model.Redirect Model.Proxy Model.Fs.
From NV Require Import Gen.PyGen.
Import ListNotations.
Open Scope list_scope.

(* ---------- helper definitions of Equiv/Equiv.v, restated verbatim ---------- *)
Definition verdict_pair (v : verdict) : bool * option str :=
  match v with
  | Allow => (true, None)
  | Deny60 => (false, Some (lit "60 Client certificate required" ++ [13; 10]%N))
  | Deny61 => (false, Some (lit "61 Certificate not authorized" ++ [13; 10]%N))
  end.

Definition outcome_of (r : res response) : outcome :=
  match r with
  | Ok x => Final x
  | Err k _ => if eqb k (lit "OutOfFuel") then OutOfFuel else Fail k
  | OutOfModel => Fail (lit "oom")
  end.

Definition chain_spec (mws : list (str -> str -> option str -> bool * option str)) (url ip : str) (fp : option str) : bool * option str :=
  match find (fun m => negb (fst (m url ip fp))) mws with
  | Some m => (false, snd (m url ip fp))
  | None => (true, None)
  end.

(* ---------- small string facts ---------- *)
Lemma eqb_nil_r (s : str) : eqb s (lit "") = match s with [] => true | _ => false end.
Proof. destruct s; reflexivity. Qed.

Lemma prefixb_slash (s : str) : prefixb (lit "/") s = starts_with_slash s.
Proof.
  change (lit "/") with [ch_slash].
  destruct s as [|c s]; [reflexivity|]. cbn [prefixb starts_with_slash]. rewrite andb_true_r. apply N.eqb_sym.
Qed.

Lemma suffixb_slash (s : str) : suffixb (lit "/") s = ends_with_slash s.
Proof.
  unfold suffixb, ends_with_slash. change (rev (lit "/")) with [ch_slash].
  destruct (rev s) as [|c r]; [reflexivity|]. cbn [prefixb]. rewrite andb_true_r. apply N.eqb_sym.
Qed.

Lemma skip_segment (n : str) :
  existsb (eqb n) [lit ""; lit "."] = (match n with [] => true | _ => false end || eqb n dot).
Proof.
  cbn [existsb]. rewrite eqb_nil_r, orb_false_r. reflexivity.
Qed.

(* ---------- TokenBucket.consume ---------- *)
Lemma consume_tie : forall capq rateq tok lst now,
  gen_consume capq rateq tok lst now (inject_Z 1) =
  let (ok, b) := consume {| cap := capq; rate := rateq |} now {| tokens := tok; last := lst |} in (ok, tokens b, last b).
Proof.
  intros. unfold gen_consume, consume, refill. cbn [cap rate tokens last].
  change (inject_Z 1) with 1%Q.
  destruct (Qle_bool _ _); reflexivity.
Qed.

(* ---------- AccessControl._is_allowed ---------- *)
Lemma is_allowed_tie : forall ipaddr dn al dflt ip,
  gen_is_allowed ipaddr dn al dflt ip = is_allowed {| allow := al; deny := dn; default_allow := dflt |} (ipaddr ip).
Proof.
  intros. unfold gen_is_allowed, is_allowed. cbn [allow deny default_allow].
  destruct (ipaddr ip) as [x|]; [|reflexivity].
  induction dn as [|n dn IH]; cbn [existsb].
  - destruct al as [|a al]; [reflexivity|].
    cbn [existsb]. revert a.
    induction al as [|m al IHl]; intro a; cbn [existsb];
      (destruct (contains a x); cbn [orb]; [reflexivity|]); [reflexivity|apply IHl].
  - destruct (contains n x); [reflexivity|exact IH].
Qed.

(* ---------- CertificateAuth ---------- *)
Lemma find_matching_rule_tie : forall rules path, gen_find_matching_rule rules path = find_rule rules path.
Proof.
  intros. unfold gen_find_matching_rule, find_rule.
  induction rules as [|r rules IH]; cbn [find]; [reflexivity|].
  destruct (prefixb (ru_prefix r) path); [reflexivity|exact IH].
Qed.

Lemma candidate_locations_tie : forall path, gen_candidate_locations index_names path = candidates path.
Proof.
  intros. unfold gen_candidate_locations, candidates, rstrip_slashes. cbv zeta.
  change (lit "/") with [ch_slash].
  rewrite <- app_assoc. f_equal; [destruct (rstrip_by _ path); reflexivity|]. f_equal.
  apply map_ext. intro n. rewrite <- app_assoc. reflexivity.
Qed.

Lemma msg60 : lit "60 Client certificate required" ++ [13; 10]%N =
  [54; 48; 32; 67; 108; 105; 101; 110; 116; 32; 99; 101; 114; 116; 105; 102; 105; 99; 97; 116; 101; 32; 114; 101; 113; 117; 105; 114; 101; 100; 13; 10]%N.
Proof. reflexivity. Qed.
Lemma msg61 : lit "61 Certificate not authorized" ++ [13; 10]%N =
  [54; 49; 32; 67; 101; 114; 116; 105; 102; 105; 99; 97; 116; 101; 32; 110; 111; 116; 32; 97; 117; 116; 104; 111; 114; 105; 122; 101; 100; 13; 10]%N.
Proof. reflexivity. Qed.

Lemma certauth_process_tie : forall (extract : str -> str) rules url ip fp,
  gen_certauth_process extract candidates (find_rule rules) url ip fp =
  verdict_pair (first_denial rules (candidates (extract url)) fp).
Proof.
  intros. unfold gen_certauth_process. cbv zeta.
  generalize (candidates (extract url)) as locs. intro locs.
  induction locs as [|l locs IH]; [reflexivity|].
  cbn [first_denial]. unfold apply_rule.
  destruct (find_rule rules l) as [r|]; [|exact IH].
  destruct r as [p rq [al|]], rq, fp as [f|]; cbn [ru_require ru_allowed andb orb negb];
    try reflexivity; try exact IH.
  destruct (existsb (eqb f) al); cbn [negb]; [exact IH|reflexivity].
  destruct (existsb (eqb f) al); cbn [negb]; [exact IH|reflexivity].
Qed.

(* ---------- canonical_path_segments ---------- *)
Lemma canonical_segments_clamp_tie : forall (unq : str -> str) path,
  gen_canonical_path_segments unq path true = Ok (canon_segs (comps (unq path)) []).
Proof.
  intros. unfold gen_canonical_path_segments, comps. cbv zeta.
  match goal with |- ?F _ [] = _ =>
    enough (E : forall cs acc, F cs acc = Ok (canon_segs cs acc)) by apply E end.
  clear. induction cs as [|n cs IH]; intro acc; [reflexivity|].
  cbn [canon_segs]. rewrite <- skip_segment.
  destruct (existsb (eqb n) [lit ""; lit "."]); [apply IH|].
  change (lit "..") with dotdot.
  destruct (eqb n dotdot); [|apply IH].
  destruct acc as [|a acc]; [apply IH|]. apply IH.
Qed.

Lemma canonical_segments_strict_tie : forall (unq : str -> str) path,
  gen_canonical_path_segments unq path false =
  match canon_strict (comps (unq path)) [] with Some s => Ok s | None => Err (lit "ValueError") [] end.
Proof.
  intros. unfold gen_canonical_path_segments, comps. cbv zeta.
  match goal with |- ?F _ [] = _ =>
    enough (E : forall cs acc, F cs acc =
      match canon_strict cs acc with Some s => Ok s | None => Err (lit "ValueError") [] end) by apply E end.
  clear. induction cs as [|n cs IH]; intro acc; [reflexivity|].
  cbn [canon_strict]. rewrite <- skip_segment.
  destruct (existsb (eqb n) [lit ""; lit "."]); [apply IH|].
  change (lit "..") with dotdot.
  destruct (eqb n dotdot); [|apply IH].
  destruct acc as [|a acc]; [reflexivity|]. apply IH.
Qed.

(* ---------- ProxyHandler: upstream URL ---------- *)
Lemma upstream_url_tie : forall c path query,
  gen_upstream_url (rstrip_slash (px_upstream c)) (px_prefix c) (px_strip c) path query = upstream_url c path query.
Proof.
  intros. unfold gen_upstream_url, upstream_url, mapped. cbv zeta.
  rewrite suffixb_slash, eqb_nil_r, !prefixb_slash.
  change (lit "/") with [ch_slash]. change (lit "?") with [ch_qm].
  destruct (px_strip c && prefixb (px_prefix c) path);
    [destruct (ends_with_slash (px_prefix c) || _ || _);
      [destruct (starts_with_slash _)|]|];
    cbn [negb]; destruct query; rewrite ?app_nil_r, <- ?app_assoc; reflexivity.
Qed.

(* ---------- GeminiClient._get_with_redirects ---------- *)
Lemma fst_follow_cons (p : outcome * list str) (u : str) :
  fst (let (o, l) := p in (o, u :: l)) = fst p.
Proof. destruct p; reflexivity. Qed.

Lemma get_with_redirects_tie : forall fetch fuel url max chain,
  (forall i u m, fetch i u <> Err (lit "OutOfFuel") m) ->
  outcome_of (gen_get_with_redirects fetch fuel url max chain) = fst (Redirect.follow fetch fuel max url chain).
Proof.
  intros fetch fuel url max chain H. revert url chain.
  induction fuel as [|fuel IH]; intros url chain; [reflexivity|].
  cbn [gen_get_with_redirects Redirect.follow]. cbv zeta.
  destruct (existsb (eqb url) chain); [reflexivity|].
  destruct (Nat.ltb max (length chain)); [reflexivity|].
  destruct (fetch (length chain) url) as [r|k m|] eqn:F; [| |reflexivity].
  - destruct (is_redirect (r_status r)); [|reflexivity].
    destruct (r_meta r) as [|c t] eqn:M; [reflexivity|]. cbn [negb].
    change (lit "gemini://") with gemini_prefix.
    destruct (prefixb gemini_prefix (c :: t)); cbn [negb]; [|reflexivity].
    rewrite fst_follow_cons. apply IH.
  - cbn [outcome_of fst].
    destruct (eqb k (lit "OutOfFuel")) eqn:E; [|reflexivity].
    apply eqb_spec in E. subst k. exfalso. exact (H _ _ _ F).
Qed.

(* ---------- MiddlewareChain.process_request ---------- *)
Lemma chain_process_tie : forall mws url ip fp, gen_chain_process mws url ip fp = chain_spec mws url ip fp.
Proof.
  intros. unfold gen_chain_process, chain_spec.
  induction mws as [|m mws IH]; cbn [find]; [reflexivity|].
  destruct (m url ip fp) as [a r] eqn:Em. cbn [fst].
  destruct a; cbn [negb]; [exact IH|]. rewrite Em. reflexivity.
Qed.

(* is_redirect (status.py), GeminiResponse.is_redirect / redirect_url (response.py) *)
Lemma status_is_redirect_tie : forall z, gen_status_is_redirect z = Redirect.is_redirect z.
Proof. intro z. reflexivity. Qed.
Lemma response_is_redirect_tie : forall z, gen_response_is_redirect z = Redirect.is_redirect z.
Proof. intro z. reflexivity. Qed.
Lemma response_redirect_url_tie : forall z meta,
  gen_response_redirect_url z meta = if Redirect.is_redirect z then Some meta else None.
Proof. intros z meta. reflexivity. Qed.
