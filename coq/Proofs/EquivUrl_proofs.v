(* Proofs of the Gen = Model lemmas stated in Equiv/EquivUrl.v (URL / request-line functions).
   Gen/UrlGen.v is regenerated on every run by translate/py2coq_url.py: the proofs below never mention a
   generated local name; they unfold the generated definition and follow its case analysis. *)
From Coq Require Import List NArith ZArith Bool Lia.
From NV Require Import Prelude.Str Prelude.Res Prelude.Utf8 Prelude.Repr Model.Url Model.Titan.
From NV Require Import Proofs.StrLemmas Proofs.UrlLemmas Equiv.UrlGlue Gen.UrlGen.
Import ListNotations.
Open Scope list_scope.

(* ---------- small facts ---------- *)
Lemma mem_break_at c s : mem c s = match break_at c s with Some _ => true | None => false end.
Proof.
  destruct (break_at c s) as [[a b]|] eqn:E.
  - apply break_at_Some in E as [-> _]. apply In_mem_true. apply in_or_app. right. left. reflexivity.
  - apply notin_mem_false. apply break_at_None. exact E.
Qed.

Lemma hd_split_on_aux c s : forall cur,
  hd [] (split_on_aux c cur s) = rev cur ++ match break_at c s with Some (a, _) => a | None => s end.
Proof.
  induction s as [|x s IH]; intro cur; cbn [split_on_aux break_at hd].
  - rewrite app_nil_r. reflexivity.
  - destruct (N.eqb x c); cbn [hd]; [rewrite app_nil_r; reflexivity|].
    rewrite IH. cbn [rev]. rewrite <- app_assoc.
    destruct (break_at c s) as [[a b]|]; reflexivity.
Qed.
Lemma hd_split_on s : hd [] (split_on ch_semi s) = titan_base s.
Proof. unfold split_on, titan_base. rewrite hd_split_on_aux. reflexivity. Qed.

Lemma str_of_Z_of_N n : str_of_Z (Z.of_N n) = dec n.
Proof. destruct n; reflexivity. Qed.

Lemma truthy_eq (o : option str) :
  match o with Some t => match t with [] => false | _ => true end | None => false end = truthy o.
Proof. destruct o as [[|c t]|]; reflexivity. Qed.

(* ---------- urlparse / urlunparse of UrlGlue where parse_url uses them ---------- *)
Lemma urlparse_split ip6 u :
  urlparse ip6 u =
  match urlsplit ip6 u with
  | Ok sp =>
      let pp := if existsb (eqb (u_scheme sp)) uses_params && mem ch_semi (u_path sp)
                then splitparams (u_path sp) else (u_path sp, []) in
      Ok {| up_scheme := u_scheme sp; up_netloc := u_netloc sp; up_path := fst pp; up_params := snd pp;
            up_query := u_query sp; up_fragment := u_fragment sp |}
  | Err k m => Err k m
  | OutOfModel => OutOfModel
  end.
Proof.
  unfold urlparse. destruct (urlsplit ip6 u) as [sp|k m|]; cbn [bind]; try reflexivity.
  destruct (existsb _ _ && _); [destruct (splitparams _)|]; reflexivity.
Qed.

Lemma gemini_no_params : existsb (eqb (lit "gemini")) uses_params = false.
Proof. vm_compute. reflexivity. Qed.

Lemma urlunparse_gemini nl p q : nonempty nl = true ->
  urlunparse (lit "gemini") nl p [] q [] = urlunsplit_gemini nl p q.
Proof.
  intro H. unfold urlunparse, urlunsplit, urlunsplit_gemini. cbn [nonempty]. rewrite H. cbn [orb].
  change (nonempty (lit "gemini")) with true. cbv iota.
  change (lit "/") with [ch_slash].
  destruct p as [|c p]; cbn [nonempty andb take eqb].
  - destruct q; cbn [nonempty]; rewrite ?app_nil_r, <- ?app_assoc; reflexivity.
  - rewrite andb_true_r. destruct (N.eqb c ch_slash); cbn [negb];
      destruct q; cbn [nonempty]; rewrite ?app_nil_r, <- ?app_assoc; reflexivity.
Qed.

(* ---------- parse_url ---------- *)
Lemma parse_url_tie : forall ip6 u,
  gen_parse_url (urlparse ip6) u = res_map purl_of_parsed (parse_url ip6 u).
Proof.
  intros ip6 u. unfold gen_parse_url, parse_url.
  destruct u as [|c0 u0]; [reflexivity|]. cbv iota. cbn [negb].
  rewrite urlparse_split.
  destruct (urlsplit ip6 (c0 :: u0)) as [sp|k m|]; cbn [bind res_map]; [|reflexivity|reflexivity].
  cbv zeta. cbn [up_scheme up_netloc up_path up_params up_query up_fragment].
  destruct (u_scheme sp) as [|s0 sch] eqn:Es; [reflexivity|]. cbv iota. cbn [negb].
  unfold gemini_s.
  destruct (eqb (s0 :: sch) (lit "gemini")) eqn:Eg; cbn [negb]; [|reflexivity].
  apply eqb_spec in Eg. rewrite Eg, gemini_no_params. cbn [andb fst snd].
  destruct (hostname (u_netloc sp)) as [h|] eqn:Eh; [|reflexivity].
  destruct (hostname_Some_inv _ _ Eh) as [Hh _].
  destruct h as [|h0 h1]; [congruence|]. cbv iota.
  rewrite !truthy_eq.
  destruct (userinfo (u_netloc sp)) as [un pw]. cbn [fst snd].
  destruct (truthy un || truthy pw); [reflexivity|].
  destruct (u_fragment sp) as [|f0 f1]; [|reflexivity]. cbv iota.
  destruct (port (u_netloc sp)) as [po|k m|]; cbn [bind res_map]; [|reflexivity|reflexivity].
  unfold purl_of_parsed. cbn [p_host p_port p_path p_query p_norm]. unfold gemini_s.
  f_equal. f_equal.
  - destruct (u_path sp); reflexivity.
  - destruct (u_query sp); reflexivity.
  - rewrite urlunparse_gemini.
    + f_equal; [|destruct (u_path sp); reflexivity].
      destruct (N.eqb _ 1965); cbn [negb]; reflexivity.
    + destruct (negb _); destruct (mem _ _); reflexivity.
Qed.

(* ---------- validate_url, GeminiRequest.from_line ---------- *)
Lemma validate_url_tie : forall ip6 u,
  gen_validate_url (gen_parse_url (urlparse ip6)) u = res_map (fun _ => tt) (gemini_from_line_full ip6 u).
Proof.
  intros. unfold gen_validate_url, gemini_from_line_full, encode_utf8, too_long_msg.
  destruct (encode u) as [b|]; [|reflexivity].
  destruct (N.ltb 1024 (N.of_nat (length b) + 2)); [reflexivity|].
  rewrite parse_url_tie. destruct (parse_url ip6 u); reflexivity.
Qed.

Lemma gemini_from_line_full_tie : forall ip6 line,
  gen_gemini_from_line (gen_validate_url (gen_parse_url (urlparse ip6))) (gen_parse_url (urlparse ip6)) line
  = res_map (greq_of_parsed line) (gemini_from_line_full ip6 line).
Proof.
  intros. unfold gen_gemini_from_line. rewrite validate_url_tie, parse_url_tie.
  unfold gemini_from_line_full.
  destruct (encode line) as [b|]; [|reflexivity].
  destruct (N.ltb 1024 (N.of_nat (length b) + 2)); [reflexivity|].
  destruct (parse_url ip6 line); reflexivity.
Qed.

Lemma urlsplit_err_kind ip6 u k m : urlsplit ip6 u = Err k m -> k = lit "urlsplit".
Proof.
  rewrite urlsplit_unfold. cbv zeta.
  destruct (split_scheme _) as [sc u1].
  destruct (if prefixb _ u1 then _ else _) as [nl u2].
  destruct (negb _); [discriminate|].
  destruct (check_brackets ip6 nl); [intro H; inversion H; reflexivity|].
  destruct (cut _ _); destruct (cut _ _); discriminate.
Qed.

Lemma parse_url_err_kind ip6 u k m : parse_url ip6 u = Err k m -> eqb k (lit "too_long") = false.
Proof.
  unfold parse_url. destruct u as [|c0 u0]; [intro H; inversion H; reflexivity|].
  destruct (urlsplit ip6 (c0 :: u0)) as [sp|k' m'|] eqn:Eu; cbn [bind]; [| |discriminate].
  - destruct (u_scheme sp); [intro H; inversion H; reflexivity|].
    destruct (negb _); [intro H; inversion H; reflexivity|].
    destruct (hostname _); [|intro H; inversion H; reflexivity].
    destruct (userinfo _) as [un pw].
    destruct (truthy un || truthy pw); [intro H; inversion H; reflexivity|].
    destruct (u_fragment sp); [|intro H; inversion H; reflexivity].
    unfold port. destruct (snd (hostinfo _)); cbn [bind]; [discriminate|].
    destruct (undec _); [destruct (N.leb _ _)|]; cbn [bind];
      try discriminate; intro H; inversion H; reflexivity.
  - intro H. inversion H. subst. apply urlsplit_err_kind in Eu. subst. reflexivity.
Qed.

Lemma gemini_from_line_model : forall ip6 line,
  abbreviate (gemini_from_line_full ip6 line) = gemini_from_line ip6 line.
Proof.
  intros. unfold gemini_from_line_full, gemini_from_line.
  destruct (encode line) as [b|]; [|reflexivity].
  destruct (N.ltb 1024 (N.of_nat (length b) + 2)); [reflexivity|].
  destruct (parse_url ip6 line) as [p|k m|] eqn:E; try reflexivity.
  cbn [abbreviate]. rewrite (parse_url_err_kind _ _ _ _ E). reflexivity.
Qed.

Lemma abbreviate_res_map {A B} (f : A -> B) (r : res A) : abbreviate (res_map f r) = res_map f (abbreviate r).
Proof. destruct r as [a|k m|]; try reflexivity. cbn [res_map abbreviate]. destruct (eqb k _); reflexivity. Qed.

Lemma gemini_from_line_tie : forall ip6 line,
  abbreviate (gen_gemini_from_line (gen_validate_url (gen_parse_url (urlparse ip6))) (gen_parse_url (urlparse ip6)) line)
  = res_map (greq_of_parsed line) (gemini_from_line ip6 line).
Proof.
  intros. rewrite gemini_from_line_full_tie, abbreviate_res_map, gemini_from_line_model. reflexivity.
Qed.

(* ---------- _parse_titan_params ---------- *)
Lemma parse_titan_params_tie : forall s, gen_parse_titan_params s = Ok (parse_params s).
Proof.
  intro s. unfold gen_parse_titan_params, parse_params. cbv zeta. unfold ch_semi, ch_eq.
  generalize (split_on 59%N s) as l. generalize (@nil (str * str)) as acc.
  intros acc l. revert acc.
  induction l as [|a l IH]; intro acc; [reflexivity|].
  cbn [fold_left]. rewrite mem_break_at.
  destruct (break_at 61%N a) as [[k v]|]; apply IH.
Qed.

(* ---------- TitanRequest.from_line ---------- *)
Lemma titan_from_line_tie : forall ip6 line,
  gen_titan_from_line gen_parse_titan_params (gen_parse_url (urlparse ip6)) line
  = res_map gtreq_of_treq (titan_from_line ip6 line).
Proof.
  intros. unfold gen_titan_from_line, titan_from_line, titan_prefix, ch_semi.
  destruct (prefixb (lit "titan://") line); cbn [negb]; [|reflexivity].
  rewrite mem_break_at.
  destruct (break_at 59%N line) as [[up ps]|] eqn:Eb; cbn [negb]; [|reflexivity].
  rewrite parse_titan_params_tie. cbv zeta. unfold dict_getitem.
  destruct (get_param (lit "size") (parse_params ps)) as [sz|]; cbn [negb]; [|reflexivity].
  destruct (py_int sz) as [z|k m|]; [|reflexivity|reflexivity].
  destruct (Z.ltb z 0) eqn:Ez; [reflexivity|].
  rewrite parse_url_tie.
  destruct (parse_url ip6 _) as [p|k m|]; cbn [bind res_map]; [|reflexivity|reflexivity].
  unfold gtreq_of_treq, purl_of_parsed.
  cbn [t_line t_host t_port t_path t_query t_size t_mime t_token pu_hostname pu_port pu_path pu_query pu_fragment].
  change 59%N with ch_semi. rewrite hd_split_on.
  rewrite Z2N.id; [reflexivity|]. apply Z.ltb_ge. exact Ez.
Qed.

(* ---------- TitanRequest.normalized_url, is_delete ---------- *)
Lemma titan_normalized_tie : forall t, gen_titan_normalized_url (gtreq_of_treq t) = titan_normalized t.
Proof.
  intro t. unfold gen_titan_normalized_url, titan_normalized, gtreq_of_treq.
  cbn [gt_parsed_url gt_size gt_mime_type gt_token pu_normalized]. cbv zeta.
  rewrite str_of_Z_of_N. fold (titan_base (t_line t)).
  destruct (t_token t) as [[|c tk]|]; cbv iota; rewrite ?app_nil_r, <- ?app_assoc; reflexivity.
Qed.

Lemma titan_is_delete_tie : forall t, gen_titan_is_delete (gtreq_of_treq t) = N.eqb (t_size t) 0.
Proof.
  intro t. unfold gen_titan_is_delete, gtreq_of_treq. cbn [gt_size].
  destruct (t_size t); reflexivity.
Qed.
