(* Proofs of the statements of Equiv/EquivServerLoop.v: the transition function assembled from the translated methods
   (Equiv/ServerLoop.v over the cl_* definitions of Gen/ServerGen.v) is the model's step / run / final.

   1. every gen_X respects pointwise equality of its callee arguments (no functional extensionality needed);
   2. hence every cl_X (the method with its internal calls resolved) is pointwise the model's function, by the
      method-by-method ties of Proofs/EquivServer_proofs.v and Proofs/EquivServer2_proofs.v;
   3. gen_feed = feed, gen_task_done = task_done, gen_step = step, gen_run = run, gen_final = final. *)
From Coq Require Import List NArith ZArith Bool.
From NV Require Import Prelude.Str Prelude.Res Prelude.Utf8 Model.Url Model.Titan Model.ServerProto Equiv.ServerGlue Gen.ServerGen Equiv.ServerLoop.
From NV Require Proofs.EquivServer_proofs Proofs.EquivServer2_proofs.
Import ListNotations.

(* ---------- 1. congruence of the generated methods in their callees ---------- *)

(* rewrite with the pointwise hypotheses wherever a callee is applied to closed arguments; open the matches that bind
   the variables the other call sites mention *)
Ltac cong_step :=
  first [ reflexivity
        | match goal with H : _ |- _ => rewrite H end
        | match goal with |- context [match ?x with _ => _ end] => destruct x end ].
Ltac cong := cbv zeta; repeat cong_step.

Lemma gen_send_error_response_cong : forall sr sr',
  (forall s r, sr s r = sr' s r) ->
  forall s z m, gen_send_error_response sr s z m = gen_send_error_response sr' s z m.
Proof. intros sr sr' H s z m. unfold gen_send_error_response. cong. Qed.

Lemma gen_send_rejection_cong : forall se se' sr sr',
  (forall s z m, se s z m = se' s z m) -> (forall s r, sr s r = sr' s r) ->
  forall s t, gen_send_rejection se sr s t = gen_send_rejection se' sr' s t.
Proof. intros se se' sr sr' H1 H2 s t. unfold gen_send_rejection. cong. Qed.

Lemma gen_start_titan_upload_cong : forall se se',
  (forall s z m, se s z m = se' s z m) ->
  forall mw up ip fp uc s, gen_start_titan_upload se mw up ip fp uc s = gen_start_titan_upload se' mw up ip fp uc s.
Proof. intros se se' H1 mw up ip fp uc s. unfold gen_start_titan_upload. cong. Qed.

Lemma gen_process_titan_upload_cong : forall se se' su su',
  (forall s z m, se s z m = se' s z m) -> (forall s, su s = su' s) ->
  forall mw up ip fp s, gen_process_titan_upload se su mw up ip fp s = gen_process_titan_upload se' su' mw up ip fp s.
Proof. intros se se' su su' H1 H2 mw up ip fp s. unfold gen_process_titan_upload. cong. Qed.

Lemma gen_handle_titan_url_cong : forall se se' ptu ptu',
  (forall s z m, se s z m = se' s z m) -> (forall s, ptu s = ptu' s) ->
  forall mw up ip fp ip6 s u,
    gen_handle_titan_url se ptu mw up ip fp ip6 s u = gen_handle_titan_url se' ptu' mw up ip fp ip6 s u.
Proof. intros se se' ptu ptu' H1 H2 mw up ip fp ip6 s u. unfold gen_handle_titan_url. cong. Qed.

Lemma gen_route_request_cong : forall se se' sr sr',
  (forall s z m, se s z m = se' s z m) -> (forall s r, sr s r = sr' s r) ->
  forall handler s rq, gen_route_request se sr handler s rq = gen_route_request se' sr' handler s rq.
Proof. intros se se' sr sr' H1 H2 handler s rq. unfold gen_route_request. cong. Qed.

Lemma gen_handle_gemini_request_cong : forall se se' rr rr',
  (forall s z m, se s z m = se' s z m) -> (forall s (r : req), rr s r = rr' s r) ->
  forall mw up ip fp ip6 s u,
    gen_handle_gemini_request se rr mw up ip fp ip6 s u = gen_handle_gemini_request se' rr' mw up ip fp ip6 s u.
Proof. intros se se' rr rr' H1 H2 mw up ip fp ip6 s u. unfold gen_handle_gemini_request. cong. Qed.

Lemma gen_data_received_cong : forall se se' htu htu' hg hg' ptu ptu',
  (forall s z m, se s z m = se' s z m) -> (forall s u, htu s u = htu' s u) ->
  (forall s u, hg s u = hg' s u) -> (forall s, ptu s = ptu' s) ->
  forall s d, gen_data_received se htu hg ptu s d = gen_data_received se' htu' hg' ptu' s d.
Proof. intros se se' htu htu' hg hg' ptu ptu' H1 H2 H3 H4 s d. unfold gen_data_received. cong. Qed.

Lemma gen_handle_middleware_result_cong : forall se se' sj sj' rr rr',
  (forall s z m, se s z m = se' s z m) -> (forall s t, sj s t = sj' s t) -> (forall s (r : req), rr s r = rr' s r) ->
  forall s t rq, gen_handle_middleware_result se sj rr s t rq = gen_handle_middleware_result se' sj' rr' s t rq.
Proof. intros se se' sj sj' rr rr' H1 H2 H3 s t rq. unfold gen_handle_middleware_result. cong. Qed.

Lemma gen_handle_titan_middleware_result_cong : forall se se' sj sj' su su',
  (forall s z m, se s z m = se' s z m) -> (forall s t, sj s t = sj' s t) -> (forall s, su s = su' s) ->
  forall s t, gen_handle_titan_middleware_result se sj su s t = gen_handle_titan_middleware_result se' sj' su' s t.
Proof. intros se se' sj sj' su su' H1 H2 H3 s t. unfold gen_handle_titan_middleware_result. cong. Qed.

Lemma gen_handle_async_handler_result_cong : forall se se' sr sr',
  (forall s z m, se s z m = se' s z m) -> (forall s r, sr s r = sr' s r) ->
  forall s t rq, gen_handle_async_handler_result se sr s t rq = gen_handle_async_handler_result se' sr' s t rq.
Proof. intros se se' sr sr' H1 H2 s t rq. unfold gen_handle_async_handler_result. cong. Qed.

Lemma gen_handle_titan_upload_result_cong : forall se se' sr sr',
  (forall s z m, se s z m = se' s z m) -> (forall s r, sr s r = sr' s r) ->
  forall s t, gen_handle_titan_upload_result se sr s t = gen_handle_titan_upload_result se' sr' s t.
Proof. intros se se' sr sr' H1 H2 s t. unfold gen_handle_titan_upload_result. cong. Qed.

(* ---------- 2. the class with its calls resolved is the model, method by method ---------- *)

Section Ties.
Variable reenc : str -> str.
Hypothesis reenc_ok : forall m, (1024 < N.of_nat (length (encode_replace m)))%N ->
                                reenc (take 1024 (encode_replace m)) = encode_replace_upto 1024 m.
Variable ip6 : str -> option str.
Variable handler : str -> hres.
Variable mw up : bool.
Variable ucf : option str.
Variable ip : str.
Variable fp : option str.

Notation cl f := (f reenc ip6 handler mw up (upcall_of ucf) ip fp).

Lemma cl_send_response_eq : forall s r, cl cl_send_response s r = send_response s r.
Proof. intros s r. unfold cl_send_response. apply EquivServer2_proofs.send_response_tie. exact reenc_ok. Qed.

Lemma cl_send_error_eq : forall s z m, cl cl_send_error s z m = send_error s z m.
Proof.
  intros s z m. unfold cl_send_error.
  rewrite (gen_send_error_response_cong _ _ cl_send_response_eq). apply EquivServer_proofs.send_error_tie.
Qed.

Lemma cl_send_rejection_eq : forall s t, cl cl_send_rejection s t = send_rejection s t.
Proof.
  intros s t. unfold cl_send_rejection.
  rewrite (gen_send_rejection_cong _ _ _ _ cl_send_error_eq cl_send_response_eq).
  apply EquivServer2_proofs.send_rejection_tie.
Qed.

Lemma cl_start_titan_upload_eq : forall s, cl cl_start_titan_upload s = start_upload up ucf s.
Proof.
  intros s. unfold cl_start_titan_upload.
  rewrite (gen_start_titan_upload_cong _ _ cl_send_error_eq). apply EquivServer_proofs.start_titan_upload_tie.
Qed.

Lemma cl_process_titan_upload_eq : forall s, cl cl_process_titan_upload s = process_titan_upload mw up ucf ip fp s.
Proof.
  intros s. unfold cl_process_titan_upload.
  rewrite (gen_process_titan_upload_cong _ _ _ _ cl_send_error_eq cl_start_titan_upload_eq).
  apply EquivServer_proofs.process_titan_upload_tie.
Qed.

Lemma cl_handle_titan_url_eq : forall s u, cl cl_handle_titan_url s u = handle_titan_url ip6 mw up ucf ip fp s u.
Proof.
  intros s u. unfold cl_handle_titan_url.
  rewrite (gen_handle_titan_url_cong _ _ _ _ cl_send_error_eq cl_process_titan_upload_eq).
  apply EquivServer_proofs.handle_titan_url_tie.
Qed.

Lemma cl_route_request_eq : forall s rq, cl cl_route_request s rq = route handler s (rq_line rq).
Proof.
  intros s rq. unfold cl_route_request.
  rewrite (gen_route_request_cong _ _ _ _ cl_send_error_eq cl_send_response_eq).
  apply EquivServer2_proofs.route_request_tie.
Qed.

Lemma cl_handle_gemini_eq : forall s u, cl cl_handle_gemini s u = handle_gemini ip6 handler mw ip fp s u.
Proof.
  intros s u. unfold cl_handle_gemini.
  rewrite (gen_handle_gemini_request_cong _ _ _ (fun s r => route handler s (rq_line r))
             cl_send_error_eq cl_route_request_eq).
  apply EquivServer2_proofs.handle_gemini_request_tie.
Qed.

Lemma cl_data_received_eq : forall s d, cl cl_data_received s d = data_received ip6 handler mw up ucf ip fp s d.
Proof.
  intros s d. unfold cl_data_received.
  rewrite (gen_data_received_cong _ _ _ _ _ _ _ _ cl_send_error_eq cl_handle_titan_url_eq cl_handle_gemini_eq
             cl_process_titan_upload_eq).
  apply EquivServer_proofs.data_received_tie.
Qed.

Lemma cl_handle_middleware_result_eq : forall s t rq,
  cl cl_handle_middleware_result s t rq
  = gen_handle_middleware_result send_error send_rejection (fun s r => route handler s (rq_line r)) s t rq.
Proof.
  intros s t rq. unfold cl_handle_middleware_result.
  apply gen_handle_middleware_result_cong;
    [exact cl_send_error_eq | exact cl_send_rejection_eq | exact cl_route_request_eq].
Qed.

Lemma cl_handle_titan_middleware_result_eq : forall s t,
  cl cl_handle_titan_middleware_result s t
  = gen_handle_titan_middleware_result send_error send_rejection (start_upload up ucf) s t.
Proof.
  intros s t. unfold cl_handle_titan_middleware_result.
  apply gen_handle_titan_middleware_result_cong;
    [exact cl_send_error_eq | exact cl_send_rejection_eq | exact cl_start_titan_upload_eq].
Qed.

Lemma cl_handle_async_handler_result_eq : forall s t rq,
  cl cl_handle_async_handler_result s t rq = gen_handle_async_handler_result send_error send_response s t rq.
Proof.
  intros s t rq. unfold cl_handle_async_handler_result.
  apply gen_handle_async_handler_result_cong; [exact cl_send_error_eq | exact cl_send_response_eq].
Qed.

Lemma cl_handle_titan_upload_result_eq : forall s t,
  cl cl_handle_titan_upload_result s t = gen_handle_titan_upload_result send_error send_response s t.
Proof.
  intros s t. unfold cl_handle_titan_upload_result.
  apply gen_handle_titan_upload_result_cong; [exact cl_send_error_eq | exact cl_send_response_eq].
Qed.

(* ---------- 3. the loop ---------- *)

Lemma gen_feed_eq : forall slices s,
  gen_feed reenc ip6 handler mw up ucf ip fp s slices = feed ip6 handler mw up ucf ip fp s slices.
Proof.
  induction slices as [|d r IH]; intros s; [reflexivity|].
  cbn [gen_feed feed]. rewrite cl_data_received_eq.
  destruct (data_received ip6 handler mw up ucf ip fp s d) as [s1 a1]. rewrite IH. reflexivity.
Qed.

(* the request object re-created from the line kept in the pending list carries that line *)
Lemma rq_line_req_of_line : forall line, rq_line (req_of_line ip6 line) = line.
Proof.
  intros line. unfold req_of_line, request_from_line.
  destruct (gemini_from_line ip6 line); reflexivity.
Qed.

Lemma gen_task_done_eq : forall s id o,
  gen_task_done reenc ip6 handler mw up ucf ip fp s id o = task_done handler up ucf s id o.
Proof.
  intros s0 id o. unfold gen_task_done.
  destruct (take_task id (pending s0)) as [[k|] rest] eqn:T.
  2: { unfold task_done. rewrite T. reflexivity. }
  cbv zeta.
  destruct k as [line|line| |].
  - assert (T' : take_task id (pending s0) = (Some (TMw (rq_line (req_of_line ip6 line))), rest))
      by (rewrite rq_line_req_of_line; exact T).
    destruct (EquivServer2_proofs.handle_middleware_result_tie handler up ucf s0 id _ rest T') as [A B].
    destruct o as [r|m|a t|]; try reflexivity.
    + rewrite cl_handle_middleware_result_eq. symmetry. apply B.
    + rewrite cl_handle_middleware_result_eq. symmetry. apply A.
  - assert (T' : take_task id (pending s0) = (Some (THandler (rq_line (req_of_line ip6 line))), rest))
      by (rewrite rq_line_req_of_line; exact T).
    destruct (EquivServer2_proofs.handle_async_handler_result_tie handler up ucf s0 id _ rest T') as [A B].
    destruct o as [r|m|a t|]; try reflexivity.
    + rewrite cl_handle_async_handler_result_eq. symmetry. apply A.
    + rewrite cl_handle_async_handler_result_eq. symmetry. apply B.
  - destruct (EquivServer2_proofs.handle_titan_middleware_result_tie handler up ucf s0 id rest T) as [A B].
    destruct o as [r|m|a t|]; try reflexivity.
    + rewrite cl_handle_titan_middleware_result_eq. symmetry. apply B.
    + rewrite cl_handle_titan_middleware_result_eq. symmetry. apply A.
  - destruct (EquivServer2_proofs.handle_titan_upload_result_tie handler up ucf s0 id rest T) as [A B].
    destruct o as [r|m|a t|]; try reflexivity.
    + rewrite cl_handle_titan_upload_result_eq. symmetry. apply A.
    + rewrite cl_handle_titan_upload_result_eq. symmetry. apply B.
Qed.

Lemma gen_step_eq : forall s e,
  gen_step reenc ip6 handler mw up ucf ip fp s e = step ip6 handler mw up ucf ip fp s e.
Proof.
  intros s e. destruct e as [slices| |id o|].
  - cbn [gen_step step]. rewrite gen_feed_eq. reflexivity.
  - destruct (timer s) eqn:T.
    + rewrite (EquivServer_proofs.handle_timeout_tie ip6 handler mw up ucf ip fp s T).
      cbn [gen_step]. rewrite T. reflexivity.
    + cbn [gen_step step]. rewrite T. reflexivity.
    + cbn [gen_step step]. rewrite T. reflexivity.
  - cbn [gen_step step]. apply gen_task_done_eq.
  - destruct (tr s) eqn:T.
    + rewrite (EquivServer_proofs.connection_lost_tie ip6 handler mw up ucf ip fp s T).
      cbn [gen_step]. rewrite T. reflexivity.
    + cbn [gen_step step]. rewrite T. reflexivity.
Qed.

Lemma gen_run_eq : forall evs s,
  gen_run reenc ip6 handler mw up ucf ip fp s evs = run ip6 handler mw up ucf ip fp s evs.
Proof.
  induction evs as [|e r IH]; intros s; [reflexivity|].
  cbn [gen_run run]. rewrite gen_step_eq.
  destruct (step ip6 handler mw up ucf ip fp s e) as [s' a]. rewrite IH. reflexivity.
Qed.

Lemma gen_final_eq : forall evs s,
  gen_final reenc ip6 handler mw up ucf ip fp s evs = final ip6 handler mw up ucf ip fp s evs.
Proof.
  induction evs as [|e r IH]; intros s; [reflexivity|].
  cbn [gen_final final]. rewrite gen_step_eq. apply IH.
Qed.
End Ties.

(* ---------- the statements of Equiv/EquivServerLoop.v (reenc_ok unfolded) ---------- *)

Lemma cl_data_received_tie : forall reenc : str -> str,
  (forall m, (1024 < N.of_nat (length (encode_replace m)))%N ->
             reenc (take 1024 (encode_replace m)) = encode_replace_upto 1024 m) ->
  forall ip6 handler mw up ucf ip fp s d,
  cl_data_received reenc ip6 handler mw up (upcall_of ucf) ip fp s d = data_received ip6 handler mw up ucf ip fp s d.
Proof. exact cl_data_received_eq. Qed.

Lemma gen_step_tie : forall reenc : str -> str,
  (forall m, (1024 < N.of_nat (length (encode_replace m)))%N ->
             reenc (take 1024 (encode_replace m)) = encode_replace_upto 1024 m) ->
  forall ip6 handler mw up ucf ip fp s e,
  gen_step reenc ip6 handler mw up ucf ip fp s e = step ip6 handler mw up ucf ip fp s e.
Proof. exact gen_step_eq. Qed.

Lemma gen_run_tie : forall reenc : str -> str,
  (forall m, (1024 < N.of_nat (length (encode_replace m)))%N ->
             reenc (take 1024 (encode_replace m)) = encode_replace_upto 1024 m) ->
  forall ip6 handler mw up ucf ip fp evs s,
  gen_run reenc ip6 handler mw up ucf ip fp s evs = run ip6 handler mw up ucf ip fp s evs.
Proof. exact gen_run_eq. Qed.

Lemma gen_final_tie : forall reenc : str -> str,
  (forall m, (1024 < N.of_nat (length (encode_replace m)))%N ->
             reenc (take 1024 (encode_replace m)) = encode_replace_upto 1024 m) ->
  forall ip6 handler mw up ucf ip fp evs s,
  gen_final reenc ip6 handler mw up ucf ip fp s evs = final ip6 handler mw up ucf ip fp s evs.
Proof. exact gen_final_eq. Qed.

Print Assumptions gen_step_tie.
Print Assumptions gen_run_tie.
Print Assumptions gen_final_tie.
