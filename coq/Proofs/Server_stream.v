(* Server protocol model: relation between the protocol state and the byte stream fed so far
   (request_line of the stream), used by C04 gate / refusal and C01 obligation. *)
From Coq Require Import List NArith ZArith Bool Lia ZifyBool ZifyN ZifyNat.
From NV Require Import Prelude.Str Prelude.Res Prelude.Utf8 Model.Url Model.Titan Model.ServerProto Spec.ServerTrace.
From NV Require Import Proofs.Server_inv Proofs.Server_basic Proofs.Server_p1 Proofs.Server_bytes.
Import ListNotations.
Set Default Proof Using "Type".

(* ---------- break_crlf on a growing buffer ---------- *)
Lemma break_crlf_ext B : forall l r d, break_crlf B = Some (l, r) -> break_crlf (B ++ d) = Some (l, r ++ d).
Proof.
  induction B as [|x B IH]; intros l r d H; [discriminate|].
  destruct B as [|y B]; [discriminate|].
  rewrite break_crlf_cons2 in H. cbn [app]. rewrite break_crlf_cons2.
  destruct ((x =? 13)%N && (y =? 10)%N); [inversion H; reflexivity|].
  destruct (break_crlf (y :: B)) as [[a b]|] eqn:E; [|discriminate]. inversion H; subst.
  change (y :: B ++ d) with ((y :: B) ++ d). rewrite (IH a r d eq_refl). reflexivity.
Qed.

Lemma break_crlf_None_ext B : forall l r d, break_crlf B = None -> break_crlf (B ++ d) = Some (l, r) ->
  (length B <= length l + 1)%nat.
Proof.
  induction B as [|x B IH]; intros l r d H K; [cbn; lia|].
  destruct B as [|y B]; [cbn; lia|].
  rewrite break_crlf_cons2 in H. cbn [app] in K. rewrite break_crlf_cons2 in K.
  destruct ((x =? 13)%N && (y =? 10)%N); [discriminate|].
  destruct (break_crlf (y :: B)) as [[a b]|] eqn:E; [discriminate|].
  change (y :: B ++ d) with ((y :: B) ++ d) in K.
  destruct (break_crlf ((y :: B) ++ d)) as [[a b]|] eqn:E2; [|discriminate]. inversion K; subst.
  specialize (IH a r d eq_refl E2). cbn [length] in *. lia.
Qed.

(* ---------- request_line on a growing stream ---------- *)
Lemma request_line_big_ext B d : request_line B = LTooBig -> request_line (B ++ d) = LTooBig.
Proof.
  unfold request_line. destruct (break_crlf B) as [[l r]|] eqn:E.
  - rewrite (break_crlf_ext _ _ _ d E). destruct (N.ltb 1024 _); [reflexivity|].
    destruct (decode l); discriminate.
  - destruct (N.ltb 1024 (N.of_nat (length B))) eqn:L; [|discriminate]. intros _.
    destruct (break_crlf (B ++ d)) as [[l r]|] eqn:E2.
    + pose proof (break_crlf_None_ext _ _ _ _ E E2) as H.
      replace (N.ltb 1024 (N.of_nat (length l) + 2)) with true by lia. reflexivity.
    + rewrite app_length. replace (N.ltb 1024 (N.of_nat (length B + length d))) with true by lia. reflexivity.
Qed.

Lemma request_line_bad_ext B d : request_line B = LBadUtf8 -> request_line (B ++ d) = LBadUtf8.
Proof.
  unfold request_line. destruct (break_crlf B) as [[l r]|] eqn:E.
  - rewrite (break_crlf_ext _ _ _ d E). destruct (N.ltb 1024 _); [discriminate|].
    destruct (decode l); [discriminate|reflexivity].
  - destruct (N.ltb 1024 _); discriminate.
Qed.

Lemma request_line_line_ext B d u rest : request_line B = LLine u rest -> request_line (B ++ d) = LLine u (rest ++ d).
Proof.
  unfold request_line. destruct (break_crlf B) as [[l r]|] eqn:E.
  - rewrite (break_crlf_ext _ _ _ d E). destruct (N.ltb 1024 _); [discriminate|].
    destruct (decode l); [|discriminate]. intro H; inversion H; reflexivity.
  - destruct (N.ltb 1024 _); discriminate.
Qed.

(* ---------- frames ---------- *)
Record Frame (s s' : st) : Prop := {
  fr_buf : buf s' = buf s; fr_line : line_rcvd s' = line_rcvd s;
  fr_await : await_titan s' = await_titan s; fr_titan : titan s' = titan s }.
Lemma Frame_refl s : Frame s s.
Proof. constructor; reflexivity. Qed.
Lemma Frame_trans s s1 s2 : Frame s s1 -> Frame s1 s2 -> Frame s s2.
Proof. intros [? ? ? ?] [? ? ? ?]; constructor; congruence. Qed.
Lemma send_fst s r : fst (send_response s r) = if muted s then s else mark_sent s.
Proof. rewrite send_response_eq. destruct (muted s); reflexivity. Qed.
Lemma Frame_send s r : Frame s (fst (send_response s r)).
Proof. rewrite send_fst. destruct (muted s); constructor; reflexivity. Qed.
Lemma Frame_spawn s k : Frame s (fst (spawn s k)).
Proof. constructor; reflexivity. Qed.
Lemma Frame_cancel s : Frame s (cancel_timer s).
Proof. rewrite cancel_timer_eq. constructor; reflexivity. Qed.
Lemma muted_send s r : muted (fst (send_response s r)) = true.
Proof.
  rewrite send_fst. destruct (muted s) eqn:M; [exact M|]. unfold muted. cbn. apply orb_true_r.
Qed.

Section Proto.
Variable ip6 : str -> option str.
Variable handler : str -> hres.
Variable has_mw has_upload : bool.
Variable up_call_fails : option str.
Variable peer_ip : str.
Variable peer_fp : option str.

Notation route := (route handler).
Notation handle_gemini := (handle_gemini ip6 handler has_mw peer_ip peer_fp).
Notation start_upload := (start_upload has_upload up_call_fails).
Notation process_titan_upload := (process_titan_upload has_mw has_upload up_call_fails peer_ip peer_fp).
Notation handle_titan_url := (handle_titan_url ip6 has_mw has_upload up_call_fails peer_ip peer_fp).
Notation data_received := (data_received ip6 handler has_mw has_upload up_call_fails peer_ip peer_fp).
Notation feed := (feed ip6 handler has_mw has_upload up_call_fails peer_ip peer_fp).
Notation task_done := (task_done handler has_upload up_call_fails).
Notation step := (step ip6 handler has_mw has_upload up_call_fails peer_ip peer_fp).
Notation run := (run ip6 handler has_mw has_upload up_call_fails peer_ip peer_fp).
Notation final := (final ip6 handler has_mw has_upload up_call_fails peer_ip peer_fp).
Notation Inv := (Inv has_upload).

Lemma Frame_route s line : Frame s (fst (route s line)).
Proof.
  unfold ServerProto.route. destruct (handler line).
  - pose proof (Frame_send s r). destruct (send_response s r); assumption.
  - rewrite send_error_eq. pose proof (Frame_send s (err_resp 40 (lit "Server error: " ++ msg))).
    destruct (send_response s _); assumption.
  - rewrite spawn_let. apply Frame_spawn.
Qed.
Lemma Frame_handle_gemini s line : Frame s (fst (handle_gemini s line)).
Proof.
  unfold ServerProto.handle_gemini. destruct (gemini_from_line ip6 line).
  - destruct has_mw; [|apply Frame_route]. rewrite spawn_let. apply Frame_spawn.
  - rewrite send_error_eq. apply Frame_send.
  - apply Frame_refl.
Qed.
Lemma Frame_start_upload s : Frame s (fst (start_upload s)).
Proof.
  unfold ServerProto.start_upload. destruct (titan s); [|apply Frame_refl].
  destruct has_upload; [|apply Frame_refl]. destruct up_call_fails as [msg|].
  - rewrite upload_failed_eq. pose proof (Frame_send s (err_resp 40 (lit "Upload error: " ++ msg))).
    destruct (send_response s _); assumption.
  - rewrite spawn_let. apply Frame_spawn.
Qed.
Lemma Frame_ptu s : Frame (set_await s false) (fst (process_titan_upload s)).
Proof.
  unfold ServerProto.process_titan_upload. set (s1 := set_await s false). destruct (titan s1).
  - destruct (negb has_upload); [rewrite send_error_eq; apply Frame_send|].
    destruct has_mw; [|apply Frame_start_upload]. rewrite spawn_let. apply Frame_spawn.
  - rewrite send_error_eq; apply Frame_send.
Qed.
Lemma Frame_task_done s id o : Frame s (fst (task_done s id o)).
Proof.
  unfold ServerProto.task_done.
  destruct (take_task id (pending s)) as [[k|] rest]; [|apply Frame_refl].
  apply (Frame_trans s (set_pending s rest)); [constructor; reflexivity|].
  destruct k; destruct o as [r|m|[|] text|]; norm_err;
    first [apply Frame_send | apply Frame_route | apply Frame_start_upload].
Qed.

(* ---------- data_received while the request line is incomplete ---------- *)
Lemma dr_A_none s d : line_rcvd s = false -> request_line (buf s ++ d) = LNone ->
  data_received s d = (set_buf s (buf s ++ d) false, []).
Proof.
  intros L. unfold request_line, ServerProto.data_received. cbn [buf line_rcvd set_buf]. rewrite L. cbn [negb].
  destruct (break_crlf (buf s ++ d)) as [[l r]|].
  - destruct (N.ltb 1024 _); [discriminate|]. destruct (decode l); discriminate.
  - destruct (N.ltb 1024 _); [discriminate|]. reflexivity.
Qed.
Lemma dr_A_big s d : line_rcvd s = false -> request_line (buf s ++ d) = LTooBig ->
  data_received s d = send_error (set_buf s (buf s ++ d) false) 59 too_big.
Proof.
  intros L. unfold request_line, ServerProto.data_received. cbn [buf line_rcvd set_buf]. rewrite L. cbn [negb].
  destruct (break_crlf (buf s ++ d)) as [[l r]|].
  - destruct (N.ltb 1024 _); [reflexivity|]. destruct (decode l); discriminate.
  - destruct (N.ltb 1024 _); [reflexivity|discriminate].
Qed.
Lemma dr_A_bad s d : line_rcvd s = false -> request_line (buf s ++ d) = LBadUtf8 ->
  exists rest, data_received s d = send_error (set_buf s rest true) 59 (lit "Invalid UTF-8 encoding").
Proof.
  intros L. unfold request_line, ServerProto.data_received. cbn [buf line_rcvd set_buf]. rewrite L. cbn [negb].
  destruct (break_crlf (buf s ++ d)) as [[l r]|].
  - destruct (N.ltb 1024 _); [discriminate|]. destruct (decode l); [discriminate|].
    intros _. exists r. reflexivity.
  - destruct (N.ltb 1024 _); discriminate.
Qed.
Lemma dr_A_line s d u rest : line_rcvd s = false -> request_line (buf s ++ d) = LLine u rest ->
  data_received s d =
  if prefixb titan_prefix u then handle_titan_url (set_buf s rest true) u
  else handle_gemini (cancel_timer (set_buf s rest true)) u.
Proof.
  intros L. unfold request_line, ServerProto.data_received. cbn [buf line_rcvd set_buf]. rewrite L. cbn [negb].
  destruct (break_crlf (buf s ++ d)) as [[l r]|].
  - destruct (N.ltb 1024 _); [discriminate|]. destruct (decode l); [|discriminate].
    intro H; inversion H; subst. reflexivity.
  - destruct (N.ltb 1024 _); discriminate.
Qed.

(* ---------- the state against the stream ---------- *)
Record Fed (s : st) (D : str) : Prop := {
  f_A : line_rcvd s = false ->
        buf s = D /\ (request_line D = LNone \/
                      (request_line D = LTooBig /\ (tr s = true -> sent s = true)));
  f_B : line_rcvd s = true -> await_titan s = true ->
        exists u t, request_line D = LLine u (buf s) /\ prefixb titan_prefix u = true /\
                    titan_from_line ip6 u = Ok t /\ titan s = Some t /\ has_upload = true /\
                    (t_size t <=? N.of_nat (length (buf s)))%N = false }.

Lemma Fed_init : Fed init [].
Proof. constructor; cbn; [intros _; split; [reflexivity|left; reflexivity]|discriminate]. Qed.

(* states with a complete request: nothing to say *)
Lemma Fed_complete s D : line_rcvd s = true -> await_titan s = false -> Fed s D.
Proof. intros L A. constructor; congruence. Qed.

Lemma Fed_frame s s' D : Frame s s' -> (tr s' = true -> tr s = true) -> (sent s = true -> sent s' = true) ->
  Fed s D -> Fed s' D.
Proof.
  intros [B L A T] TR S [FA FB]. constructor.
  - rewrite L, B. intro H. destruct (FA H) as [H1 [H2|[H2 H3]]]; split; auto.
    right. split; [exact H2|]. intro T'. apply S, H3, TR, T'.
  - rewrite L, A, B, T. exact FB.
Qed.

Lemma ptu_complete s : line_rcvd (fst (process_titan_upload s)) = line_rcvd s /\
                       await_titan (fst (process_titan_upload s)) = false.
Proof. destruct (Frame_ptu s) as [_ L A _]. split; [exact L|exact A]. Qed.

Lemma Fed_htu s u D rest : line_rcvd s = true -> await_titan s = false -> buf s = rest ->
  request_line D = LLine u rest -> prefixb titan_prefix u = true ->
  Fed (fst (handle_titan_url s u)) D.
Proof.
  intros L A B R P. unfold ServerProto.handle_titan_url.
  assert (FS : forall r, Fed (fst (send_response s r)) D).
  { intro r. destruct (Frame_send s r) as [_ L' A' _]. apply Fed_complete; congruence. }
  destruct (negb has_upload) eqn:Eu; [rewrite send_error_eq; apply FS|].
  assert (U : has_upload = true) by (destruct has_upload; [reflexivity|discriminate]).
  destruct (titan_from_line ip6 u) as [t|k m|] eqn:Et; [|rewrite send_error_eq; apply FS|apply Fed_complete; assumption].
  fold (set_titan s t). set (s1 := set_titan s t).
  destruct (N.eqb (t_size t) 0).
  - destruct (ptu_complete (cancel_timer s1)) as [H1 H2]. apply Fed_complete; [|assumption].
    rewrite H1, cancel_timer_eq. exact L.
  - destruct (N.leb (t_size t) _) eqn:Sz.
    + match goal with |- Fed (fst (process_titan_upload ?x)) _ => destruct (ptu_complete x) as [H1 H2] end.
      apply Fed_complete; [|assumption]. rewrite H1. cbn [line_rcvd set_content]. rewrite cancel_timer_eq. exact L.
    + constructor; cbn [fst line_rcvd await_titan set_await set_titan buf titan s1]; [congruence|].
      intros _ _. exists u, t. rewrite B. cbn in Sz. rewrite B in Sz. auto 10.
Qed.

Lemma Fed_data_received s d D : Inv s -> Fed s D -> Fed (fst (data_received s d)) (D ++ d).
Proof.
  intros I [FA FB]. destruct (line_rcvd s) eqn:L.
  - destruct (await_titan s) eqn:A.
    + destruct (FB eq_refl eq_refl) as [u [t [R [P [Et [Ts [U Sz]]]]]]].
      unfold ServerProto.data_received. cbn [buf line_rcvd await_titan titan set_buf]. rewrite L, A, Ts. cbn [negb].
      destruct (N.leb (t_size t) (N.of_nat (length (buf s ++ d)))) eqn:Sz2.
      * match goal with |- Fed (fst (process_titan_upload ?x)) _ => destruct (ptu_complete x) as [H1 H2] end.
        apply Fed_complete; [|assumption]. rewrite H1. cbn [line_rcvd set_content]. rewrite cancel_timer_eq. reflexivity.
      * constructor; cbn [fst line_rcvd await_titan set_buf buf titan]; [discriminate|].
        intros _ _. exists u, t. rewrite (request_line_line_ext _ d _ _ R). auto 10.
    + rewrite (trailing_ignored_gen ip6 handler has_mw has_upload up_call_fails peer_ip peer_fp s d L A). apply Fed_complete; [reflexivity|exact A].
  - destruct (FA eq_refl) as [B RL]. pose proof (i_line _ _ I L) as A.
    destruct (request_line (D ++ d)) as [| | |u rest] eqn:R.
    + rewrite (dr_A_none s d L) by (rewrite B; exact R). constructor; cbn; [|discriminate].
      intros _. split; [congruence|left; exact R].
    + rewrite (dr_A_big s d L) by (rewrite B; exact R). rewrite send_error_eq.
      set (s1 := set_buf s (buf s ++ d) false).
      destruct (Frame_send s1 (err_resp 59 too_big)) as [B' L' _ _]. constructor; [|rewrite L'; discriminate].
      intros _. rewrite B'. cbn [buf set_buf s1]. split; [congruence|]. right. split; [exact R|].
      pose proof (muted_send s1 (err_resp 59 too_big)) as M. unfold muted in M.
      intro T. rewrite T in M. exact M.
    + destruct (dr_A_bad s d L) as [rest E]; [rewrite B; exact R|]. rewrite E, send_error_eq.
      destruct (Frame_send (set_buf s rest true) (err_resp 59 (lit "Invalid UTF-8 encoding"))) as [_ L' A' _].
      apply Fed_complete; [rewrite L'; reflexivity|rewrite A'; exact A].
    + destruct RL as [RL|[RL _]];
        [|rewrite (request_line_big_ext _ d RL) in R; discriminate].
      rewrite (dr_A_line s d u rest L) by (rewrite B; exact R).
      destruct (prefixb titan_prefix u) eqn:P.
      * apply (Fed_htu _ u _ rest); auto.
      * destruct (Frame_handle_gemini (cancel_timer (set_buf s rest true)) u) as [_ L' A' _].
        apply Fed_complete; [rewrite L', cancel_timer_eq; reflexivity|rewrite A', cancel_timer_eq; exact A].
Qed.

Lemma Fed_feed sl : forall s D, Inv s -> Fed s D -> Fed (fst (feed s sl)) (D ++ concat sl).
Proof.
  induction sl as [|d r IH]; intros s D I F; cbn [ServerProto.feed concat].
  - rewrite app_nil_r. exact F.
  - pose proof (Fed_data_received s d D I F) as F1.
    pose proof (Inv_data_received ip6 handler has_mw has_upload up_call_fails peer_ip peer_fp s d I) as I1.
    destruct (data_received s d) as [s1 a1]. cbn [fst] in *.
    specialize (IH s1 (D ++ d) I1 F1). destruct (feed s1 r) as [s2 a2]. cbn [fst] in *.
    rewrite app_assoc. exact IH.
Qed.

Lemma sent_mono s s' a : (closes a + cs s = cs s')%nat -> sent s = true -> sent s' = true.
Proof. unfold cs. intros H S. rewrite S in H. destruct (sent s'); [reflexivity|slia]. Qed.

Lemma Fed_step_other s e D : (forall sl, e <> ERead sl) -> Fed s D -> Fed (fst (step s e)) D.
Proof.
  intros NR F. destruct e; [exfalso; eapply NR; reflexivity| | |].
  - cbn [ServerProto.step]. destruct (timer s); try exact F. cbn.
    destruct (tr s && negb (closing s) && negb (sent s)); cbn [fst];
      (eapply (Fed_frame s); [constructor; reflexivity| | |exact F]); cbn; auto.
  - cbn [ServerProto.step]. eapply (Fed_frame s); [apply Frame_task_done| | |exact F].
    + rewrite (e_tr _ _ _ (Eff_task_done handler has_upload up_call_fails s id o)). auto.
    + apply (sent_mono _ _ _ (e_closes _ _ _ (Eff_task_done handler has_upload up_call_fails s id o))).
  - cbn [ServerProto.step]. destruct (tr s); [|exact F]. cbn [fst].
    eapply (Fed_frame s); [| | |exact F].
    + constructor; cbn; rewrite cancel_timer_eq; reflexivity.
    + cbn. discriminate.
    + cbn. rewrite cancel_timer_eq. auto.
Qed.

Lemma Fed_step_read s sl D : Inv s -> tr s = true -> Fed s D ->
  Fed (fst (step s (ERead sl))) (D ++ concat sl).
Proof. intros I T F. cbn [ServerProto.step]. rewrite T. apply Fed_feed; assumption. Qed.

Lemma Fed_final evs : forall s D, Inv s -> tr s = true -> has_lost evs = false -> Fed s D ->
  Fed (final s evs) (D ++ stream evs).
Proof.
  induction evs as [|e r IH]; intros s D I T L F; [cbn; rewrite app_nil_r; exact F|].
  assert (NL : e <> ELost) by (intro; subst; discriminate).
  assert (L' : has_lost r = false) by (destruct e; try congruence; exact L).
  pose proof (Inv_step ip6 handler has_mw has_upload up_call_fails peer_ip peer_fp s e I) as I1.
  pose proof (e_tr _ _ _ (Eff_step ip6 handler has_mw has_upload up_call_fails peer_ip peer_fp s e NL)) as T1.
  rewrite final_cons. destruct e as [sl| | |]; try congruence.
  - cbn [stream]. rewrite app_assoc. apply IH; try assumption; [congruence|].
    apply Fed_step_read; assumption.
  - cbn [stream]. apply IH; try assumption; [congruence|]. apply Fed_step_other; [discriminate|assumption].
  - cbn [stream]. apply IH; try assumption; [congruence|]. apply Fed_step_other; [discriminate|assumption].
Qed.

End Proto.
