(* Proofs of the Gen = Model statements of Equiv/EquivServer.v (server/protocol.py, second batch:
   done-callbacks, routing, rejection line, response serialiser). *)
From Coq Require Import List NArith ZArith Bool Lia.
From NV Require Import Prelude.Str Prelude.Res Prelude.Utf8 Model.Url Model.Titan Model.ServerProto Equiv.ServerGlue Gen.ServerGen.
From NV Require Import Proofs.Utf8Lemmas.
Import ListNotations.
Close Scope N_scope.

(* a pair rebuilt from its components through the generated `let '(s, b) := p in (s, [] ++ b)` *)
Lemma repair : forall (p : st * list action), (let '(s, b) := p in (s, [] ++ b)) = p.
Proof. intros [s b]. reflexivity. Qed.

Ltac fin := rewrite ?repair; reflexivity.

(* ---------- the four done-callbacks ---------- *)

Lemma handle_middleware_result_tie : forall handler up ucf s0 id rq rest,
  take_task id (pending s0) = (Some (TMw (rq_line rq)), rest) ->
  (forall allow text, task_done handler up ucf s0 id (OMw allow text) =
     gen_handle_middleware_result send_error send_rejection (fun s r => route handler s (rq_line r)) (set_pending s0 rest) (TRet (allow, text)) rq) /\
  (forall m, task_done handler up ucf s0 id (ORaise m) =
     gen_handle_middleware_result send_error send_rejection (fun s r => route handler s (rq_line r)) (set_pending s0 rest) (TExc m) rq).
Proof.
  intros handler up ucf s0 id rq rest H. unfold task_done, gen_handle_middleware_result. rewrite H.
  cbv beta iota zeta. split.
  - intros [|] text; cbn [negb]; fin.
  - intros m. fin.
Qed.

Lemma handle_titan_middleware_result_tie : forall handler up ucf s0 id rest,
  take_task id (pending s0) = (Some TTitanMw, rest) ->
  (forall allow text, task_done handler up ucf s0 id (OMw allow text) =
     gen_handle_titan_middleware_result send_error send_rejection (start_upload up ucf) (set_pending s0 rest) (TRet (allow, text))) /\
  (forall m, task_done handler up ucf s0 id (ORaise m) =
     gen_handle_titan_middleware_result send_error send_rejection (start_upload up ucf) (set_pending s0 rest) (TExc m)).
Proof.
  intros handler up ucf s0 id rest H. unfold task_done, gen_handle_titan_middleware_result. rewrite H.
  cbv beta iota zeta. split.
  - intros [|] text; cbn [negb]; fin.
  - intros m. fin.
Qed.

Lemma handle_async_handler_result_tie : forall handler up ucf s0 id rq rest,
  take_task id (pending s0) = (Some (THandler (rq_line rq)), rest) ->
  (forall r, task_done handler up ucf s0 id (OResp r) =
     gen_handle_async_handler_result send_error send_response (set_pending s0 rest) (TRet r) rq) /\
  (forall m, task_done handler up ucf s0 id (ORaise m) =
     gen_handle_async_handler_result send_error send_response (set_pending s0 rest) (TExc m) rq).
Proof.
  intros handler up ucf s0 id rq rest H. unfold task_done, gen_handle_async_handler_result. rewrite H.
  cbv beta iota zeta. split; intro; fin.
Qed.

Lemma handle_titan_upload_result_tie : forall handler up ucf s0 id rest,
  take_task id (pending s0) = (Some TUpload, rest) ->
  (forall r, task_done handler up ucf s0 id (OResp r) =
     gen_handle_titan_upload_result send_error send_response (set_pending s0 rest) (TRet r)) /\
  (forall m, task_done handler up ucf s0 id (ORaise m) =
     gen_handle_titan_upload_result send_error send_response (set_pending s0 rest) (TExc m)).
Proof.
  intros handler up ucf s0 id rest H. unfold task_done, gen_handle_titan_upload_result. rewrite H.
  cbv beta iota zeta. split; intro; fin.
Qed.

(* ---------- _handle_gemini_request ---------- *)

Lemma handle_gemini_request_tie : forall ip6 handler mw up ip fp s url,
  gen_handle_gemini_request send_error (fun s r => route handler s (rq_line r)) mw up ip fp ip6 s url = handle_gemini ip6 handler mw ip fp s url.
Proof.
  intros ip6 handler mw up ip fp s url. unfold gen_handle_gemini_request, handle_gemini, request_from_line.
  cbv zeta. destruct (gemini_from_line ip6 url) as [p|k e|]; cbv beta iota; [|fin|reflexivity].
  cbn [rq_line rq_parsed]. destruct mw; [reflexivity|fin].
Qed.

(* ---------- _route_request ---------- *)

Lemma route_request_tie : forall handler s rq,
  gen_route_request send_error send_response handler s rq = route handler s (rq_line rq).
Proof.
  intros handler s rq. unfold gen_route_request, route. cbv zeta.
  generalize (rq_line rq); intro line.
  destruct (handler line) as [r|m|].
  - destruct (send_response s r) as [s' a]. reflexivity.
  - destruct (send_error s 40%Z (lit "Server error: " ++ m)) as [s' a]. reflexivity.
  - reflexivity.
Qed.

(* ---------- _send_rejection ---------- *)

Lemma send_rejection_tie : forall s text,
  gen_send_rejection send_error send_response s text = send_rejection s text.
Proof.
  intros s text. unfold gen_send_rejection, send_rejection.
  destruct text as [[|c t]|]; cbv beta iota zeta; [fin| |fin].
  destruct (partition 32%N (strip_suffix1 13%N (strip_suffix1 10%N (c :: t)))) as [[stxt fl] meta].
  destruct stxt as [|d ds]; unfold ascii_digits; cbv beta iota; [cbn [negb]; fin|].
  destruct (forallb is_digit (d :: ds)); cbn [negb]; [|fin].
  unfold py_int_digits. destruct (undec (d :: ds)) as [n|]; cbn [option_map]; [|fin].
  unfold mk_resp. fin.
Qed.

(* ---------- _send_response ---------- *)

Lemma clean_meta_eq : forall m, replace_ch 10%N 32%N (replace_ch 13%N 32%N m) = clean_meta m.
Proof.
  intros m. unfold replace_ch, clean_meta. rewrite map_map. apply map_ext. intros c.
  destruct (N.eqb c 13) eqn:E13.
  - reflexivity.
  - destruct (N.eqb c 10); reflexivity.
Qed.

Lemma header_eq : forall (a b : str), ((a ++ [32]%N) ++ b) ++ [13; 10]%N = (a ++ [32]%N ++ b ++ crlf)%list.
Proof. intros a b. unfold crlf. rewrite <- !app_assoc. reflexivity. Qed.

Lemma invalid_bytes :
  [52; 48; 32; 83; 101; 114; 118; 101; 114; 32; 101; 114; 114; 111; 114; 58; 32; 105; 110; 118; 97; 108; 105; 100; 32;
   114; 101; 115; 112; 111; 110; 115; 101; 32; 102; 114; 111; 109; 32; 104; 97; 110; 100; 108; 101; 114; 13; 10]%N
  = invalid_header.
Proof. vm_compute. reflexivity. Qed.

Lemma send_response_tie : forall (reenc : str -> str),
  (forall m, (1024 < N.of_nat (length (encode_replace m)))%N ->
             reenc (take 1024 (encode_replace m)) = encode_replace_upto 1024 m) ->
  forall s r, gen_send_response reenc s r = send_response s r.
Proof.
  intros reenc H s r. unfold gen_send_response, send_response.
  destruct (negb (tr s) || sent s); [reflexivity|].
  change (false || negb true) with false. change (negb true) with false.
  change (N.to_nat 1024%N) with 1024%nat.
  cbv beta iota zeta.
  destruct r as [status meta body]. unfold serialize, status_ok. cbn [rs_status rs_meta rs_body].
  destruct ((10 <=? status)%Z && (status <=? 69)%Z); cbn [negb]; cbv beta iota.
  2: { rewrite invalid_bytes. reflexivity. }
  rewrite clean_meta_eq. unfold header_bytes, body_bytes.
  remember (encode_replace (clean_meta meta)) as mb eqn:Emb.
  assert (MB : (if N.ltb 1024%N (N.of_nat (length mb)) then reenc (take 1024 mb) else mb)
               = encode_replace_upto 1024 (clean_meta meta)).
  { destruct (N.ltb 1024%N (N.of_nat (length mb))) eqn:L; subst mb.
    - apply H. apply N.ltb_lt. exact L.
    - symmetry. apply encode_replace_upto_fits. apply N.ltb_ge. exact L. }
  generalize dependent (encode_replace_upto 1024 (clean_meta meta)). intros ub MB.
  destruct (N.ltb 1024%N (N.of_nat (length mb))); rewrite MB; clear MB Emb;
    rewrite !header_eq; generalize (str_of_Z status ++ [32]%N ++ ub ++ crlf)%list; intro hb;
    (destruct ((20 <=? status)%Z && (status <=? 29)%Z); cbn [andb]; [|reflexivity]);
    (destruct body as [|t|x]; cbn [body_truthy body_is_bytes body_raw body_text]; cbv beta iota;
      [ reflexivity
      | destruct t as [|c t]; [reflexivity|]; destruct (encode_replace (c :: t)); reflexivity
      | destruct x as [|c x]; reflexivity ]).
Qed.
