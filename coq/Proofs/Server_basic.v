(* Server protocol model: effect summaries of every callback (closes, writes, timer, pending,
   invocations) and the theorems that only need them (C07 at_most_once / trailing_ignored,
   C01 single_response / silent_after_lost, C15 state theorems, C04 no_invocation_without_allow). *)
From Coq Require Import List NArith ZArith Bool Lia ZifyBool ZifyN ZifyNat.
From NV Require Import Prelude.Str Prelude.Res Prelude.Utf8 Model.Url Model.Titan Model.ServerProto Spec.ServerTrace.
From NV Require Spec.C01 Spec.C07 Spec.C15.
From NV Require Import Proofs.Server_inv.
Import ListNotations.
Set Default Proof Using "Type".

(* ---------- measures over action lists ---------- *)
Definition is_close (a : action) : bool := match a with AClose => true | _ => false end.
Definition is_write (a : action) : bool := match a with AWrite _ => true | _ => false end.
Definition is_oom (a : action) : bool := match a with AOutOfModel => true | _ => false end.
Definition is_start (x : action) : bool :=
  match spawn_id x with Some _ => true | None => is_invocation x end.
Definition closes (a : list action) : nat := length (filter is_close a).
Definition invocs (a : list action) : nat := length (filter is_invocation a).
Definition cs (s : st) : nat := if sent s then 1 else 0.

Lemma closes_app a b : closes (a ++ b) = (closes a + closes b)%nat.
Proof. unfold closes. rewrite filter_app, app_length. reflexivity. Qed.
Lemma invocs_app a b : invocs (a ++ b) = (invocs a + invocs b)%nat.
Proof. unfold invocs. rewrite filter_app, app_length. reflexivity. Qed.
Lemma existsb_count {A} (f : A -> bool) l : existsb f l = false <-> length (filter f l) = O.
Proof.
  induction l as [|x l IH]; cbn; [tauto|]. destruct (f x); cbn; [split; [discriminate|slia]|exact IH].
Qed.
Lemma existsb_count_pos {A} (f : A -> bool) l : existsb f l = true <-> (0 < length (filter f l))%nat.
Proof.
  destruct (existsb f l) eqn:E.
  - split; [intros _|reflexivity]. destruct (length (filter f l)) eqn:L; [|slia].
    apply existsb_count in L. congruence.
  - apply existsb_count in E. rewrite E. split; [discriminate|slia].
Qed.

Lemma resp_acts_closes r : closes (resp_acts r) = 1%nat.
Proof. unfold resp_acts, body_acts. destruct (snd (serialize r)); reflexivity. Qed.
Lemma resp_acts_invocs r : invocs (resp_acts r) = 0%nat.
Proof. unfold resp_acts, body_acts. destruct (snd (serialize r)); reflexivity. Qed.
Lemma resp_acts_start r : existsb is_start (resp_acts r) = false.
Proof. unfold resp_acts, body_acts. destruct (snd (serialize r)); reflexivity. Qed.
Lemma resp_acts_oom r : existsb is_oom (resp_acts r) = false.
Proof. unfold resp_acts, body_acts. destruct (snd (serialize r)); reflexivity. Qed.
Lemma resp_acts_spawn r act : In act (resp_acts r) -> spawn_id act = None.
Proof.
  unfold resp_acts, body_acts. destruct (snd (serialize r)); cbn; intros H;
    repeat destruct H as [H|H]; subst; try reflexivity; contradiction.
Qed.

(* the action announcing a spawned task, by kind *)
Definition spawn_match (act : action) (x : nat * task_kind) : bool :=
  match act, snd x with
  | AMw i _ _ _, (TMw _ | TTitanMw) => Nat.eqb i (fst x)
  | AHandlerTask i, THandler _ => Nat.eqb i (fst x)
  | AUpload i _ _, TUpload => Nat.eqb i (fst x)
  | _, _ => false
  end.
Lemma spawn_match_id act x : spawn_match act x = true -> spawn_id act = Some (fst x).
Proof.
  unfold spawn_match. destruct act, (snd x); try discriminate; intro H; apply Nat.eqb_eq in H; subst; reflexivity.
Qed.
Lemma spawn_match_not_wc act x : spawn_match act x = true -> is_close act = false /\ is_write act = false.
Proof. destruct act; cbn; try discriminate; auto. Qed.

(* ---------- effect summary ---------- *)
Record Eff (s s' : st) (a : list action) : Prop := {
  e_closes : (closes a + cs s = cs s')%nat;
  e_tr : tr s' = tr s;
  e_silent : tr s = false -> existsb is_write a = false;
  e_timer : timer s <> TArmed -> timer s' <> TArmed;
  e_pend : forall x, In x (pending s') ->
           In x (pending s) \/ exists act, In act a /\ spawn_match act x = true }.

Lemma Eff_refl s : Eff s s [].
Proof. constructor; cbn; auto. Qed.

Lemma Eff_trans s s1 s2 a1 a2 : Eff s s1 a1 -> Eff s1 s2 a2 -> Eff s s2 (a1 ++ a2).
Proof.
  intros [C1 T1 S1 M1 P1] [C2 T2 S2 M2 P2]. constructor.
  - rewrite closes_app. slia.
  - congruence.
  - intro H. rewrite existsb_app, S1, S2; auto. congruence.
  - auto.
  - intros x Hx. destruct (P2 x Hx) as [H|[act [H1 H2]]].
    + destruct (P1 x H) as [H'|[act [H1 H2]]]; [left; assumption|].
      right. exists act. split; [apply in_or_app; left; assumption|assumption].
    + right. exists act. split; [apply in_or_app; right; assumption|assumption].
Qed.

Lemma Eff_pre s s1 s2 a : Eff s s1 [] -> Eff s1 s2 a -> Eff s s2 a.
Proof. intros H1 H2. exact (Eff_trans _ _ _ _ _ H1 H2). Qed.

(* prepend an action that is neither a write nor a close *)
Lemma Eff_cons s s' x a : is_close x = false -> is_write x = false -> Eff s s' a -> Eff s s' (x :: a).
Proof.
  intros Hc Hw [C T S M P]. constructor; auto.
  - unfold closes in *. cbn. rewrite Hc. assumption.
  - intro H. cbn. rewrite Hw. auto.
  - intros y Hy. destruct (P y Hy) as [H|[act [H1 H2]]]; [left; assumption|].
    right. exists act. split; [right; assumption|assumption].
Qed.

(* state updates that keep sent / tr / timer-not-armed / pending *)
Lemma Eff_same s s' : sent s' = sent s -> tr s' = tr s -> (timer s <> TArmed -> timer s' <> TArmed) ->
  pending s' = pending s -> Eff s s' [].
Proof.
  intros H1 H2 H3 H4. constructor; cbn; auto.
  - unfold cs. rewrite H1. reflexivity.
  - intros x Hx. left. congruence.
Qed.

Lemma Eff_set_buf s b l : Eff s (set_buf s b l) [].
Proof. apply Eff_same; reflexivity || auto. Qed.
Lemma Eff_set_await s b : Eff s (set_await s b) [].
Proof. apply Eff_same; reflexivity || auto. Qed.
Lemma Eff_set_content s c : Eff s (set_content s c) [].
Proof. apply Eff_same; reflexivity || auto. Qed.
Lemma Eff_cancel s : Eff s (cancel_timer s) [].
Proof. rewrite cancel_timer_eq. apply Eff_same; try reflexivity. cbn. destruct (timer s); congruence. Qed.

Lemma Eff_send s r : Eff s (fst (send_response s r)) (snd (send_response s r)).
Proof.
  rewrite send_response_eq. unfold muted. destruct (tr s) eqn:T; destruct (sent s) eqn:S; cbn;
    try apply Eff_refl.
  constructor; cbn [fst snd mark_sent sent tr timer pending]; auto.
  - rewrite resp_acts_closes. unfold cs. cbn. rewrite S. reflexivity.
  - congruence.
Qed.

Lemma Eff_spawn s k act : spawn_match act (next_id s, k) = true -> Eff s (fst (spawn s k)) [act].
Proof.
  intros H1. destruct (spawn_match_not_wc _ _ H1) as [H2 H3]. constructor; cbn; auto.
  - unfold closes. cbn. rewrite H2. reflexivity.
  - rewrite H3. reflexivity.
  - intros x Hx. apply in_app_or in Hx as [Hx|[Hx|[]]]; [left; assumption|].
    right. exists act. subst x. auto.
Qed.
Ltac eff_spawn := apply Eff_spawn; cbn; apply Nat.eqb_refl.

Lemma take_task_incl id (p : list (nat * task_kind)) x : In x (snd (take_task id p)) -> In x p.
Proof.
  induction p as [|[i k] p IH]; cbn; [auto|].
  destruct (Nat.eqb i id); cbn; [auto|].
  destruct (take_task id p) as [r q]. cbn in *. intros [H|H]; auto.
Qed.

Lemma spawn_let {A} s k (f : st -> nat -> A) :
  (let (s', id) := spawn s k in f s' id) = f (fst (spawn s k)) (next_id s).
Proof. reflexivity. Qed.

Lemma event_eq_lost e : e = ELost \/ e <> ELost.
Proof. destruct e; auto; right; discriminate. Qed.

Section Proto.
Variable ip6 : str -> option str.
Variable handler : str -> hres.
Variable has_mw has_upload : bool.
Variable up_call_fails : option str.
Variable peer_ip : str.
Variable peer_fp : option str.

Notation route := (route handler).
Notation handle_gemini := (handle_gemini ip6 handler has_mw peer_ip peer_fp).
Notation start_upload := (start_upload has_upload up_call_fails).
Notation process_titan_upload := (process_titan_upload has_mw has_upload up_call_fails peer_ip peer_fp).
Notation handle_titan_url := (handle_titan_url ip6 has_mw has_upload up_call_fails peer_ip peer_fp).
Notation data_received := (data_received ip6 handler has_mw has_upload up_call_fails peer_ip peer_fp).
Notation feed := (feed ip6 handler has_mw has_upload up_call_fails peer_ip peer_fp).
Notation task_done := (task_done handler has_upload up_call_fails).
Notation step := (step ip6 handler has_mw has_upload up_call_fails peer_ip peer_fp).
Notation run := (run ip6 handler has_mw has_upload up_call_fails peer_ip peer_fp).
Notation final := (final ip6 handler has_mw has_upload up_call_fails peer_ip peer_fp).
Notation Inv := (Inv has_upload).

Ltac use_send s r :=
  let H := fresh "H" in pose proof (Eff_send s r) as H;
  destruct (send_response s r); cbn [fst snd] in *.

Lemma Eff_route s line : Eff s (fst (route s line)) (snd (route s line)).
Proof.
  unfold ServerProto.route. destruct (handler line).
  - use_send s r. apply Eff_cons; auto.
  - rewrite send_error_eq. use_send s (err_resp 40 (lit "Server error: " ++ msg)). apply Eff_cons; auto.
  - rewrite spawn_let; cbn [fst snd]. apply Eff_cons; auto. eff_spawn.
Qed.

Lemma Eff_handle_gemini s line : Eff s (fst (handle_gemini s line)) (snd (handle_gemini s line)).
Proof.
  unfold ServerProto.handle_gemini. destruct (gemini_from_line ip6 line).
  - destruct has_mw; [|apply Eff_route]. rewrite spawn_let; cbn [fst snd]. eff_spawn.
  - rewrite send_error_eq. apply Eff_send.
  - cbn. apply Eff_cons; auto. apply Eff_refl.
Qed.

Lemma Eff_start_upload s : Eff s (fst (start_upload s)) (snd (start_upload s)).
Proof.
  unfold ServerProto.start_upload. destruct (titan s); [|apply Eff_refl].
  destruct has_upload; [|apply Eff_refl]. destruct up_call_fails as [msg|].
  - rewrite upload_failed_eq. use_send s (err_resp 40 (lit "Upload error: " ++ msg)). apply Eff_cons; auto.
  - rewrite spawn_let; cbn [fst snd]. eff_spawn.
Qed.

Lemma Eff_ptu s : Eff s (fst (process_titan_upload s)) (snd (process_titan_upload s)).
Proof.
  unfold ServerProto.process_titan_upload. eapply Eff_pre; [apply (Eff_set_await s false)|].
  set (s1 := set_await s false). destruct (titan s1).
  - destruct (negb has_upload); [rewrite send_error_eq; apply Eff_send|].
    destruct has_mw; [|apply Eff_start_upload]. rewrite spawn_let; cbn [fst snd]. eff_spawn.
  - rewrite send_error_eq; apply Eff_send.
Qed.

Definition set_titan (s : st) (t : treq) : st :=
  {| buf := buf s; line_rcvd := line_rcvd s; await_titan := await_titan s; titan := Some t;
     content := content s; timer := timer s; tr := tr s; closing := closing s; sent := sent s;
     next_id := next_id s; pending := pending s |}.
Lemma Eff_set_titan s t : Eff s (set_titan s t) [].
Proof. apply Eff_same; reflexivity || auto. Qed.

Lemma Eff_htu s line : Eff s (fst (handle_titan_url s line)) (snd (handle_titan_url s line)).
Proof.
  unfold ServerProto.handle_titan_url.
  destruct (negb has_upload); [rewrite send_error_eq; apply Eff_send|].
  destruct (titan_from_line ip6 line) as [t|k m|].
  - fold (set_titan s t). eapply Eff_pre; [apply (Eff_set_titan s t)|].
    set (s1 := set_titan s t). destruct (N.eqb (t_size t) 0).
    + eapply Eff_pre; [apply Eff_cancel|apply Eff_ptu].
    + eapply Eff_pre; [apply (Eff_set_await s1 true)|]. set (s2 := set_await s1 true).
      destruct (N.leb _ _); [|apply Eff_refl].
      eapply Eff_pre; [apply Eff_cancel|]. eapply Eff_pre; [apply Eff_set_content|apply Eff_ptu].
  - rewrite send_error_eq; apply Eff_send.
  - cbn. apply Eff_cons; auto. apply Eff_refl.
Qed.

Lemma Eff_data_received s d : Eff s (fst (data_received s d)) (snd (data_received s d)).
Proof.
  unfold ServerProto.data_received.
  eapply Eff_pre; [apply (Eff_set_buf s (buf s ++ d) (line_rcvd s))|].
  set (s1 := set_buf s (buf s ++ d) (line_rcvd s)).
  destruct (negb (line_rcvd s1)).
  - destruct (break_crlf (buf s1)) as [[line rest]|].
    + destruct (N.ltb 1024 _); [rewrite send_error_eq; apply Eff_send|].
      eapply Eff_pre; [apply (Eff_set_buf s1 rest true)|]. set (s2 := set_buf s1 rest true).
      destruct (decode line) as [url|]; [|rewrite send_error_eq; apply Eff_send].
      destruct (prefixb titan_prefix url); [apply Eff_htu|].
      eapply Eff_pre; [apply Eff_cancel|apply Eff_handle_gemini].
    + destruct (N.ltb 1024 _); [rewrite send_error_eq; apply Eff_send|apply Eff_refl].
  - destruct (await_titan s1); [|apply Eff_refl]. destruct (titan s1); [|apply Eff_refl].
    destruct (N.leb _ _); [|apply Eff_refl].
    eapply Eff_pre; [apply Eff_cancel|]. eapply Eff_pre; [apply Eff_set_content|apply Eff_ptu].
Qed.

Lemma Eff_feed sl : forall s, Eff s (fst (feed s sl)) (snd (feed s sl)).
Proof.
  induction sl as [|d r IH]; intros s; cbn; [apply Eff_refl|].
  pose proof (Eff_data_received s d) as H1. destruct (data_received s d) as [s1 a1].
  specialize (IH s1). destruct (feed s1 r) as [s2 a2]. cbn in *. eapply Eff_trans; eassumption.
Qed.

Lemma Eff_set_pending_take s id :
  Eff s (set_pending s (snd (take_task id (pending s)))) [].
Proof.
  constructor; cbn; auto. intros x Hx. left. eapply take_task_incl; eassumption.
Qed.

Lemma Eff_task_done s id o : Eff s (fst (task_done s id o)) (snd (task_done s id o)).
Proof.
  unfold ServerProto.task_done. pose proof (Eff_set_pending_take s id) as H0.
  destruct (take_task id (pending s)) as [[k|] rest]; [|apply Eff_refl]. cbn [snd] in H0.
  eapply Eff_pre; [exact H0|]. set (s1 := set_pending s rest).
  destruct k; destruct o as [r|m|[|] text|]; norm_err;
    first [apply Eff_send | apply Eff_route | apply Eff_start_upload].
Qed.

(* the step, except that connection_lost clears tr *)
Definition fire (s : st) : st :=
  {| buf := buf s; line_rcvd := line_rcvd s; await_titan := await_titan s; titan := titan s;
     content := content s; timer := TFired; tr := tr s; closing := true; sent := true;
     next_id := next_id s; pending := pending s |}.

Lemma Eff_step s e : e <> ELost -> Eff s (fst (step s e)) (snd (step s e)).
Proof.
  intro NL. destruct e; cbn [ServerProto.step]; try congruence.
  - destruct (tr s); [apply Eff_feed|apply Eff_refl].
  - destruct (timer s) eqn:T; try apply Eff_refl.
    cbn. destruct (tr s) eqn:TR; cbn; [|apply Eff_same; cbn; auto; discriminate].
    destruct (closing s) eqn:C; cbn; [apply Eff_same; cbn; auto; discriminate|].
    destruct (sent s) eqn:S; cbn; [apply Eff_same; cbn; auto; discriminate|].
    constructor; cbn; auto; try discriminate; try congruence.
    unfold cs. rewrite S. reflexivity.
  - apply Eff_task_done.
Qed.

(* facts that also hold for ELost *)
Lemma step_closes s e : (closes (snd (step s e)) + cs s = cs (fst (step s e)))%nat.
Proof.
  destruct (event_eq_lost e) as [->|NL]; [|apply (e_closes _ _ _ (Eff_step s e NL))].
  cbn. destruct (tr s); cbn; [rewrite cancel_timer_eq|]; reflexivity.
Qed.

(* ================= invocation budget ================= *)
Definition is_mwk (x : nat * task_kind) : bool :=
  match snd x with TMw _ | TTitanMw => true | _ => false end.
Definition mwcount (p : list (nat * task_kind)) : nat := length (filter is_mwk p).
Arguments mwcount : simpl never.
Definition cap (s : st) : nat :=
  ((if line_rcvd s then 0 else 1) + (if await_titan s then 1 else 0) + mwcount (pending s))%nat.
(* Cap s s' a k: the invocations in a are paid for by the budget *)
Definition Cap (s s' : st) (a : list action) (k : nat) : Prop := (invocs a + cap s' <= cap s + k)%nat.

Lemma Cap_refl s : Cap s s [] 0.
Proof. unfold Cap. cbn. slia. Qed.
Lemma Cap_trans s s1 s2 a1 a2 k1 k2 : Cap s s1 a1 k1 -> Cap s1 s2 a2 k2 -> Cap s s2 (a1 ++ a2) (k1 + k2).
Proof. unfold Cap. rewrite invocs_app. slia. Qed.
Lemma Cap_weaken s s' a k k' : Cap s s' a k -> (k <= k')%nat -> Cap s s' a k'.
Proof. unfold Cap. slia. Qed.
Lemma Cap_cons s s' x a k : is_invocation x = false -> Cap s s' a k -> Cap s s' (x :: a) k.
Proof. unfold Cap, invocs. cbn. intros ->. auto. Qed.
Lemma Cap_cons1 s s' x a k : Cap s s' a k -> Cap s s' (x :: a) (S k).
Proof. unfold Cap, invocs. cbn. destruct (is_invocation x); cbn; slia. Qed.

Lemma Cap_send s r k : Cap s (fst (send_response s r)) (snd (send_response s r)) k.
Proof.
  rewrite send_response_eq. unfold Cap. destruct (muted s); cbn [fst snd].
  - cbn. slia.
  - rewrite resp_acts_invocs. unfold cap, mwcount. cbn. slia.
Qed.

Lemma mwcount_app p q : mwcount (p ++ q) = (mwcount p + mwcount q)%nat.
Proof. unfold mwcount. rewrite filter_app, app_length. reflexivity. Qed.

Lemma Cap_spawn s k act : is_invocation act = false -> Cap s (fst (spawn s k)) [act] 1.
Proof.
  intro H. unfold Cap, invocs, cap. cbn. rewrite H, mwcount_app. cbn.
  unfold mwcount at 2. cbn. destruct (is_mwk _); cbn; slia.
Qed.
Lemma Cap_spawn0 s k act : is_mwk (next_id s, k) = false -> Cap s (fst (spawn s k)) [act] 1.
Proof.
  intro H. unfold Cap, invocs, cap. cbn. rewrite mwcount_app. cbn.
  unfold mwcount at 2. cbn. rewrite H. destruct (is_invocation act); cbn; slia.
Qed.

Lemma Cap_route s line : Cap s (fst (route s line)) (snd (route s line)) 1.
Proof.
  unfold ServerProto.route. destruct (handler line).
  - pose proof (Cap_send s r 0) as H. destruct (send_response s r). apply Cap_cons1, H.
  - rewrite send_error_eq. pose proof (Cap_send s (err_resp 40 (lit "Server error: " ++ msg)) 0) as H.
    destruct (send_response s _). apply Cap_cons1, H.
  - rewrite spawn_let; cbn [fst snd]. unfold Cap, invocs, cap. cbn. rewrite mwcount_app. unfold mwcount at 2. cbn. slia.
Qed.

Lemma Cap_handle_gemini s line : Cap s (fst (handle_gemini s line)) (snd (handle_gemini s line)) 1.
Proof.
  unfold ServerProto.handle_gemini. destruct (gemini_from_line ip6 line).
  - destruct has_mw; [|apply Cap_route]. rewrite spawn_let; cbn [fst snd]. apply Cap_spawn. reflexivity.
  - rewrite send_error_eq. apply Cap_send.
  - cbn. unfold Cap. cbn. slia.
Qed.

Lemma Cap_start_upload s : Cap s (fst (start_upload s)) (snd (start_upload s)) 1.
Proof.
  unfold ServerProto.start_upload. destruct (titan s); [|eapply Cap_weaken; [apply Cap_refl|slia]].
  destruct has_upload; [|eapply Cap_weaken; [apply Cap_refl|slia]].
  destruct up_call_fails as [msg|].
  - rewrite upload_failed_eq. pose proof (Cap_send s (err_resp 40 (lit "Upload error: " ++ msg)) 0) as H.
    destruct (send_response s _). apply Cap_cons1, H.
  - rewrite spawn_let; cbn [fst snd]. apply Cap_spawn0. reflexivity.
Qed.

Lemma Cap_ptu s :
  Cap (set_await s false) (fst (process_titan_upload s)) (snd (process_titan_upload s)) 1.
Proof.
  unfold ServerProto.process_titan_upload. set (s1 := set_await s false). destruct (titan s1).
  - destruct (negb has_upload); [rewrite send_error_eq; apply Cap_send|].
    destruct has_mw; [|apply Cap_start_upload]. rewrite spawn_let; cbn [fst snd]. apply Cap_spawn. reflexivity.
  - rewrite send_error_eq; apply Cap_send.
Qed.

(* same budget-relevant fields *)
Lemma Cap_same s0 s s' a k : line_rcvd s = line_rcvd s0 -> await_titan s = await_titan s0 ->
  pending s = pending s0 -> Cap s s' a k -> Cap s0 s' a k.
Proof. unfold Cap, cap. intros -> -> ->. auto. Qed.
Lemma Cap_le s0 s s' a k : (cap s <= cap s0)%nat -> Cap s s' a k -> Cap s0 s' a k.
Proof. unfold Cap. slia. Qed.

Lemma Cap_htu s line : Cap s (fst (handle_titan_url s line)) (snd (handle_titan_url s line)) 1.
Proof.
  unfold ServerProto.handle_titan_url.
  destruct (negb has_upload); [rewrite send_error_eq; apply Cap_send|].
  destruct (titan_from_line ip6 line) as [t|k m|].
  - fold (set_titan s t). set (s1 := set_titan s t). destruct (N.eqb (t_size t) 0).
    + eapply Cap_le; [|apply Cap_ptu]. rewrite cancel_timer_eq. unfold cap. cbn.
      destruct (line_rcvd s), (await_titan s); slia.
    + destruct (N.leb _ _).
      * eapply Cap_le; [|apply Cap_ptu]. rewrite cancel_timer_eq. unfold cap. cbn.
        destruct (line_rcvd s), (await_titan s); slia.
      * unfold Cap, cap. cbn. destruct (line_rcvd s), (await_titan s); slia.
  - rewrite send_error_eq; apply Cap_send.
  - unfold Cap. cbn. slia.
Qed.

Lemma Cap_data_received s d : Cap s (fst (data_received s d)) (snd (data_received s d)) 0.
Proof.
  unfold ServerProto.data_received. set (s1 := set_buf s (buf s ++ d) (line_rcvd s)).
  change (line_rcvd s1) with (line_rcvd s). change (await_titan s1) with (await_titan s).
  change (titan s1) with (titan s).
  destruct (line_rcvd s) eqn:L; cbn [negb].
  - destruct (await_titan s) eqn:A; [|unfold Cap, cap; cbn; rewrite L, A; slia].
    destruct (titan s); [|unfold Cap, cap; cbn; rewrite L, A; slia].
    destruct (N.leb _ _); [|unfold Cap, cap; cbn; rewrite L, A; slia].
    pose proof (Cap_ptu (set_content (cancel_timer s1) (take (N.to_nat (t_size t)) (buf s1)))) as H.
    revert H. unfold Cap, cap. rewrite cancel_timer_eq. cbn. rewrite L, A. slia.
  - destruct (break_crlf (buf s1)) as [[line rest]|].
    + destruct (N.ltb 1024 _); [rewrite send_error_eq; apply (Cap_same s s1); [cbn; congruence|reflexivity|reflexivity|apply Cap_send]|].
      set (s2 := set_buf s1 rest true).
      assert (C2 : (cap s2 + 1 <= cap s)%nat) by (unfold cap; cbn; rewrite L; slia).
      destruct (decode line) as [url|].
      * destruct (prefixb titan_prefix url).
        -- pose proof (Cap_htu s2 url) as H. unfold Cap in *. slia.
        -- pose proof (Cap_handle_gemini (cancel_timer s2) url) as H. unfold Cap in *.
           assert (cap (cancel_timer s2) = cap s2) by (rewrite cancel_timer_eq; reflexivity). slia.
      * rewrite send_error_eq. pose proof (Cap_send s2 (err_resp 59 (lit "Invalid UTF-8 encoding")) 0) as H.
        unfold Cap in *. slia.
    + destruct (N.ltb 1024 _); [rewrite send_error_eq; apply (Cap_same s s1); [cbn; congruence|reflexivity|reflexivity|apply Cap_send]|].
      unfold Cap, cap; cbn; rewrite L; slia.
Qed.

Lemma Cap_feed sl : forall s, Cap s (fst (feed s sl)) (snd (feed s sl)) 0.
Proof.
  induction sl as [|d r IH]; intros s; cbn; [apply Cap_refl|].
  pose proof (Cap_data_received s d) as H1. destruct (data_received s d) as [s1 a1].
  specialize (IH s1). destruct (feed s1 r) as [s2 a2]. cbn in *.
  exact (Cap_trans _ _ _ _ _ _ _ H1 IH).
Qed.

Lemma take_task_mwcount id p k rest : take_task id p = (Some k, rest) ->
  mwcount p = (mwcount rest + (if is_mwk (id, k) then 1 else 0))%nat.
Proof.
  revert rest; induction p as [|[i k'] p IH]; cbn; intros rest H; [discriminate|].
  destruct (Nat.eqb i id) eqn:E.
  - inversion H; subst. unfold mwcount, is_mwk. cbn. destruct k; cbn; slia.
  - destruct (take_task id p) as [r q]. inversion H; subst. specialize (IH q eq_refl).
    unfold mwcount in *. cbn. destruct (is_mwk (i, k')); cbn; slia.
Qed.

Lemma Cap_task_done s id o : Cap s (fst (task_done s id o)) (snd (task_done s id o)) 0.
Proof.
  unfold ServerProto.task_done.
  destruct (take_task id (pending s)) as [[k|] rest] eqn:E; [|apply Cap_refl].
  apply take_task_mwcount in E. set (s1 := set_pending s rest).
  assert (C1 : cap s = (cap s1 + (if is_mwk (id, k) then 1 else 0))%nat)
    by (unfold cap; cbn; rewrite E; slia).
  pose proof (fun r => Cap_send s1 r 0) as HS. pose proof (Cap_route s1) as HR.
  pose proof (Cap_start_upload s1) as HU. unfold Cap in *.
  destruct k; destruct o as [r|m|[|] text|]; norm_err; unfold is_mwk in C1; cbn [snd] in C1;
    first [ match goal with |- context [send_response s1 ?r] => specialize (HS r) end; slia
          | match goal with |- context [ServerProto.route _ s1 ?l] => specialize (HR l) end; slia
          | slia ].
Qed.

Lemma Cap_step s e : Cap s (fst (step s e)) (snd (step s e)) 0.
Proof.
  destruct e; cbn [ServerProto.step].
  - destruct (tr s); [apply Cap_feed|apply Cap_refl].
  - destruct (timer s); try apply Cap_refl. cbn.
    destruct (tr s && negb (closing s) && negb (sent s)); cbn; unfold Cap, cap; cbn; slia.
  - apply Cap_task_done.
  - destruct (tr s); [|apply Cap_refl]. cbn. rewrite cancel_timer_eq. unfold Cap, cap; cbn; slia.
Qed.

(* ================= lifting to run / final ================= *)
Lemma run_cons s e r :
  run s (e :: r) = (snd (step s e), match timer (fst (step s e)) with TArmed => true | _ => false end)
                   :: run (fst (step s e)) r.
Proof. cbn. destruct (step s e). reflexivity. Qed.
Lemma final_cons s e r : final s (e :: r) = final (fst (step s e)) r.
Proof. reflexivity. Qed.
Lemma flat_cons (a : list action) (b : bool) (o : obs) : flat ((a, b) :: o) = a ++ flat o.
Proof. reflexivity. Qed.

Lemma run_closes evs : forall s, (closes (flat (run s evs)) + cs s = cs (final s evs))%nat.
Proof.
  induction evs as [|e r IH]; intro s; [reflexivity|].
  rewrite run_cons, final_cons, flat_cons, closes_app.
  pose proof (step_closes s e). specialize (IH (fst (step s e))). slia.
Qed.

Lemma run_invocs evs : forall s, (invocs (flat (run s evs)) + cap (final s evs) <= cap s)%nat.
Proof.
  induction evs as [|e r IH]; intro s; [cbn; slia|].
  rewrite run_cons, final_cons, flat_cons, invocs_app.
  pose proof (Cap_step s e) as H. specialize (IH (fst (step s e))). unfold Cap in H. slia.
Qed.

End Proto.
