(* C10 - proofs of the token-bucket rate limiter properties stated in Props/C10.v. *)
From Coq Require Import List NArith ZArith QArith Bool Lia Lqa.
From NV Require Import Prelude.Str Model.Bucket.
From NV Require Spec.C10.
Import ListNotations.
Open Scope Q_scope.

(* ------------------------------------------------------------------ *)
(* Q helpers                                                          *)
(* ------------------------------------------------------------------ *)

Lemma Qle_bool_false a b : Qle_bool a b = false -> b < a.
Proof.
  intro H. apply Qnot_le_lt. intro L. apply Qle_bool_iff in L. congruence.
Qed.

Lemma Qle_bool_true a b : a <= b -> Qle_bool a b = true.
Proof. apply Qle_bool_iff. Qed.

Lemma Qle_bool_lt_false a b : b < a -> Qle_bool a b = false.
Proof.
  intro H. destruct (Qle_bool a b) eqn:E; [|reflexivity].
  apply Qle_bool_iff in E. lra.
Qed.

Lemma prod_nonneg a b : 0 <= a -> 0 <= b -> 0 <= a * b.
Proof. apply Qmult_le_0_compat. Qed.

Lemma prod_mono a b r : 0 <= r -> a <= b -> a * r <= b * r.
Proof.
  intros Hr Hab. assert (0 <= (b - a) * r) by (apply prod_nonneg; lra). lra.
Qed.

Lemma inj_S n : inject_Z (Z.of_nat (S n)) == 1 + inject_Z (Z.of_nat n).
Proof.
  rewrite Nat2Z.inj_succ. unfold Z.succ. rewrite inject_Z_plus.
  change (inject_Z 1) with 1. lra.
Qed.

Lemma inj_0 : inject_Z (Z.of_nat 0) == 0.
Proof. reflexivity. Qed.

(* ------------------------------------------------------------------ *)
(* refill / consume                                                   *)
(* ------------------------------------------------------------------ *)

Lemma Qmin'_le_l a b : Qmin' a b <= a.
Proof.
  unfold Qmin'. destruct (Qle_bool a b) eqn:E.
  - lra.
  - apply Qle_bool_false in E. lra.
Qed.

Lemma Qmin'_le_r a b : Qmin' a b <= b.
Proof.
  unfold Qmin'. destruct (Qle_bool a b) eqn:E.
  - apply Qle_bool_iff in E. lra.
  - lra.
Qed.

Lemma Qmin'_glb a b x : x <= a -> x <= b -> x <= Qmin' a b.
Proof. unfold Qmin'. destruct (Qle_bool a b); auto. Qed.

Lemma Qmin'_l a b : a <= b -> Qmin' a b = a.
Proof. intro H. unfold Qmin'. rewrite (Qle_bool_true _ _ H). reflexivity. Qed.

Lemma refill_le_cap c now b : refill c now b <= cap c.
Proof. apply Qmin'_le_l. Qed.

Lemma refill_nonneg c now b :
  0 <= rate c -> 0 <= cap c -> 0 <= tokens b -> last b <= now -> 0 <= refill c now b.
Proof.
  intros Hr Hc Ht Hl. unfold refill. apply Qmin'_glb; [assumption|].
  assert (0 <= (now - last b) * rate c) by (apply prod_nonneg; lra). lra.
Qed.

(* refill is monotone in time, and grows at most at the configured rate *)
Lemma refill_later c b t t' :
  0 <= rate c -> t <= t' -> refill c t' b <= refill c t b + rate c * (t' - t).
Proof.
  intros Hr Ht.
  assert (P : 0 <= (t' - t) * rate c) by (apply prod_nonneg; lra).
  unfold refill, Qmin'.
  destruct (Qle_bool (cap c) (tokens b + (t' - last b) * rate c)) eqn:E1;
  destruct (Qle_bool (cap c) (tokens b + (t - last b) * rate c)) eqn:E2;
  try apply Qle_bool_iff in E1; try apply Qle_bool_iff in E2;
  try apply Qle_bool_false in E1; try apply Qle_bool_false in E2; lra.
Qed.

(* a fresh (full) bucket refills to exactly its capacity *)
Lemma refill_fresh c now : refill c now {| tokens := cap c; last := now |} = cap c.
Proof.
  unfold refill. cbn [tokens last]. apply Qmin'_l. lra.
Qed.

(* a bucket that is already refilled to capacity at T stays so afterwards *)
Lemma refill_full c b T t :
  0 <= rate c -> T <= t -> cap c <= tokens b + (T - last b) * rate c -> refill c t b = cap c.
Proof.
  intros Hr Ht H. unfold refill. apply Qmin'_l.
  assert (P : 0 <= (t - T) * rate c) by (apply prod_nonneg; lra). lra.
Qed.

Lemma consume_refill_eq c now b1 b2 :
  refill c now b1 = refill c now b2 -> consume c now b1 = consume c now b2.
Proof. intro H. unfold consume. rewrite H. reflexivity. Qed.

Lemma tokens_range : forall c now b ok b',
  0 <= rate c -> 0 <= cap c -> 0 <= tokens b -> tokens b <= cap c -> last b <= now ->
  consume c now b = (ok, b') -> 0 <= tokens b' /\ tokens b' <= cap c /\ last b' = now.
Proof.
  intros c now b ok b' Hr Hc Ht _ Hl H.
  pose proof (refill_nonneg c now b Hr Hc Ht Hl) as N.
  pose proof (refill_le_cap c now b) as U.
  unfold consume in H.
  destruct (Qle_bool 1 (refill c now b)) eqn:E; inversion H; subst; cbn [tokens last].
  - apply Qle_bool_iff in E. repeat split; lra.
  - repeat split; lra.
Qed.

(* the bucket left behind by consume, as seen at the same instant *)
Lemma consume_after c now b ok b' :
  consume c now b = (ok, b') ->
  last b' = now /\
  refill c now b' <= refill c now b - (if ok then 1 else 0).
Proof.
  intro H. unfold consume in H.
  pose proof (refill_le_cap c now b) as U.
  destruct (Qle_bool 1 (refill c now b)) eqn:E; inversion H; subst; cbn [tokens last];
    (split; [reflexivity|]).
  - eapply Qle_trans; [apply Qmin'_le_r|]. cbn [tokens last]. lra.
  - eapply Qle_trans; [apply Qmin'_le_r|]. cbn [tokens last]. lra.
Qed.

Lemma consume_inv c now b ok b' :
  0 <= rate c -> 0 <= cap c -> 0 <= tokens b -> last b <= now ->
  consume c now b = (ok, b') -> 0 <= tokens b' /\ last b' = now.
Proof.
  intros Hr Hc Ht Hl H.
  pose proof (refill_nonneg c now b Hr Hc Ht Hl) as N.
  unfold consume in H.
  destruct (Qle_bool 1 (refill c now b)) eqn:E; inversion H; subst; cbn [tokens last].
  - apply Qle_bool_iff in E. split; [lra|reflexivity].
  - split; [lra|reflexivity].
Qed.

(* ------------------------------------------------------------------ *)
(* association-list state                                             *)
(* ------------------------------------------------------------------ *)

Lemma lookup_update_same ip b st : lookup ip (update ip b st) = Some b.
Proof.
  induction st as [|[k b'] st IH]; cbn [update lookup].
  - rewrite eqb_refl. reflexivity.
  - destruct (eqb ip k) eqn:E; cbn [lookup]; rewrite E; [reflexivity|exact IH].
Qed.

Lemma lookup_update_other ip k b st :
  eqb ip k = false -> lookup ip (update k b st) = lookup ip st.
Proof.
  intro N. induction st as [|[k' b'] st IH]; cbn [update lookup].
  - rewrite N. reflexivity.
  - destruct (eqb k k') eqn:E; cbn [lookup].
    + apply eqb_spec in E. subst k'. rewrite N. reflexivity.
    + destruct (eqb ip k'); [reflexivity|exact IH].
Qed.

Lemma eqb_sym_false (a b : str) : eqb a b = false -> eqb b a = false.
Proof. intro H. apply eqb_neq. apply eqb_neq in H. congruence. Qed.

(* keys are pairwise distinct *)
Fixpoint wf (st : state) : Prop :=
  match st with
  | [] => True
  | (k, _) :: st' => lookup k st' = None /\ wf st'
  end.

Lemma wf_update ip b st : wf st -> wf (update ip b st).
Proof.
  induction st as [|[k b'] st IH]; cbn [update wf]; intro W.
  - cbn [lookup]. split; [reflexivity|exact I].
  - destruct W as [W1 W2]. destruct (eqb ip k) eqn:E; cbn [wf].
    + split; assumption.
    + split; [|apply IH; assumption].
      rewrite lookup_update_other; [assumption|apply eqb_sym_false; assumption].
Qed.

Lemma lookup_filter_none (f : str * bucket -> bool) ip st :
  lookup ip st = None -> lookup ip (filter f st) = None.
Proof.
  induction st as [|[k b] st IH]; cbn [filter lookup]; intro H; [reflexivity|].
  destruct (eqb ip k) eqn:E; [discriminate|].
  destruct (f (k, b)); cbn [lookup]; [rewrite E|]; auto.
Qed.

Lemma lookup_filter (f : bucket -> bool) ip st : wf st ->
  lookup ip (filter (fun kb => f (snd kb)) st) =
  match lookup ip st with Some b => if f b then Some b else None | None => None end.
Proof.
  induction st as [|[k b] st IH]; cbn [filter lookup wf snd]; intro W; [reflexivity|].
  destruct W as [W1 W2]. destruct (eqb ip k) eqn:E.
  - apply eqb_spec in E; subst k. destruct (f b); cbn [lookup].
    + rewrite eqb_refl. reflexivity.
    + apply lookup_filter_none; assumption.
  - destruct (f b); cbn [lookup]; [rewrite E|]; apply IH; assumption.
Qed.

Lemma wf_filter (f : str * bucket -> bool) st : wf st -> wf (filter f st).
Proof.
  induction st as [|[k b] st IH]; cbn [filter wf]; [auto|]. intros [W1 W2].
  destruct (f (k, b)); cbn [wf]; [split|]; auto using lookup_filter_none.
Qed.

Lemma wf_cleanup c st now : wf st -> wf (cleanup c st now).
Proof. apply wf_filter. Qed.

Lemma lookup_cleanup c now ip st : wf st ->
  lookup ip (cleanup c st now) =
  match lookup ip st with
  | Some b => if evictable c now b then None else Some b
  | None => None
  end.
Proof.
  intro W. unfold cleanup.
  pose proof (lookup_filter (fun b => negb (evictable c now b)) ip st W) as H.
  cbv beta in H. rewrite H. destruct (lookup ip st) as [b|]; [|reflexivity].
  destruct (evictable c now b); reflexivity.
Qed.

Lemma evictable_full c now b :
  evictable c now b = true -> cap c <= tokens b + (now - last b) * rate c.
Proof.
  unfold evictable. intro H. apply andb_true_iff in H as [_ H].
  apply Qle_bool_iff in H. exact H.
Qed.

(* the bucket a request of [ip] at time [now] is served from *)
Definition cur (c : cfg) (st : state) (ip : str) (now : Q) : bucket :=
  match lookup ip st with Some b => b | None => {| tokens := cap c; last := now |} end.

Lemma process_eq c st now ip :
  process c st now ip =
  (fst (consume c now (cur c st ip now)), update ip (snd (consume c now (cur c st ip now))) st).
Proof.
  unfold process, cur. destruct (consume c now _) as [ok b']. reflexivity.
Qed.

Lemma run_req c st t k h :
  run c st (Req t k :: h) = (t, k, fst (process c st t k)) :: run c (snd (process c st t k)) h.
Proof. cbn [run]. destruct (process c st t k). reflexivity. Qed.

Lemma run_cleanup c st t h : run c st (Cleanup t :: h) = run c (cleanup c st t) h.
Proof. reflexivity. Qed.

Lemma wf_process c st t k : wf st -> wf (snd (process c st t k)).
Proof. intro W. rewrite process_eq. cbn [snd]. apply wf_update. assumption. Qed.

(* ------------------------------------------------------------------ *)
(* sorted histories                                                   *)
(* ------------------------------------------------------------------ *)

Definition lb (t : Q) (h : list event) : Prop :=
  match h with [] => True | e :: _ => t <= ev_time e end.

Lemma sorted_cons e h : Spec.C10.sorted (e :: h) -> lb (ev_time e) h /\ Spec.C10.sorted h.
Proof. cbn [Spec.C10.sorted]. intros [H1 H2]. split; [exact H1|exact H2]. Qed.

Lemma lb_weaken t t' h : t' <= t -> lb t h -> lb t' h.
Proof. destruct h; cbn [lb]; [auto|]. intros. lra. Qed.

Lemma sorted_filter f h t :
  Spec.C10.sorted h -> lb t h -> lb t (filter f h) /\ Spec.C10.sorted (filter f h).
Proof.
  revert t. induction h as [|e h IH]; intros t S L; cbn [filter].
  - split; exact I.
  - apply sorted_cons in S as [L' S']. destruct (IH (ev_time e) S' L') as [A B].
    cbn [lb] in L. destruct (f e).
    + split; [exact L|]. cbn [Spec.C10.sorted]. split; [exact A|exact B].
    + split; [|exact B]. eapply lb_weaken; eassumption.
Qed.

(* ------------------------------------------------------------------ *)
(* the window bound                                                   *)
(* ------------------------------------------------------------------ *)

(* every stored bucket has non-negative tokens and was last touched no later than [t] *)
Definition Inv (st : state) (t : Q) : Prop :=
  forall k b, lookup k st = Some b -> 0 <= tokens b /\ last b <= t.

Lemma Inv_weaken st t t' : t <= t' -> Inv st t -> Inv st t'.
Proof. intros L H k b E. destruct (H k b E). split; lra. Qed.

Lemma Inv_nil t : Inv [] t.
Proof. intros k b E. discriminate. Qed.

Section Window.
  Variable c : cfg.
  Variable ip : str.
  Variables t1 t2 : Q.
  Hypothesis Hr : 0 <= rate c.
  Hypothesis Hc : 0 <= cap c.

  (* allowance of [ip] at time t: an absent bucket counts as a full one *)
  Definition phi (st : state) (t : Q) : Q := refill c t (cur c st ip t).

  Definition cnt (l : Spec.C10.log) : Q :=
    inject_Z (Z.of_nat (Spec.C10.admitted_in l ip t1 t2)).

  Lemma cnt_nil : cnt [] == 0.
  Proof. reflexivity. Qed.

  Lemma cnt_cons t k ok l :
    cnt ((t, k, ok) :: l) ==
    (if ok && eqb ip k && Qle_bool t1 t && Qle_bool t t2 then 1 else 0) + cnt l.
  Proof.
    unfold cnt. cbn [Spec.C10.admitted_in].
    destruct (ok && eqb ip k && Qle_bool t1 t && Qle_bool t t2); cbn [Nat.add].
    - apply inj_S.
    - ring.
  Qed.

  Lemma cur_inv st ts t : Inv st ts -> ts <= t ->
    0 <= tokens (cur c st ip t) /\ last (cur c st ip t) <= t.
  Proof.
    intros I L. unfold cur. destruct (lookup ip st) as [b|] eqn:E.
    - destruct (I ip b E). split; lra.
    - cbn [tokens last]. split; lra.
  Qed.

  Lemma phi_nonneg st ts t : Inv st ts -> ts <= t -> 0 <= phi st t.
  Proof.
    intros I L. destruct (cur_inv st ts t I L). unfold phi.
    apply refill_nonneg; assumption.
  Qed.

  Lemma phi_le_cap st t : phi st t <= cap c.
  Proof. apply refill_le_cap. Qed.

  Lemma phi_later st t t' : t <= t' -> phi st t' <= phi st t + rate c * (t' - t).
  Proof.
    intro L. unfold phi, cur. destruct (lookup ip st) as [b|].
    - apply refill_later; assumption.
    - rewrite !refill_fresh.
      assert (0 <= rate c * (t' - t)) by (apply prod_nonneg; lra). lra.
  Qed.

  Lemma phi_process_same st t :
    phi (snd (process c st t ip)) t <=
    phi st t - (if fst (process c st t ip) then 1 else 0).
  Proof.
    rewrite process_eq. cbn [fst snd]. unfold phi at 1. unfold cur at 1.
    rewrite lookup_update_same.
    destruct (consume c t (cur c st ip t)) as [ok b'] eqn:E. cbn [fst snd].
    apply consume_after in E as [_ E]. exact E.
  Qed.

  Lemma phi_process_other st t k t' :
    eqb ip k = false -> phi (snd (process c st t k)) t' = phi st t'.
  Proof.
    intro N. rewrite process_eq. cbn [snd]. unfold phi, cur.
    rewrite lookup_update_other by assumption. reflexivity.
  Qed.

  Lemma phi_cleanup st t : wf st -> phi (cleanup c st t) t <= phi st t.
  Proof.
    intro W. unfold phi, cur. rewrite lookup_cleanup by assumption.
    destruct (lookup ip st) as [b|]; [|lra].
    destruct (evictable c t b) eqn:E; [|lra].
    apply evictable_full in E. rewrite refill_fresh.
    rewrite (refill_full c b t t); [lra|assumption|lra|assumption].
  Qed.

  Lemma Inv_process st ts t k :
    Inv st ts -> ts <= t -> Inv (snd (process c st t k)) t.
  Proof.
    intros I L. rewrite process_eq. cbn [snd]. intros k' b E.
    destruct (eqb k' k) eqn:K.
    - apply eqb_spec in K. subst k'. rewrite lookup_update_same in E.
      injection E as E.
      destruct (consume c t (cur c st k t)) as [ok b'] eqn:C. cbn [snd] in E. subst b'.
      assert (0 <= tokens (cur c st k t) /\ last (cur c st k t) <= t) as [A B].
      { unfold cur. destruct (lookup k st) as [b0|] eqn:E0.
        - destruct (I k b0 E0). split; lra.
        - cbn [tokens last]. split; lra. }
      destruct (consume_inv c t _ ok b Hr Hc A B C) as [P0 P1]. split; [lra|rewrite P1; apply Qle_refl].
    - rewrite lookup_update_other in E by assumption.
      destruct (I k' b E). split; lra.
  Qed.

  Lemma Inv_cleanup st ts t :
    wf st -> Inv st ts -> ts <= t -> Inv (cleanup c st t) t.
  Proof.
    intros W I L k b E. rewrite lookup_cleanup in E by assumption.
    destruct (lookup k st) as [b0|] eqn:E0; [|discriminate].
    destruct (evictable c t b0); [discriminate|]. injection E as <-.
    destruct (I k b0 E0). split; lra.
  Qed.

  (* events after the window contribute nothing *)
  Lemma after_window : forall h st t,
    Spec.C10.sorted h -> lb t h -> t2 < t -> cnt (run c st h) == 0.
  Proof.
    induction h as [|e h IH]; intros st t S L G.
    - apply cnt_nil.
    - apply sorted_cons in S as [L' S']. cbn [lb] in L. destruct e as [t' k|t'];
        cbn [ev_time] in *.
      + rewrite run_req, cnt_cons.
        rewrite (Qle_bool_lt_false t' t2) by lra. rewrite andb_false_r.
        rewrite (IH _ t' S' L') by lra. lra.
      + rewrite run_cleanup. apply (IH _ t' S' L'). lra.
  Qed.

  Lemma ind_le (ok e a b : bool) :
    (if ok && e && a && b then 1 else 0) <= (if ok then 1 else 0).
  Proof. destruct ok, e, a, b; cbn; lra. Qed.

  Lemma ind_other (ok a b : bool) : (if ok && false && a && b then 1 else 0) == 0.
  Proof. destruct ok; cbn; lra. Qed.

  (* from a time [ts] on: admitted <= allowance at ts + what is refilled until t2 *)
  Lemma in_window : forall h st ts,
    Spec.C10.sorted h -> lb ts h -> wf st -> Inv st ts -> ts <= t2 ->
    cnt (run c st h) <= phi st ts + rate c * (t2 - ts).
  Proof.
    induction h as [|e h IH]; intros st ts S L W I G.
    - rewrite cnt_nil. pose proof (phi_nonneg st ts ts I (Qle_refl _)).
      assert (0 <= rate c * (t2 - ts)) by (apply prod_nonneg; lra). lra.
    - pose proof (phi_nonneg st ts ts I (Qle_refl _)) as P0.
      assert (P1 : 0 <= rate c * (t2 - ts)) by (apply prod_nonneg; lra).
      destruct (Qlt_le_dec t2 (ev_time e)) as [G'|G'].
      { rewrite (after_window (e :: h) st (ev_time e) S); [lra| |assumption].
        cbn [lb]. lra. }
      apply sorted_cons in S as [L' S']. cbn [lb] in L.
      destruct e as [t k|t]; cbn [ev_time] in *.
      + rewrite run_req, cnt_cons.
        pose proof (IH _ t S' L' (wf_process c st t k W) (Inv_process st ts t k I L) G') as B.
        pose proof (phi_later st ts t L) as M.
        assert (Z : rate c * (t2 - ts) == rate c * (t2 - t) + rate c * (t - ts)) by ring.
        destruct (eqb ip k) eqn:K.
        * apply eqb_spec in K. subst k.
          pose proof (phi_process_same st t) as D.
          pose proof (ind_le (fst (process c st t ip)) true (Qle_bool t1 t) (Qle_bool t t2)) as J.
          lra.
        * rewrite (phi_process_other st t k t K) in B.
          rewrite ind_other. lra.
      + rewrite run_cleanup.
        pose proof (IH _ t S' L' (wf_cleanup c st t W) (Inv_cleanup st ts t W I L) G') as B.
        pose proof (phi_later st ts t L) as M.
        pose proof (phi_cleanup st t W) as D.
        assert (Z : rate c * (t2 - ts) == rate c * (t2 - t) + rate c * (t - ts)) by ring.
        lra.
  Qed.

  (* including a prefix of events that precede the window *)
  Lemma window_gen : forall h st ts,
    Spec.C10.sorted h -> lb ts h -> wf st -> Inv st ts -> t1 <= t2 ->
    cnt (run c st h) <= cap c + rate c * (t2 - t1).
  Proof.
    induction h as [|e h IH]; intros st ts S L W I G.
    - rewrite cnt_nil. assert (0 <= rate c * (t2 - t1)) by (apply prod_nonneg; lra). lra.
    - assert (P1 : 0 <= rate c * (t2 - t1)) by (apply prod_nonneg; lra).
      cbn [lb] in L.
      destruct (Qlt_le_dec (ev_time e) t1) as [B|B].
      + (* the event precedes the window *)
        apply sorted_cons in S as [L' S'].
        destruct e as [t k|t]; cbn [ev_time] in *.
        * rewrite run_req, cnt_cons.
          rewrite (Qle_bool_lt_false t1 t) by assumption.
          rewrite andb_false_r. cbn [andb].
          pose proof (IH _ t S' L' (wf_process c st t k W) (Inv_process st ts t k I L) G).
          lra.
        * rewrite run_cleanup.
          exact (IH _ t S' L' (wf_cleanup c st t W) (Inv_cleanup st ts t W I L) G).
      + destruct (Qlt_le_dec t2 (ev_time e)) as [G'|G'].
        { rewrite (after_window (e :: h) st (ev_time e) S); [lra| |assumption].
          cbn [lb]. lra. }
        assert (L0 : lb (ev_time e) (e :: h)) by (cbn [lb]; lra).
        pose proof (in_window (e :: h) st (ev_time e) S L0 W
                      (Inv_weaken st ts _ L I) G') as H.
        pose proof (phi_le_cap st (ev_time e)) as U.
        assert (0 <= rate c * (ev_time e - t1)) by (apply prod_nonneg; lra).
        assert (Z : rate c * (t2 - t1) == rate c * (t2 - ev_time e) + rate c * (ev_time e - t1))
          by ring.
        lra.
  Qed.
End Window.

Lemma window : forall c h ip t1 t2,
  0 <= rate c -> 0 <= cap c -> Spec.C10.sorted h -> t1 <= t2 ->
  inject_Z (Z.of_nat (Spec.C10.admitted_in (run c [] h) ip t1 t2)) <= cap c + rate c * (t2 - t1).
Proof.
  intros c h ip t1 t2 Hr Hc S G.
  assert (exists ts, lb ts h) as [ts L].
  { destruct h as [|e h]; [exists 0; exact I|exists (ev_time e); cbn [lb]; lra]. }
  exact (window_gen c ip t1 t2 Hr Hc h [] ts S L I (Inv_nil ts) G).
Qed.

Lemma ok_model : forall c h,
  0 <= rate c -> 0 <= cap c -> Spec.C10.sorted h -> Spec.C10.ok c (run c [] h) = true.
Proof.
  intros c h Hr Hc S. unfold Spec.C10.ok.
  apply forallb_forall. intros e1 _. apply forallb_forall. intros e2 _.
  destruct (Qle_bool (fst (fst e1)) (fst (fst e2))) eqn:E; [|reflexivity].
  apply Qle_bool_iff in E. unfold Spec.C10.window_ok. apply Qle_bool_iff.
  apply window; assumption.
Qed.

(* ------------------------------------------------------------------ *)
(* clean-up passes are transparent                                    *)
(* ------------------------------------------------------------------ *)

(* s1: state of the run with clean-ups, s2: state of the run without.  A bucket missing
   from s1 is either missing from s2 too, or was already refilled to capacity at some
   earlier time T. *)
Definition Rel (c : cfg) (t : Q) (s1 s2 : state) : Prop :=
  forall ip,
    lookup ip s1 = lookup ip s2 \/
    (lookup ip s1 = None /\
     exists b T, lookup ip s2 = Some b /\ T <= t /\ cap c <= tokens b + (T - last b) * rate c).

Lemma Rel_weaken c t t' s1 s2 : t <= t' -> Rel c t s1 s2 -> Rel c t' s1 s2.
Proof.
  intros L R ip. destruct (R ip) as [E|[E [b [T [E2 [LT F]]]]]]; [left; exact E|].
  right. split; [exact E|]. exists b, T. repeat split; try assumption. lra.
Qed.

Lemma Rel_consume c t0 t s1 s2 k :
  0 <= rate c -> t0 <= t -> Rel c t0 s1 s2 ->
  consume c t (cur c s1 k t) = consume c t (cur c s2 k t).
Proof.
  intros Hr L R. destruct (R k) as [E|[E [b [T [E2 [LT F]]]]]].
  - unfold cur. rewrite E. reflexivity.
  - apply consume_refill_eq. unfold cur. rewrite E, E2.
    rewrite refill_fresh. symmetry. apply (refill_full c b T t); [assumption|lra|assumption].
Qed.

Lemma Rel_update c t s1 s2 k b : Rel c t s1 s2 -> Rel c t (update k b s1) (update k b s2).
Proof.
  intros R ip. destruct (eqb ip k) eqn:K.
  - apply eqb_spec in K. subst k. left. rewrite !lookup_update_same. reflexivity.
  - rewrite !lookup_update_other by assumption. apply R.
Qed.

Lemma Rel_cleanup c t s1 s2 : wf s1 -> Rel c t s1 s2 -> Rel c t (cleanup c s1 t) s2.
Proof.
  intros W R ip. rewrite lookup_cleanup by assumption.
  destruct (R ip) as [E|[E [b [T [E2 [LT F]]]]]].
  - destruct (lookup ip s1) as [b|] eqn:E1; [|left; exact E].
    destruct (evictable c t b) eqn:V; [|left; exact E].
    right. split; [reflexivity|]. exists b, t. split; [symmetry; exact E|].
    split; [apply Qle_refl|]. apply evictable_full. exact V.
  - rewrite E. right. split; [reflexivity|]. exists b, T. auto.
Qed.

Lemma Rel_refl c t s : Rel c t s s.
Proof. intro ip. left. reflexivity. Qed.

Lemma cleanup_sim c : 0 <= rate c -> forall h s1 s2 t0,
  Spec.C10.sorted h -> lb t0 h -> wf s1 -> Rel c t0 s1 s2 ->
  run c s1 h = run c s2 (filter Spec.C10.is_req h).
Proof.
  intro Hr. induction h as [|e h IH]; intros s1 s2 t0 S L W R; [reflexivity|].
  apply sorted_cons in S as [L' S']. cbn [lb] in L.
  destruct e as [t k|t]; cbn [ev_time] in *; cbn [filter Spec.C10.is_req].
  - rewrite !run_req, !process_eq. cbn [fst snd].
    rewrite (Rel_consume c t0 t s1 s2 k Hr L R). f_equal.
    apply (IH _ _ t S' L').
    + apply wf_update. exact W.
    + apply Rel_update. apply (Rel_weaken c t0 t); assumption.
  - rewrite run_cleanup. apply (IH _ _ t S' L').
    + apply wf_cleanup. exact W.
    + apply Rel_cleanup; [exact W|]. apply (Rel_weaken c t0 t); assumption.
Qed.

Lemma lb_exists h : exists ts, lb ts h.
Proof. destruct h as [|e h]; [exists 0; exact I|exists (ev_time e); cbn [lb]; lra]. Qed.

Lemma cleanup_transparent : forall c h,
  0 <= rate c -> Spec.C10.sorted h ->
  run c [] h = run c [] (filter Spec.C10.is_req h).
Proof.
  intros c h Hr S. destruct (lb_exists h) as [ts L].
  exact (cleanup_sim c Hr h [] [] ts S L I (Rel_refl c ts [])).
Qed.

(* ------------------------------------------------------------------ *)
(* isolation between addresses                                        *)
(* ------------------------------------------------------------------ *)

Lemma decisions_of_cons_same ip t ok l :
  Spec.C10.decisions_of ip ((t, ip, ok) :: l) = (t, ip, ok) :: Spec.C10.decisions_of ip l.
Proof. unfold Spec.C10.decisions_of. cbn [filter fst snd]. rewrite eqb_refl. reflexivity. Qed.

Lemma decisions_of_cons_other ip t k ok l :
  eqb ip k = false ->
  Spec.C10.decisions_of ip ((t, k, ok) :: l) = Spec.C10.decisions_of ip l.
Proof. intro N. unfold Spec.C10.decisions_of. cbn [filter fst snd]. rewrite N. reflexivity. Qed.

Lemma isolation_sim c ip : forall h s1 s2,
  wf s1 -> wf s2 -> lookup ip s1 = lookup ip s2 ->
  Spec.C10.decisions_of ip (run c s1 h) = run c s2 (filter (Spec.C10.concerns ip) h).
Proof.
  induction h as [|e h IH]; intros s1 s2 W1 W2 E; [reflexivity|].
  destruct e as [t k|t]; cbn [filter Spec.C10.concerns].
  - destruct (eqb ip k) eqn:K.
    + apply eqb_spec in K. subst k.
      rewrite !run_req, !process_eq. cbn [fst snd].
      rewrite decisions_of_cons_same.
      assert (C : cur c s1 ip t = cur c s2 ip t) by (unfold cur; rewrite E; reflexivity).
      rewrite C. f_equal. apply IH; try (apply wf_update; assumption).
      rewrite !lookup_update_same. reflexivity.
    + rewrite run_req, (decisions_of_cons_other _ _ _ _ _ K).
      apply IH; [apply wf_process; assumption|assumption|].
      rewrite process_eq. cbn [snd]. rewrite lookup_update_other by assumption. exact E.
  - rewrite !run_cleanup. apply IH; try (apply wf_cleanup; assumption).
    rewrite !lookup_cleanup by assumption. rewrite E. reflexivity.
Qed.

Lemma isolation : forall c h ip,
  Spec.C10.decisions_of ip (run c [] h) = run c [] (filter (Spec.C10.concerns ip) h).
Proof. intros c h ip. apply isolation_sim; [exact I|exact I|reflexivity]. Qed.

(* ------------------------------------------------------------------ *)
(* refusals only when the ideal bucket is exhausted                   *)
(* ------------------------------------------------------------------ *)

Definition ftime (e : Q * str * bool) : Q := fst (fst e).

Definition only (ip : str) (h : list event) : list event :=
  filter Spec.C10.is_req (filter (Spec.C10.concerns ip) h).

Lemma ideal_cons c b t ts :
  Spec.C10.ideal c b (t :: ts) =
  fst (consume c t b) :: Spec.C10.ideal c (snd (consume c t b)) ts.
Proof. cbn [Spec.C10.ideal]. destruct (consume c t b). reflexivity. Qed.

Lemma only_req_same ip t h : only ip (Req t ip :: h) = Req t ip :: only ip h.
Proof.
  unfold only. cbn [filter Spec.C10.concerns]. rewrite eqb_refl.
  cbn [filter Spec.C10.is_req]. reflexivity.
Qed.

Lemma only_req_other ip t k h : eqb ip k = false -> only ip (Req t k :: h) = only ip h.
Proof. intro N. unfold only. cbn [filter Spec.C10.concerns]. rewrite N. reflexivity. Qed.

Lemma only_cleanup ip t h : only ip (Cleanup t :: h) = only ip h.
Proof. reflexivity. Qed.

(* once the bucket of [ip] exists, a clean-up-free run over requests of [ip] only is the
   ideal single bucket *)
Lemma single_bucket c ip : forall h st b,
  lookup ip st = Some b ->
  map snd (run c st (only ip h)) = Spec.C10.ideal c b (map ftime (run c st (only ip h))).
Proof.
  induction h as [|e h IH]; intros st b E; [reflexivity|].
  destruct e as [t k|t].
  - destruct (eqb ip k) eqn:K.
    + apply eqb_spec in K. subst k. rewrite only_req_same, run_req, process_eq.
      cbn [fst snd map ftime]. rewrite ideal_cons.
      assert (C : cur c st ip t = b) by (unfold cur; rewrite E; reflexivity).
      rewrite C. f_equal. apply IH. apply lookup_update_same.
    + rewrite (only_req_other _ _ _ _ K). apply IH. exact E.
  - rewrite only_cleanup. apply IH. exact E.
Qed.

Lemma single_bucket_start c ip : forall h t0 ts,
  map ftime (run c [] (only ip h)) = t0 :: ts ->
  map snd (run c [] (only ip h)) =
  Spec.C10.ideal c {| tokens := cap c; last := t0 |} (t0 :: ts).
Proof.
  induction h as [|e h IH]; intros t0 ts H; [discriminate|].
  destruct e as [t k|t].
  - destruct (eqb ip k) eqn:K.
    + apply eqb_spec in K. subst k. revert H.
      rewrite only_req_same, run_req, process_eq. cbn [fst snd map ftime].
      intro H. injection H as H0 H1. subst t0.
      assert (C : cur c [] ip t = {| tokens := cap c; last := t |}) by reflexivity.
      rewrite C. rewrite ideal_cons. f_equal. rewrite <- H1.
      apply single_bucket. cbn [lookup]. rewrite eqb_refl. reflexivity.
    + rewrite (only_req_other _ _ _ _ K) in *. apply IH. exact H.
  - rewrite only_cleanup in *. apply IH. exact H.
Qed.

Lemma decisions_as_only c h ip :
  0 <= rate c -> Spec.C10.sorted h ->
  Spec.C10.decisions_of ip (run c [] h) = run c [] (only ip h).
Proof.
  intros Hr S. rewrite isolation. unfold only.
  apply cleanup_transparent; [assumption|].
  destruct (lb_exists h) as [ts L].
  apply (sorted_filter (Spec.C10.concerns ip) h ts S L).
Qed.

Lemma refuse_only_exhausted : forall c h ip t0 ts,
  0 <= rate c -> Spec.C10.sorted h ->
  map (fun e => fst (fst e)) (Spec.C10.decisions_of ip (run c [] h)) = t0 :: ts ->
  map snd (Spec.C10.decisions_of ip (run c [] h)) =
  Spec.C10.ideal c {| tokens := cap c; last := t0 |} (t0 :: ts).
Proof.
  intros c h ip t0 ts Hr S H.
  rewrite (decisions_as_only c h ip Hr S) in *.
  apply single_bucket_start. exact H.
Qed.
