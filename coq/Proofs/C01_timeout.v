(* C01 clause_timeout_obligation: a connection stalled past the request timeout (an ETimer in the schedule while the
   bytes delivered so far are not a complete request) is answered and closed once the schedule is quiescent, for
   schedules whose request line is inside the URL model (no AOutOfModel action).

   Proof idea: a stalled schedule contains an ETimer event, and after any ETimer the model's timer is no longer armed
   (it fires if it was armed; it never re-arms).  The no-stuck invariant NS of Proofs/Server_p1.v then leaves, for the
   final state, only "closing" or "a task is pending", and quiescence excludes the latter
   (Server_oblig.quiescent_no_pending).  Neither the `valid_reads` hypothesis nor the condition
   `request_complete c seen = false` is needed by the model: see timeout_obligation_any_timer below. *)
From Coq Require Import List NArith ZArith Bool Lia ZifyBool ZifyN ZifyNat.
From NV Require Import Prelude.Str Prelude.Res Prelude.Utf8 Model.Url Model.Titan Model.ServerProto Spec.ServerTrace.
From NV Require Spec.C01.
From NV Require Import Proofs.Server_inv Proofs.Server_basic Proofs.Server_p1 Proofs.Server_bytes
  Proofs.Server_wire Proofs.Server_oblig.
Import ListNotations.
Set Default Proof Using "Type".

Definition has_timer (evs : list event) : bool :=
  existsb (fun e => match e with ETimer => true | _ => false end) evs.

(* a stalled schedule contains a timer event *)
Lemma stalled_has_timer ip6 c evs : forall seen,
  Spec.C01.stalled_past_timeout ip6 c evs seen = true -> has_timer evs = true.
Proof.
  induction evs as [|e r IH]; intros seen H; [discriminate|].
  destruct e; cbn [Spec.C01.stalled_past_timeout] in H; unfold has_timer; cbn [existsb];
    try (apply (IH _ H)); reflexivity.
Qed.

Section Proto.
Variable ip6 : str -> option str.
Variable handler : str -> hres.
Variable has_mw has_upload : bool.
Variable up_call_fails : option str.
Variable peer_ip : str.
Variable peer_fp : option str.

Notation step := (step ip6 handler has_mw has_upload up_call_fails peer_ip peer_fp).
Notation run := (run ip6 handler has_mw has_upload up_call_fails peer_ip peer_fp).
Notation final := (final ip6 handler has_mw has_upload up_call_fails peer_ip peer_fp).

(* after a timer event the timer is not armed *)
Lemma timer_step_not_armed s : timer (fst (step s ETimer)) <> TArmed.
Proof.
  cbn [ServerProto.step]. destruct (timer s) eqn:T; cbn [fst]; try (rewrite T; discriminate).
  cbn. destruct (tr s && negb (closing s) && negb (sent s)); cbn; discriminate.
Qed.

Lemma has_timer_not_armed evs : forall s, has_timer evs = true -> timer (final s evs) <> TArmed.
Proof.
  induction evs as [|e r IH]; intros s H; [discriminate|].
  rewrite final_cons. unfold has_timer in H. cbn [existsb] in H. apply orb_true_iff in H as [H|H].
  - destruct e; try discriminate.
    apply (final_timer_mono ip6 handler has_mw has_upload up_call_fails peer_ip peer_fp). apply timer_step_not_armed.
  - apply IH. exact H.
Qed.

(* any schedule with a timer event, no connection_lost and no AOutOfModel: quiescent => answered and closed *)
Lemma timer_quiescent_answered evs :
  has_lost evs = false -> has_timer evs = true ->
  existsb (fun a => match a with AOutOfModel => true | _ => false end) (flat (run init evs)) = false ->
  Spec.C01.quiescent evs (run init evs) = true ->
  (let (w, closed) := wire (flat (run init evs)) in (match w with [] => false | _ => true end) && closed) = true.
Proof.
  intros L HT O Q.
  pose proof (quiescent_no_pending ip6 handler has_mw has_upload up_call_fails peer_ip peer_fp evs Q) as P.
  pose proof (Inv_final ip6 handler has_mw has_upload up_call_fails peer_ip peer_fp evs init (Inv_init has_upload)) as I.
  assert (N : NS (final init evs)).
  { apply (NS_final ip6 handler has_mw has_upload up_call_fails peer_ip peer_fp); auto.
    - apply Inv_init.
    - right; left; split; [reflexivity|left; reflexivity]. }
  assert (C : closing (final init evs) = true).
  { destruct N as [N|[[A _]|N]]; [exact N| |contradiction].
    exfalso. exact (has_timer_not_armed evs init HT A). }
  rewrite <- (i_sent _ _ I) in C.
  destruct (W_run ip6 handler has_mw has_upload up_call_fails peer_ip peer_fp evs evs (fun e H => H) init)
    as [[H1 H2]|[H1 [H2 [r [H3 H4]]]]].
  - cbn in H2. congruence.
  - rewrite wire_wc, H3, wire_resp_acts.
    destruct (fst (serialize r) ++ snd (serialize r)) eqn:E; [|reflexivity].
    apply app_eq_nil in E as [E _]. exfalso. exact (serialize_nonempty r E).
Qed.

Theorem timeout_obligation_partial_gen c evs :
  existsb (fun a => match a with AOutOfModel => true | _ => false end) (flat (run init evs)) = false ->
  Spec.C01.clause_timeout_obligation ip6 c evs (run init evs) = true.
Proof.
  intro O. unfold Spec.C01.clause_timeout_obligation. destruct (has_lost evs) eqn:L; [reflexivity|].
  destruct (Spec.C01.stalled_past_timeout ip6 c evs [] && Spec.C01.quiescent evs (run init evs)) eqn:Trig;
    [|reflexivity].
  apply andb_true_iff in Trig as [S Q].
  apply timer_quiescent_answered; try assumption. exact (stalled_has_timer ip6 c evs [] S).
Qed.

End Proto.

(* the statement of Props/C01.v (C01_timeout_obligation_partial) *)
Lemma timeout_obligation_partial : forall ip6 c evs,
  valid_reads evs (run ip6 (fun _ => c_hres c) (c_mw c) (c_upload c) (c_upfail c) (c_ip c) (c_fp c) init evs) false = true ->
  existsb (fun a => match a with AOutOfModel => true | _ => false end)
          (flat (run ip6 (fun _ => c_hres c) (c_mw c) (c_upload c) (c_upfail c) (c_ip c) (c_fp c) init evs)) = false ->
  Spec.C01.clause_timeout_obligation ip6 c evs
    (run ip6 (fun _ => c_hres c) (c_mw c) (c_upload c) (c_upfail c) (c_ip c) (c_fp c) init evs) = true.
Proof.
  intros ip6 c evs _.
  exact (timeout_obligation_partial_gen ip6 (fun _ => c_hres c) (c_mw c) (c_upload c) (c_upfail c) (c_ip c) (c_fp c) c evs).
Qed.
Print Assumptions timeout_obligation_partial.

(* stronger facts about the model: the valid_reads hypothesis is not used, the handler / configuration need not be
   those of c, and the trigger can be weakened to "some ETimer occurs in the schedule" *)
Lemma timeout_obligation_partial_strong : forall ip6 handler mw up ucf ip fp c evs,
  existsb (fun a => match a with AOutOfModel => true | _ => false end)
          (flat (run ip6 handler mw up ucf ip fp init evs)) = false ->
  Spec.C01.clause_timeout_obligation ip6 c evs (run ip6 handler mw up ucf ip fp init evs) = true.
Proof. intros. apply timeout_obligation_partial_gen. assumption. Qed.
Print Assumptions timeout_obligation_partial_strong.

Lemma timeout_obligation_any_timer : forall ip6 handler mw up ucf ip fp evs,
  has_lost evs = false -> has_timer evs = true ->
  existsb (fun a => match a with AOutOfModel => true | _ => false end)
          (flat (run ip6 handler mw up ucf ip fp init evs)) = false ->
  Spec.C01.quiescent evs (run ip6 handler mw up ucf ip fp init evs) = true ->
  (let (w, closed) := wire (flat (run ip6 handler mw up ucf ip fp init evs)) in
   (match w with [] => false | _ => true end) && closed) = true.
Proof. intros. apply timer_quiescent_answered; assumption. Qed.
Print Assumptions timeout_obligation_any_timer.
