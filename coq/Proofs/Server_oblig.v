(* C15 monitor predicate and C01 obligation, for schedules whose request line is inside the
   URL model (no AOutOfModel action). *)
From Coq Require Import List NArith ZArith Bool Lia ZifyBool ZifyN ZifyNat.
From NV Require Import Prelude.Str Prelude.Res Prelude.Utf8 Model.Url Model.Titan Model.ServerProto Spec.ServerTrace.
From NV Require Spec.C01 Spec.C15.
From NV Require Import Proofs.Server_inv Proofs.Server_basic Proofs.Server_p1 Proofs.Server_bytes
  Proofs.Server_wire Proofs.Server_stream.
Import ListNotations.
Set Default Proof Using "Type".

Lemma wire_closed a : snd (wire a) = existsb is_close a.
Proof.
  induction a as [|x a IH]; [reflexivity|]. destruct x; cbn; try exact IH; try reflexivity.
  destruct (wire a). exact IH.
Qed.

Definition armedb (t : tstate) : bool := match t with TArmed => true | _ => false end.

Lemma last_armed_cons x (l : obs) : l <> [] -> Spec.C15.last_armed (x :: l) = Spec.C15.last_armed l.
Proof.
  intro H. unfold Spec.C15.last_armed. cbn [rev].
  destruct (rev l) as [|y q] eqn:E.
  - exfalso. apply H. rewrite <- (rev_involutive l), E. reflexivity.
  - reflexivity.
Qed.

Section Proto.
Variable ip6 : str -> option str.
Variable handler : str -> hres.
Variable has_mw has_upload : bool.
Variable up_call_fails : option str.
Variable peer_ip : str.
Variable peer_fp : option str.

Notation route := (route handler).
Notation start_upload := (start_upload has_upload up_call_fails).
Notation task_done := (task_done handler has_upload up_call_fails).
Notation step := (step ip6 handler has_mw has_upload up_call_fails peer_ip peer_fp).
Notation run := (run ip6 handler has_mw has_upload up_call_fails peer_ip peer_fp).
Notation final := (final ip6 handler has_mw has_upload up_call_fails peer_ip peer_fp).
Notation Inv := (Inv has_upload).
Notation Fed := (Fed ip6 has_upload).
Notation Eff_step := (Eff_step ip6 handler has_mw has_upload up_call_fails peer_ip peer_fp).
Notation Inv_step := (Inv_step ip6 handler has_mw has_upload up_call_fails peer_ip peer_fp).
Notation Inv_final := (Inv_final ip6 handler has_mw has_upload up_call_fails peer_ip peer_fp).

(* ---------- pending tasks against the trace ---------- *)
Lemma pend_step s e x : Inv s -> In x (pending (fst (step s e))) ->
  (In x (pending s) /\ forall o, e <> EDone (fst x) o) \/
  exists act, In act (snd (step s e)) /\ spawn_id act = Some (fst x).
Proof.
  intros I Hx. destruct e as [sl| |id o|].
  - destruct (e_pend _ _ _ (Eff_step s (ERead sl) ltac:(discriminate)) x Hx) as [H|[act [H1 H2]]].
    + left. split; [assumption|discriminate].
    + right. exists act. split; [assumption|apply spawn_match_id; assumption].
  - destruct (e_pend _ _ _ (Eff_step s ETimer ltac:(discriminate)) x Hx) as [H|[act [H1 H2]]].
    + left. split; [assumption|discriminate].
    + right. exists act. split; [assumption|apply spawn_match_id; assumption].
  - cbn [ServerProto.step] in *. unfold ServerProto.task_done in *.
    destruct (take_task_small id (pending s) (i_len _ _ I)) as [E|[k [P E]]]; rewrite E in *.
    + cbn [fst] in Hx. left. split; [assumption|]. intros o' Ho. inversion Ho; subst id.
      (* x in a pending list of length <= 1, with the looked-up id *)
      pose proof (i_len _ _ I) as Len. destruct (pending s) as [|y [|z q]] eqn:PE; cbn in Len; try slia.
      * destruct Hx.
      * destruct Hx as [Hx|[]]. subst y. destruct x as [i k]. cbn in E. rewrite Nat.eqb_refl in E. discriminate.
    + set (s1 := set_pending s []) in *.
      assert (K : forall s' a, Eff s1 s' a -> In x (pending s') ->
                  exists act, In act a /\ spawn_id act = Some (fst x)).
      { intros s' a Ef Hin. destruct (e_pend _ _ _ Ef x Hin) as [[]|[act [H1 H2]]].
        exists act. split; [assumption|apply spawn_match_id; assumption]. }
      right. revert Hx.
      destruct k; destruct o as [r|m|[|] text|]; norm_err; apply K;
        first [apply Eff_send | apply Eff_route | apply Eff_start_upload].
  - left. split; [|discriminate]. revert Hx. cbn. destruct (tr s); cbn; [rewrite cancel_timer_eq|]; auto.
Qed.

Lemma pending_quiescent evs : forall s x, Inv s -> In x (pending (final s evs)) ->
  (In x (pending s) /\ Spec.C01.done_later (fst x) evs = false) \/
  Spec.C01.quiescent evs (run s evs) = false.
Proof.
  induction evs as [|e r IH]; intros s x I Hx; [left; split; [exact Hx|reflexivity]|].
  rewrite final_cons in Hx. rewrite run_cons. cbn [Spec.C01.quiescent].
  destruct (IH _ x (Inv_step s e I) Hx) as [[H1 H2]|H]; [|right; rewrite H; apply andb_false_r].
  destruct (pend_step s e x I H1) as [[K1 K2]|[act [K1 K2]]].
  - left. split; [assumption|]. destruct e; cbn [Spec.C01.done_later]; try assumption.
    rewrite H2, orb_false_r. apply Nat.eqb_neq. intro E. apply (K2 o). congruence.
  - right. apply andb_false_iff. left.
    destruct (forallb _ (snd (step s e))) eqn:F; [|reflexivity].
    rewrite forallb_forall in F. specialize (F act K1). rewrite K2, H2 in F. discriminate.
Qed.

Lemma quiescent_no_pending evs : Spec.C01.quiescent evs (run init evs) = true -> pending (final init evs) = [].
Proof.
  intro Q. destruct (pending (final init evs)) as [|x q] eqn:P; [reflexivity|].
  destruct (pending_quiescent evs init x (Inv_init has_upload)) as [[[] _]|H]; [rewrite P; left; reflexivity|].
  congruence.
Qed.

(* ---------- timers ---------- *)
Lemma final_timer_mono evs : forall s, timer s <> TArmed -> timer (final s evs) <> TArmed.
Proof.
  induction evs as [|e r IH]; intros s H; [exact H|]. rewrite final_cons. apply IH.
  apply step_timer_mono. exact H.
Qed.

Lemma last_armed_run evs : forall s, evs <> [] ->
  Spec.C15.last_armed (run s evs) = armedb (timer (final s evs)).
Proof.
  induction evs as [|e r IH]; intros s H; [congruence|].
  rewrite run_cons, final_cons. destruct r as [|e' r'].
  - reflexivity.
  - rewrite last_armed_cons; [apply IH; discriminate|]. rewrite run_cons. discriminate.
Qed.

Lemma tr_final evs : forall s, has_lost evs = false -> tr (final s evs) = tr s.
Proof.
  induction evs as [|e r IH]; intros s L; [reflexivity|].
  assert (NL : e <> ELost) by (intro; subst; discriminate).
  assert (L' : has_lost r = false) by (destruct e; try congruence; exact L).
  rewrite final_cons, IH by assumption. apply (e_tr _ _ _ (Eff_step s e NL)).
Qed.

Lemma fired_not_armed evs : forall s ab, ab = armedb (timer s) ->
  Spec.C01.timer_fired_armed evs (run s evs) ab = true -> timer (final s evs) <> TArmed.
Proof.
  induction evs as [|e r IH]; intros s ab A H; [discriminate|].
  rewrite run_cons in H. cbn [Spec.C01.timer_fired_armed] in H. rewrite final_cons.
  apply orb_true_iff in H as [H|H].
  - destruct e; try discriminate. subst ab. destruct (timer s) eqn:T; try discriminate.
    apply final_timer_mono. cbn. rewrite T. cbn.
    destruct (tr s && negb (closing s) && negb (sent s)); cbn; discriminate.
  - eapply IH; [|exact H]. unfold armedb. reflexivity.
Qed.

(* ---------- C15 monitor ---------- *)
Theorem c15_ok_partial_gen evs :
  existsb (fun a => match a with AOutOfModel => true | _ => false end) (flat (run init evs)) = false ->
  Spec.C15.ok evs (run init evs) = true.
Proof.
  intro O. unfold Spec.C15.ok. apply andb_true_iff. split; [apply andb_true_iff; split|].
  - unfold Spec.C15.no_stuck. destruct (has_lost evs) eqn:L; [reflexivity|].
    assert (N : NS (final init evs)).
    { apply (NS_final ip6 handler has_mw has_upload up_call_fails peer_ip peer_fp); auto.
      - apply Inv_init.
      - right; left; split; [reflexivity|left; reflexivity]. }
    pose proof (Inv_final evs init (Inv_init has_upload)) as I.
    destruct N as [C|[[A _]|P]].
    + (* closed *)
      unfold Spec.C15.closed_in. rewrite wire_closed.
      pose proof (run_closes ip6 handler has_mw has_upload up_call_fails peer_ip peer_fp evs init) as E.
      rewrite <- (i_sent _ _ I) in C. unfold cs in E. rewrite C in E. cbn in E.
      assert (existsb is_close (flat (run init evs)) = true) as ->
        by (apply existsb_count_pos; unfold closes in E; slia).
      reflexivity.
    + destruct evs as [|e r]; [rewrite orb_true_r; reflexivity|].
      rewrite last_armed_run by discriminate. rewrite A. cbn. rewrite orb_true_r. reflexivity.
    + unfold Spec.C15.pending_in.
      destruct (Spec.C01.quiescent evs (run init evs)) eqn:Q; [|cbn; rewrite !orb_true_r; reflexivity].
      exfalso. apply P. apply quiescent_no_pending. exact Q.
  - apply timeout_run; [apply Inv_init|reflexivity|reflexivity].
  - apply not_armed_run; [apply Inv_init|intro H; discriminate H].
Qed.

(* ---------- C01 obligation ---------- *)
Section Oblig.
Variable c : cfg.
Hypothesis Cup : c_upload c = has_upload.

Theorem obligation_partial_gen evs :
  existsb (fun a => match a with AOutOfModel => true | _ => false end) (flat (run init evs)) = false ->
  Spec.C01.clause_obligation ip6 c evs (run init evs) = true.
Proof using Cup.
  intro O. unfold Spec.C01.clause_obligation. destruct (has_lost evs) eqn:L; [reflexivity|].
  destruct ((Spec.C01.request_complete ip6 c (stream evs) || Spec.C01.timer_fired_armed evs (run init evs) true)
            && Spec.C01.quiescent evs (run init evs)) eqn:Trig; [|reflexivity].
  apply andb_true_iff in Trig as [Trig Q].
  pose proof (quiescent_no_pending evs Q) as P.
  pose proof (Inv_final evs init (Inv_init has_upload)) as I.
  assert (N : NS (final init evs)).
  { apply (NS_final ip6 handler has_mw has_upload up_call_fails peer_ip peer_fp); auto.
    - apply Inv_init.
    - right; left; split; [reflexivity|left; reflexivity]. }
  assert (TR : tr (final init evs) = true) by (rewrite tr_final by assumption; reflexivity).
  assert (C : closing (final init evs) = true).
  { destruct (closing (final init evs)) eqn:C; [reflexivity|]. exfalso.
    destruct N as [N|[[A PH]|N]]; [congruence| |contradiction].
    apply orb_true_iff in Trig as [RC|TF].
    - pose proof (Fed_final ip6 handler has_mw has_upload up_call_fails peer_ip peer_fp evs init [] (Inv_init has_upload)
                    eq_refl L (Fed_init ip6 has_upload)) as [FA FB]. cbn [app] in *.
      unfold Spec.C01.request_complete in RC.
      destruct PH as [PH|PH].
      + destruct (FA PH) as [_ [R|[R S]]].
        * rewrite R in RC. discriminate.
        * specialize (S TR). rewrite (i_sent _ _ I) in S. congruence.
      + destruct (line_rcvd (final init evs)) eqn:LR.
        * destruct (FB eq_refl PH) as [u [t [R [Pf [Et [Ts [U Sz]]]]]]].
          rewrite R, Pf, Cup, U, Et in RC. cbn in RC. congruence.
        * rewrite (i_line _ _ I LR) in PH. discriminate.
    - apply (fired_not_armed evs init true eq_refl TF). exact A. }
  rewrite <- (i_sent _ _ I) in C.
  destruct (W_run ip6 handler has_mw has_upload up_call_fails peer_ip peer_fp evs evs (fun e H => H) init)
    as [[H1 H2]|[H1 [H2 [r [H3 H4]]]]].
  - cbn in H2. congruence.
  - rewrite wire_wc, H3, wire_resp_acts.
    destruct (fst (serialize r) ++ snd (serialize r)) eqn:E; [|reflexivity].
    apply app_eq_nil in E as [E _]. exfalso. exact (serialize_nonempty r E).
Qed.
End Oblig.

End Proto.
