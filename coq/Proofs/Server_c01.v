(* C01: shape and faithfulness of what reaches the wire. *)
From Coq Require Import List NArith ZArith Bool Lia ZifyBool ZifyN ZifyNat.
From NV Require Import Prelude.Str Prelude.Res Prelude.Utf8 Model.Url Model.Titan Model.ServerProto Spec.ServerTrace.
From NV Require Spec.C01.
From NV Require Import Proofs.Server_inv Proofs.Server_basic Proofs.Server_wire Proofs.Server_bytes.
Import ListNotations.
Set Default Proof Using "Type".

Lemma serialize_wire r : exists h,
  fst (serialize r) ++ snd (serialize r) = h ++ crlf ++ snd (serialize r) /\
  fst (serialize r) = h ++ crlf /\ ~ In 13%N h /\ header_ok h = true /\
  (snd (serialize r) <> [] -> is_2x h = true).
Proof.
  destruct (serialize_shape r) as [h [H1 [H2 [H3 H4]]]]. exists h.
  rewrite H1, <- app_assoc. auto.
Qed.

Theorem shape_gen ip6 handler mw up ucf ip fp evs :
  Spec.C01.clause_shape (run ip6 handler mw up ucf ip fp init evs) = true.
Proof.
  unfold Spec.C01.clause_shape.
  destruct (wire_run ip6 handler mw up ucf ip fp evs) as [->|[r [_ ->]]]; [reflexivity|].
  destruct (serialize_wire r) as [h [E [E1 [H2 [H3 H4]]]]]. rewrite E.
  rewrite response_shape_ok by assumption. destruct (h ++ crlf ++ snd (serialize r)); reflexivity.
Qed.

Theorem faithful_gen ip6 c evs :
  Spec.C01.clause_faithful c evs
    (run ip6 (fun _ => c_hres c) (c_mw c) (c_upload c) (c_upfail c) (c_ip c) (c_fp c) init evs) = true.
Proof.
  unfold Spec.C01.clause_faithful.
  destruct (wire_run ip6 (fun _ => c_hres c) (c_mw c) (c_upload c) (c_upfail c) (c_ip c) (c_fp c) evs)
    as [->|[r [S ->]]]; [reflexivity|].
  destruct (serialize_wire r) as [h [E [E1 [H2 [H3 H4]]]]]. rewrite E.
  rewrite break_crlf_app by assumption.
  destruct (is_2x h && match snd (serialize r) with [] => false | _ => true end) eqn:C; [|reflexivity].
  apply andb_true_iff in C as [_ C].
  assert (NB : snd (serialize r) <> []) by (destruct (snd (serialize r)); [discriminate|discriminate]).
  apply existsb_exists. exists r. split.
  - unfold Spec.C01.candidates. apply in_or_app. destruct S as [[S|[line S]]|[id S]].
    + exfalso. apply NB. unfold serialize. destruct (status_ok (rs_status r)); [|reflexivity].
      cbn. unfold body_bytes. rewrite S. destruct (_ && _)%bool; reflexivity.
    + left. rewrite S. left. reflexivity.
    + right. apply in_flat_map. exists (EDone id (OResp r)). split; [assumption|left; reflexivity].
  - destruct (serialize r) as [hb bb] eqn:SR. cbn [fst snd] in *. rewrite E1, !eqb_refl. reflexivity.
Qed.
