(* C08 - proofs of the line-oracle theorems (Props/C08.v). *)
From Coq Require Import List NArith ZArith Bool Lia ZifyBool ZifyN ZifyNat.
From NV Require Import Prelude.Str Prelude.Res Prelude.Utf8 Model.Url Model.Titan.
From NV Require Import Proofs.StrLemmas Proofs.UrlLemmas.
From NV Require Spec.ServerTrace Spec.C08.
Import ListNotations.
Open Scope N_scope.

(* ====================================================================== *)
(* limit                                                                   *)
(* ====================================================================== *)

Lemma break_crlf_cons2 x y s :
  break_crlf (x :: y :: s) =
  if (x =? 13) && (y =? 10) then Some ([], s)
  else match break_crlf (y :: s) with Some (a, b) => Some (x :: a, b) | None => None end.
Proof. reflexivity. Qed.

Lemma break_crlf_at l rest :
  has_crlf l = false -> (forall a, l <> a ++ [13]) ->
  break_crlf (l ++ [13; 10] ++ rest) = Some (l, rest).
Proof.
  induction l as [|x l IH]; intros Hc He.
  - reflexivity.
  - assert (Hc' : has_crlf l = false /\ (forall y l', l = y :: l' -> (x =? 13) && (y =? 10) = false)).
    { destruct l as [|y l']; [split; [reflexivity|intros; discriminate]|].
      unfold has_crlf in Hc. rewrite break_crlf_cons2 in Hc.
      destruct ((x =? 13) && (y =? 10)) eqn:E; [discriminate|].
      split.
      - unfold has_crlf. destruct (break_crlf (y :: l')) as [[a b]|]; [discriminate|reflexivity].
      - intros y0 l0 H. inversion H; subst. assumption. }
    destruct Hc' as [Hc1 Hc2].
    assert (He' : forall a, l <> a ++ [13]).
    { intros a H. apply (He (x :: a)). rewrite H. reflexivity. }
    specialize (IH Hc1 He').
    destruct l as [|y l'].
    + cbn [app] in *. rewrite break_crlf_cons2.
      assert (x <> 13). { intro; subst. apply (He []). reflexivity. }
      destruct (x =? 13) eqn:E; [apply N.eqb_eq in E; contradiction|]. cbn [andb].
      rewrite IH. reflexivity.
    + change ((x :: y :: l') ++ [13; 10] ++ rest) with (x :: y :: (l' ++ [13; 10] ++ rest)).
      rewrite break_crlf_cons2. rewrite (Hc2 y l' eq_refl).
      change (y :: l' ++ [13; 10] ++ rest) with ((y :: l') ++ [13; 10] ++ rest).
      rewrite IH. reflexivity.
Qed.

Lemma limit : forall l rest,
  has_crlf l = false -> (forall a, l <> a ++ [13]) ->
  Spec.ServerTrace.request_line (l ++ [13; 10] ++ rest) =
    if (1024 <? N.of_nat (length l) + 2)%N then Spec.ServerTrace.LTooBig
    else match Prelude.Utf8.decode l with
         | None => Spec.ServerTrace.LBadUtf8
         | Some u => Spec.ServerTrace.LLine u rest
         end.
Proof.
  intros l rest Hc He. unfold Spec.ServerTrace.request_line.
  rewrite (break_crlf_at l rest Hc He). reflexivity.
Qed.

(* ====================================================================== *)
(* titan_base                                                              *)
(* ====================================================================== *)

Lemma titan_base : forall ip6 u t,
  titan_from_line ip6 u = Ok t ->
  exists base rest c, break_at ch_semi u = Some (base, rest) /\
    parse_url ip6 (lit "gemini://" ++ drop 8 base) = Ok c /\ t_host t = p_host c /\ t_port t = p_port c /\ t_path t = p_path c.
Proof.
  intros ip6 u t. unfold titan_from_line.
  destruct (negb (prefixb titan_prefix u)); [discriminate|].
  destruct (break_at ch_semi u) as [[base rest]|] eqn:Eb; [|discriminate].
  destruct (get_param (lit "size") (parse_params rest)) as [sz|]; [|discriminate].
  destruct (py_int sz) as [z| |]; try discriminate.
  destruct (z <? 0)%Z; [discriminate|].
  destruct (parse_url ip6 (lit "gemini://" ++ drop 8 base)) as [c| |] eqn:Ep; cbn [bind]; try discriminate.
  intro H. inversion H; subst. exists base, rest, c. cbn. auto.
Qed.

(* ====================================================================== *)
(* titan_sound                                                             *)
(* ====================================================================== *)

Lemma lstrip_by_id p s : (forall x, In x s -> p x = false) -> lstrip_by p s = s.
Proof.
  destruct s as [|y s]; [reflexivity|]. intro H. cbn [lstrip_by].
  rewrite (H y (or_introl eq_refl)). reflexivity.
Qed.
Lemma strip_by_id p s : (forall x, In x s -> p x = false) -> strip_by p s = s.
Proof.
  intro H. unfold strip_by, rstrip_by. rewrite (lstrip_by_id p s H).
  rewrite lstrip_by_id; [apply rev_involutive|]. intros x Hx. apply H. apply in_rev. assumption.
Qed.
Lemma In_lstrip_by_keep p x s : In x s -> p x = false -> In x (lstrip_by p s).
Proof.
  induction s as [|y s IH]; [auto|]. intros Hx Hp. cbn [lstrip_by].
  destruct (p y) eqn:E; [|assumption].
  destruct Hx as [Hx|Hx]; [congruence|auto].
Qed.
Lemma In_strip_by_keep p x s : In x s -> p x = false -> In x (strip_by p s).
Proof.
  intros Hx Hp. unfold strip_by, rstrip_by. apply in_rev. rewrite rev_involutive.
  apply In_lstrip_by_keep; [|assumption]. apply in_rev. rewrite rev_involutive.
  apply In_lstrip_by_keep; assumption.
Qed.

Definition sign_split (s : str) : bool * str :=
  match s with
  | [] => (false, [])
  | c :: r => if c =? 45 then (true, r) else if c =? 43 then (false, r) else (false, c :: r)
  end.

Lemma py_int_unfold s0 : py_int s0 =
  if negb (all_ascii s0) then OutOfModel else
  let '(neg, body) := sign_split (strip_by is_py_space s0) in
  match int_digits body 0 false with
  | Some n => Ok (if neg then Z.opp (Z.of_N n) else Z.of_N n)
  | None => Err (lit "int") s0
  end.
Proof.
  unfold py_int. destruct (negb (all_ascii s0)); [reflexivity|].
  generalize (strip_by is_py_space s0). intros s.
  destruct s as [|c r]; [reflexivity|].
  destruct c as [|q]; [reflexivity|].
  repeat (destruct q as [q|q|]; try reflexivity).
Qed.

Lemma size_clearly_bad_cons c d : Spec.C08.size_clearly_bad (c :: d) =
  if c =? 45 then forallb is_digit d && existsb (fun c => negb (c =? 48)) d
  else all_ascii (c :: d) &&
       existsb (fun c => negb (is_digit c || (c =? 95) || (c =? 43) || (c =? 45) || is_py_space c)) (c :: d).
Proof.
  destruct c as [|q]; [reflexivity|].
  repeat (destruct q as [q|q|]; try reflexivity).
Qed.

Lemma int_digits_bad s : forall acc b,
  (exists x, In x s /\ is_digit x = false /\ x <> 95) -> int_digits s acc b = None.
Proof.
  induction s as [|c s IH]; intros acc b [x (Hx & Hd & H95)]; [destruct Hx|].
  cbn [int_digits]. destruct (is_digit c) eqn:Ec.
  - apply IH. exists x. destruct Hx as [Hx|Hx]; [congruence|auto].
  - destruct ((c =? 95) && b) eqn:E; [|reflexivity].
    destruct s as [|d s']; [reflexivity|]. destruct (is_digit d) eqn:Edd; [|reflexivity].
    apply IH. exists x. destruct Hx as [Hx|Hx]; [|auto]. subst. lia.
Qed.

Lemma int_digits_ge s : forall acc b n, int_digits s acc b = Some n -> forallb is_digit s = true -> acc <= n.
Proof.
  induction s as [|c s IH]; intros acc b n H Hd; cbn [int_digits forallb] in *.
  - destruct b; inversion H; lia.
  - apply andb_true_iff in Hd as [Hc Hs]. rewrite Hc in H. apply IH in H; [lia|assumption].
Qed.
Lemma int_digits_pos s : forall acc b n, int_digits s acc b = Some n -> forallb is_digit s = true ->
  existsb (fun c => negb (c =? 48)) s = true -> 0 < n.
Proof.
  induction s as [|c s IH]; intros acc b n H Hd He; cbn [int_digits forallb existsb] in *; [discriminate|].
  apply andb_true_iff in Hd as [Hc Hs]. rewrite Hc in H.
  apply orb_true_iff in He as [He|He].
  - apply int_digits_ge in H; [|assumption]. unfold is_digit in Hc. lia.
  - eapply IH; eassumption.
Qed.

(* a clearly bad size never yields a non-negative integer *)
Lemma size_clearly_bad_int v : Spec.C08.size_clearly_bad v = true ->
  match py_int v with Ok z => (z < 0)%Z | _ => True end.
Proof.
  intro H. destruct v as [|c d].
  - vm_compute. exact I.
  - rewrite size_clearly_bad_cons in H. destruct (c =? 45) eqn:E45.
    + apply N.eqb_eq in E45. subst c. apply andb_true_iff in H as [Hd He].
      rewrite py_int_unfold.
      assert (Hns : forall x, In x (45 :: d) -> is_py_space x = false).
      { intros x [Hx|Hx]; [subst; reflexivity|].
        rewrite forallb_forall in Hd. apply Hd in Hx. unfold is_digit, is_py_space in *. lia. }
      destruct (negb (all_ascii (45 :: d))); [exact I|].
      rewrite (strip_by_id _ _ Hns). cbn [sign_split N.eqb Pos.eqb].
      destruct (int_digits d 0 false) as [n|] eqn:Ei; [|exact I].
      pose proof (int_digits_pos _ _ _ _ Ei Hd He). lia.
    + apply andb_true_iff in H as [Ha He]. apply existsb_exists in He as [x [Hx Hbad]].
      rewrite py_int_unfold. rewrite Ha. cbn [negb].
      assert (Hsp : is_py_space x = false) by lia.
      pose proof (In_strip_by_keep is_py_space x (c :: d) Hx Hsp) as Hin.
      destruct (sign_split (strip_by is_py_space (c :: d))) as [neg body] eqn:Es.
      assert (Hb : In x body).
      { unfold sign_split in Es. destruct (strip_by is_py_space (c :: d)) as [|c' r]; [destruct Hin|].
        destruct (c' =? 45) eqn:E1; [inversion Es; subst; destruct Hin as [Hi|Hi]; [lia|assumption]|].
        destruct (c' =? 43) eqn:E2; [inversion Es; subst; destruct Hin as [Hi|Hi]; [lia|assumption]|].
        inversion Es; subst. assumption. }
      rewrite int_digits_bad; [exact I|]. exists x. split; [assumption|]. split; lia.
Qed.

Lemma titan_sound : forall ip6 u t,
  Spec.C08.must_reject_titan u = true -> titan_from_line ip6 u <> Ok t.
Proof.
  intros ip6 u t H. unfold Spec.C08.must_reject_titan, Spec.C08.size_value in H.
  unfold titan_from_line.
  destruct (negb (prefixb titan_prefix u)); [discriminate|].
  destruct (break_at ch_semi u) as [[base rest]|]; [|discriminate].
  destruct (get_param (lit "size") (parse_params rest)) as [sz|]; [|discriminate].
  apply size_clearly_bad_int in H.
  destruct (py_int sz) as [z| |]; try discriminate.
  assert (E : (z <? 0)%Z = true) by lia. rewrite E. discriminate.
Qed.

(* ====================================================================== *)
(* sound                                                                   *)
(* ====================================================================== *)

Lemma urlsplit_Ok_parts ip6 u sp : urlsplit ip6 u = Ok sp ->
  exists scheme u1 netloc u2,
    split_scheme (clean_url u) = (scheme, u1) /\
    (if prefixb [47; 47] u1 then span_until is_netloc_delim (drop 2 u1) else ([], u1)) = (netloc, u2) /\
    all_ascii netloc = true /\ check_brackets ip6 netloc = None /\
    sp = {| u_scheme := scheme; u_netloc := netloc;
            u_path := fst (cut ch_qm (fst (cut ch_hash u2)));
            u_query := snd (cut ch_qm (fst (cut ch_hash u2)));
            u_fragment := snd (cut ch_hash u2) |}.
Proof.
  rewrite urlsplit_unfold. cbv zeta.
  destruct (split_scheme (clean_url u)) as [scheme u1] eqn:Es.
  destruct (if prefixb [47; 47] u1 then span_until is_netloc_delim (drop 2 u1) else ([], u1))
    as [netloc u2] eqn:En.
  destruct (negb (all_ascii netloc)) eqn:Ea; [discriminate|].
  destruct (check_brackets ip6 netloc) eqn:Ec; [discriminate|].
  destruct (cut ch_hash u2) as [u3 frag] eqn:E3.
  destruct (cut ch_qm u3) as [path query] eqn:E4.
  intro H. inversion H. exists scheme, u1, netloc, u2.
  apply negb_false_iff in Ea. rewrite E3. cbn [fst snd]. rewrite E4. cbn [fst snd]. auto.
Qed.

Lemma grey_clean u : Spec.C08.grey u = false -> clean_url u = u.
Proof.
  destruct u as [|c r]; [reflexivity|]. unfold Spec.C08.grey. intro H.
  apply orb_false_iff in H as [Hc He].
  unfold clean_url. cbn [lstrip_by]. unfold is_c0_or_space. rewrite Hc.
  apply remove_chars_id. intros x Hx.
  destruct (is_unsafe x) eqn:E; [|reflexivity].
  assert (existsb (fun x => (x =? 9) || (x =? 10) || (x =? 13)) (c :: r) = true).
  { apply existsb_exists. exists x. split; [assumption|exact E]. }
  congruence.
Qed.

Lemma split_scheme_scheme_of u :
  split_scheme u = match Spec.C08.scheme_of u with Some (s, r) => (s, r) | None => ([], u) end.
Proof.
  unfold split_scheme, Spec.C08.scheme_of.
  destruct (break_at ch_colon u) as [[[|c0 a] b]|]; try reflexivity.
  destruct (is_alpha c0 && forallb is_scheme_char (c0 :: a)); reflexivity.
Qed.

Lemma rpartition_hostpart auth : exists ui fr, rpartition ch_at auth = (ui, fr, Spec.C08.hostpart auth).
Proof.
  unfold rpartition, Spec.C08.hostpart. destruct (rbreak_at ch_at auth) as [[a b]|]; eauto.
Qed.

Lemma userinfo_nonempty_eq auth :
  Spec.C08.userinfo_nonempty auth = (let (un, pw) := userinfo auth in truthy un || truthy pw).
Proof.
  unfold Spec.C08.userinfo_nonempty, userinfo, rpartition, partition.
  destruct (rbreak_at ch_at auth) as [[ui hi]|]; [|reflexivity].
  destruct (break_at ch_colon ui) as [[un pw]|].
  - destruct un, pw; reflexivity.
  - destruct ui; reflexivity.
Qed.

Lemma host_empty_hostname auth : Spec.C08.host_empty auth = true -> hostname auth = None.
Proof.
  unfold Spec.C08.host_empty, hostname.
  destruct (rpartition_hostpart auth) as (ui & fr & Er).
  rewrite (hostinfo_eq _ _ _ _ Er).
  destruct (Spec.C08.hostpart auth) as [|c r]; [reflexivity|].
  intros H. apply andb_true_iff in H as [Hc Hb]. apply N.eqb_eq in Hc. subst c.
  apply negb_true_iff in Hb.
  rewrite hostinfo_hi_nobr.
  - unfold partition. cbn [break_at ch_colon N.eqb Pos.eqb]. reflexivity.
  - apply notin_cons; [discriminate|]. apply mem_false. exact Hb.
Qed.

Lemma sound : forall ip6 u c,
  Spec.C08.grey u = false -> Spec.C08.must_reject_gemini u = true -> parse_url ip6 u <> Ok c.
Proof.
  intros ip6 u c Hg Hr Hp.
  apply parse_url_inv in Hp as (sp & h & un & pw & po & Hs & Hsch & Hh & Hu & Ht & Hf & Hpo & _).
  apply urlsplit_Ok_parts in Hs as (scheme & u1 & netloc & u2 & Ess & En & Ha & Hcb & ->).
  cbn [u_scheme u_netloc u_fragment] in *.
  rewrite (grey_clean u Hg), split_scheme_scheme_of in Ess.
  unfold Spec.C08.must_reject_gemini in Hr.
  destruct (Spec.C08.scheme_of u) as [[sch rest]|].
  - inversion Ess; subst sch rest. subst scheme. rewrite eqb_refl in Hr. cbn [negb] in Hr.
    unfold Spec.C08.authority in Hr. destruct (prefixb [47; 47] u1).
    + rewrite En in Hr.
      apply orb_true_iff in Hr as [Hr|Hr]; [apply orb_true_iff in Hr as [Hr|Hr]|].
      * rewrite (host_empty_hostname _ Hr) in Hh. discriminate.
      * rewrite userinfo_nonempty_eq, Hu in Hr. congruence.
      * unfold Spec.C08.fragment_nonempty in Hr. unfold cut in Hf.
        destruct (break_at ch_hash u2) as [[a [|b0 b]]|]; cbn [snd] in Hf; discriminate.
    + inversion En; subst netloc u2. discriminate.
  - inversion Ess; subst scheme. discriminate.
Qed.

(* ====================================================================== *)
(* complete                                                                *)
(* ====================================================================== *)

Ltac cls :=
  cbv beta in *;
  unfold Spec.C08.pchar, Spec.C08.is_unreserved, Spec.C08.is_subdelim, is_unsafe, is_netloc_delim,
    is_alpha, is_upper, is_lower, is_hexdigit, is_digit, is_ascii,
    ch_pct, ch_colon, ch_at, ch_lbr, ch_rbr, ch_qm, ch_hash, ch_slash in *;
  lia.

Lemma encode_ascii s : all_ascii s = true -> encode s = Some s.
Proof.
  induction s as [|c s IH]; [reflexivity|]. cbn [all_ascii forallb encode]. intro H.
  apply andb_true_iff in H as [Hc Hs]. fold (all_ascii s) in Hs. rewrite (IH Hs).
  assert (E1 : is_scalar c = true) by (unfold is_scalar, is_surrogate, is_ascii in *; lia).
  rewrite E1. unfold enc_cp. assert (E2 : (c <? 128) = true) by (unfold is_ascii in Hc; lia).
  rewrite E2. reflexivity.
Qed.

Lemma pct_ok_cons p c r : Spec.C08.pct_ok p (c :: r) =
  if c =? 37 then
    match r with
    | h1 :: h2 :: r' => is_hexdigit h1 && is_hexdigit h2 && Spec.C08.pct_ok p r'
    | _ => p c && Spec.C08.pct_ok p r
    end
  else p c && Spec.C08.pct_ok p r.
Proof.
  destruct c as [|q]; [reflexivity|].
  repeat (destruct q as [q|q|]; try reflexivity).
Qed.

Lemma pct_ok_In p : forall n s, (length s <= n)%nat -> Spec.C08.pct_ok p s = true ->
  forall x, In x s -> x = 37 \/ is_hexdigit x = true \/ p x = true.
Proof.
  induction n as [|n IH]; intros s Hl H x Hx.
  - destruct s; [destruct Hx|cbn in Hl; lia].
  - destruct s as [|c r]; [destruct Hx|]. rewrite pct_ok_cons in H. cbn [length] in Hl.
    destruct (c =? 37) eqn:E.
    + destruct r as [|h1 [|h2 r']].
      * apply andb_true_iff in H as [H1 H2]. destruct Hx as [Hx|[]]. subst. auto.
      * apply andb_true_iff in H as [H1 H2]. destruct Hx as [Hx|Hx]; [subst; auto|].
        apply (IH [h1]); [cbn [length] in *; lia|assumption|assumption].
      * apply andb_true_iff in H as [H1 H3]. apply andb_true_iff in H1 as [H1 H2].
        destruct Hx as [Hx|[Hx|[Hx|Hx]]]; subst; auto.
        -- left. apply N.eqb_eq. assumption.
        -- apply (IH r'); [cbn [length] in *; lia|assumption|assumption].
    + apply andb_true_iff in H as [H1 H2]. destruct Hx as [Hx|Hx]; [subst; auto|].
      apply (IH r); [lia|assumption|assumption].
Qed.

Lemma pct_ok_safe p s : Spec.C08.pct_ok p s = true -> (forall x, p x = true -> is_unsafe x = false) -> safe s.
Proof.
  intros H Hp x Hx. destruct (pct_ok_In p (length s) s (le_n _) H x Hx) as [E|[E|E]].
  - subst. reflexivity.
  - cls.
  - auto.
Qed.

Lemma undec_acc_digits s : forall acc n, undec_acc s acc = Some n -> forall x, In x s -> is_digit x = true.
Proof.
  induction s as [|c s IH]; intros acc n H x Hx; [destruct Hx|]. cbn [undec_acc] in H.
  destruct (is_digit c) eqn:E; [|discriminate]. destruct Hx as [Hx|Hx]; [subst; assumption|eauto].
Qed.

Lemma lower_host_nopct h : ~ In ch_pct h -> lower_host h = lower h.
Proof. intro H. unfold lower_host. rewrite partition_notin by assumption. reflexivity. Qed.

Definition ip6c (c : N) : bool := is_hexdigit c || (c =? 58) || (c =? 46).

Definition hostport_of (ip6 : str -> option str) (auth : str) : option (str * str) :=
    match auth with
    | 91 :: r1 =>
        match break_at ch_rbr r1 with
        | Some (h6, after) =>
            if negb (match h6 with [] => true | _ => false end) &&
               forallb (fun c => is_hexdigit c || (c =? 58) || (c =? 46)) h6 then
              match ip6 h6 with
              | None => match after with
                        | [] => Some (lower h6, [])
                        | 58 :: p => Some (lower h6, p)
                        | _ => None
                        end
              | Some _ => None
              end
            else None
        | None => None
        end
    | _ =>
        match break_at ch_colon auth with
        | Some (h, p) => if Spec.C08.regname_ok h && negb (mem ch_pct h) then Some (lower h, p) else None
        | None => if Spec.C08.regname_ok auth && negb (mem ch_pct auth) then Some (lower auth, []) else None
        end
    end.

Definition port_of (p : str) : option N :=
  match p with
  | [] => Some 1965
  | _ => match undec p with Some n => if n <=? 65535 then Some n else None | None => None end
  end.

Lemma must_accept_inv ip6 u k : Spec.C08.must_accept ip6 u = Some k ->
  exists r auth rem path query h p pn,
    u = lit "gemini://" ++ r /\ span_until is_netloc_delim r = (auth, rem) /\
    break_at ch_hash rem = None /\ cut ch_qm rem = (path, query) /\
    hostport_of ip6 auth = Some (h, p) /\ port_of p = Some pn /\
    all_ascii u = true /\ Spec.C08.path_ok path = true /\ Spec.C08.query_ok query = true /\
    N.of_nat (length u) + 2 <= 1024 /\
    k = {| Spec.C08.k_host := h; Spec.C08.k_port := pn;
           Spec.C08.k_path := match path with [] => [47] | _ => path end; Spec.C08.k_query := query |}.
Proof.
  unfold Spec.C08.must_accept.
  destruct (negb (prefixb (lit "gemini://") u)) eqn:Ep; [discriminate|].
  apply negb_false_iff, prefixb_spec in Ep as [r ->].
  change (drop 9 (lit "gemini://" ++ r)) with r.
  destruct (span_until is_netloc_delim r) as [auth rem] eqn:Es.
  destruct (break_at ch_hash rem) as [[a b]|] eqn:Eh; [discriminate|].
  change (match break_at ch_qm rem with Some (a, b) => (a, b) | None => (rem, []) end) with (cut ch_qm rem).
  destruct (cut ch_qm rem) as [path query] eqn:Eq.
  cbv zeta.
  match goal with |- (match ?hp with Some _ => _ | None => _ end) = _ -> _ =>
    change hp with (hostport_of ip6 auth) end.
  destruct (hostport_of ip6 auth) as [[h p]|] eqn:Ehp; [|discriminate].
  match goal with |- (match ?pp with Some _ => _ | None => _ end) = _ -> _ =>
    change pp with (port_of p) end.
  destruct (port_of p) as [pn|] eqn:Epo; [|discriminate].
  match goal with |- (if ?c then _ else _) = _ -> _ => destruct c eqn:Ec end; [|discriminate].
  intro H. inversion H.
  apply andb_true_iff in Ec as [Ec E4]. apply andb_true_iff in Ec as [Ec E3].
  apply andb_true_iff in Ec as [E1 E2].
  exists r, auth, rem, path, query, h, p, pn.
  repeat (split; [first [reflexivity|assumption|lia]|]). reflexivity.
Qed.

Lemma port_of_spec p pn : port_of p = Some pn ->
  (forall x, In x p -> is_digit x = true) /\
  (forall auth, snd (hostinfo auth) = p ->
     exists po, port auth = Ok po /\ pn = match po with Some n => n | None => 1965 end).
Proof.
  unfold port_of. destruct p as [|d p'].
  - intro H. inversion H. split; [intros x []|]. intros auth Ha. exists None. unfold port. rewrite Ha. auto.
  - destruct (undec (d :: p')) as [n|] eqn:Eu; [|discriminate].
    destruct (n <=? 65535) eqn:El; [|discriminate]. intro H. inversion H; subst n. split.
    + unfold undec in Eu. eapply undec_acc_digits. eassumption.
    + intros auth Ha. exists (Some pn). unfold port. rewrite Ha, Eu, El. auto.
Qed.

(* shape of the authority accepted by must_accept *)
Lemma hostport_of_cases ip6 auth h p : hostport_of ip6 auth = Some (h, p) ->
  (exists h6 after, auth = 91 :: h6 ++ 93 :: after /\ ~ In 93 h6 /\ h6 <> [] /\
      forallb ip6c h6 = true /\ ip6 h6 = None /\ h = lower h6 /\
      ((after = [] /\ p = []) \/ after = 58 :: p)) \/
  (exists hh, Spec.C08.regname_ok hh = true /\ mem ch_pct hh = false /\ h = lower hh /\ ~ In 58 hh /\
      (auth = hh ++ 58 :: p \/ (auth = hh /\ p = []))).
Proof.
  assert (Hd : forall a,
    match break_at ch_colon a with
    | Some (h, p) => if Spec.C08.regname_ok h && negb (mem ch_pct h) then Some (lower h, p) else None
    | None => if Spec.C08.regname_ok a && negb (mem ch_pct a) then Some (lower a, []) else None
    end = Some (h, p) ->
    exists hh, Spec.C08.regname_ok hh = true /\ mem ch_pct hh = false /\ h = lower hh /\ ~ In 58 hh /\
      (a = hh ++ 58 :: p \/ (a = hh /\ p = []))).
  { intros a. destruct (break_at ch_colon a) as [[hh pp]|] eqn:Eb.
    - destruct (Spec.C08.regname_ok hh && negb (mem ch_pct hh)) eqn:Er; [|discriminate].
      intro H. inversion H; subst. apply andb_true_iff in Er as [Er1 Er2]. apply negb_true_iff in Er2.
      apply break_at_Some in Eb as [-> Hn]. exists hh. auto 10.
    - destruct (Spec.C08.regname_ok a && negb (mem ch_pct a)) eqn:Er; [|discriminate].
      intro H. inversion H; subst. apply andb_true_iff in Er as [Er1 Er2]. apply negb_true_iff in Er2.
      apply break_at_None in Eb. exists a. auto 10. }
  unfold hostport_of.
  destruct auth as [|c r1]; [intro H0; right; apply Hd; exact H0|].
  destruct c as [|q]; [intro H0; right; apply Hd; exact H0|].
  repeat (destruct q as [q|q|]; try (intro H0; right; apply Hd; exact H0)).
  cbv iota beta.
  destruct (break_at ch_rbr r1) as [[h6 after]|] eqn:Eb; [|discriminate].
  match goal with |- (if ?c then _ else _) = _ -> _ => destruct c eqn:Ef end; [|discriminate].
  destruct (ip6 h6) eqn:Ei; [discriminate|].
  apply andb_true_iff in Ef as [Ef1 Ef2]. apply break_at_Some in Eb as [-> Hn].
  assert (Hne : h6 <> []) by (destruct h6; [discriminate|discriminate]).
  destruct after as [|a0 p'].
  - intro H. inversion H; subst. left. exists h6, []. auto 10.
  - destruct a0 as [|q]; [discriminate|].
    repeat (destruct q as [q|q|]; try discriminate).
    intro H. inversion H; subst. left. exists h6, (58 :: p). auto 10.
Qed.

Lemma auth_facts ip6 auth h p pn : hostport_of ip6 auth = Some (h, p) -> port_of p = Some pn ->
  safe auth /\ check_brackets ip6 auth = None /\ hostname auth = Some h /\ userinfo auth = (None, None) /\
  exists po, port auth = Ok po /\ pn = match po with Some n => n | None => 1965 end.
Proof.
  intros Hhp Hpo. apply port_of_spec in Hpo as [Hpd Hport].
  apply hostport_of_cases in Hhp as
    [(h6 & after & Eau & Hn & Hne & Hf & Hi & Ehh & Haft)|(hh & Hr & Hpct & Ehh & Hc & Hau)]; subst h.
  - (* bracketed *)
    subst auth. rewrite forallb_forall in Hf.
    assert (Hcl : forall x, In x (91 :: h6 ++ 93 :: after) ->
                  x = 91 \/ x = 93 \/ x = 58 \/ ip6c x = true \/ is_digit x = true).
    { intros x [Hx|Hx]; [auto|]. apply in_app_or in Hx as [Hx|[Hx|Hx]]; [| auto |].
      - right. right. right. left. apply (Hf x Hx).
      - destruct Haft as [[-> _]| ->]; [destruct Hx|]. destruct Hx as [Hx|Hx]; auto 10. }
    assert (Hat : ~ In ch_at (91 :: h6 ++ 93 :: after)).
    { intro Hx. apply Hcl in Hx. unfold ip6c in Hx. cls. }
    assert (Hhi : hostinfo (91 :: h6 ++ 93 :: after) = (h6, p)).
    { rewrite (hostinfo_noat _ Hat).
      change (91 :: h6 ++ 93 :: after) with ([] ++ ch_lbr :: (h6 ++ ch_rbr :: after)).
      rewrite hostinfo_hi_br by (intros []). rewrite partition_found by exact Hn.
      destruct Haft as [[-> ->]| ->]; reflexivity. }
    split; [intros x Hx; apply Hcl in Hx; unfold ip6c in Hx; cls|].
    split.
    { change (91 :: h6 ++ 93 :: after) with ([] ++ ch_lbr :: h6 ++ ch_rbr :: after).
      rewrite check_brackets_br' by (auto; intros []). unfold bracket_check.
      destruct h6 as [|c0 h6']; [congruence|].
      assert (Hc0 : ip6c c0 = true) by (apply Hf; left; reflexivity).
      assert (E : prefixb [118] (c0 :: h6') = false).
      { cbn [prefixb]. unfold ip6c in Hc0. cls. }
      rewrite E. exact Hi. }
    split.
    { unfold hostname. rewrite Hhi. cbn [fst]. destruct h6 as [|c0 h6'] eqn:E6; [congruence|].
      rewrite <- E6 in *. rewrite lower_host_nopct; [reflexivity|].
      intro Hx. apply Hf in Hx. unfold ip6c in Hx. cls. }
    split; [apply userinfo_noat; exact Hat|].
    apply Hport. rewrite Hhi. reflexivity.
  - (* reg-name *)
    unfold Spec.C08.regname_ok in Hr. apply andb_true_iff in Hr as [Hne Hr].
    pose proof (pct_ok_In _ _ _ (le_n _) Hr) as Hcl0.
    apply mem_false in Hpct.
    assert (Hcl1 : forall x, In x hh -> x <> 37 /\
              (is_hexdigit x = true \/ Spec.C08.is_unreserved x || Spec.C08.is_subdelim x = true)).
    { intros x Hx. split; [intro; subst; auto|]. destruct (Hcl0 x Hx) as [E|[E|E]]; auto.
      subst. exfalso. auto. }
    assert (Hcl : forall x, In x auth -> x = 58 \/ is_digit x = true \/ (x <> 37 /\
              (is_hexdigit x = true \/ Spec.C08.is_unreserved x || Spec.C08.is_subdelim x = true))).
    { destruct Hau as [->|[-> ->]]; intros x Hx; [|auto].
      apply in_app_or in Hx as [Hx|[Hx|Hx]]; auto. }
    assert (Hat : ~ In ch_at auth) by (intro Hx; apply Hcl in Hx; cls).
    assert (HL : ~ In ch_lbr auth) by (intro Hx; apply Hcl in Hx; cls).
    assert (HR : ~ In ch_rbr auth) by (intro Hx; apply Hcl in Hx; cls).
    assert (Hhi : hostinfo auth = (hh, p)).
    { rewrite (hostinfo_noat _ Hat), hostinfo_hi_nobr by exact HL.
      destruct Hau as [->|[-> ->]].
      - rewrite partition_found by exact Hc. reflexivity.
      - rewrite partition_notin by exact Hc. reflexivity. }
    split; [intros x Hx; apply Hcl in Hx; cls|].
    split; [apply check_brackets_nobr; assumption|].
    split.
    { unfold hostname. rewrite Hhi. cbn [fst]. destruct hh as [|c0 hh'] eqn:E6; [discriminate|].
      rewrite <- E6 in *. rewrite lower_host_nopct by exact Hpct. reflexivity. }
    split; [apply userinfo_noat; exact Hat|].
    apply Hport. rewrite Hhi. reflexivity.
Qed.

Lemma tail_safe rem path query :
  cut ch_qm rem = (path, query) -> Spec.C08.path_ok path = true -> Spec.C08.query_ok query = true -> safe rem.
Proof.
  intros Hc Hp Hq.
  assert (Sp : safe path).
  { unfold Spec.C08.path_ok in Hp. destruct path as [|c t]; [intros ? []|].
    apply andb_true_iff in Hp as [_ Hp]. apply (pct_ok_safe _ _ Hp). intros x Hx. cls. }
  assert (Sq : safe query).
  { apply (pct_ok_safe _ _ Hq). intros x Hx. cls. }
  apply cut_inv in Hc as (_ & _ & _ & [[-> _]| ->]); [assumption|].
  apply safe_app. split; [assumption|]. apply safe_cons. split; [reflexivity|assumption].
Qed.

Lemma complete : forall ip6 u k,
  Spec.C08.must_accept ip6 u = Some k ->
  exists c, gemini_from_line ip6 u = Ok c /\ p_host c = Spec.C08.k_host k /\ p_port c = Spec.C08.k_port k /\
            p_path c = Spec.C08.k_path k /\ p_query c = Spec.C08.k_query k.
Proof.
  intros ip6 u k H.
  apply must_accept_inv in H as
    (r & auth & rem & path & query & h & p & pn & -> & Es & Eh & Eq & Ehp & Epo & Ea & Epa & Equ & El & ->).
  destruct (auth_facts _ _ _ _ _ Ehp Epo) as (Sa & Hcb & Hh & Hu & po & Hport & ->).
  pose proof (tail_safe _ _ _ Eq Epa Equ) as Sr.
  pose proof (span_until_spec _ _ _ _ Es) as (-> & _ & _).
  set (u := lit "gemini://" ++ auth ++ rem) in *.
  assert (Hclean : clean_url u = u).
  { unfold clean_url, u.
    change (lstrip_by is_c0_or_space (lit "gemini://" ++ auth ++ rem)) with (lit "gemini://" ++ auth ++ rem).
    apply remove_chars_id. apply safe_app. split; [|apply safe_app; split; assumption].
    intros x Hx. assert (Hf : forallb (fun c => negb (is_unsafe c)) (lit "gemini://") = true) by reflexivity.
    rewrite forallb_forall in Hf. apply Hf in Hx. apply negb_true_iff. assumption. }
  assert (Haa : all_ascii auth = true).
  { unfold u, all_ascii in Ea. rewrite !forallb_app in Ea.
    apply andb_true_iff in Ea as [_ Ea]. apply andb_true_iff in Ea as [Ea _]. exact Ea. }
  assert (Hsplit : urlsplit ip6 u =
    Ok {| u_scheme := gemini_s; u_netloc := auth; u_path := path; u_query := query; u_fragment := [] |}).
  { rewrite urlsplit_unfold. cbv zeta. rewrite Hclean. unfold u.
    change (lit "gemini://" ++ auth ++ rem) with (lit "gemini:" ++ lit "//" ++ auth ++ rem).
    rewrite split_scheme_gemini.
    change (prefixb [47; 47] (lit "//" ++ auth ++ rem)) with true. cbv iota.
    change (drop 2 (lit "//" ++ auth ++ rem)) with (auth ++ rem).
    rewrite Es, Haa. cbn [negb]. rewrite Hcb.
    unfold cut at 1. rewrite Eh. rewrite Eq. reflexivity. }
  assert (Hne : u <> []) by (unfold u; discriminate).
  pose proof (parse_url_intro ip6 u _ h po Hne Hsplit eq_refl Hh Hu eq_refl Hport) as Hp.
  cbn [u_netloc u_path u_query] in Hp.
  eexists. split.
  - unfold gemini_from_line. rewrite (encode_ascii _ Ea).
    assert (E : (1024 <? N.of_nat (length u) + 2) = false) by lia. rewrite E. exact Hp.
  - unfold parse_build. cbn [p_host p_port p_path p_query Spec.C08.k_host Spec.C08.k_port Spec.C08.k_path Spec.C08.k_query].
    repeat split. destruct path; reflexivity.
Qed.
Close Scope N_scope.
