(* C09, "through to the running server", for `nauyaca serve --reload`: the parent hands its own command line, minus the
   reload flags, to a child process that is the server.  Theorems over Model/Reload.v (tied to the source by
   Equiv/EquivReload.v), for ALL argument lists: no argument other than a reload flag or the value of --reload-dir /
   --reload-ext is dropped, changed or reordered - in particular `--config V` and `--config=V`, whatever V contains -
   `--reload` itself never reaches the child, and the child's argv is `<exe> -m nauyaca serve <the rest>`.
   It is the code's filter that is modelled: it works on raw tokens and does not know which of them are option values. *)
From Coq Require Import List NArith Bool Lia Wf_nat.
From NV Require Import Prelude.Str Model.Reload.
Import ListNotations.
Open Scope list_scope.

(* ---------- the fold ---------- *)
Lemma strip_step_pre : forall pre b acc a,
  strip_step (b, pre ++ acc) a = (fst (strip_step (b, acc) a), pre ++ snd (strip_step (b, acc) a)).
Proof.
  intros pre b acc a. unfold strip_step. destruct b; [reflexivity|].
  repeat match goal with |- context [if ?c then _ else _] => destruct c; [reflexivity|] end.
  cbn. rewrite app_assoc. reflexivity.
Qed.

(* starting the accumulator at `pre` only prefixes the result *)
Lemma fold_pre : forall pre l b acc,
  fold_left strip_step l (b, pre ++ acc) =
  (fst (fold_left strip_step l (b, acc)), pre ++ snd (fold_left strip_step l (b, acc))).
Proof.
  intros pre l. induction l as [|a l IH]; intros b acc; cbn [fold_left].
  - reflexivity.
  - rewrite strip_step_pre. rewrite IH. destruct (strip_step (b, acc) a); reflexivity.
Qed.

Lemma fold_from : forall l b acc,
  fold_left strip_step l (b, acc) = (fst (fold_left strip_step l (b, [])), acc ++ snd (fold_left strip_step l (b, []))).
Proof. intros. rewrite <- (app_nil_r acc) at 1. apply fold_pre. Qed.

Lemma strip_state_eta : forall l, strip_state l = (dangling l, strip_reload l).
Proof. intro l. unfold dangling, strip_reload. destruct (strip_state l); reflexivity. Qed.

(* one step, by what the argument is *)
Lemma step_skip : forall acc a, strip_step (true, acc) a = (false, acc).
Proof. reflexivity. Qed.
Lemma step_keep : forall acc a, reloadish a = false -> strip_step (false, acc) a = (false, acc ++ [a]).
Proof.
  intros acc a H. unfold reloadish in H. repeat (apply orb_false_iff in H; destruct H as [H ?]).
  unfold strip_step. rewrite H, H0, H1, H2, H3. reflexivity.
Qed.
Lemma step_drop : forall acc a, reloadish a = true -> strip_step (false, acc) a = (takes_value a, acc).
Proof.
  intros acc a H. unfold strip_step, takes_value. unfold reloadish in H.
  destruct (eqb a f_reload) eqn:E1.
  { apply eqb_spec in E1; subst a. reflexivity. }
  destruct (eqb a f_dir) eqn:E2; [reflexivity|].
  destruct (prefixb f_dir_eq a) eqn:E3.
  { apply prefixb_spec in E3. destruct E3 as [r ->]. reflexivity. }
  destruct (eqb a f_ext) eqn:E4; [reflexivity|].
  destruct (prefixb f_ext_eq a) eqn:E5; [reflexivity|]. discriminate H.
Qed.

(* ---------- composition ---------- *)
Lemma strip_state_app : forall pre l,
  strip_state (pre ++ l) = (fst (fold_left strip_step l (dangling pre, [])),
                            strip_reload pre ++ snd (fold_left strip_step l (dangling pre, []))).
Proof. intros. unfold strip_state at 1. rewrite fold_left_app. fold (strip_state pre). rewrite strip_state_eta. apply fold_from. Qed.

Theorem strip_app : forall pre l, dangling pre = false ->
  strip_reload (pre ++ l) = strip_reload pre ++ strip_reload l /\ dangling (pre ++ l) = dangling l.
Proof.
  intros pre l H. unfold strip_reload at 1, dangling at 1. rewrite strip_state_app, H. split; reflexivity.
Qed.

(* the argument after a value-taking reload flag is dropped whatever it is - and nothing else is disturbed *)
Theorem strip_app_dangling : forall pre x l, dangling pre = true ->
  strip_reload (pre ++ x :: l) = strip_reload pre ++ strip_reload l /\ dangling (pre ++ x :: l) = dangling l.
Proof.
  intros pre x l H. unfold strip_reload at 1, dangling at 1. rewrite strip_state_app, H. cbn [fold_left].
  rewrite step_skip. split; reflexivity.
Qed.

Lemma strip_cons_keep : forall a l, reloadish a = false ->
  strip_reload (a :: l) = a :: strip_reload l /\ dangling (a :: l) = dangling l.
Proof.
  intros a l H. unfold strip_reload, dangling, strip_state. cbn [fold_left]. rewrite step_keep by assumption.
  rewrite fold_from. split; reflexivity.
Qed.
Lemma strip_cons_drop : forall a l, reloadish a = true ->
  strip_reload (a :: l) = (if takes_value a then strip_reload (tl l) else strip_reload l).
Proof.
  intros a l H. unfold strip_reload, strip_state. cbn [fold_left]. rewrite step_drop by assumption.
  destruct (takes_value a); [|reflexivity]. destruct l as [|x l]; [reflexivity|]. cbn [fold_left tl]. rewrite step_skip. reflexivity.
Qed.

(* ---------- (a) nothing but reload flags and their values is dropped, changed or reordered ---------- *)
Theorem strip_keeps : forall pre a post, dangling pre = false -> reloadish a = false ->
  strip_reload (pre ++ a :: post) = strip_reload pre ++ a :: strip_reload post.
Proof.
  intros pre a post Hp Ha. destruct (strip_app pre (a :: post) Hp) as [-> _].
  destruct (strip_cons_keep a post Ha) as [-> _]. reflexivity.
Qed.

(* every reload flag form begins with "--reload" *)
Lemma reloadish_prefix : forall a, reloadish a = true -> prefixb (lit "--reload") a = true.
Proof.
  intros a H. unfold reloadish in H. repeat (apply orb_true_iff in H; destruct H as [H|H]).
  - apply eqb_spec in H; subst; reflexivity.
  - apply eqb_spec in H; subst; reflexivity.
  - apply prefixb_spec in H. destruct H as [r ->]. reflexivity.
  - apply eqb_spec in H; subst; reflexivity.
  - apply prefixb_spec in H. destruct H as [r ->]. reflexivity.
Qed.
Lemma not_reloadish : forall a, prefixb (lit "--reload") a = false -> reloadish a = false.
Proof. intros a H. destruct (reloadish a) eqn:E; [|reflexivity]. apply reloadish_prefix in E. congruence. Qed.

(* --config=V: one token, kept for EVERY V (it may contain "reload", "=", be empty, ...) *)
Lemma config_eq_not_reloadish : forall V, reloadish (lit "--config=" ++ V) = false.
Proof. intro V. apply not_reloadish. reflexivity. Qed.
Theorem strip_keeps_config_eq : forall pre V post, dangling pre = false ->
  strip_reload (pre ++ (lit "--config=" ++ V) :: post) = strip_reload pre ++ (lit "--config=" ++ V) :: strip_reload post.
Proof. intros. apply strip_keeps; [assumption|apply config_eq_not_reloadish]. Qed.

(* --config V (also -c V): two tokens, both kept, adjacent and in order, for every V that is not itself one of the five
   reload flag forms - in particular for every V that does not begin with "--reload" (dev-reload.toml, /x/reload/c.toml) *)
Theorem strip_keeps_opt_value : forall pre o V post, dangling pre = false -> reloadish o = false -> reloadish V = false ->
  strip_reload (pre ++ o :: V :: post) = strip_reload pre ++ o :: V :: strip_reload post.
Proof.
  intros pre o V post Hp Ho HV. rewrite strip_keeps by assumption. f_equal. f_equal.
  apply (strip_cons_keep V post HV).
Qed.
Theorem strip_keeps_config : forall pre V post, dangling pre = false -> prefixb (lit "--reload") V = false ->
  strip_reload (pre ++ lit "--config" :: V :: post) = strip_reload pre ++ lit "--config" :: V :: strip_reload post.
Proof. intros. apply strip_keeps_opt_value; [assumption|reflexivity|apply not_reloadish; assumption]. Qed.
Theorem strip_keeps_c : forall pre V post, dangling pre = false -> prefixb (lit "--reload") V = false ->
  strip_reload (pre ++ lit "-c" :: V :: post) = strip_reload pre ++ lit "-c" :: V :: strip_reload post.
Proof. intros. apply strip_keeps_opt_value; [assumption|reflexivity|apply not_reloadish; assumption]. Qed.

(* ---------- (b) no reload flag survives: the child never becomes a supervisor ---------- *)
Lemma fold_inv : forall l b acc, Forall (fun x => reloadish x = false) acc ->
  Forall (fun x => reloadish x = false) (snd (fold_left strip_step l (b, acc))).
Proof.
  induction l as [|a l IH]; intros b acc H; cbn [fold_left]; [exact H|].
  destruct b; [rewrite step_skip; apply IH; exact H|].
  destruct (reloadish a) eqn:E.
  - rewrite step_drop by assumption. apply IH; exact H.
  - rewrite step_keep by assumption. apply IH. apply Forall_app. split; [exact H|]. constructor; [exact E|constructor].
Qed.
Theorem strip_none_reloadish : forall l x, In x (strip_reload l) -> reloadish x = false.
Proof.
  intros l x H. assert (F : Forall (fun x => reloadish x = false) (strip_reload l)) by (apply fold_inv; constructor).
  rewrite Forall_forall in F. apply F; exact H.
Qed.
Theorem strip_no_reload : forall l, ~ In f_reload (strip_reload l).
Proof. intros l H. apply strip_none_reloadish in H. discriminate H. Qed.

(* nothing is added, changed or reordered: the result is a subsequence of the input *)
Inductive subseq : list str -> list str -> Prop :=
| sub_nil : subseq [] []
| sub_keep : forall x a b, subseq a b -> subseq (x :: a) (x :: b)
| sub_drop : forall x a b, subseq a b -> subseq a (x :: b).
Theorem strip_subseq : forall l, subseq (strip_reload l) l.
Proof.
  intro l. remember (length l) as n eqn:Hn. revert l Hn.
  induction n as [n IH] using lt_wf_ind. intros l Hn. destruct l as [|a l]; [constructor|].
  destruct (reloadish a) eqn:E.
  - rewrite strip_cons_drop by assumption. destruct (takes_value a).
    + destruct l as [|x l]; cbn [tl].
      * apply sub_drop. constructor.
      * apply sub_drop. apply sub_drop. apply (IH (length l)); [cbn in Hn; lia|reflexivity].
    + apply sub_drop. apply (IH (length l)); [cbn in Hn; lia|reflexivity].
  - destruct (strip_cons_keep a l E) as [-> _]. apply sub_keep. apply (IH (length l)); [cbn in Hn; lia|reflexivity].
Qed.

(* ---------- (c) without reload flags the filter is the identity ---------- *)
Theorem strip_id : forall l, (forall x, In x l -> reloadish x = false) -> strip_reload l = l /\ dangling l = false.
Proof.
  induction l as [|a l IH]; intro H; [split; reflexivity|].
  destruct (strip_cons_keep a l (H a (or_introl eq_refl))) as [-> ->].
  destruct IH as [-> ->]; [intros x Hx; apply H; right; exact Hx|]. split; reflexivity.
Qed.

(* ---------- (d) the child's command line ---------- *)
Theorem child_command_shape : forall exe args, child_command exe args = exe :: lit "-m" :: lit "nauyaca" :: args.
Proof. reflexivity. Qed.
Theorem child_argv_shape : forall exe tail,
  child_argv exe tail = exe :: lit "-m" :: lit "nauyaca" :: lit "serve" :: strip_reload tail.
Proof. reflexivity. Qed.

(* together: the child's argv is the parent's (`<exe> -m nauyaca serve <tail>`) minus exactly the reload flags *)
Theorem child_keeps : forall exe pre a post, dangling pre = false -> reloadish a = false ->
  child_argv exe (pre ++ a :: post) = (exe :: lit "-m" :: lit "nauyaca" :: lit "serve" :: strip_reload pre) ++ a :: strip_reload post.
Proof. intros. rewrite child_argv_shape, strip_keeps by assumption. reflexivity. Qed.
Theorem child_keeps_config_eq : forall exe pre V post, dangling pre = false ->
  In (lit "--config=" ++ V) (child_argv exe (pre ++ (lit "--config=" ++ V) :: post)).
Proof.
  intros. rewrite child_keeps; [|assumption|apply config_eq_not_reloadish]. apply in_or_app. right. left. reflexivity.
Qed.
Theorem child_never_reloads : forall exe tail, exe <> f_reload -> ~ In f_reload (child_argv exe tail).
Proof.
  intros exe tail Hexe H. rewrite child_argv_shape in H.
  destruct H as [H|[H|[H|[H|H]]]]; try discriminate H; [congruence|]. exact (strip_no_reload tail H).
Qed.

(* ---------- examples (vm_compute): what the code does ---------- *)
Local Notation S := lit (only parsing).
(* a configuration file whose name contains "reload" is kept (the seeded defect dropped it) *)
Example ex_config_named_reload :
  strip_reload [S "./capsule"; S "--reload"; S "--reload-dir"; S "./src"; S "--config=dev-reload.toml"]
  = [S "./capsule"; S "--config=dev-reload.toml"].
Proof. vm_compute. reflexivity. Qed.
Example ex_config_two_tokens :
  child_argv (S "/venv/bin/python") [S "reload-root"; S "--reload-ext=.toml"; S "--config"; S "/x/dev-reload.toml"; S "--reload"]
  = [S "/venv/bin/python"; S "-m"; S "nauyaca"; S "serve"; S "reload-root"; S "--config"; S "/x/dev-reload.toml"].
Proof. vm_compute. reflexivity. Qed.
(* near-misses are not reload flags *)
Example ex_near_misses :
  strip_reload [S "--reloaded"; S "--reload-dirs=x"; S "--no-reload"; S "reload"; S "--reload-di"; S "--RELOAD"; S ""; S "--reload=1"]
  = [S "--reloaded"; S "--reload-dirs=x"; S "--no-reload"; S "reload"; S "--reload-di"; S "--RELOAD"; S ""; S "--reload=1"].
Proof. vm_compute. reflexivity. Qed.
(* SURPRISING but faithful: the token after --reload-dir / --reload-ext is dropped even if it looks like an option.
   `--reload-dir --config x.toml`: "--config" is taken as the directory, and x.toml reaches the child as a positional
   argument (click reads the parent's line the same way, so the parent insists that a directory named "--config" exists). *)
Example ex_value_looks_like_flag :
  strip_reload [S "--reload"; S "--reload-dir"; S "--config"; S "x.toml"] = [S "x.toml"].
Proof. vm_compute. reflexivity. Qed.
(* SURPRISING: the filter does not know about option values.  A VALUE of another option that is spelt like a reload flag is
   removed (click gives "--reload" to --log-level here; the child receives a bare `--log-level` followed by the next token) *)
Example ex_value_spelt_like_flag :
  strip_reload [S "root"; S "--reload"; S "--log-level"; S "--reload"; S "--port"; S "1965"]
  = [S "root"; S "--log-level"; S "--port"; S "1965"].
Proof. vm_compute. reflexivity. Qed.
(* ... and after `--`, where click would read positionals, reload-looking tokens are still removed *)
Example ex_after_double_dash :
  strip_reload [S "--reload"; S "--"; S "--reload-dir=x"] = [S "--"].
Proof. vm_compute. reflexivity. Qed.
(* `--reload=1` and `--reload-dir=` (empty value): the first is kept (it is not `--reload`; click rejects it in the
   child), the second dropped *)
Example ex_equals_forms :
  strip_reload [S "--reload=1"; S "--reload-dir="; S "--reload-ext=="; S "a"] = [S "--reload=1"; S "a"].
Proof. vm_compute. reflexivity. Qed.
(* a value-taking flag at the very end: nothing to skip *)
Example ex_dangling_end : strip_state [S "a"; S "--reload-ext"] = (true, [S "a"]).
Proof. vm_compute. reflexivity. Qed.
