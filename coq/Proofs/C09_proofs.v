(* C09 - proofs of the property theorems stated in Props/C09.v. *)
From Coq Require Import List NArith Bool Lia.
From NV Require Import Prelude.Str Model.Ip.
From NV Require Spec.C09.
Import ListNotations.
Open Scope N_scope.

(* ---------- helpers ---------- *)

Lemma fam_eqb_eq a b : fam_eqb a b = true <-> a = b.
Proof. destruct a, b; simpl; split; intro H; congruence. Qed.

Lemma testbit_above a n : a < 2 ^ n -> N.testbit a n = false.
Proof.
  intro Ha. destruct (N.eq_dec a 0) as [->|Hz]; [apply N.bits_0|].
  apply N.bits_above_log2. apply N.log2_lt_pow2; lia.
Qed.

(* and-ing with ones(p) << k clears the low k bits, for values below 2^(p+k) *)
Lemma land_mask_shift a p k : a < 2 ^ (p + k) ->
  N.land a (N.shiftl (N.ones p) k) = N.shiftl (N.shiftr a k) k.
Proof.
  intros Ha. apply N.bits_inj. intro n.
  rewrite N.land_spec.
  destruct (N.lt_ge_cases n k) as [Hn|Hn].
  - rewrite !N.shiftl_spec_low by assumption. apply andb_false_r.
  - rewrite !N.shiftl_spec_high' by assumption.
    rewrite N.shiftr_spec'. replace (n - k + k) with n by lia.
    destruct (N.lt_ge_cases (n - k) p) as [Hp|Hp].
    + rewrite N.ones_spec_low by assumption. apply andb_true_r.
    + rewrite N.ones_spec_high by assumption. rewrite andb_false_r.
      symmetry. apply testbit_above.
      apply N.lt_le_trans with (2 ^ (p + k)); [assumption|].
      apply N.pow_le_mono_r; lia.
Qed.

Lemma land_mask_div a p k : a < 2 ^ (p + k) ->
  N.land a (N.shiftl (N.ones p) k) = (a / 2 ^ k) * 2 ^ k.
Proof.
  intro Ha. rewrite land_mask_shift by assumption.
  rewrite N.shiftl_mul_pow2, N.shiftr_div_pow2. reflexivity.
Qed.

(* truncation to a multiple of m hits an aligned base exactly on the interval [b, b+m) *)
Lemma trunc_interval a b m : m <> 0 -> b mod m = 0 ->
  ((a / m) * m = b <-> b <= a < b + m).
Proof.
  intros Hm Hb.
  pose proof (N.div_mod a m Hm) as Ea.
  pose proof (N.mod_lt a m Hm) as La.
  pose proof (N.div_mod b m Hm) as Eb. rewrite Hb, N.add_0_r in Eb.
  split.
  - intro E. rewrite N.mul_comm in E. rewrite E in Ea. clear Eb Hb E.
    generalize dependent (a mod m). intros r Ea La. lia.
  - intros [H1 H2].
    assert (Hq : b / m = a / m).
    { apply (N.div_unique a m (b / m) (a - b)); [clear Ea La Eb Hb; lia|].
      rewrite <- Eb. clear Ea La Eb Hb. lia. }
    rewrite <- Hq, N.mul_comm. symmetry. exact Eb.
Qed.

(* ---------- contains = interval ---------- *)

Lemma contains_interval : forall n a, Spec.C09.aligned n -> Spec.C09.addr_wf a ->
  (contains n a = true <-> Spec.C09.in_net n a).
Proof.
  intros n a [Hp [Hb Hm]] Hw.
  unfold contains, Spec.C09.in_net, Spec.C09.addr_wf, netmask in *.
  rewrite andb_true_iff, fam_eqb_eq, N.eqb_eq.
  assert (Hpow : 2 ^ (bits (n_fam n) - n_plen n) <> 0) by (apply N.pow_nonzero; lia).
  split; intros [Hf H]; (split; [exact Hf|]).
  - rewrite <- Hf in Hw.
    rewrite land_mask_div in H
      by (replace (n_plen n + (bits (n_fam n) - n_plen n)) with (bits (n_fam n)) by lia; exact Hw).
    apply trunc_interval in H; assumption.
  - rewrite <- Hf in Hw.
    rewrite land_mask_div
      by (replace (n_plen n + (bits (n_fam n) - n_plen n)) with (bits (n_fam n)) by lia; exact Hw).
    apply trunc_interval; assumption.
Qed.

(* ---------- decision ---------- *)

Lemma existsb_contains l x : Forall Spec.C09.aligned l -> Spec.C09.addr_wf x ->
  (existsb (fun n => contains n x) l = true <-> exists n, In n l /\ Spec.C09.in_net n x).
Proof.
  intros Hl Hx. rewrite existsb_exists. rewrite Forall_forall in Hl.
  split; intros [n [Hin H]]; exists n; (split; [exact Hin|]).
  - apply contains_interval; auto.
  - apply contains_interval; auto.
Qed.

Lemma decision : forall c a,
  Forall Spec.C09.aligned (allow c) -> Forall Spec.C09.aligned (deny c) ->
  (forall x, a = Some x -> Spec.C09.addr_wf x) ->
  (is_allowed c a = true <-> Spec.C09.admitted c a).
Proof.
  intros c a Hal Hdl Hwf. unfold Spec.C09.admitted.
  destruct a as [x|]; simpl.
  2:{ split; [discriminate|]. intros [x [E _]]. discriminate. }
  specialize (Hwf x eq_refl).
  pose proof (existsb_contains (deny c) x Hdl Hwf) as HD.
  pose proof (existsb_contains (allow c) x Hal Hwf) as HA.
  split.
  - intro H. exists x. split; [reflexivity|].
    destruct (existsb (fun n => contains n x) (deny c)) eqn:ED; [discriminate|].
    split.
    + intros n Hin Hnet.
      assert (false = true) by (apply HD; exists n; split; assumption). discriminate.
    + destruct (allow c) as [|n0 al] eqn:EA.
      * right. split; [reflexivity|exact H].
      * left. apply HA. exact H.
  - intros [y [E [Hden Hall]]]. inversion E; subst y; clear E.
    destruct (existsb (fun n => contains n x) (deny c)) eqn:ED.
    + exfalso. destruct HD as [HD1 _]. destruct (HD1 eq_refl) as [n [Hin Hnet]].
      exact (Hden n Hin Hnet).
    + destruct Hall as [Hex|[Hnil Hdef]].
      * destruct (allow c) as [|n0 al] eqn:EA.
        { destruct Hex as [n [[] _]]. }
        apply HA. exact Hex.
      * rewrite Hnil. exact Hdef.
Qed.

Lemma unparsable_refused : forall c, is_allowed c None = false.
Proof. reflexivity. Qed.

(* ---------- configuration wiring ---------- *)

Lemma parse_entries_nil ipnet l : parse_entries ipnet l = Some [] -> l = [].
Proof.
  destruct l as [|s l]; [reflexivity|]. simpl.
  destruct (parse_entry ipnet s); [|discriminate].
  destruct (parse_entries ipnet l); discriminate.
Qed.

Lemma config_faithful : forall ipnet s a al dl,
  sc_enabled s = true ->
  parse_entries ipnet (olist (sc_allow s)) = Some al -> parse_entries ipnet (olist (sc_deny s)) = Some dl ->
  server_admits ipnet s a =
    Some (match al, dl, sc_default s with
          | [], [], true => true
          | _, _, _ => is_allowed {| allow := al; deny := dl; default_allow := sc_default s |} a
          end).
Proof.
  intros ipnet s a al dl Hen Ha Hd.
  unfold server_admits, build, wants_component. rewrite Hen, Ha, Hd. cbn [andb].
  destruct (olist (sc_allow s)) as [|sa la] eqn:EA.
  - simpl in Ha. inversion Ha; subst al; clear Ha.
    destruct (olist (sc_deny s)) as [|sd ld] eqn:ED.
    + simpl in Hd. inversion Hd; subst dl; clear Hd.
      destruct (sc_default s); reflexivity.
    + destruct dl as [|d0 dl'].
      * apply parse_entries_nil in Hd. discriminate.
      * reflexivity.
  - destruct al as [|a0 al'].
    + apply parse_entries_nil in Ha. discriminate.
    + reflexivity.
Qed.

Lemma bad_entry_blocks : forall ipnet s a,
  wants_component s = true ->
  (parse_entries ipnet (olist (sc_allow s)) = None \/ parse_entries ipnet (olist (sc_deny s)) = None) ->
  server_admits ipnet s a = None.
Proof.
  intros ipnet s a Hw H. unfold server_admits, build. rewrite Hw.
  destruct H as [H|H]; rewrite H.
  - reflexivity.
  - destruct (parse_entries ipnet (olist (sc_allow s))); reflexivity.
Qed.

(* ---------- boolean oracle vs Prop-level policy ---------- *)

Lemma in_netb_spec n x : Spec.C09.in_netb n x = true <-> Spec.C09.in_net n x.
Proof.
  unfold Spec.C09.in_netb, Spec.C09.in_net.
  rewrite !andb_true_iff, fam_eqb_eq, N.leb_le, N.ltb_lt. tauto.
Qed.

Lemma existsb_in_netb l x :
  existsb (fun n => Spec.C09.in_netb n x) l = true <-> exists n, In n l /\ Spec.C09.in_net n x.
Proof.
  rewrite existsb_exists.
  split; intros [n [Hin H]]; exists n; (split; [exact Hin|]); apply in_netb_spec; exact H.
Qed.

Lemma admittedb_spec : forall c a, Spec.C09.admittedb c a = true <-> Spec.C09.admitted c a.
Proof.
  intros c a. unfold Spec.C09.admittedb, Spec.C09.admitted.
  destruct a as [x|].
  2:{ split; [discriminate|]. intros [x [E _]]. discriminate. }
  rewrite andb_true_iff, negb_true_iff, orb_true_iff, andb_true_iff.
  pose proof (existsb_in_netb (deny c) x) as HD.
  pose proof (existsb_in_netb (allow c) x) as HA.
  split.
  - intros [Hden Hall]. exists x. split; [reflexivity|]. split.
    + intros n Hin Hnet.
      assert (false = true) by (rewrite <- Hden; apply HD; exists n; split; assumption).
      discriminate.
    + destruct Hall as [Hex|[Hnil Hdef]].
      * left. apply HA. exact Hex.
      * right. split; [|exact Hdef]. destruct (allow c); [reflexivity|discriminate].
  - intros [y [E [Hden Hall]]]. inversion E; subst y; clear E. split.
    + destruct (existsb (fun n => Spec.C09.in_netb n x) (deny c)) eqn:ED; [|reflexivity].
      exfalso. destruct HD as [HD1 _]. destruct (HD1 eq_refl) as [n [Hin Hnet]].
      exact (Hden n Hin Hnet).
    + destruct Hall as [Hex|[Hnil Hdef]].
      * left. apply HA. exact Hex.
      * right. rewrite Hnil. split; [reflexivity|exact Hdef].
Qed.

Close Scope N_scope.
