(* Proofs of the statements of Equiv/EquivCliClient.v: the definitions regenerated from src/nauyaca/__main__.py
   (Gen/CliClientGen.v, translate/py2coq_cliclient.py) against Model/CliClient.v. *)
From Coq Require Import List NArith ZArith Bool Lia.
From Coq Require QArith.
From NV Require Import Prelude.Str Equiv.CliClientGlue Model.CliClient Gen.CliClientGen.
From NV Require Equiv.SessionGlue.
Import ListNotations.
Open Scope list_scope.

(* ---------- get ---------- *)
Lemma cli_get_wiring_tie : forall url mr nr to vb tr vs cc ck,
  gen_get_call url mr nr to vb tr vs cc ck = get_wiring url mr nr to vb tr vs cc ck.
Proof. intros. reflexivity. Qed.

Lemma cli_get_follow : forall url mr nr to vb tr vs cc ck,
  gc_follow_redirects (gen_get_call url mr nr to vb tr vs cc ck) = negb nr.
Proof. intros. reflexivity. Qed.

Lemma cli_get_max : forall url mr nr to vb tr vs cc ck,
  gc_max_redirects (gen_get_call url mr nr to vb tr vs cc ck) = mr.
Proof. intros. reflexivity. Qed.

Lemma cli_get_trust : forall url mr nr to vb tr vs cc ck,
  gc_trust_on_first_use (gen_get_call url mr nr to vb tr vs cc ck) = tr /\
  gc_verify_ssl (gen_get_call url mr nr to vb tr vs cc ck) = vs.
Proof. intros. split; reflexivity. Qed.

Lemma cli_get_rest : forall url mr nr to vb tr vs cc ck,
  gc_url (gen_get_call url mr nr to vb tr vs cc ck) = url /\
  gc_timeout (gen_get_call url mr nr to vb tr vs cc ck) = to /\
  gc_client_cert (gen_get_call url mr nr to vb tr vs cc ck) = cc /\
  gc_client_key (gen_get_call url mr nr to vb tr vs cc ck) = ck.
Proof. intros. repeat split; reflexivity. Qed.

Lemma cli_get_precheck_tie : forall url mr nr to vb tr vs cc ck,
  gen_get_precheck url mr nr to vb tr vs cc ck = get_precheck cc ck.
Proof. intros. destruct cc, ck; reflexivity. Qed.

(* robust against the spelling of the status test (>= 40, not < 40, > 39 ...) and the number / order of the except clauses *)
Ltac split_tests :=
  repeat match goal with
  | |- context [Z.leb ?a ?b] => destruct (Z.leb_spec a b)
  | |- context [Z.ltb ?a ?b] => destruct (Z.ltb_spec a b)
  | |- context [Z.eqb ?a ?b] => destruct (Z.eqb_spec a b)
  end.
Lemma cli_get_exit_tie : forall o, gen_get_exit o = get_exit o.
Proof.
  intros [s|cls]; unfold gen_get_exit, get_exit, gen_get_handlers.
  - split_tests; cbn [negb]; try lia;
    repeat match goal with |- context [if ?c then _ else _] => destruct c end; reflexivity.
  - repeat match goal with |- context [if ?c then _ else _] => destruct c end; reflexivity.
Qed.

Lemma cli_get_command_tie : forall run url mr nr to vb tr vs cc ck,
  gen_get_command run url mr nr to vb tr vs cc ck = get_command run url mr nr to vb tr vs cc ck.
Proof.
  intros. unfold gen_get_command, get_command. rewrite cli_get_precheck_tie.
  destruct (get_precheck cc ck); [reflexivity|].
  rewrite cli_get_wiring_tie, cli_get_exit_tie. reflexivity.
Qed.

Lemma cli_get_cert_needs_key : forall run url mr nr to vb tr vs c,
  gen_get_command run url mr nr to vb tr vs (Some c) None = (None, 1%N) /\
  gen_get_command run url mr nr to vb tr vs None (Some c) = (None, 1%N).
Proof. intros. split; reflexivity. Qed.

Lemma cli_get_defaults :
  gen_get_default_max_redirects = default_max_redirects /\ gen_get_default_max_redirects = gen_MAX_REDIRECTS /\
  gen_get_default_no_redirects = default_no_redirects /\ gen_get_default_trust_on_first_use = default_trust_on_first_use /\
  gen_get_default_verify_ssl = default_verify_ssl /\ gen_get_default_timeout = QArith_base.Qmake 30 1 /\
  gen_get_default_verbose = false /\ gen_get_default_client_cert = None /\ gen_get_default_client_key = None.
Proof. repeat split; reflexivity. Qed.

Lemma cli_get_options :
  gen_get_options =
  [(lit "url", []); (lit "max_redirects", [lit "--max-redirects"; lit "-r"]); (lit "no_redirects", [lit "--no-redirects"]);
   (lit "timeout", [lit "--timeout"; lit "-t"]); (lit "verbose", [lit "--verbose"; lit "-v"]);
   (lit "trust_on_first_use", [lit "--trust/--no-trust"]); (lit "verify_ssl", [lit "--verify-ssl/--no-verify-ssl"]);
   (lit "client_cert", [lit "--client-cert"]); (lit "client_key", [lit "--client-key"])].
Proof. reflexivity. Qed.

(* which except clause an exception of the classes the session raises meets first (the position in source order):
   typer.Exit raised for a status >= 40 is itself caught by `except Exception` *)
Definition first_handler : str -> option str :=
  first_catching gen_cli_exc_bases [lit "CertificateChangedError"; lit "ValueError"; lit "TimeoutError"; lit "ConnectionError"; lit "Exception"].
Lemma cli_get_handler_classes :
  first_handler (lit "CertificateChangedError") = Some (lit "CertificateChangedError") /\
  first_handler (lit "ValueError") = Some (lit "ValueError") /\
  first_handler (lit "TimeoutError") = Some (lit "TimeoutError") /\
  first_handler (lit "ConnectionError") = Some (lit "ConnectionError") /\
  first_handler (lit "ConnectionRefusedError") = Some (lit "ConnectionError") /\
  first_handler (lit "ssl.SSLCertVerificationError") = Some (lit "ValueError") /\
  first_handler (lit "OSError") = Some (lit "Exception") /\
  first_handler (lit "typer.Exit") = Some (lit "Exception") /\
  first_handler (lit "KeyboardInterrupt") = None.
Proof. vm_compute. repeat split; reflexivity. Qed.

(* ---------- tofu ---------- *)
Lemma cli_tofu_list_tie : forall nonempty, gen_tofu_list nonempty = tofu_list nonempty.
Proof. intros []; reflexivity. Qed.

Lemma cli_tofu_revoke_tie : forall hostname port force revoked count confirm deleted,
  gen_tofu_revoke hostname port force revoked count confirm deleted = tofu_revoke hostname port force revoked count confirm.
Proof.
  intros hostname [p|] force revoked count confirm deleted; unfold gen_tofu_revoke, tofu_revoke.
  - destruct revoked; reflexivity.
  - destruct (Nat.eqb count 0); [reflexivity|]. destruct force, confirm; reflexivity.
Qed.

Lemma cli_tofu_clear_tie : forall force confirm count, gen_tofu_clear force confirm count = tofu_clear force confirm.
Proof. intros [] [] count; reflexivity. Qed.

Lemma cli_tofu_info_tie : forall hostname port found, gen_tofu_info hostname port found = tofu_info hostname port found.
Proof. intros hostname port []; reflexivity. Qed.

Local Notation ordinary := (CliClientGlue.ordinary gen_cli_exc_bases).

Lemma cli_tofu_export_tie : forall file force exists_ count exc, ordinary exc ->
  gen_tofu_export file force exists_ count exc = tofu_export file force exists_ exc.
Proof.
  intros file force exists_ count exc H. unfold gen_tofu_export, tofu_export.
  destruct (exists_ && negb force); [reflexivity|].
  destruct exc as [c|]; [|reflexivity]. rewrite (H c eq_refl). reflexivity.
Qed.

Lemma cli_tofu_import_tie : forall file replace force confirm counts exc, ordinary exc ->
  gen_tofu_import file replace force confirm counts exc = tofu_import file replace force confirm exc.
Proof.
  intros file replace force confirm [[a u] s] exc H. unfold gen_tofu_import, tofu_import.
  destruct replace, force, confirm; cbn [andb negb]; destruct exc as [c|]; try reflexivity;
    rewrite (H c eq_refl);
    repeat match goal with |- context [if ?c then _ else _] => destruct c end; reflexivity.
Qed.

Lemma cli_tofu_import_on_conflict_tie : forall file replace force answer,
  gen_tofu_import_on_conflict file replace force answer = tofu_import_on_conflict force answer.
Proof. intros file replace [] answer; reflexivity. Qed.

Lemma typer_exit_is_exception : catches gen_cli_exc_bases (lit "typer.Exit") (lit "Exception") = true.
Proof. vm_compute. reflexivity. Qed.

Lemma cli_tofu_trust_tie : forall hostname port conn cert exc,
  ordinary exc -> (forall c, conn = SessionGlue.ConnFail c -> catches gen_cli_exc_bases c (lit "Exception") = true) ->
  gen_tofu_trust hostname port conn cert exc = tofu_trust hostname port conn cert exc.
Proof.
  intros hostname port conn cert exc H Hc. unfold gen_tofu_trust, tofu_trust.
  destruct conn as [|c].
  - destruct cert as [ce|].
    + destruct exc as [c|]; [|reflexivity]. cbn [app]. rewrite (H c eq_refl). reflexivity.
    + cbn [app]. rewrite typer_exit_is_exception. reflexivity.
  - cbn [app]. rewrite (Hc c eq_refl). reflexivity.
Qed.

Lemma cli_tofu_defaults :
  gen_tofu_trust_default_port = 1965%N /\ gen_tofu_info_default_port = 1965%N /\ gen_tofu_revoke_default_port = None /\
  gen_tofu_revoke_default_force = false /\ gen_tofu_clear_default_force = false /\ gen_tofu_export_default_force = false /\
  gen_tofu_import_default_replace = false /\ gen_tofu_import_default_force = false.
Proof. repeat split; reflexivity. Qed.

Lemma cli_tofu_options :
  gen_tofu_list_options = [] /\
  gen_tofu_revoke_options = [(lit "hostname", []); (lit "port", [lit "--port"; lit "-p"]); (lit "force", [lit "--force"; lit "-f"])] /\
  gen_tofu_trust_options = [(lit "hostname", []); (lit "port", [lit "--port"; lit "-p"])] /\
  gen_tofu_clear_options = [(lit "force", [lit "--force"; lit "-f"])] /\
  gen_tofu_info_options = [(lit "hostname", []); (lit "port", [lit "--port"; lit "-p"])] /\
  gen_tofu_export_options = [(lit "file", []); (lit "force", [lit "--force"; lit "-f"])] /\
  gen_tofu_import_options = [(lit "file", []); (lit "replace", [lit "--replace"]); (lit "force", [lit "--force"; lit "-f"])].
Proof. repeat split; reflexivity. Qed.
