(* Proofs of the lemmas stated in Equiv/EquivReload.v: the definitions regenerated from /repo's current source by
   translate/py2coq_reload.py (Gen/ReloadGen.v) compute the model of Model/Reload.v.  No proof mentions a generated local
   name: the step function of the generated fold is taken from the goal, and an iteration is decided by case analysis on
   the five tests the model makes of an argument (equal to a flag: the argument is substituted and everything computes;
   begins with `--reload-dir=` / `--reload-ext=`: the argument is that prefix followed by anything, and every other test
   is decided inside the prefix) - so a reorganisation of the loop that makes the same decisions still checks. *)
From Coq Require Import List NArith Bool String.
From NV Require Import Prelude.Str Model.Reload.
From NV Require Import Proofs.C09_reload.   (* fold_pre: a lemma about the model only *)
From NV Require Import Gen.ReloadGen.
Import ListNotations.
Open Scope list_scope.

Ltac flags := unfold f_reload, f_dir, f_dir_eq, f_ext, f_ext_eq in *.

(* decide one iteration: the goal is an equation between two `if` cascades over tests of `a` *)
Ltac decide_arg a :=
  flags; cbn [existsb];
  destruct (eqb a (lit "--reload")) eqn:E1;
  [apply eqb_spec in E1; subst a; vm_compute; reflexivity|];
  destruct (eqb a (lit "--reload-dir")) eqn:E2;
  [apply eqb_spec in E2; subst a; vm_compute; reflexivity|];
  destruct (eqb a (lit "--reload-ext")) eqn:E3;
  [apply eqb_spec in E3; subst a; vm_compute; reflexivity|];
  destruct (prefixb (lit "--reload-dir=") a) eqn:E4;
  [apply prefixb_spec in E4; destruct E4 as [r4 E4]; subst a; cbn; reflexivity|];
  destruct (prefixb (lit "--reload-ext=") a) eqn:E5;
  [apply prefixb_spec in E5; destruct E5 as [r5 E5]; subst a; cbn; reflexivity|];
  cbn; try reflexivity.

(* ---------- the filter ---------- *)
Lemma server_args_tie : forall argv_tail, gen_server_args argv_tail = lit "serve" :: strip_reload argv_tail.
Proof.
  intro l. unfold gen_server_args, strip_reload, strip_state. cbv zeta.
  match goal with |- context [fold_left ?F l ?I] => set (F0 := F) end.
  assert (Hstep : forall st a, F0 st a = strip_step st a).
  { intros [b acc] a. unfold F0, strip_step. destruct b; [reflexivity|]. decide_arg a. }
  assert (Hfold : forall l st, fold_left F0 l st = fold_left strip_step l st).
  { induction l0 as [|a l0 IH]; intro st; cbn [fold_left]; [reflexivity|]. rewrite Hstep. apply IH. }
  rewrite Hfold. change [lit "serve"] with ([lit "serve"] ++ @nil str). rewrite fold_pre. reflexivity.
Qed.

Lemma argv_lower_tie : gen_argv_lower = 2%nat.
Proof. reflexivity. Qed.

Lemma server_args_of_argv_tie : forall prog cmd argv_tail,
  gen_server_args_of_argv (prog :: cmd :: argv_tail) = lit "serve" :: strip_reload argv_tail.
Proof. intros. unfold gen_server_args_of_argv. rewrite argv_lower_tie. cbn [skipn]. apply server_args_tie. Qed.

Lemma declared_flags_tie : gen_declared_reload_flags = [(f_reload, false); (f_dir, true); (f_ext, true)].
Proof. reflexivity. Qed.

(* ---------- the child's command line ---------- *)
Lemma build_command_tie : forall exe args, gen_build_command exe args = child_command exe args.
Proof. intros. reflexivity. Qed.

Lemma child_argv_tie : forall exe prog cmd argv_tail,
  gen_build_command exe (gen_server_args_of_argv (prog :: cmd :: argv_tail)) = child_argv exe argv_tail.
Proof. intros. rewrite build_command_tie, server_args_of_argv_tie. reflexivity. Qed.

(* ---------- the path between them ---------- *)
Lemma serve_passes_filtered_args_ok : serve_passes_filtered_args = true.  Proof. reflexivity. Qed.
Lemma run_with_reload_resolves_ok : run_with_reload_resolves = true.  Proof. reflexivity. Qed.
Lemma run_with_reload_passes_unchanged_ok : run_with_reload_passes_unchanged = true.  Proof. reflexivity. Qed.
Lemma init_stores_unchanged_ok : init_stores_unchanged = true.  Proof. reflexivity. Qed.
Lemma server_args_assigned_once_ok : server_args_assigned_once = true.  Proof. reflexivity. Qed.
Lemma run_calls_start_server_ok : run_calls_start_server = true.  Proof. reflexivity. Qed.
Lemma popen_gets_build_command_ok : popen_gets_build_command = true.  Proof. reflexivity. Qed.
Lemma popen_no_shell_ok : popen_no_shell = true.  Proof. reflexivity. Qed.
Lemma popen_inherits_env_cwd_ok : popen_inherits_env_cwd = true.  Proof. reflexivity. Qed.
