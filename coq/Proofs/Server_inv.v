(* Server protocol model: state invariant and the state-level facts shared by the
   C01 / C04 / C07 / C15 proofs. *)
From Coq Require Import List NArith ZArith Bool Lia ZifyBool ZifyN ZifyNat.
From NV Require Import Prelude.Str Prelude.Res Prelude.Utf8 Model.Url Model.Titan Model.ServerProto Spec.ServerTrace.
Import ListNotations.
Set Default Proof Using "Type".

(* ---------- generic tactics ---------- *)
Ltac slia :=
  repeat match goal with
         | H : str -> option str |- _ => clear H
         | H : str -> hres |- _ => clear H
         | H : str |- _ => clear H
         | H : option str |- _ => clear H
         | H : bool |- _ => clear H
         end; lia.
Ltac dm :=
  match goal with
  | |- context [match ?x with _ => _ end] => destruct x eqn:?
  end.
Ltac dmh H :=
  match type of H with
  | context [match ?x with _ => _ end] => destruct x eqn:?
  end.

(* ---------- the common writer ---------- *)
Definition mark_sent (s : st) : st :=
  {| buf := buf s; line_rcvd := line_rcvd s; await_titan := await_titan s; titan := titan s;
     content := content s; timer := timer s; tr := tr s; closing := true; sent := true;
     next_id := next_id s; pending := pending s |}.

Definition body_acts (b : str) : list action := match b with [] => [] | _ => [AWrite b] end.
Definition resp_acts (r : resp) : list action :=
  AWrite (fst (serialize r)) :: body_acts (snd (serialize r)) ++ [AClose].

Definition muted (s : st) : bool := negb (tr s) || sent s.

Lemma send_response_eq s r :
  send_response s r = if muted s then (s, []) else (mark_sent s, resp_acts r).
Proof.
  unfold send_response, resp_acts, body_acts, mark_sent, muted.
  destruct (negb (tr s) || sent s); [reflexivity|]. destruct (serialize r); reflexivity.
Qed.

Definition err_resp (z : Z) (m : str) : resp := {| rs_status := z; rs_meta := m; rs_body := BNone |}.
Lemma send_error_eq s z m : send_error s z m = send_response s (err_resp z m).
Proof. reflexivity. Qed.

Definition rejection_resp (text : option str) : resp :=
  match text with
  | Some (c :: t) =>
      let line := strip_suffix1 13 (strip_suffix1 10 (c :: t)) in
      let '(stxt, _, meta) := partition 32 line in
      match stxt with
      | _ :: _ =>
          if forallb is_digit stxt then
            match undec stxt with
            | Some n => {| rs_status := Z.of_N n; rs_meta := meta; rs_body := BNone |}
            | None => err_resp 40 (lit "Request rejected")
            end
          else err_resp 40 (lit "Request rejected")
      | [] => err_resp 40 (lit "Request rejected")
      end
  | _ => err_resp 40 (lit "Request rejected")
  end.
Lemma send_rejection_eq s text : send_rejection s text = send_response s (rejection_resp text).
Proof.
  unfold send_rejection, rejection_resp. destruct text as [[|c t]|]; try reflexivity.
  destruct (partition 32 _) as [[stxt b] meta]. destruct stxt; [reflexivity|].
  destruct (forallb is_digit _); [|reflexivity]. destruct (undec _); reflexivity.
Qed.
Lemma rejection_resp_body text : rs_body (rejection_resp text) = BNone.
Proof.
  unfold rejection_resp. destruct text as [[|c t]|]; try reflexivity.
  destruct (partition 32 _) as [[stxt b] meta]. destruct stxt; [reflexivity|].
  destruct (forallb is_digit _); [|reflexivity]. destruct (undec _); reflexivity.
Qed.

Lemma upload_failed_eq s m : upload_failed s m = send_response s (err_resp 40 (lit "Upload error: " ++ m)).
Proof. reflexivity. Qed.

Ltac norm_err := repeat first [rewrite upload_failed_eq | rewrite send_error_eq | rewrite send_rejection_eq].
Ltac norm_send := norm_err; repeat rewrite send_response_eq.

(* cancel_timer only touches the timer *)
Lemma cancel_timer_eq s : cancel_timer s = set_timer s (match timer s with TArmed => TCancelled | t => t end).
Proof. unfold cancel_timer, set_timer. destruct s as [? ? ? ? ? t ? ? ? ? ?]; destruct t; reflexivity. Qed.
Lemma cancel_timer_not_armed s : timer (cancel_timer s) <> TArmed.
Proof. rewrite cancel_timer_eq. cbn. destruct (timer s); discriminate. Qed.

(* pending lists of length <= 1 *)
Lemma take_task_small id (p : list (nat * task_kind)) : (length p <= 1)%nat ->
  take_task id p = (None, p) \/ exists k, p = [(id, k)] /\ take_task id p = (Some k, []).
Proof.
  destruct p as [|[i k] [|x p]]; cbn; intro H; [left; reflexivity| |slia].
  destruct (Nat.eqb i id) eqn:E; [|left; reflexivity].
  apply Nat.eqb_eq in E; subst. right. exists k. split; reflexivity.
Qed.

Section Proto.
Variable ip6 : str -> option str.
Variable handler : str -> hres.
Variable has_mw has_upload : bool.
Variable up_call_fails : option str.
Variable peer_ip : str.
Variable peer_fp : option str.

Notation route := (route handler).
Notation handle_gemini := (handle_gemini ip6 handler has_mw peer_ip peer_fp).
Notation start_upload := (start_upload has_upload up_call_fails).
Notation process_titan_upload := (process_titan_upload has_mw has_upload up_call_fails peer_ip peer_fp).
Notation handle_titan_url := (handle_titan_url ip6 has_mw has_upload up_call_fails peer_ip peer_fp).
Notation data_received := (data_received ip6 handler has_mw has_upload up_call_fails peer_ip peer_fp).
Notation feed := (feed ip6 handler has_mw has_upload up_call_fails peer_ip peer_fp).
Notation task_done := (task_done handler has_upload up_call_fails).
Notation step := (step ip6 handler has_mw has_upload up_call_fails peer_ip peer_fp).
Notation run := (run ip6 handler has_mw has_upload up_call_fails peer_ip peer_fp).
Notation final := (final ip6 handler has_mw has_upload up_call_fails peer_ip peer_fp).

(* ================= state invariant ================= *)
Record Inv (s : st) : Prop := {
  i_sent : sent s = closing s;
  i_armed : timer s = TArmed -> pending s = [] /\ tr s = true;
  i_fired : timer s = TFired -> closing s = true;
  i_len : (length (pending s) <= 1)%nat;
  i_pend : pending s <> [] -> line_rcvd s = true /\ await_titan s = false;
  i_line : line_rcvd s = false -> await_titan s = false;
  i_titan : await_titan s = true \/ In TTitanMw (map snd (pending s)) ->
            titan s <> None /\ has_upload = true }.

(* a state in which the complete request is being dispatched *)
Record Ready (s : st) : Prop := {
  r_inv : Inv s; r_pend : pending s = []; r_line : line_rcvd s = true;
  r_await : await_titan s = false; r_timer : timer s <> TArmed }.

Lemma Inv_init : Inv init.
Proof.
  constructor; cbn; try discriminate; auto.
  intros [H|[]]; discriminate.
Qed.

Lemma Inv_nopend s : Inv s -> line_rcvd s = false -> pending s = [].
Proof.
  intros I H. destruct (pending s) eqn:E; [reflexivity|].
  destruct (i_pend s I) as [H1 _]; [rewrite E; discriminate|congruence].
Qed.

Lemma Inv_mark_sent s : Inv s -> Inv (mark_sent s).
Proof. intros [? ? ? ? ? ? ?]; constructor; cbn; auto. Qed.
Lemma Inv_send s r : Inv s -> Inv (fst (send_response s r)).
Proof. intro I. rewrite send_response_eq. destruct (muted s); cbn; auto using Inv_mark_sent. Qed.

Lemma Ready_mark_sent s : Ready s -> Ready (mark_sent s).
Proof. intros [? ? ? ? ?]; constructor; cbn; auto using Inv_mark_sent. Qed.

Lemma Inv_cancel s : Inv s -> Inv (cancel_timer s).
Proof.
  intros [? ? ? ? ? ? ?]. rewrite cancel_timer_eq. constructor; cbn; auto.
  - destruct (timer s); discriminate.
  - destruct (timer s) eqn:E; try discriminate. auto.
Qed.
Lemma Inv_set_content s c : Inv s -> Inv (set_content s c).
Proof. intros [? ? ? ? ? ? ?]; constructor; cbn; auto. Qed.
Lemma Inv_set_buf_same s b : Inv s -> Inv (set_buf s b (line_rcvd s)).
Proof. intros [? ? ? ? ? ? ?]; constructor; cbn; auto. Qed.
Lemma Inv_set_buf_true s b : Inv s -> await_titan s = false -> Inv (set_buf s b true).
Proof. intros [? ? ? ? ? ? ?] A; constructor; cbn; auto. Qed.

Lemma Inv_spawn s k : Ready s -> (k = TTitanMw -> titan s <> None /\ has_upload = true) ->
  Inv (fst (spawn s k)).
Proof.
  intros [[? ? ? ? ? ? ?] P L A T] K. constructor; cbn; auto.
  - intro; contradiction.
  - rewrite P; cbn; slia.
  - rewrite P. cbn. intros [H|[H|[]]]; [congruence|]. auto.
Qed.

Lemma Inv_route s line : Ready s -> Inv (fst (route s line)).
Proof.
  intro R. unfold ServerProto.route. destruct (handler line).
  - generalize (Inv_send s r (r_inv s R)). destruct (send_response s r); auto.
  - generalize (Inv_send s (err_resp 40 (lit "Server error: " ++ msg)) (r_inv s R)).
    rewrite send_error_eq. destruct (send_response s _); auto.
  - generalize (Inv_spawn s (THandler line) R). destruct (spawn s _). cbn. intro H; apply H. discriminate.
Qed.

Lemma Inv_handle_gemini s line : Ready s -> Inv (fst (handle_gemini s line)).
Proof.
  intro R. unfold ServerProto.handle_gemini. destruct (gemini_from_line ip6 line).
  - destruct has_mw; [|apply Inv_route; assumption].
    generalize (Inv_spawn s (TMw line) R). destruct (spawn s _). cbn. intro H; apply H. discriminate.
  - rewrite send_error_eq. apply Inv_send, R.
  - apply R.
Qed.

Lemma Inv_start_upload s : Ready s -> Inv (fst (start_upload s)).
Proof.
  intro R. unfold ServerProto.start_upload. destruct (titan s); [|apply R].
  destruct has_upload; [|apply R].
  destruct up_call_fails as [msg|].
  - unfold upload_failed. rewrite send_error_eq.
    generalize (Inv_send s (err_resp 40 (lit "Upload error: " ++ msg)) (r_inv s R)).
    destruct (send_response s _); auto.
  - generalize (Inv_spawn s TUpload R). destruct (spawn s _). cbn. intro H; apply H. discriminate.
Qed.

Lemma Ready_set_await s : Inv s -> pending s = [] -> line_rcvd s = true -> timer s <> TArmed ->
  Ready (set_await s false).
Proof.
  intros [? ? ? ? ? ? ?] P L T. constructor; cbn; auto. constructor; cbn; auto.
  rewrite P. cbn. intros [H|[]]. discriminate.
Qed.

Lemma Inv_ptu s : Inv s -> pending s = [] -> line_rcvd s = true -> timer s <> TArmed ->
  Inv (fst (process_titan_upload s)).
Proof.
  intros I P L T. pose proof (Ready_set_await s I P L T) as R.
  unfold ServerProto.process_titan_upload. set (s1 := set_await s false) in *.
  destruct (titan s1) eqn:Et.
  - destruct (negb has_upload) eqn:Eu; [rewrite send_error_eq; apply Inv_send, R|].
    destruct has_mw; [|apply Inv_start_upload; assumption].
    generalize (Inv_spawn s1 TTitanMw R). destruct (spawn s1 _). cbn. intro H; apply H.
    intros _. split; [subst s1; cbn in Et; congruence|]. destruct has_upload; [reflexivity|discriminate].
  - rewrite send_error_eq; apply Inv_send, R.
Qed.

Lemma Inv_handle_titan_url s line :
  Inv s -> pending s = [] -> line_rcvd s = true -> await_titan s = false ->
  Inv (fst (handle_titan_url s line)).
Proof.
  intros I P L A. unfold ServerProto.handle_titan_url.
  destruct (negb has_upload) eqn:Eu; [rewrite send_error_eq; apply Inv_send, I|].
  assert (U : has_upload = true) by (destruct has_upload; [reflexivity|discriminate]).
  destruct (titan_from_line ip6 line) as [t|k m|]; [|rewrite send_error_eq; apply Inv_send, I|apply I].
  match goal with |- context [if _ then process_titan_upload (cancel_timer ?x) else _] => set (s1 := x) end.
  assert (I1 : Inv s1).
  { destruct I as [? ? ? ? ? ? ?]. constructor; cbn; auto. intros _. split; [discriminate|assumption]. }
  destruct (N.eqb (t_size t) 0).
  - apply Inv_ptu; [apply Inv_cancel; assumption|rewrite cancel_timer_eq; assumption
                   |rewrite cancel_timer_eq; assumption|apply cancel_timer_not_armed].
  - set (s2 := set_await s1 true).
    assert (I2 : Inv s2).
    { destruct I as [? ? ? ? ? ? ?]. constructor; cbn; auto.
      - rewrite P. intro H; contradiction.
      - rewrite L; discriminate.
      - intros _. split; [discriminate|assumption]. }
    destruct (N.leb _ _); [|exact I2].
    apply Inv_ptu.
    + apply Inv_set_content, Inv_cancel, I2.
    + rewrite cancel_timer_eq; assumption.
    + rewrite cancel_timer_eq; assumption.
    + cbn [timer set_content]. apply cancel_timer_not_armed.
Qed.

Lemma Inv_data_received s d : Inv s -> Inv (fst (data_received s d)).
Proof.
  intro I. unfold ServerProto.data_received.
  set (s1 := set_buf s (buf s ++ d) (line_rcvd s)).
  assert (I1 : Inv s1) by (apply Inv_set_buf_same; assumption).
  change (line_rcvd s1) with (line_rcvd s). change (await_titan s1) with (await_titan s).
  change (titan s1) with (titan s).
  destruct (line_rcvd s) eqn:L; cbn [negb].
  - destruct (await_titan s) eqn:A; [|exact I1].
    destruct (titan s); [|exact I1]. destruct (N.leb _ _); [|exact I1].
    apply Inv_ptu.
    + apply Inv_set_content, Inv_cancel, I1.
    + rewrite cancel_timer_eq. cbn.
      destruct (pending s) eqn:P; [reflexivity|].
      destruct (i_pend s I) as [_ H]; [rewrite P; discriminate|congruence].
    + rewrite cancel_timer_eq. cbn. reflexivity.
    + cbn [timer set_content]. apply cancel_timer_not_armed.
  - pose proof (Inv_nopend s I L) as P. pose proof (i_line s I L) as A.
    destruct (break_crlf (buf s1)) as [[line rest]|].
    + destruct (N.ltb 1024 _); [rewrite send_error_eq; apply Inv_send, I1|].
      set (s2 := set_buf s1 rest true).
      assert (I2 : Inv s2) by (apply Inv_set_buf_true; assumption).
      destruct (decode line) as [url|]; [|rewrite send_error_eq; apply Inv_send, I2].
      destruct (prefixb titan_prefix url).
      * apply Inv_handle_titan_url; auto.
      * apply Inv_handle_gemini. constructor.
        -- apply Inv_cancel, I2.
        -- rewrite cancel_timer_eq; assumption.
        -- rewrite cancel_timer_eq; reflexivity.
        -- rewrite cancel_timer_eq; assumption.
        -- apply cancel_timer_not_armed.
    + destruct (N.ltb 1024 _); [rewrite send_error_eq; apply Inv_send, I1|exact I1].
Qed.

Lemma Inv_feed sl : forall s, Inv s -> Inv (fst (feed s sl)).
Proof.
  induction sl as [|d r IH]; intros s I; cbn; [assumption|].
  pose proof (Inv_data_received s d I) as I1. destruct (data_received s d) as [s1 a1]. cbn in I1.
  specialize (IH s1 I1). destruct (feed s1 r). assumption.
Qed.

Lemma Ready_after_take s k id : Inv s -> pending s = [(id, k)] ->
  Ready (set_pending s []) /\ (k = TTitanMw -> titan s <> None /\ has_upload = true).
Proof.
  intros I P. pose proof I as [? ? ? ? ? ? ?].
  assert (LA : line_rcvd s = true /\ await_titan s = false) by (apply i_pend0; rewrite P; discriminate).
  assert (T : timer s <> TArmed) by (intro H; destruct (i_armed0 H) as [H1 _]; congruence).
  split.
  - destruct LA as [LA1 LA2]. constructor; cbn; auto. constructor; cbn; auto.
    intros [H|[]]. congruence.
  - intros ->. apply i_titan0. right. rewrite P. cbn. auto.
Qed.

Lemma Inv_task_done s id o : Inv s -> Inv (fst (task_done s id o)).
Proof.
  intro I. unfold ServerProto.task_done.
  destruct (take_task_small id (pending s) (i_len s I)) as [->|[k [P ->]]]; [exact I|].
  destruct (Ready_after_take s k id I P) as [R K]. set (s1 := set_pending s []) in *.
  assert (S : forall r, Inv (fst (send_response s1 r))) by (intro; apply Inv_send, R).
  destruct k; destruct o as [r|m|[|] text|]; norm_err; try apply S;
    try (apply Inv_route; assumption).
  all: try (apply Inv_start_upload; assumption).
Qed.

Lemma Inv_step s e : Inv s -> Inv (fst (step s e)).
Proof.
  intro I. destruct e; cbn [ServerProto.step].
  - destruct (tr s); [apply Inv_feed; assumption|assumption].
  - destruct (timer s) eqn:T; try assumption.
    destruct (i_armed s I T) as [P TR]. pose proof I as [? ? ? ? ? ? ?].
    cbn. rewrite TR. cbn. destruct (negb (closing s) && negb (sent s)) eqn:E; cbn.
    + constructor; cbn; auto; try discriminate.
    + constructor; cbn; auto; try discriminate. intros _.
      rewrite i_sent0 in E. destruct (closing s); [reflexivity|discriminate].
  - apply Inv_task_done; assumption.
  - destruct (tr s) eqn:TR; [|assumption]. cbn.
    pose proof (Inv_cancel s I) as [? ? ? ? ? ? ?]. constructor; cbn; auto.
    intro H. exfalso. exact (cancel_timer_not_armed s H).
Qed.

Lemma Inv_final evs : forall s, Inv s -> Inv (final s evs).
Proof.
  induction evs as [|e r IH]; intros s I; cbn; [assumption|]. apply IH, Inv_step, I.
Qed.

End Proto.
