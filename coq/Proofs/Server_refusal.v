(* C04 refusal: a refusing or failing middleware chain means no invocation at all, and the
   client receives the refusal. *)
From Coq Require Import List NArith ZArith Bool Lia ZifyBool ZifyN ZifyNat.
From NV Require Import Prelude.Str Prelude.Res Prelude.Utf8 Model.Url Model.Titan Model.ServerProto Spec.ServerTrace.
From NV Require Spec.C04.
From NV Require Import Proofs.Server_inv Proofs.Server_basic Proofs.Server_p1 Proofs.Server_bytes
  Proofs.Server_wire Proofs.Server_stream Proofs.Server_gate.
Import ListNotations.
Set Default Proof Using "Type".

(* ---------- small list facts ---------- *)
Lemma wire_app_nowc a b : wc a = [] -> wire (a ++ b) = wire b.
Proof. intro H. rewrite wire_wc, wc_app, H. cbn [app]. symmetry. apply wire_wc. Qed.
Lemma wire_resp_acts_app r x : wire (resp_acts r ++ x) = (fst (serialize r) ++ snd (serialize r), true).
Proof.
  unfold resp_acts, body_acts. destruct (snd (serialize r)); cbn; rewrite ?app_nil_r; reflexivity.
Qed.
Lemma amw_ids_nil a : existsb is_amw a = false -> amw_ids a = [].
Proof.
  induction a as [|x a IH]; [reflexivity|]. cbn. destruct x; cbn; try exact IH. discriminate.
Qed.
Lemma amw_ids_In i a : In i (amw_ids a) -> exists u ip fp, In (AMw i u ip fp) a.
Proof.
  unfold amw_ids. rewrite in_flat_map. intros [x [H1 H2]]. destruct x; try (destruct H2; fail).
  destruct H2 as [H2|[]]. subst. eauto.
Qed.
Lemma amw_exists a : existsb is_amw a = true -> exists i u ip fp, In (AMw i u ip fp) a.
Proof.
  rewrite existsb_exists. intros [x [H1 H2]]. destruct x; try discriminate. eauto.
Qed.

Lemma app_single_len {A} (l : list A) x : (length (l ++ [x]) <= 1)%nat -> l = [].
Proof. destruct l; [reflexivity|]. cbn. rewrite app_length. cbn. lia. Qed.

(* fields that matter once the request is complete *)
Record SameQ (s s' : st) : Prop := {
  q_sent : sent s' = sent s; q_tr : tr s' = tr s; q_pend : pending s' = pending s;
  q_line : line_rcvd s' = line_rcvd s; q_await : await_titan s' = await_titan s;
  q_timer : timer s' = timer s; q_id : next_id s' = next_id s; q_closing : closing s' = closing s }.
Lemma SameQ_refl s : SameQ s s.
Proof. constructor; reflexivity. Qed.
Lemma SameQ_trans s s1 s2 : SameQ s s1 -> SameQ s1 s2 -> SameQ s s2.
Proof. intros [] []; constructor; congruence. Qed.

(* the state right after a consultation was started for task i *)
Record Cons (s s' : st) (i : nat) : Prop := {
  cn_sent : sent s' = sent s; cn_tr : tr s' = tr s; cn_id : i = next_id s;
  cn_pend : exists k, pending s' = pending s ++ [(i, k)] /\ is_mwk (i, k) = true;
  cn_await : await_titan s' = false; cn_timer : timer s' <> TArmed }.

Lemma Cons_spawn s k : is_mwk (next_id s, k) = true -> await_titan s = false -> timer s <> TArmed ->
  Cons s (fst (spawn s k)) (next_id s).
Proof. intros M A T. constructor; cbn; auto. exists k. auto. Qed.

Lemma Cons_pre s x s' i : sent x = sent s -> tr x = tr s -> next_id x = next_id s -> pending x = pending s ->
  Cons x s' i -> Cons s s' i.
Proof.
  intros H1 H2 H3 H4 [C1 C2 C3 [k [C4 C5]] C6 C7]. constructor; try congruence. exists k. split; congruence.
Qed.

Section Proto.
Variable ip6 : str -> option str.
Variable handler : str -> hres.
Variable has_mw has_upload : bool.
Variable up_call_fails : option str.
Variable peer_ip : str.
Variable peer_fp : option str.

Notation route := (route handler).
Notation handle_gemini := (handle_gemini ip6 handler has_mw peer_ip peer_fp).
Notation start_upload := (start_upload has_upload up_call_fails).
Notation process_titan_upload := (process_titan_upload has_mw has_upload up_call_fails peer_ip peer_fp).
Notation handle_titan_url := (handle_titan_url ip6 has_mw has_upload up_call_fails peer_ip peer_fp).
Notation data_received := (data_received ip6 handler has_mw has_upload up_call_fails peer_ip peer_fp).
Notation feed := (feed ip6 handler has_mw has_upload up_call_fails peer_ip peer_fp).
Notation task_done := (task_done handler has_upload up_call_fails).
Notation step := (step ip6 handler has_mw has_upload up_call_fails peer_ip peer_fp).
Notation run := (run ip6 handler has_mw has_upload up_call_fails peer_ip peer_fp).
Notation final := (final ip6 handler has_mw has_upload up_call_fails peer_ip peer_fp).
Notation Inv := (Inv has_upload).
Notation Eff_step := (Eff_step ip6 handler has_mw has_upload up_call_fails peer_ip peer_fp).
Notation Inv_step := (Inv_step ip6 handler has_mw has_upload up_call_fails peer_ip peer_fp).
Notation dr_A_none := (dr_A_none ip6 handler has_mw has_upload up_call_fails peer_ip peer_fp).
Notation dr_A_big := (dr_A_big ip6 handler has_mw has_upload up_call_fails peer_ip peer_fp).
Notation dr_A_bad := (dr_A_bad ip6 handler has_mw has_upload up_call_fails peer_ip peer_fp).
Notation dr_A_line := (dr_A_line ip6 handler has_mw has_upload up_call_fails peer_ip peer_fp).
Notation trailing := (trailing_ignored_gen ip6 handler has_mw has_upload up_call_fails peer_ip peer_fp).

(* ---------- where consultations start ---------- *)
Lemma cons_hg s line i u ip fp : await_titan s = false -> timer s <> TArmed ->
  In (AMw i u ip fp) (snd (handle_gemini s line)) ->
  snd (handle_gemini s line) = [AMw i u ip fp] /\ Cons s (fst (handle_gemini s line)) i.
Proof.
  intros A T. unfold ServerProto.handle_gemini. destruct (gemini_from_line ip6 line) as [p|k m|].
  - destruct has_mw.
    + rewrite spawn_let. cbn [fst snd]. intros [H|[]]. split; [rewrite H; reflexivity|].
      injection H as E1 _ _ _. rewrite <- E1. apply Cons_spawn; auto.
    + intro H. exfalso. pose proof (route_amw handler s line) as N.
      assert (existsb is_amw (snd (route s line)) = true) by (apply existsb_exists; exists (AMw i u ip fp); auto).
      congruence.
  - rewrite send_error_eq. intro H. exfalso.
    pose proof (send_amw s (err_resp 59 m)) as N.
    assert (existsb is_amw (snd (send_response s (err_resp 59 m))) = true)
      by (apply existsb_exists; exists (AMw i u ip fp); auto). congruence.
  - cbn. intros [H|[]]. discriminate.
Qed.

Lemma no_amw_in a i u ip fp : existsb is_amw a = false -> In (AMw i u ip fp) a -> False.
Proof.
  intros N H. assert (existsb is_amw a = true) by (apply existsb_exists; exists (AMw i u ip fp); auto).
  congruence.
Qed.

Lemma cons_ptu s i u ip fp : timer s <> TArmed ->
  In (AMw i u ip fp) (snd (process_titan_upload s)) ->
  snd (process_titan_upload s) = [AMw i u ip fp] /\ Cons s (fst (process_titan_upload s)) i.
Proof.
  intros T. unfold ServerProto.process_titan_upload. set (s1 := set_await s false).
  destruct (titan s1) as [t|].
  - destruct (negb has_upload); [rewrite send_error_eq; intro H; exfalso; eapply no_amw_in; [apply send_amw|exact H]|].
    destruct has_mw.
    + rewrite spawn_let. cbn [fst snd]. intros [H|[]]. split; [rewrite H; reflexivity|].
      injection H as E1 _ _ _. rewrite <- E1.
      apply (Cons_pre s s1); try reflexivity. exact (Cons_spawn s1 TTitanMw eq_refl eq_refl T).
    + intro H; exfalso; eapply no_amw_in; [apply (start_upload_amw has_upload)|exact H].
  - rewrite send_error_eq; intro H; exfalso; eapply no_amw_in; [apply send_amw|exact H].
Qed.

Lemma cons_htu s line i u ip fp :
  In (AMw i u ip fp) (snd (handle_titan_url s line)) ->
  snd (handle_titan_url s line) = [AMw i u ip fp] /\ Cons s (fst (handle_titan_url s line)) i.
Proof.
  unfold ServerProto.handle_titan_url.
  destruct (negb has_upload); [rewrite send_error_eq; intro H; exfalso; eapply no_amw_in; [apply send_amw|exact H]|].
  destruct (titan_from_line ip6 line) as [t|k m|].
  - fold (set_titan s t). set (s1 := set_titan s t).
    destruct (N.eqb (t_size t) 0).
    + intro H. destruct (cons_ptu (cancel_timer s1) i u ip fp (cancel_timer_not_armed s1) H) as [H1 H2].
      split; [exact H1|]. apply (Cons_pre s (cancel_timer s1)); try (rewrite cancel_timer_eq; reflexivity). exact H2.
    + destruct (N.leb _ _); [|cbn; intros []].
      match goal with |- context [process_titan_upload ?x] => set (x0 := x) end.
      assert (T0 : timer x0 <> TArmed) by (unfold x0; cbn [timer set_content]; apply cancel_timer_not_armed).
      intro H. destruct (cons_ptu x0 i u ip fp T0 H) as [H1 H2].
      split; [exact H1|]. apply (Cons_pre s x0); try (unfold x0; cbn; rewrite cancel_timer_eq; reflexivity). exact H2.
  - rewrite send_error_eq; intro H; exfalso; eapply no_amw_in; [apply send_amw|exact H].
  - cbn. intros [H|[]]. discriminate.
Qed.

Lemma htu_line_rcvd s line : line_rcvd (fst (handle_titan_url s line)) = line_rcvd s.
Proof.
  unfold ServerProto.handle_titan_url.
  destruct (negb has_upload); [rewrite send_error_eq; apply (fr_line _ _ (Frame_send s _))|].
  destruct (titan_from_line ip6 line) as [t|k m|];
    [|rewrite send_error_eq; apply (fr_line _ _ (Frame_send s _))|reflexivity].
  destruct (N.eqb (t_size t) 0).
  - match goal with |- context [process_titan_upload ?x] => destruct (ptu_complete has_mw has_upload up_call_fails peer_ip peer_fp x) as [K1 _] end.
    rewrite K1, cancel_timer_eq. reflexivity.
  - destruct (N.leb _ _); [|reflexivity].
    match goal with |- context [process_titan_upload ?x] => destruct (ptu_complete has_mw has_upload up_call_fails peer_ip peer_fp x) as [K1 _] end.
    rewrite K1. cbn [line_rcvd set_content]. rewrite cancel_timer_eq. reflexivity.
Qed.

(* after a consultation the request is complete *)
Definition Done (s : st) : Prop := line_rcvd s = true /\ await_titan s = false.

Lemma cons_data_received s d i u ip fp : Inv s ->
  In (AMw i u ip fp) (snd (data_received s d)) ->
  snd (data_received s d) = [AMw i u ip fp] /\ Cons s (fst (data_received s d)) i /\
  line_rcvd (fst (data_received s d)) = true.
Proof.
  intros I. destruct (line_rcvd s) eqn:L.
  - destruct (await_titan s) eqn:A.
    + unfold ServerProto.data_received. cbn [buf line_rcvd await_titan titan set_buf]. rewrite L, A. cbn [negb].
      destruct (titan s) as [t|]; [|cbn; intros []].
      destruct (N.leb _ _); [|cbn; intros []].
      match goal with |- context [process_titan_upload ?x] => set (x0 := x) end.
      assert (T0 : timer x0 <> TArmed) by (unfold x0; cbn [timer set_content]; apply cancel_timer_not_armed).
      intro H. destruct (cons_ptu x0 i u ip fp T0 H) as [H1 H2].
      split; [exact H1|]. split.
      * apply (Cons_pre s x0); try (unfold x0; cbn; rewrite cancel_timer_eq; reflexivity). exact H2.
      * destruct (ptu_complete has_mw has_upload up_call_fails peer_ip peer_fp x0) as [K1 _]. rewrite K1.
        unfold x0. cbn [line_rcvd set_content]. rewrite cancel_timer_eq. reflexivity.
    + rewrite (trailing s d L A). cbn. intros [].
  - pose proof (i_line _ _ I L) as A.
    destruct (request_line (buf s ++ d)) as [| | |u' rest] eqn:R.
    + rewrite (dr_A_none s d L R). cbn. intros [].
    + rewrite (dr_A_big s d L R), send_error_eq. intro H; exfalso; eapply no_amw_in; [apply send_amw|exact H].
    + destruct (dr_A_bad s d L R) as [rest E]. rewrite E, send_error_eq.
      intro H; exfalso; eapply no_amw_in; [apply send_amw|exact H].
    + rewrite (dr_A_line s d u' rest L R). set (s2 := set_buf s rest true).
      destruct (prefixb titan_prefix u').
      * intro H. destruct (cons_htu s2 u' i u ip fp H) as [H1 H2]. split; [exact H1|]. split.
        -- apply (Cons_pre s s2); try reflexivity. exact H2.
        -- rewrite htu_line_rcvd. reflexivity.
      * intro H.
        destruct (cons_hg (cancel_timer s2) u' i u ip fp) as [H1 H2];
          [rewrite cancel_timer_eq; exact A|apply cancel_timer_not_armed|exact H|].
        split; [exact H1|]. split.
        -- apply (Cons_pre s (cancel_timer s2)); try (rewrite cancel_timer_eq; reflexivity). exact H2.
        -- destruct (Frame_handle_gemini ip6 handler has_mw peer_ip peer_fp (cancel_timer s2) u') as [_ K _ _].
           rewrite K, cancel_timer_eq. reflexivity.
Qed.

(* ---------- a completed request ignores further reads ---------- *)
Lemma feed_trailing sl : forall s, line_rcvd s = true -> await_titan s = false ->
  snd (feed s sl) = [] /\ SameQ s (fst (feed s sl)).
Proof.
  induction sl as [|d r IH]; intros s L A; cbn [ServerProto.feed]; [split; [reflexivity|apply SameQ_refl]|].
  rewrite (trailing s d L A).
  destruct (IH (set_buf s (buf s ++ d) true) eq_refl A) as [H1 H2].
  destruct (feed (set_buf s (buf s ++ d) true) r) as [s2 a2]. cbn [fst snd] in *.
  split; [rewrite H1; reflexivity|].
  eapply SameQ_trans; [|exact H2]. constructor; cbn; congruence.
Qed.

(* ---------- once something was sent on an incomplete request, no consultation follows ---------- *)
Definition NC (s : st) : Prop :=
  Done s \/ (line_rcvd s = false /\ request_line (buf s) = LTooBig).

Lemma NC_data_received s d : Inv s -> NC s ->
  NC (fst (data_received s d)) /\ existsb is_amw (snd (data_received s d)) = false.
Proof.
  intros I [[L A]|[L R]].
  - rewrite (trailing s d L A). split; [left; split; [reflexivity|exact A]|reflexivity].
  - rewrite (dr_A_big s d L (request_line_big_ext _ d R)), send_error_eq. split; [|apply send_amw].
    right. destruct (Frame_send (set_buf s (buf s ++ d) false) (err_resp 59 too_big)) as [B L' _ _].
    rewrite L', B. cbn. split; [reflexivity|]. apply request_line_big_ext. exact R.
Qed.

Lemma htu_done s line : line_rcvd s = true -> await_titan s = false ->
  Done (fst (handle_titan_url s line)) \/ sent (fst (handle_titan_url s line)) = sent s.
Proof.
  intros L A. unfold ServerProto.handle_titan_url.
  assert (S : forall r, Done (fst (send_response s r))).
  { intro r. destruct (Frame_send s r) as [_ L' A' _]. split; congruence. }
  destruct (negb has_upload); [left; rewrite send_error_eq; apply S|].
  destruct (titan_from_line ip6 line) as [t|k m|]; [|left; rewrite send_error_eq; apply S|left; split; assumption].
  destruct (N.eqb (t_size t) 0).
  - left. match goal with |- context [process_titan_upload ?x] => destruct (ptu_complete has_mw has_upload up_call_fails peer_ip peer_fp x) as [K1 K2] end.
    split; [rewrite K1, cancel_timer_eq; exact L|exact K2].
  - destruct (N.leb _ _); [|right; reflexivity].
    left. match goal with |- context [process_titan_upload ?x] => destruct (ptu_complete has_mw has_upload up_call_fails peer_ip peer_fp x) as [K1 K2] end.
    split; [rewrite K1; cbn [line_rcvd set_content]; rewrite cancel_timer_eq; exact L|exact K2].
Qed.

Lemma sent_data_received s d : Inv s -> sent (fst (data_received s d)) <> sent s ->
  NC (fst (data_received s d)).
Proof.
  intros I. destruct (line_rcvd s) eqn:L.
  - destruct (await_titan s) eqn:A.
    + unfold ServerProto.data_received. cbn [buf line_rcvd await_titan titan set_buf]. rewrite L, A. cbn [negb].
      destruct (titan s) as [t|]; [|cbn; congruence].
      destruct (N.leb _ _); [|cbn; congruence].
      intros _. left.
      match goal with |- context [process_titan_upload ?x] => destruct (ptu_complete has_mw has_upload up_call_fails peer_ip peer_fp x) as [K1 K2] end.
      split; [rewrite K1; cbn [line_rcvd set_content]; rewrite cancel_timer_eq; reflexivity|exact K2].
    + rewrite (trailing s d L A). cbn. congruence.
  - pose proof (i_line _ _ I L) as A.
    destruct (request_line (buf s ++ d)) as [| | |u' rest] eqn:R.
    + rewrite (dr_A_none s d L R). cbn. congruence.
    + rewrite (dr_A_big s d L R), send_error_eq. intros _. right.
      destruct (Frame_send (set_buf s (buf s ++ d) false) (err_resp 59 too_big)) as [B L' _ _].
      rewrite L', B. cbn. split; [reflexivity|exact R].
    + destruct (dr_A_bad s d L R) as [rest E]. rewrite E, send_error_eq. intros _. left.
      destruct (Frame_send (set_buf s rest true) (err_resp 59 (lit "Invalid UTF-8 encoding"))) as [_ L' A' _].
      split; [rewrite L'; reflexivity|rewrite A'; exact A].
    + rewrite (dr_A_line s d u' rest L R). set (s2 := set_buf s rest true).
      destruct (prefixb titan_prefix u').
      * intro H. destruct (htu_done s2 u' eq_refl A) as [K|K]; [left; exact K|].
        exfalso. apply H. rewrite K. reflexivity.
      * intros _. left.
        destruct (Frame_handle_gemini ip6 handler has_mw peer_ip peer_fp (cancel_timer s2) u') as [_ K1 K2 _].
        split; [rewrite K1, cancel_timer_eq; reflexivity|rewrite K2, cancel_timer_eq; exact A].
Qed.

Lemma NC_feed sl : forall s, Inv s -> NC s -> existsb is_amw (snd (feed s sl)) = false.
Proof.
  induction sl as [|d r IH]; intros s I N; cbn [ServerProto.feed]; [reflexivity|].
  destruct (NC_data_received s d I N) as [N1 H1].
  pose proof (Inv_data_received ip6 handler has_mw has_upload up_call_fails peer_ip peer_fp s d I) as I1.
  destruct (data_received s d) as [s1 a1]. cbn [fst snd] in *.
  specialize (IH s1 I1 N1). destruct (feed s1 r) as [s2 a2]. cbn [fst snd] in *.
  rewrite existsb_app, H1, IH. reflexivity.
Qed.

Lemma amw_ids_app a b : amw_ids (a ++ b) = amw_ids a ++ amw_ids b.
Proof. unfold amw_ids. apply flat_map_app. Qed.

(* a feed either starts no consultation, or exactly one, and then nothing was written *)
Lemma feed_consult sl : forall s, Inv s -> (sent s = false \/ NC s) ->
  existsb is_amw (snd (feed s sl)) = false \/
  exists i k, amw_ids (snd (feed s sl)) = [i] /\ wc (snd (feed s sl)) = [] /\
              sent (fst (feed s sl)) = sent s /\ sent s = false /\
              pending (fst (feed s sl)) = [(i, k)] /\ is_mwk (i, k) = true /\
              Done (fst (feed s sl)) /\ timer (fst (feed s sl)) <> TArmed.
Proof.
  induction sl as [|d r IH]; intros s I H; cbn [ServerProto.feed]; [left; reflexivity|].
  pose proof (Inv_data_received ip6 handler has_mw has_upload up_call_fails peer_ip peer_fp s d I) as I1.
  pose proof (W_data_received ip6 handler has_mw has_upload up_call_fails peer_ip peer_fp s d) as W1.
  destruct (existsb is_amw (snd (data_received s d))) eqn:E1.
  - (* the consultation starts in this slice *)
    destruct (amw_exists _ E1) as [i [u [ip [fp HIn]]]].
    destruct (cons_data_received s d i u ip fp I HIn) as [Ea [[C1 C2 C3 [k [C4 C5]] C6 C7] L1]].
    assert (S0 : sent s = false).
    { destruct H as [H|H]; [exact H|]. destruct (NC_data_received s d I H) as [_ K]. congruence. }
    destruct (data_received s d) as [s1 a1]. cbn [fst snd] in *.
    destruct (feed_trailing r s1 L1 C6) as [F1 [Q1 Q2 Q3 Q4 Q5 Q6 Q7 Q8]].
    destruct (feed s1 r) as [s2 a2]. cbn [fst snd] in *. subst a1 a2.
    right. exists i, k. cbn [app amw_ids flat_map wc filter is_wc is_write is_close orb].
    assert (P1 : pending s1 = [(i, k)]).
    { pose proof (i_len _ _ I1) as Len. rewrite C4 in Len. rewrite C4.
      rewrite (app_single_len _ _ Len). reflexivity. }
    repeat split; try congruence.
  - assert (H1 : sent (fst (data_received s d)) = false \/ NC (fst (data_received s d))).
    { destruct H as [H|H]; [|right; apply NC_data_received; assumption].
      destruct (sent (fst (data_received s d))) eqn:S1; [|left; reflexivity].
      right. apply sent_data_received; [assumption|congruence]. }
    pose proof (fun N => proj1 (NC_data_received s d I N)) as NCd.
    destruct (data_received s d) as [s1 a1]. cbn [fst snd] in *.
    specialize (IH s1 I1 H1).
    pose proof (NC_feed r s1 I1) as NF.
    destruct (feed s1 r) as [s2 a2]. cbn [fst snd] in *.
    destruct IH as [IH|[i [k [K1 [K2 [K3 [K4 [K5 [K6 [K7 K8]]]]]]]]]].
    + left. rewrite existsb_app, E1, IH. reflexivity.
    + right. exists i, k.
      assert (S0 : sent s = false).
      { destruct H as [H|H]; [exact H|]. exfalso.
        specialize (NF (NCd H)). rewrite (amw_ids_nil _ NF) in K1. discriminate. }
      assert (Wa : wc a1 = [] /\ sent s1 = sent s).
      { destruct W1 as [W1|[_ [W1 _]]]; [exact W1|congruence]. }
      destruct Wa as [Wa Ws].
      rewrite amw_ids_app, (amw_ids_nil _ E1), wc_app, Wa, K2. cbn [app].
      destruct K7 as [K7a K7b]. repeat split; try assumption; congruence.
Qed.

(* ---------- the state while the chain is being consulted ---------- *)
Record Q1 (s : st) (i : nat) (k : task_kind) : Prop := {
  q1_pend : pending s = [(i, k)]; q1_mw : is_mwk (i, k) = true;
  q1_done : Done s; q1_timer : timer s <> TArmed }.

Lemma Q1_step s e i k : Q1 s i k -> (forall o, e <> EDone i o) ->
  snd (step s e) = [] /\ Q1 (fst (step s e)) i k /\ sent (fst (step s e)) = sent s.
Proof.
  intros Q NE. pose proof Q as [P M [L A] T].
  assert (Same : snd (s, @nil action) = [] /\ Q1 (fst (s, @nil action)) i k /\ sent (fst (s, @nil action)) = sent s)
    by (split; [reflexivity|split; [exact Q|reflexivity]]).
  destruct e as [sl| |j o|]; cbn [ServerProto.step].
  - destruct (tr s); [|exact Same].
    destruct (feed_trailing sl s L A) as [F1 [Q1' Q2 Q3 Q4 Q5 Q6 Q7 Q8]].
    destruct (feed s sl) as [s2 a2]. cbn [fst snd] in *.
    split; [exact F1|]. split; [|exact Q1']. constructor; try congruence. split; congruence.
  - destruct (timer s) eqn:Tm; [exfalso; apply T; reflexivity|exact Same|exact Same].
  - unfold ServerProto.task_done. rewrite P. cbn [take_task].
    destruct (Nat.eqb i j) eqn:E; [apply Nat.eqb_eq in E; subst j; exfalso; apply (NE o); reflexivity|].
    exact Same.
  - destruct (tr s); [|exact Same]. cbn [fst snd].
    split; [reflexivity|]. split; [|cbn; rewrite cancel_timer_eq; reflexivity].
    constructor; cbn.
    + rewrite cancel_timer_eq. exact P.
    + exact M.
    + split; cbn; rewrite cancel_timer_eq; assumption.
    + apply cancel_timer_not_armed.
Qed.

Definition not_allow_v (v : outcome) : Prop := forall t, v <> OMw true t.
Definition verdict_resp (v : outcome) : resp :=
  match v with
  | OMw false text => rejection_resp text
  | _ => err_resp 40 (lit "Middleware error")
  end.

Lemma verdict_step s i k v : Q1 s i k -> not_allow_v v ->
  step s (EDone i v) = send_response (set_pending s []) (verdict_resp v).
Proof.
  intros [P M _ _] NA. cbn [ServerProto.step]. unfold ServerProto.task_done. rewrite P. cbn [take_task].
  rewrite Nat.eqb_refl. unfold is_mwk in M. cbn [snd] in M.
  destruct k; try discriminate; destruct v as [r|m|[|] text|]; norm_err; try reflexivity;
    exfalso; eapply NA; reflexivity.
Qed.

(* what the client must have received for verdict v *)
Definition WOK (v : outcome) (wcl : str * bool) : bool :=
  let (w, closed) := wcl in
  match v with
  | OMw false (Some t) =>
      if Spec.C04.wellformed_line t && all_ascii t then eqb w t && closed
      else (match w with [] => false | _ => true end) && closed
  | _ => prefixb (lit "40 ") w && closed
  end.

Lemma prefixb_app_r p a b : prefixb p a = true -> prefixb p (a ++ b) = true.
Proof.
  rewrite !prefixb_spec. intros [r ->]. exists (r ++ b). rewrite app_assoc. reflexivity.
Qed.

Lemma WOK_verdict v : not_allow_v v ->
  WOK v (fst (serialize (verdict_resp v)) ++ snd (serialize (verdict_resp v)), true) = true.
Proof.
  intro NA. unfold WOK.
  assert (E40 : forall m b, prefixb (lit "40 ") (fst (serialize (err_resp 40 m)) ++ b) && true = true).
  { intros m b. rewrite prefixb_app_r; [reflexivity|apply err40_prefix]. }
  destruct v as [r|m|[|] [t|]|]; cbn [verdict_resp]; try apply E40.
  - destruct (Spec.C04.wellformed_line t && all_ascii t) eqn:WF.
    + apply andb_true_iff in WF as [W1 W2]. rewrite (rejection_verbatim t W1 W2). cbn [fst snd].
      rewrite app_nil_r, eqb_refl. reflexivity.
    + destruct (fst (serialize (rejection_resp (Some t))) ++ snd (serialize (rejection_resp (Some t)))) eqn:E;
        [|reflexivity].
      apply app_eq_nil in E as [E _]. exfalso. exact (serialize_nonempty _ E).
Qed.

Definition RG (evs : list event) (cons : list nat) (s : st) : Prop :=
  forall v, Spec.C04.first_verdict evs cons (run s evs) = Some v -> not_allow_v v ->
    invocs (flat (run s evs)) = 0%nat /\
    (has_lost evs = false -> tr s = true -> sent s = false -> WOK v (wire (flat (run s evs))) = true).

Lemma first_verdict_cons e r cons s :
  Spec.C04.first_verdict (e :: r) cons (run s (e :: r)) =
  match e with
  | EDone i v => if existsb (Nat.eqb i) cons then Some v
                 else Spec.C04.first_verdict r (cons ++ amw_ids (snd (step s e))) (run (fst (step s e)) r)
  | _ => Spec.C04.first_verdict r (cons ++ amw_ids (snd (step s e))) (run (fst (step s e)) r)
  end.
Proof. rewrite run_cons. reflexivity. Qed.

Lemma has_lost_cons e r : has_lost (e :: r) = false -> e <> ELost /\ has_lost r = false.
Proof. destruct e; cbn; intro H; split; try discriminate; assumption. Qed.

Lemma RG_Q1 evs : forall s i k, Inv s -> Q1 s i k -> RG evs [i] s.
Proof.
  induction evs as [|e r IH]; intros s i k I Q v FV NA; [discriminate|].
  rewrite first_verdict_cons in FV. rewrite run_cons, flat_cons.
  assert (Dec : (exists o, e = EDone i o) \/ forall o, e <> EDone i o).
  { destruct e as [| |j o|]; try (right; discriminate).
    destruct (Nat.eq_dec j i) as [->|N]; [left; eauto|right; congruence]. }
  destruct Dec as [[o ->]|NE].
  - cbn [existsb] in FV. rewrite Nat.eqb_refl in FV. cbn in FV. inversion FV; subst o.
    rewrite (verdict_step s i k v Q NA). set (s1 := set_pending s []).
    destruct Q as [P M [L A] T].
    assert (C0 : cap (fst (send_response s1 (verdict_resp v))) = 0%nat).
    { destruct (Frame_send s1 (verdict_resp v)) as [_ L' A' _].
      assert (P' : pending (fst (send_response s1 (verdict_resp v))) = []) by (rewrite send_fst; destruct (muted s1); reflexivity).
      unfold cap. rewrite L', A', P'. cbn. rewrite L, A. reflexivity. }
    pose proof (run_invocs ip6 handler has_mw has_upload up_call_fails peer_ip peer_fp r (fst (send_response s1 (verdict_resp v)))) as RI.
    split.
    + rewrite invocs_app, send_invocs. slia.
    + intros HL TR S. rewrite send_response_eq. unfold muted. cbn [tr sent set_pending s1]. rewrite TR, S. cbn [negb orb fst snd].
      rewrite wire_resp_acts_app. apply (WOK_verdict v NA).
  - destruct (Q1_step s e i k Q NE) as [Ea [Q' S']].
    assert (FV' : Spec.C04.first_verdict r [i] (run (fst (step s e)) r) = Some v).
    { rewrite Ea in FV. cbn [amw_ids flat_map app] in FV. destruct e as [| |j o|]; try exact FV.
      cbn [existsb] in FV. destruct (Nat.eqb j i) eqn:E; [|exact FV].
      apply Nat.eqb_eq in E. subst j. exfalso. apply (NE o). reflexivity. }
    destruct (IH _ i k (Inv_step s e I) Q' v FV' NA) as [G1 G2].
    rewrite Ea. cbn [app]. split; [exact G1|].
    intros HL TR S. destruct (has_lost_cons _ _ HL) as [NL HL'].
    apply G2; [exact HL'| |congruence].
    rewrite (e_tr _ _ _ (Eff_step s e NL)). exact TR.
Qed.

(* no reads, no consultation *)
Lemma step_no_read_amw s e : (forall sl, e <> ERead sl) -> amw_ids (snd (step s e)) = [].
Proof.
  intro NR. apply amw_ids_nil. destruct e; cbn [ServerProto.step].
  - exfalso. eapply NR. reflexivity.
  - destruct (timer s); try reflexivity. cbn. destruct (tr s && negb (closing s) && negb (sent s)); reflexivity.
  - apply task_done_amw.
  - destruct (tr s); reflexivity.
Qed.

Lemma fv_closed evs : forall s closed, closed = true -> valid_reads evs (run s evs) closed = true ->
  Spec.C04.first_verdict evs [] (run s evs) = None.
Proof.
  induction evs as [|e r IH]; intros s closed C V; [reflexivity|].
  rewrite first_verdict_cons. rewrite run_cons in V. cbn [valid_reads] in V. subst closed.
  apply andb_true_iff in V as [V1 V2].
  assert (NR : forall sl, e <> ERead sl) by (intros sl ->; discriminate).
  rewrite (step_no_read_amw s e NR). cbn [app existsb].
  destruct e; try (eapply IH; [|exact V2]; reflexivity).
Qed.

Lemma sent_step s e : sent (fst (step s e)) = sent s || existsb is_close (snd (step s e)).
Proof.
  pose proof (step_closes ip6 handler has_mw has_upload up_call_fails peer_ip peer_fp s e) as H. unfold cs, closes in H.
  destruct (existsb is_close (snd (step s e))) eqn:E.
  - apply existsb_count_pos in E. destruct (sent s), (sent (fst (step s e))); try reflexivity; slia.
  - apply existsb_count in E. rewrite E in H. destruct (sent s), (sent (fst (step s e))); try reflexivity; slia.
Qed.

Section Refusal.
Hypothesis MW : has_mw = true.

Definition mwfree (s : st) : Prop := forall x, In x (pending s) -> is_mwk x = false.

Lemma mwfree_invocs s e : mwfree s -> invocs (snd (step s e)) = 0%nat.
Proof using MW.
  intro F. destruct (invocs (snd (step s e))) eqn:E; [reflexivity|]. exfalso.
  destruct (invoc_step ip6 handler has_mw has_upload up_call_fails peer_ip peer_fp s e MW) as [i [t [k [_ [H1 H2]]]]]; [slia|].
  rewrite (F _ H1) in H2. discriminate.
Qed.

Lemma mwfree_step s e : Inv s -> mwfree s -> amw_ids (snd (step s e)) = [] -> mwfree (fst (step s e)).
Proof.
  intros I F A x Hx. destruct (is_mwk x) eqn:M; [|reflexivity]. exfalso.
  pose proof (mw_pending_step ip6 handler has_mw has_upload up_call_fails peer_ip peer_fp s e [] I) as K.
  rewrite A in K. cbn [app] in K. apply (K ltac:(intros y Hy My; rewrite (F _ Hy) in My; discriminate) x Hx M).
Qed.

Lemma RG_Q0 evs : forall s, Inv s -> mwfree s -> valid_reads evs (run s evs) (sent s) = true -> RG evs [] s.
Proof using MW.
  induction evs as [|e r IH]; intros s I F V v FV NA; [discriminate|].
  rewrite first_verdict_cons in FV. cbn [existsb app] in FV.
  assert (FV' : Spec.C04.first_verdict r (amw_ids (snd (step s e))) (run (fst (step s e)) r) = Some v)
    by (destruct e; exact FV).
  clear FV. rewrite run_cons in V. cbn [valid_reads] in V. apply andb_true_iff in V as [V1 V2].
  fold is_close in V2. rewrite <- sent_step in V2.
  rewrite run_cons, flat_cons, invocs_app, (mwfree_invocs s e F). cbn [plus].
  pose proof (Inv_step s e I) as I'.
  pose proof (W_step ip6 handler has_mw has_upload up_call_fails peer_ip peer_fp s e [e] (or_introl eq_refl)) as Ws.
  destruct (amw_ids (snd (step s e))) as [|i0 l0] eqn:EA.
  - (* no consultation started *)
    destruct (sent (fst (step s e))) eqn:S'.
    + rewrite (fv_closed r _ true eq_refl V2) in FV'. discriminate.
    + destruct (IH _ I' (mwfree_step s e I F EA) ltac:(rewrite S'; exact V2) v FV' NA) as [G1 G2].
      split; [exact G1|]. intros HL TR S. destruct (has_lost_cons _ _ HL) as [NL HL'].
      assert (Wa : wc (snd (step s e)) = []) by (destruct Ws as [[Wa _]|[_ [Wb _]]]; [exact Wa|congruence]).
      rewrite (wire_app_nowc _ _ Wa). apply G2; [exact HL'| |exact S'].
      rewrite (e_tr _ _ _ (Eff_step s e NL)). exact TR.
  - (* a consultation starts: e is a read on an open transport *)
    assert (HIn : In i0 (amw_ids (snd (step s e)))) by (rewrite EA; left; reflexivity).
    destruct (amw_ids_In _ _ HIn) as [u [ip [fp HA]]].
    destruct e as [sl| | |]; try (rewrite step_no_read_amw in EA; [discriminate|discriminate]).
    cbn [ServerProto.step] in *. destruct (tr s) eqn:TR0; [|destruct HA].
    cbn [negb] in V1. apply negb_true_iff in V1.
    destruct (feed_consult sl s I (or_introl V1)) as [N|[i [k [K1 [K2 [K3 [K4 [K5 [K6 [K7 K8]]]]]]]]]].
    + rewrite (amw_ids_nil _ N) in EA. discriminate.
    + rewrite K1 in EA. inversion EA; subst i0 l0.
      assert (Q : Q1 (fst (feed s sl)) i k) by (constructor; assumption).
      destruct (RG_Q1 r _ i k I' Q v FV' NA) as [G1 G2].
      split; [exact G1|]. intros HL TR S. destruct (has_lost_cons _ _ HL) as [NL HL'].
      rewrite (wire_app_nowc _ _ K2). apply G2; [exact HL'| |congruence].
      rewrite (e_tr _ _ _ (Eff_feed ip6 handler has_mw has_upload up_call_fails peer_ip peer_fp sl s)). exact TR0.
Qed.

Theorem refusal_run (c : cfg) evs :
  valid_reads evs (run init evs) false = true -> Spec.C04.refusal c evs (run init evs) = true.
Proof using MW.
  intro V. unfold Spec.C04.refusal.
  destruct (Spec.C04.first_verdict evs [] (run init evs)) as [v|] eqn:FV; [|reflexivity].
  assert (G : not_allow_v v ->
              negb (existsb is_invocation (flat (run init evs))) &&
              (if has_lost evs then true else WOK v (wire (flat (run init evs)))) = true).
  { intro NA.
    destruct (RG_Q0 evs init (Inv_init has_upload) ltac:(intros x []) V v FV NA) as [G1 G2].
    apply existsb_count in G1. rewrite G1. cbn [negb andb].
    destruct (has_lost evs); [reflexivity|]. apply G2; reflexivity. }
  unfold WOK in G.
  destruct v as [r|m|[|] t|]; try (apply G; intros t' E; discriminate).
  reflexivity.
Qed.
End Refusal.

End Proto.
