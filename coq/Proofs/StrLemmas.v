(* General lemmas about the Prelude.Str functions (reused by the URL proofs). *)
From Coq Require Import List NArith Bool Lia ZifyBool ZifyN.
From NV Require Import Prelude.Str.
Import ListNotations.
Open Scope N_scope.

(* ---------- membership helpers ---------- *)
Lemma mem_false_notin c s : mem c s = false -> ~ In c s.
Proof. apply mem_false. Qed.
Lemma notin_mem_false c s : ~ In c s -> mem c s = false.
Proof. apply mem_false. Qed.
Lemma In_mem_true c s : In c s -> mem c s = true.
Proof. apply mem_In. Qed.
Lemma mem_cons c x s : mem c (x :: s) = (c =? x) || mem c s.
Proof. reflexivity. Qed.

Lemma notin_app (c : N) a b : ~ In c a -> ~ In c b -> ~ In c (a ++ b).
Proof. intros Ha Hb H. apply in_app_or in H as [H|H]; auto. Qed.
Lemma notin_cons (c x : N) s : c <> x -> ~ In c s -> ~ In c (x :: s).
Proof. intros Hx Hs [H|H]; auto. Qed.
Lemma notin_app_l (c : N) a b : ~ In c (a ++ b) -> ~ In c a.
Proof. intros H Ha. apply H, in_or_app; auto. Qed.
Lemma notin_app_r (c : N) a b : ~ In c (a ++ b) -> ~ In c b.
Proof. intros H Ha. apply H, in_or_app; auto. Qed.

(* ---------- forallb <-> In ---------- *)
Lemma forallb_In (p : N -> bool) s : forallb p s = true <-> (forall x, In x s -> p x = true).
Proof. apply forallb_forall. Qed.

(* ---------- lstrip / remove_chars / drop ---------- *)
Lemma In_lstrip_by p x s : In x (lstrip_by p s) -> In x s.
Proof.
  induction s as [|y s IH]; simpl; [auto|].
  destruct (p y); [intro H; right; auto|auto].
Qed.
Lemma In_remove_chars p x s : In x (remove_chars p s) -> In x s /\ p x = false.
Proof.
  unfold remove_chars. rewrite filter_In. intros [H1 H2]. split; [assumption|].
  destruct (p x); [discriminate|reflexivity].
Qed.
Lemma remove_chars_id p s : (forall x, In x s -> p x = false) -> remove_chars p s = s.
Proof.
  induction s as [|y s IH]; simpl; intro H; [reflexivity|].
  rewrite (H y (or_introl eq_refl)). simpl. f_equal. apply IH. intros x Hx. apply H; right; assumption.
Qed.
Lemma In_drop n x s : In x (drop n s) -> In x s.
Proof.
  revert s; induction n as [|n IH]; intros [|y s]; simpl; auto.
Qed.
Lemma In_take n x s : In x (take n s) -> In x s.
Proof.
  revert s; induction n as [|n IH]; intros [|y s]; simpl; try tauto.
  intros [H|H]; auto.
Qed.

(* ---------- lower_ch ---------- *)
Lemma lower_ch_cases c : lower_ch c = c \/ (is_upper c = true /\ lower_ch c = c + 32 /\ is_lower (lower_ch c) = true).
Proof.
  unfold lower_ch. destruct (is_upper c) eqn:E; [right|left; reflexivity].
  unfold is_upper, is_lower in *. repeat split; lia.
Qed.
Lemma lower_ch_idem c : lower_ch (lower_ch c) = lower_ch c.
Proof.
  unfold lower_ch. destruct (is_upper c) eqn:E.
  - destruct (is_upper (c + 32)) eqn:E2; [|reflexivity]. unfold is_upper in *. lia.
  - rewrite E. reflexivity.
Qed.
Lemma lower_ch_not_lower c x : is_lower c = false -> lower_ch x = c -> x = c.
Proof.
  intros Hc H. destruct (lower_ch_cases x) as [E|[_ [_ E]]]; congruence.
Qed.
Lemma lower_ch_fix c : is_upper c = false -> lower_ch c = c.
Proof. intro H. unfold lower_ch. rewrite H. reflexivity. Qed.
Lemma is_hexdigit_lower_ch c : is_hexdigit (lower_ch c) = is_hexdigit c.
Proof.
  unfold lower_ch. destruct (is_upper c) eqn:E; [|reflexivity].
  unfold is_hexdigit, is_digit, is_upper in *. lia.
Qed.
Lemma is_ascii_lower_ch c : is_ascii c = true -> is_ascii (lower_ch c) = true.
Proof.
  unfold lower_ch. destruct (is_upper c) eqn:E; [|auto].
  unfold is_ascii, is_upper in *. lia.
Qed.
Lemma lower_idem s : lower (lower s) = lower s.
Proof. unfold lower. rewrite map_map. apply map_ext. apply lower_ch_idem. Qed.
Lemma In_lower c s : In c (lower s) -> In c s \/ is_lower c = true.
Proof.
  unfold lower. rewrite in_map_iff. intros [x [E H]].
  destruct (lower_ch_cases x) as [E1|[_ [_ E1]]]; [left|right]; congruence.
Qed.

(* ---------- break_at / partition ---------- *)
Lemma break_at_app_l c a b : ~ In c a ->
  break_at c (a ++ b) = match break_at c b with Some (x, y) => Some (a ++ x, y) | None => None end.
Proof.
  induction a as [|x a IH]; simpl; intro H.
  - destruct (break_at c b) as [[? ?]|]; reflexivity.
  - destruct (x =? c) eqn:E; [apply N.eqb_eq in E; subst; exfalso; apply H; left; reflexivity|].
    rewrite IH; [|intro; apply H; right; assumption].
    destruct (break_at c b) as [[? ?]|]; reflexivity.
Qed.

Lemma partition_found c a b : ~ In c a -> partition c (a ++ c :: b) = (a, true, b).
Proof. intro H. unfold partition. rewrite break_at_app; auto. Qed.
Lemma partition_notin c s : ~ In c s -> partition c s = (s, false, []).
Proof. intro H. unfold partition. rewrite break_at_notin; auto. Qed.
Lemma partition_inv c s a fr b : partition c s = (a, fr, b) ->
  (fr = true /\ s = a ++ c :: b /\ ~ In c a) \/ (fr = false /\ a = s /\ b = [] /\ ~ In c s).
Proof.
  unfold partition. destruct (break_at c s) as [[x y]|] eqn:E; intro H; inversion H; subst.
  - left. apply break_at_Some in E. tauto.
  - right. apply break_at_None in E. tauto.
Qed.
Lemma partition_nil c : partition c [] = ([], false, []).
Proof. reflexivity. Qed.

Lemma rpartition_notin c s : ~ In c s -> rpartition c s = ([], false, s).
Proof. intro H. unfold rpartition. rewrite rbreak_at_notin; auto. Qed.
Lemma rpartition_inv c s a fr b : rpartition c s = (a, fr, b) ->
  (fr = true /\ s = a ++ c :: b /\ ~ In c b) \/ (fr = false /\ a = [] /\ b = s /\ ~ In c s).
Proof.
  unfold rpartition. destruct (rbreak_at c s) as [[x y]|] eqn:E; intro H; inversion H; subst.
  - left. apply rbreak_at_Some in E. tauto.
  - right. apply rbreak_at_None in E. tauto.
Qed.

(* ---------- decimal round trip ---------- *)
Lemma undec_acc_app a b k :
  undec_acc (a ++ b) k = match undec_acc a k with Some k' => undec_acc b k' | None => None end.
Proof.
  revert k; induction a as [|x a IH]; intro k; simpl; [reflexivity|].
  destruct (is_digit x); [apply IH|reflexivity].
Qed.

Lemma dec_digits_fuel_acc f : forall n acc, dec_digits_fuel f n acc = dec_digits_fuel f n [] ++ acc.
Proof.
  induction f as [|f IH]; intros n acc; simpl; [reflexivity|].
  destruct (n / 10 =? 0); [reflexivity|].
  rewrite (IH _ (_ :: acc)), (IH _ [_]). rewrite <- app_assoc. reflexivity.
Qed.

Lemma dec_digits_fuel_S f n acc :
  dec_digits_fuel (S f) n acc =
  if n / 10 =? 0 then (48 + n mod 10) :: acc else dec_digits_fuel f (n / 10) ((48 + n mod 10) :: acc).
Proof. reflexivity. Qed.

Lemma undec_acc_dec_fuel f : forall n, n < 2 ^ N.of_nat f ->
  undec_acc (dec_digits_fuel (S f) n []) 0 = Some n.
Proof.
  induction f as [|f IH]; intros n Hn.
  - simpl in Hn. assert (n = 0) by lia. subst. reflexivity.
  - rewrite dec_digits_fuel_S. destruct (n / 10 =? 0) eqn:E.
    + cbn [undec_acc]. assert (Hd : is_digit (48 + n mod 10) = true) by (unfold is_digit; lia).
      rewrite Hd. f_equal. lia.
    + rewrite dec_digits_fuel_acc, undec_acc_app.
      rewrite Nat2N.inj_succ, N.pow_succ_r' in Hn.
      rewrite IH by lia.
      cbn [undec_acc]. assert (Hd : is_digit (48 + n mod 10) = true) by (unfold is_digit; lia).
      rewrite Hd. f_equal. lia.
Qed.

Lemma size_nat_bound n : n < 2 ^ N.of_nat (N.size_nat n).
Proof.
  destruct n as [|p]; [reflexivity|].
  induction p as [p IH|p IH|]; cbn [N.size_nat Pos.size_nat] in *.
  - rewrite Nat2N.inj_succ, N.pow_succ_r'. lia.
  - rewrite Nat2N.inj_succ, N.pow_succ_r'. lia.
  - reflexivity.
Qed.

Lemma dec_fuel_nonempty f n acc : dec_digits_fuel (S f) n acc <> [].
Proof.
  rewrite dec_digits_fuel_S. destruct (n / 10 =? 0); [discriminate|].
  rewrite dec_digits_fuel_acc. intro H. apply app_eq_nil in H as [_ H]. discriminate.
Qed.
Lemma dec_nonempty n : dec n <> [].
Proof. apply dec_fuel_nonempty. Qed.

Lemma undec_dec n : undec (dec n) = Some n.
Proof.
  unfold undec. destruct (dec n) eqn:E; [exfalso; revert E; apply dec_nonempty|].
  rewrite <- E. unfold dec. apply undec_acc_dec_fuel. apply size_nat_bound.
Qed.

Lemma dec_fuel_digits f : forall n acc x, In x (dec_digits_fuel f n acc) -> In x acc \/ is_digit x = true.
Proof.
  induction f as [|f IH]; intros n acc x; [simpl; auto|].
  rewrite dec_digits_fuel_S. destruct (n / 10 =? 0).
  - intros [H|H]; [right; subst; unfold is_digit; lia|auto].
  - intro H. apply IH in H as [[H|H]|H]; auto. right; subst; unfold is_digit; lia.
Qed.
Lemma dec_digits n x : In x (dec n) -> is_digit x = true.
Proof. intro H. apply dec_fuel_digits in H as [[]|H]; assumption. Qed.

Close Scope N_scope.
