(* C08, server level: the request handler, the middleware chain and the upload handler are only
   started for request lines the URL / Titan model accepts, and an upload is started with exactly
   the declared number of bytes.  Invariant J over reachable states (with Server_inv.Inv). *)
From Coq Require Import List NArith ZArith Bool Lia.
From NV Require Import Prelude.Str Prelude.Res Prelude.Utf8 Model.Url Model.Titan Model.ServerProto Spec.ServerTrace.
From NV Require Import Proofs.Server_inv.
Import ListNotations.
Set Default Proof Using "Type".

Lemma titan_from_line_line ip6 u t : titan_from_line ip6 u = Ok t -> t_line t = u.
Proof.
  unfold titan_from_line. destruct (negb (prefixb titan_prefix u)); [discriminate|].
  destruct (break_at ch_semi u) as [[url_part params_str]|]; [|discriminate].
  destruct (get_param _ _); [|discriminate].
  destruct (py_int s); try discriminate.
  destruct (Z.ltb a 0); [discriminate|].
  destruct (parse_url ip6 _); cbn [bind]; try discriminate.
  intro H. inversion H. reflexivity.
Qed.

Lemma take_len_N (n : N) (l : str) :
  N.leb n (N.of_nat (length l)) = true -> N.of_nat (length (take (N.to_nat n) l)) = n.
Proof.
  intro H. apply N.leb_le in H. rewrite take_length.
  rewrite Nat.min_l by lia. apply Nnat.N2Nat.id.
Qed.

Lemma take_task_in id (p : list (nat * task_kind)) k rest :
  take_task id p = (Some k, rest) -> In (id, k) p /\ incl rest p.
Proof.
  revert rest. induction p as [|[i k'] p IH]; cbn; intros rest H; [discriminate|].
  destruct (Nat.eqb i id) eqn:E.
  - apply Nat.eqb_eq in E. inversion H; subst. split; [left; reflexivity|]. intros x Hx. right. exact Hx.
  - destruct (take_task id p) as [r q]. inversion H; subst. destruct (IH q eq_refl) as [H1 H2].
    split; [right; exact H1|]. intros x [Hx|Hx]; [left; exact Hx|right; apply H2, Hx].
Qed.

Section Proto.
Variable ip6 : str -> option str.
Variable handler : str -> hres.
Variable has_mw has_upload : bool.
Variable up_call_fails : option str.
Variable peer_ip : str.
Variable peer_fp : option str.

Notation route := (route handler).
Notation handle_gemini := (handle_gemini ip6 handler has_mw peer_ip peer_fp).
Notation start_upload := (start_upload has_upload up_call_fails).
Notation process_titan_upload := (process_titan_upload has_mw has_upload up_call_fails peer_ip peer_fp).
Notation handle_titan_url := (handle_titan_url ip6 has_mw has_upload up_call_fails peer_ip peer_fp).
Notation data_received := (data_received ip6 handler has_mw has_upload up_call_fails peer_ip peer_fp).
Notation feed := (feed ip6 handler has_mw has_upload up_call_fails peer_ip peer_fp).
Notation task_done := (task_done handler has_upload up_call_fails).
Notation step := (step ip6 handler has_mw has_upload up_call_fails peer_ip peer_fp).
Notation run := (run ip6 handler has_mw has_upload up_call_fails peer_ip peer_fp).
Notation Inv := (Inv has_upload).

Definition gem_ok (line : str) : Prop := exists p, gemini_from_line ip6 line = Ok p.

Definition kind_ok (k : task_kind) : Prop :=
  match k with TMw line | THandler line => gem_ok line | _ => True end.

Record J (s : st) : Prop := {
  j_pend : forall x, In x (pending s) -> kind_ok (snd x);
  j_titan : forall t, titan s = Some t -> has_upload = true /\ titan_from_line ip6 (t_line t) = Ok t;
  j_nil : titan s = None -> content s = [];
  j_len : forall t, titan s = Some t -> await_titan s = false -> N.of_nat (length (content s)) = t_size t;
  j_line : line_rcvd s = false -> titan s = None }.

Definition Good (act : action) : Prop :=
  match act with
  | AHandler line => gem_ok line
  | AMw id url i f =>
      i = peer_ip /\ f = peer_fp /\
      ((exists line p, gemini_from_line ip6 line = Ok p /\ url = p_norm p) \/
       (exists line t, titan_from_line ip6 line = Ok t /\ url = titan_normalized t /\ has_upload = true))
  | AUpload id line content =>
      has_upload = true /\ exists t, titan_from_line ip6 line = Ok t /\ N.of_nat (length content) = t_size t
  | AUploadCall line content =>
      has_upload = true /\ exists t, titan_from_line ip6 line = Ok t /\ N.of_nat (length content) = t_size t
  | _ => True
  end.

Definition R (x : st * list action) : Prop := J (fst x) /\ Forall Good (snd x).

Lemma J_init : J init.
Proof. constructor; cbn; try discriminate; auto. intros x []. Qed.

Lemma J_same s s' : pending s' = pending s -> titan s' = titan s -> content s' = content s ->
  line_rcvd s' = line_rcvd s -> await_titan s' = await_titan s -> J s -> J s'.
Proof.
  intros E1 E2 E3 E4 E5 [? ? ? ? ?]. constructor; rewrite ?E1, ?E2, ?E3, ?E4, ?E5; auto.
Qed.

Lemma J_cancel s : J s -> J (cancel_timer s).
Proof. rewrite cancel_timer_eq. apply J_same; reflexivity. Qed.

Lemma R_nil s : J s -> R (s, []).
Proof. intro H. split; [exact H|constructor]. Qed.

Lemma R_send s r : J s -> R (send_response s r).
Proof.
  intro H. rewrite send_response_eq. destruct (muted s); [apply R_nil, H|].
  split; cbn [fst snd].
  - revert H. apply J_same; reflexivity.
  - unfold resp_acts, body_acts. destruct (snd (serialize r)); repeat constructor.
Qed.

Lemma R_cons (x : st * list action) act : Good act -> R x -> R (fst x, act :: snd x).
Proof. intros G [H1 H2]. split; [exact H1|constructor; assumption]. Qed.

Lemma J_spawn s k : J s -> kind_ok k -> J (fst (spawn s k)).
Proof.
  intros [? ? ? ? ?] K. constructor; cbn; auto.
  intros x Hx. apply in_app_or in Hx as [Hx|[Hx|[]]]; [auto|]. subst x. exact K.
Qed.

Lemma R_route s line : J s -> gem_ok line -> R (route s line).
Proof.
  intros H G. unfold ServerProto.route. destruct (handler line).
  - pose proof (R_send s r H) as HR. destruct (send_response s r). exact (R_cons _ (AHandler line) G HR).
  - rewrite send_error_eq. pose proof (R_send s (err_resp 40 (lit "Server error: " ++ msg)) H) as HR.
    destruct (send_response s _). exact (R_cons _ (AHandler line) G HR).
  - pose proof (J_spawn s (THandler line) H G) as HS. destruct (spawn s _). cbn [fst] in HS.
    split; [exact HS|]. cbn [snd]. repeat constructor. exact G.
Qed.

Lemma R_handle_gemini s line : J s -> R (handle_gemini s line).
Proof.
  intro H. unfold ServerProto.handle_gemini. destruct (gemini_from_line ip6 line) as [p|k m|] eqn:E.
  - assert (G : gem_ok line) by (exists p; exact E).
    destruct has_mw; [|apply R_route; assumption].
    pose proof (J_spawn s (TMw line) H G) as HS. destruct (spawn s _). cbn [fst] in HS.
    split; [exact HS|]. cbn [snd]. constructor; [|constructor]. cbn. split; [reflexivity|split; [reflexivity|]]. left. exists line, p. auto.
  - rewrite send_error_eq. apply R_send, H.
  - split; [exact H|]. repeat constructor.
Qed.

Lemma R_start_upload s : J s -> await_titan s = false -> R (start_upload s).
Proof.
  intros H A. unfold ServerProto.start_upload. destruct (titan s) as [t|] eqn:T; [|apply R_nil, H].
  destruct has_upload eqn:U; [|apply R_nil, H].
  assert (G : has_upload = true /\ exists t0, titan_from_line ip6 (t_line t) = Ok t0 /\
                N.of_nat (length (content s)) = t_size t0).
  { split; [exact U|]. exists t. split; [apply (j_titan s H t T)|apply (j_len s H t T A)]. }
  destruct up_call_fails as [msg|].
  - rewrite upload_failed_eq. pose proof (R_send s (err_resp 40 (lit "Upload error: " ++ msg)) H) as HR.
    destruct (send_response s _). exact (R_cons _ (AUploadCall (t_line t) (content s)) G HR).
  - pose proof (J_spawn s TUpload H I) as HS. destruct (spawn s _) as [s' id]. cbn [fst] in HS.
    split; [exact HS|]. cbn [snd]. constructor; [|constructor]. exact G.
Qed.

Lemma R_ptu s : J s -> (forall t, titan s = Some t -> N.of_nat (length (content s)) = t_size t) ->
  R (process_titan_upload s).
Proof.
  intros H L. unfold ServerProto.process_titan_upload.
  assert (H1 : J (set_await s false)).
  { destruct H as [? ? ? ? ?]. constructor; cbn; auto. }
  set (s1 := set_await s false) in *. destruct (titan s1) as [t|] eqn:T.
  - destruct (negb has_upload); [rewrite send_error_eq; apply R_send, H1|].
    destruct has_mw; [|apply R_start_upload; [exact H1|reflexivity]].
    pose proof (J_spawn s1 TTitanMw H1 I) as HS. destruct (spawn s1 _) as [s' id]. cbn [fst] in HS.
    split; [exact HS|]. cbn [snd]. constructor; [|constructor].
    cbn. split; [reflexivity|split; [reflexivity|]]. right.
    destruct (j_titan s1 H1 t T) as [U E]. exists (t_line t), t. auto.
  - rewrite send_error_eq; apply R_send, H1.
Qed.

Lemma R_htu s line : J s -> content s = [] -> await_titan s = false -> line_rcvd s = true ->
  R (handle_titan_url s line).
Proof.
  intros H C A L. unfold ServerProto.handle_titan_url.
  destruct (negb has_upload) eqn:Eu; [rewrite send_error_eq; apply R_send, H|].
  assert (U : has_upload = true) by (destruct has_upload; [reflexivity|discriminate]).
  destruct (titan_from_line ip6 line) as [t|k m|] eqn:E;
    [|rewrite send_error_eq; apply R_send, H|split; [exact H|repeat constructor]].
  pose proof (titan_from_line_line _ _ _ E) as TL.
  match goal with |- context [if _ then process_titan_upload (cancel_timer ?x) else _] => set (s1 := x) end.
  assert (H1 : forall c a, (a = false -> N.of_nat (length c) = t_size t) ->
               J (set_content (set_await s1 a) c)).
  { intros c a Hc. destruct H as [? ? ? ? ?]. constructor; cbn; auto; try discriminate.
    - intros t' Ht. inversion Ht; subst t'. rewrite TL. auto.
    - intros t' Ht. inversion Ht; subst t'. exact Hc.
    - rewrite L. discriminate. }
  destruct (N.eqb (t_size t) 0) eqn:Z.
  - apply N.eqb_eq in Z. apply R_ptu.
    + apply J_cancel. eapply J_same;
        [| | | | |apply (H1 (content s) (await_titan s)); intros _; rewrite C, Z; reflexivity]; reflexivity.
    + rewrite cancel_timer_eq. cbn. intros t' Ht. inversion Ht; subst t'. rewrite C, Z. reflexivity.
  - set (s2 := set_await s1 true).
    destruct (N.leb _ _) eqn:LE.
    + apply R_ptu.
      * generalize (H1 (take (N.to_nat (t_size t)) (buf s2)) true).
        intro HJ. rewrite cancel_timer_eq. eapply J_same; [| | | | |apply HJ; discriminate]; reflexivity.
      * cbn [set_content content titan]. rewrite cancel_timer_eq. cbn [set_timer titan].
        intros t' Ht. cbn in Ht. inversion Ht; subst t'. apply take_len_N. exact LE.
    + apply R_nil. generalize (H1 (content s) true). intro HJ.
      eapply J_same; [| | | | |apply HJ; discriminate]; reflexivity.
Qed.

Lemma R_data_received s d : Inv s -> J s -> R (data_received s d).
Proof.
  intros I H. unfold ServerProto.data_received.
  set (s1 := set_buf s (buf s ++ d) (line_rcvd s)).
  assert (H1 : J s1) by (revert H; apply J_same; reflexivity).
  change (line_rcvd s1) with (line_rcvd s). change (await_titan s1) with (await_titan s).
  change (titan s1) with (titan s).
  destruct (line_rcvd s) eqn:L; cbn [negb].
  - destruct (await_titan s) eqn:A; [|apply R_nil, H1].
    destruct (titan s) as [t|] eqn:T; [|apply R_nil, H1]. destruct (N.leb _ _) eqn:LE; [|apply R_nil, H1].
    apply R_ptu.
    + rewrite cancel_timer_eq. destruct H as [? ? ? ? ?]. constructor; cbn; auto; try congruence.
    + cbn [set_content content titan]. rewrite cancel_timer_eq. cbn [set_timer titan set_buf s1].
      intros t' Ht. rewrite T in Ht. inversion Ht; subst t'. apply take_len_N. exact LE.
  - pose proof (i_line _ s I L) as A. pose proof (j_line s H L) as T. pose proof (j_nil s H T) as C.
    destruct (break_crlf (buf s1)) as [[line rest]|].
    + destruct (N.ltb 1024 _); [rewrite send_error_eq; apply R_send, H1|].
      set (s2 := set_buf s1 rest true).
      assert (H2 : J s2).
      { destruct H as [? ? ? ? ?]. constructor; cbn; auto; try discriminate. }
      destruct (decode line) as [url|]; [|rewrite send_error_eq; apply R_send, H2].
      destruct (prefixb titan_prefix url).
      * apply R_htu; auto.
      * apply R_handle_gemini, J_cancel, H2.
    + destruct (N.ltb 1024 _); [rewrite send_error_eq; apply R_send, H1|apply R_nil, H1].
Qed.

Lemma R_feed sl : forall s, Inv s -> J s -> R (feed s sl).
Proof.
  induction sl as [|d r IH]; intros s I H; cbn [ServerProto.feed]; [apply R_nil, H|].
  pose proof (R_data_received s d I H) as [H1 G1].
  pose proof (Inv_data_received ip6 handler has_mw has_upload up_call_fails peer_ip peer_fp s d I) as I1.
  destruct (data_received s d) as [s1 a1]. cbn [fst snd] in *.
  destruct (IH s1 I1 H1) as [H2 G2]. destruct (feed s1 r) as [s2 a2]. cbn [fst snd] in *.
  split; [exact H2|]. cbn [snd]. apply Forall_app. split; assumption.
Qed.

Lemma R_task_done s id o : Inv s -> J s -> R (task_done s id o).
Proof.
  intros I H. unfold ServerProto.task_done.
  destruct (take_task id (pending s)) as [[k|] rest] eqn:E; [|apply R_nil, H].
  destruct (take_task_in _ _ _ _ E) as [Hin Hsub].
  assert (A : await_titan s = false).
  { apply (i_pend _ s I). intro P. rewrite P in Hin. exact Hin. }
  assert (K : kind_ok k) by (apply (j_pend s H (id, k) Hin)).
  set (s1 := set_pending s rest).
  assert (H1 : J s1).
  { destruct H as [? ? ? ? ?]. constructor; cbn; auto. }
  pose proof (fun r => R_send s1 r H1) as HS.
  destruct k; destruct o as [r|m|[|] text|]; norm_err; try apply HS.
  - apply R_route; assumption.
  - apply R_start_upload; assumption.
Qed.

Lemma R_step s e : Inv s -> J s -> R (step s e).
Proof.
  intros I H. destruct e; cbn [ServerProto.step].
  - destruct (tr s); [apply R_feed; assumption|apply R_nil, H].
  - destruct (timer s); try (apply R_nil, H).
    destruct (_ && _).
    + split; cbn [fst snd]; [revert H; apply J_same; reflexivity|repeat constructor].
    + apply R_nil. revert H; apply J_same; reflexivity.
  - apply R_task_done; assumption.
  - destruct (tr s); [|apply R_nil, H]. apply R_nil.
    apply J_cancel in H. revert H. apply J_same; reflexivity.
Qed.

Lemma run_good evs : forall s, Inv s -> J s -> Forall Good (flat (run s evs)).
Proof.
  induction evs as [|e r IH]; intros s I H; [constructor|].
  cbn [ServerProto.run].
  pose proof (R_step s e I H) as [H1 G1].
  pose proof (Inv_step ip6 handler has_mw has_upload up_call_fails peer_ip peer_fp s e I) as I1.
  destruct (step s e) as [s' a]. cbn [fst snd] in *.
  unfold flat. cbn [flat_map fst]. apply Forall_app. split; [exact G1|]. apply IH; assumption.
Qed.

End Proto.

Lemma invoked_only_valid : forall ip6 handler mw up ucf ip fp evs,
  let acts := Spec.ServerTrace.flat (ServerProto.run ip6 handler mw up ucf ip fp ServerProto.init evs) in
  (forall line, In (ServerProto.AHandler line) acts -> exists p, gemini_from_line ip6 line = Ok p) /\
  (forall id url i f, In (ServerProto.AMw id url i f) acts ->
      i = ip /\ f = fp /\
      ((exists line p, gemini_from_line ip6 line = Ok p /\ url = p_norm p) \/
       (exists line t, titan_from_line ip6 line = Ok t /\ url = titan_normalized t /\ up = true))) /\
  (forall id line content, In (ServerProto.AUpload id line content) acts ->
      up = true /\ exists t, titan_from_line ip6 line = Ok t /\ N.of_nat (length content) = t_size t) /\
  (forall line content, In (ServerProto.AUploadCall line content) acts ->
      up = true /\ exists t, titan_from_line ip6 line = Ok t /\ N.of_nat (length content) = t_size t).
Proof.
  intros ip6 handler mw up ucf ip fp evs acts.
  pose proof (run_good ip6 handler mw up ucf ip fp evs init (Inv_init up) (J_init ip6 up)) as G.
  fold acts in G. rewrite Forall_forall in G.
  split; [|split; [|split]].
  - intros line Hin. exact (G _ Hin).
  - intros id url i f Hin. exact (G _ Hin).
  - intros id line content Hin. exact (G _ Hin).
  - intros line content Hin. exact (G _ Hin).
Qed.
