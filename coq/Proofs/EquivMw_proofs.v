(* Proofs of the Gen = Model lemmas stated in Equiv/EquivMw.v (Gen/MwGen.v is regenerated from /repo on every run:
   no proof below mentions a generated local name; loops are handled by induction on their list). *)
From Coq Require Import List NArith ZArith QArith Bool Lia.
From NV Require Import Prelude.Str Prelude.Res Model.Bucket Model.Ip Model.Proxy Model.ServerProto Model.Session Equiv.ServerGlue Equiv.MwGlue.
From NV Require Import Gen.MwGen.
Import ListNotations.
Open Scope list_scope.

(* ---------- helper definitions of Equiv/EquivMw.v, restated verbatim ---------- *)
Definition pyb (c : cfg) (b : bucket) : py_TokenBucket := mk_py_TokenBucket (cap c) (rate c) (tokens b) (last b).
Definition table (c : cfg) (st : Bucket.state) : list (str * py_TokenBucket) := map (fun kb => (fst kb, pyb c (snd kb))) st.
Definition refusal (retry : Z) : str :=
  lit "44 Rate limit exceeded. Retry after " ++ str_of_Z retry ++ lit " seconds" ++ [13; 10]%N.
Definition rl_answer (retry : Z) (ok : bool) : bool * option str := (ok, if ok then None else Some (refusal retry)).

Fixpoint gen_run (c : cfg) (retry : Z) (tb : list (str * py_TokenBucket)) (h : list Bucket.event) : res (list (Q * str * bool)) :=
  match h with
  | [] => Ok []
  | Bucket.Req t ip :: h' =>
      match gen_rl_process t (cap c) (rate c) retry tb [] ip None with
      | Ok (v, tb') => match gen_run c retry tb' h' with Ok l => Ok ((t, ip, fst v) :: l) | e => e end
      | Err k m => Err k m
      | OutOfModel => OutOfModel
      end
  | Bucket.Cleanup t :: h' =>
      match gen_rl_cleanup_pass t tb with
      | Ok tb' => gen_run c retry tb' h'
      | Err k m => Err k m
      | OutOfModel => OutOfModel
      end
  end.

(* ---------- dict facts ---------- *)
Lemma dget_table c k st : dget k (table c st) = option_map (pyb c) (lookup k st).
Proof.
  induction st as [|[k' b] st IH]; [reflexivity|].
  cbn [table map fst snd dget lookup]. destruct (eqb k k'); [reflexivity|exact IH].
Qed.

Lemma dset_table c k b st : dset k (pyb c b) (table c st) = table c (update k b st).
Proof.
  induction st as [|[k' b'] st IH]; [reflexivity|].
  cbn [table map fst snd dset update]. destruct (eqb k k'); [reflexivity|].
  cbn [map fst snd]. f_equal. exact IH.
Qed.

Lemma dget_dset {V} k (v : V) d : dget k (dset k v d) = Some v.
Proof.
  induction d as [|[k' v'] d IH]; cbn [dset dget]; [rewrite eqb_refl; reflexivity|].
  destruct (eqb k k') eqn:E; cbn [dget]; rewrite E; [reflexivity|exact IH].
Qed.

Lemma dset_dset {V} k (v v' : V) d : dset k v' (dset k v d) = dset k v' d.
Proof.
  induction d as [|[k' w] d IH]; cbn [dset]; [rewrite eqb_refl; reflexivity|].
  destruct (eqb k k') eqn:E; cbn [dset]; rewrite E; [reflexivity|f_equal; exact IH].
Qed.

Lemma update_update k (b b' : bucket) st : update k b' (update k b st) = update k b' st.
Proof.
  induction st as [|[k' w] st IH]; cbn [update]; [rewrite eqb_refl; reflexivity|].
  destruct (eqb k k') eqn:E; cbn [update]; rewrite E; [reflexivity|f_equal; exact IH].
Qed.

Lemma lookup_update k b st : lookup k (update k b st) = Some b.
Proof.
  induction st as [|[k' w] st IH]; cbn [update lookup]; [rewrite eqb_refl; reflexivity|].
  destruct (eqb k k') eqn:E; cbn [lookup]; rewrite E; [reflexivity|exact IH].
Qed.

(* ---------- TokenBucket ---------- *)
Lemma tb_init_tie : forall c now, gen_TokenBucket_init now (cap c) (rate c) = pyb c {| tokens := cap c; last := now |}.
Proof. reflexivity. Qed.

Lemma tb_consume_tie : forall c now b,
  gen_TokenBucket_consume now (pyb c b) (inject_Z 1) = let (ok, b') := consume c now b in (ok, pyb c b').
Proof.
  intros. unfold gen_TokenBucket_consume, consume, refill, pyb.
  cbn [TokenBucket_capacity TokenBucket_refill_rate TokenBucket_tokens TokenBucket_last_update tokens last].
  change (inject_Z 1) with 1%Q.
  destruct (Qle_bool _ _); reflexivity.
Qed.

(* ---------- RateLimiter.process_request ---------- *)
Lemma rl_process_tie : forall c retry st now url ip fp,
  gen_rl_process now (cap c) (rate c) retry (table c st) url ip fp =
  Ok (let (ok, st') := process c st now ip in (rl_answer retry ok, table c st')).
Proof.
  intros. unfold gen_rl_process, process, dmem.
  rewrite dget_table.
  destruct (lookup ip st) as [b|] eqn:L; cbn [option_map negb].
  -
    rewrite tb_consume_tie. destruct (consume c now b) as [ok b'].
    rewrite dset_table. destruct ok; reflexivity.
  - rewrite tb_init_tie, dget_dset.
    rewrite tb_consume_tie. destruct (consume c now _) as [ok b'].
    rewrite dset_dset, dset_table. destruct ok; reflexivity.
Qed.

(* ---------- the clean-up pass ---------- *)
(* `for ip in to_remove: del self.buckets[ip]` *)
Fixpoint del_all {V} (l : list str) (d : list (str * V)) : res (list (str * V)) :=
  match l with
  | [] => Ok d
  | k :: l' => match ddel k d with Some d' => del_all l' d' | None => Err (lit "KeyError") [] end
  end.

Lemma del_all_cons {V} l : forall k (v : V) d, ~ In k l ->
  del_all l ((k, v) :: d) = match del_all l d with Ok r => Ok ((k, v) :: r) | e => e end.
Proof.
  induction l as [|k1 l IH]; intros k v d NI; [reflexivity|].
  cbn [del_all ddel].
  destruct (eqb k1 k) eqn:E.
  - apply eqb_spec in E. subst. exfalso. apply NI. left. reflexivity.
  - destruct (ddel k1 d) as [r|]; [|reflexivity].
    apply IH. intro H. apply NI. right. exact H.
Qed.

Lemma del_all_filter {V} (p : str * V -> bool) : forall d, NoDup (map fst d) ->
  del_all (map fst (filter p d)) d = Ok (filter (fun kv => negb (p kv)) d).
Proof.
  induction d as [|[k v] d IH]; intro ND; [reflexivity|].
  cbn [map fst] in ND. inversion ND as [|x xs NI ND']. subst.
  cbn [filter]. destruct (p (k, v)) eqn:P; cbn [negb].
  - cbn [map fst del_all ddel]. rewrite eqb_refl. apply IH. exact ND'.
  - rewrite del_all_cons.
    + rewrite IH by exact ND'. reflexivity.
    + intro H. apply NI. apply in_map_iff in H. destruct H as [kv [F H]].
      apply filter_In in H. apply in_map_iff. exists kv. split; [exact F|apply H].
Qed.

Definition evict_py (now : Q) (b : py_TokenBucket) : bool :=
  negb (Qle_bool (now - TokenBucket_last_update b) (inject_Z 600)) &&
  Qle_bool (TokenBucket_capacity b) (TokenBucket_tokens b + (now - TokenBucket_last_update b) * TokenBucket_refill_rate b).

Lemma cleanup_pass_eq : forall now tb,
  gen_rl_cleanup_pass now tb = del_all (map fst (filter (fun kb => evict_py now (snd kb)) tb)) tb.
Proof.
  intros. unfold gen_rl_cleanup_pass. cbv zeta.
  rewrite (map_ext _ (@fst str py_TokenBucket)) by (intros [? ?]; reflexivity).
  rewrite (filter_ext _ (fun kb => evict_py now (snd kb))) by (intros [? ?]; reflexivity).
  generalize (map fst (filter (fun kb => evict_py now (snd kb)) tb)) as l. intro l. revert tb.
  induction l as [|k l IH]; intro tb; [reflexivity|].
  cbn [del_all]. destruct (ddel k tb); [apply IH|reflexivity].
Qed.

Lemma table_keys c st : map fst (table c st) = map fst st.
Proof. unfold table. rewrite map_map. reflexivity. Qed.

Lemma filter_table c (p : py_TokenBucket -> bool) (q : bucket -> bool) st :
  (forall b, p (pyb c b) = q b) ->
  filter (fun kb => p (snd kb)) (table c st) = table c (filter (fun kb => q (snd kb)) st).
Proof.
  intro H. induction st as [|[k b] st IH]; [reflexivity|].
  cbn [table map filter fst snd]. rewrite H. destruct (q b); cbn [map fst snd]; [f_equal|]; exact IH.
Qed.

Lemma evict_py_model c now b : evict_py now (pyb c b) = evictable c now b.
Proof. reflexivity. Qed.

Lemma rl_cleanup_tie : forall c st now, NoDup (map fst st) ->
  gen_rl_cleanup_pass now (table c st) = Ok (table c (cleanup c st now)).
Proof.
  intros c st now ND. rewrite cleanup_pass_eq.
  rewrite del_all_filter by (rewrite table_keys; exact ND).
  f_equal. unfold cleanup.
  apply (filter_table c (fun b => negb (evict_py now b)) (fun b => negb (evictable c now b))).
  intro b. rewrite evict_py_model. reflexivity.
Qed.

(* distinct keys: an invariant of the model's transitions (the association list represents a dict) *)
Lemma update_keys k b st : map fst (update k b st) = if existsb (eqb k) (map fst st) then map fst st else map fst st ++ [k].
Proof.
  induction st as [|[k' w] st IH]; [reflexivity|].
  cbn [update map fst existsb]. destruct (eqb k k'); cbn [orb map fst]; [reflexivity|].
  rewrite IH. destruct (existsb (eqb k) (map fst st)); reflexivity.
Qed.

Lemma nodup_snoc (l : list str) k : NoDup l -> ~ In k l -> NoDup (l ++ [k]).
Proof.
  induction 1 as [|x l NI ND IH]; intro H; cbn [app].
  - constructor; [intros []|constructor].
  - constructor.
    + intro HI. apply in_app_or in HI. destruct HI as [HI|[HI|[]]]; [exact (NI HI)|]. subst. apply H. left. reflexivity.
    + apply IH. intro HI. apply H. right. exact HI.
Qed.

Lemma process_keeps_keys_distinct : forall c st now ip, NoDup (map fst st) -> NoDup (map fst (snd (process c st now ip))).
Proof.
  intros c st now ip ND. unfold process.
  destruct (consume c now _) as [ok b']. cbn [snd]. rewrite update_keys.
  destruct (existsb (eqb ip) (map fst st)) eqn:E; [exact ND|].
  apply nodup_snoc; [exact ND|].
  intro HI. assert (existsb (eqb ip) (map fst st) = true) as X; [|rewrite X in E; discriminate].
  apply existsb_exists. exists ip. split; [exact HI|apply eqb_refl].
Qed.

Lemma cleanup_keeps_keys_distinct : forall c st now, NoDup (map fst st) -> NoDup (map fst (cleanup c st now)).
Proof.
  intros c st now. unfold cleanup. generalize (fun kb : str * bucket => negb (evictable c now (snd kb))) as p. intro p.
  induction st as [|[k b] st IH]; intro ND; [exact ND|].
  cbn [map fst] in ND. inversion ND as [|x xs NI ND']. subst.
  cbn [filter]. destruct (p (k, b)); [|exact (IH ND')].
  cbn [map fst]. constructor; [|exact (IH ND')].
  intro HI. apply NI. apply in_map_iff in HI. destruct HI as [kv [F HI]]. apply filter_In in HI.
  apply in_map_iff. exists kv. split; [exact F|apply HI].
Qed.

(* ---------- whole histories: the generated limiter, started on its generated initial table, produces the model's log ---------- *)
Lemma rl_run_from : forall c retry h st, NoDup (map fst st) -> gen_run c retry (table c st) h = Ok (Bucket.run c st h).
Proof.
  intros c retry. induction h as [|[t ip|t] h IH]; intros st ND; [reflexivity| |].
  - cbn [gen_run Bucket.run]. rewrite rl_process_tie.
    pose proof (process_keeps_keys_distinct c st t ip ND) as ND'.
    destruct (process c st t ip) as [ok st']. cbn [snd] in ND'.
    rewrite (IH st' ND'). reflexivity.
  - cbn [gen_run Bucket.run]. rewrite rl_cleanup_tie by exact ND.
    apply IH. apply cleanup_keeps_keys_distinct. exact ND.
Qed.

Lemma rl_run_tie : forall c retry h, gen_run c retry gen_RateLimiter_buckets_init h = Ok (Bucket.run c [] h).
Proof. intros. apply (rl_run_from c retry h []). constructor. Qed.
