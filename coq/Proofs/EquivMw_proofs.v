(* Proofs of the Gen = Model lemmas stated in Equiv/EquivMw.v (Gen/MwGen.v is regenerated from /repo on every run:
   no proof below mentions a generated local name; loops are handled by induction on their list). *)
From Coq Require Import List NArith ZArith QArith Bool Lia.
From NV Require Import Prelude.Str Prelude.Res Model.Bucket Model.Ip Model.Proxy Model.ServerProto Model.Session Equiv.ServerGlue Equiv.MwGlue.
From NV Require Import Gen.MwGen.
Import ListNotations.
Open Scope list_scope.

(* ---------- helper definitions of Equiv/EquivMw.v, restated verbatim ---------- *)
Definition pyb (c : cfg) (b : bucket) : py_TokenBucket := mk_py_TokenBucket (cap c) (rate c) (tokens b) (last b).
Definition table (c : cfg) (st : Bucket.state) : list (str * py_TokenBucket) := map (fun kb => (fst kb, pyb c (snd kb))) st.
Definition refusal (retry : Z) : str :=
  lit "44 Rate limit exceeded. Retry after " ++ str_of_Z retry ++ lit " seconds" ++ [13; 10]%N.
Definition rl_answer (retry : Z) (ok : bool) : bool * option str := (ok, if ok then None else Some (refusal retry)).

Fixpoint gen_run (c : cfg) (retry : Z) (tb : list (str * py_TokenBucket)) (h : list Bucket.event) : res (list (Q * str * bool)) :=
  match h with
  | [] => Ok []
  | Bucket.Req t ip :: h' =>
      match gen_rl_process t (cap c) (rate c) retry tb [] ip None with
      | Ok (v, tb') => match gen_run c retry tb' h' with Ok l => Ok ((t, ip, fst v) :: l) | e => e end
      | Err k m => Err k m
      | OutOfModel => OutOfModel
      end
  | Bucket.Cleanup t :: h' =>
      match gen_rl_cleanup_pass t tb with
      | Ok tb' => gen_run c retry tb' h'
      | Err k m => Err k m
      | OutOfModel => OutOfModel
      end
  end.

(* ---------- dict facts ---------- *)
Lemma dget_table c k st : dget k (table c st) = option_map (pyb c) (lookup k st).
Proof.
  induction st as [|[k' b] st IH]; [reflexivity|].
  cbn [table map fst snd dget lookup]. destruct (eqb k k'); [reflexivity|exact IH].
Qed.

Lemma dset_table c k b st : dset k (pyb c b) (table c st) = table c (update k b st).
Proof.
  induction st as [|[k' b'] st IH]; [reflexivity|].
  cbn [table map fst snd dset update]. destruct (eqb k k'); [reflexivity|].
  cbn [map fst snd]. f_equal. exact IH.
Qed.

Lemma dget_dset {V} k (v : V) d : dget k (dset k v d) = Some v.
Proof.
  induction d as [|[k' v'] d IH]; cbn [dset dget]; [rewrite eqb_refl; reflexivity|].
  destruct (eqb k k') eqn:E; cbn [dget]; rewrite E; [reflexivity|exact IH].
Qed.

Lemma dset_dset {V} k (v v' : V) d : dset k v' (dset k v d) = dset k v' d.
Proof.
  induction d as [|[k' w] d IH]; cbn [dset]; [rewrite eqb_refl; reflexivity|].
  destruct (eqb k k') eqn:E; cbn [dset]; rewrite E; [reflexivity|f_equal; exact IH].
Qed.

Lemma update_update k (b b' : bucket) st : update k b' (update k b st) = update k b' st.
Proof.
  induction st as [|[k' w] st IH]; cbn [update]; [rewrite eqb_refl; reflexivity|].
  destruct (eqb k k') eqn:E; cbn [update]; rewrite E; [reflexivity|f_equal; exact IH].
Qed.

Lemma lookup_update k b st : lookup k (update k b st) = Some b.
Proof.
  induction st as [|[k' w] st IH]; cbn [update lookup]; [rewrite eqb_refl; reflexivity|].
  destruct (eqb k k') eqn:E; cbn [lookup]; rewrite E; [reflexivity|exact IH].
Qed.

(* ---------- TokenBucket ---------- *)
Lemma tb_init_tie : forall c now, gen_TokenBucket_init now (cap c) (rate c) = pyb c {| tokens := cap c; last := now |}.
Proof. reflexivity. Qed.

Lemma tb_consume_tie : forall c now b,
  gen_TokenBucket_consume now (pyb c b) (inject_Z 1) = let (ok, b') := consume c now b in (ok, pyb c b').
Proof.
  intros. unfold gen_TokenBucket_consume, consume, refill, pyb.
  cbn [TokenBucket_capacity TokenBucket_refill_rate TokenBucket_tokens TokenBucket_last_update tokens last].
  change (inject_Z 1) with 1%Q.
  destruct (Qle_bool _ _); reflexivity.
Qed.

(* ---------- RateLimiter.process_request ---------- *)
Lemma rl_process_tie : forall c retry st now url ip fp,
  gen_rl_process now (cap c) (rate c) retry (table c st) url ip fp =
  Ok (let (ok, st') := process c st now ip in (rl_answer retry ok, table c st')).
Proof.
  intros. unfold gen_rl_process, process, dmem.
  rewrite dget_table.
  destruct (lookup ip st) as [b|] eqn:L; cbn [option_map negb].
  -
    rewrite tb_consume_tie. destruct (consume c now b) as [ok b'].
    rewrite dset_table. destruct ok; reflexivity.
  - rewrite tb_init_tie, dget_dset.
    rewrite tb_consume_tie. destruct (consume c now _) as [ok b'].
    rewrite dset_dset, dset_table. destruct ok; reflexivity.
Qed.

(* ---------- the clean-up pass ---------- *)
(* `for ip in to_remove: del self.buckets[ip]` *)
Fixpoint del_all {V} (l : list str) (d : list (str * V)) : res (list (str * V)) :=
  match l with
  | [] => Ok d
  | k :: l' => match ddel k d with Some d' => del_all l' d' | None => Err (lit "KeyError") [] end
  end.

Lemma del_all_cons {V} l : forall k (v : V) d, ~ In k l ->
  del_all l ((k, v) :: d) = match del_all l d with Ok r => Ok ((k, v) :: r) | e => e end.
Proof.
  induction l as [|k1 l IH]; intros k v d NI; [reflexivity|].
  cbn [del_all ddel].
  destruct (eqb k1 k) eqn:E.
  - apply eqb_spec in E. subst. exfalso. apply NI. left. reflexivity.
  - destruct (ddel k1 d) as [r|]; [|reflexivity].
    apply IH. intro H. apply NI. right. exact H.
Qed.

Lemma del_all_filter {V} (p : str * V -> bool) : forall d, NoDup (map fst d) ->
  del_all (map fst (filter p d)) d = Ok (filter (fun kv => negb (p kv)) d).
Proof.
  induction d as [|[k v] d IH]; intro ND; [reflexivity|].
  cbn [map fst] in ND. inversion ND as [|x xs NI ND']. subst.
  cbn [filter]. destruct (p (k, v)) eqn:P; cbn [negb].
  - cbn [map fst del_all ddel]. rewrite eqb_refl. apply IH. exact ND'.
  - rewrite del_all_cons.
    + rewrite IH by exact ND'. reflexivity.
    + intro H. apply NI. apply in_map_iff in H. destruct H as [kv [F H]].
      apply filter_In in H. apply in_map_iff. exists kv. split; [exact F|apply H].
Qed.

Definition evict_py (now : Q) (b : py_TokenBucket) : bool :=
  negb (Qle_bool (now - TokenBucket_last_update b) (inject_Z 600)) &&
  Qle_bool (TokenBucket_capacity b) (TokenBucket_tokens b + (now - TokenBucket_last_update b) * TokenBucket_refill_rate b).

Lemma cleanup_pass_eq : forall now tb,
  gen_rl_cleanup_pass now tb = del_all (map fst (filter (fun kb => evict_py now (snd kb)) tb)) tb.
Proof.
  intros. unfold gen_rl_cleanup_pass. cbv zeta.
  rewrite (map_ext _ (@fst str py_TokenBucket)) by (intros [? ?]; reflexivity).
  rewrite (filter_ext _ (fun kb => evict_py now (snd kb))) by (intros [? ?]; reflexivity).
  generalize (map fst (filter (fun kb => evict_py now (snd kb)) tb)) as l. intro l. revert tb.
  induction l as [|k l IH]; intro tb; [reflexivity|].
  cbn [del_all]. destruct (ddel k tb); [apply IH|reflexivity].
Qed.

Lemma table_keys c st : map fst (table c st) = map fst st.
Proof. unfold table. rewrite map_map. reflexivity. Qed.

Lemma filter_table c (p : py_TokenBucket -> bool) (q : bucket -> bool) st :
  (forall b, p (pyb c b) = q b) ->
  filter (fun kb => p (snd kb)) (table c st) = table c (filter (fun kb => q (snd kb)) st).
Proof.
  intro H. induction st as [|[k b] st IH]; [reflexivity|].
  cbn [table map filter fst snd]. rewrite H. destruct (q b); cbn [map fst snd]; [f_equal|]; exact IH.
Qed.

Lemma evict_py_model c now b : evict_py now (pyb c b) = evictable c now b.
Proof. reflexivity. Qed.

Lemma rl_cleanup_tie : forall c st now, NoDup (map fst st) ->
  gen_rl_cleanup_pass now (table c st) = Ok (table c (cleanup c st now)).
Proof.
  intros c st now ND. rewrite cleanup_pass_eq.
  rewrite del_all_filter by (rewrite table_keys; exact ND).
  f_equal. unfold cleanup.
  apply (filter_table c (fun b => negb (evict_py now b)) (fun b => negb (evictable c now b))).
  intro b. rewrite evict_py_model. reflexivity.
Qed.

(* distinct keys: an invariant of the model's transitions (the association list represents a dict) *)
Lemma update_keys k b st : map fst (update k b st) = if existsb (eqb k) (map fst st) then map fst st else map fst st ++ [k].
Proof.
  induction st as [|[k' w] st IH]; [reflexivity|].
  cbn [update map fst existsb]. destruct (eqb k k'); cbn [orb map fst]; [reflexivity|].
  rewrite IH. destruct (existsb (eqb k) (map fst st)); reflexivity.
Qed.

Lemma nodup_snoc (l : list str) k : NoDup l -> ~ In k l -> NoDup (l ++ [k]).
Proof.
  induction 1 as [|x l NI ND IH]; intro H; cbn [app].
  - constructor; [intros []|constructor].
  - constructor.
    + intro HI. apply in_app_or in HI. destruct HI as [HI|[HI|[]]]; [exact (NI HI)|]. subst. apply H. left. reflexivity.
    + apply IH. intro HI. apply H. right. exact HI.
Qed.

Lemma process_keeps_keys_distinct : forall c st now ip, NoDup (map fst st) -> NoDup (map fst (snd (process c st now ip))).
Proof.
  intros c st now ip ND. unfold process.
  destruct (consume c now _) as [ok b']. cbn [snd]. rewrite update_keys.
  destruct (existsb (eqb ip) (map fst st)) eqn:E; [exact ND|].
  apply nodup_snoc; [exact ND|].
  intro HI. assert (existsb (eqb ip) (map fst st) = true) as X; [|rewrite X in E; discriminate].
  apply existsb_exists. exists ip. split; [exact HI|apply eqb_refl].
Qed.

Lemma cleanup_keeps_keys_distinct : forall c st now, NoDup (map fst st) -> NoDup (map fst (cleanup c st now)).
Proof.
  intros c st now. unfold cleanup. generalize (fun kb : str * bucket => negb (evictable c now (snd kb))) as p. intro p.
  induction st as [|[k b] st IH]; intro ND; [exact ND|].
  cbn [map fst] in ND. inversion ND as [|x xs NI ND']. subst.
  cbn [filter]. destruct (p (k, b)); [|exact (IH ND')].
  cbn [map fst]. constructor; [|exact (IH ND')].
  intro HI. apply NI. apply in_map_iff in HI. destruct HI as [kv [F HI]]. apply filter_In in HI.
  apply in_map_iff. exists kv. split; [exact F|apply HI].
Qed.

(* ---------- whole histories: the generated limiter, started on its generated initial table, produces the model's log ---------- *)
Lemma rl_run_from : forall c retry h st, NoDup (map fst st) -> gen_run c retry (table c st) h = Ok (Bucket.run c st h).
Proof.
  intros c retry. induction h as [|[t ip|t] h IH]; intros st ND; [reflexivity| |].
  - cbn [gen_run Bucket.run]. rewrite rl_process_tie.
    pose proof (process_keeps_keys_distinct c st t ip ND) as ND'.
    destruct (process c st t ip) as [ok st']. cbn [snd] in ND'.
    rewrite (IH st' ND'). reflexivity.
  - cbn [gen_run Bucket.run]. rewrite rl_cleanup_tie by exact ND.
    apply IH. apply cleanup_keeps_keys_distinct. exact ND.
Qed.

Lemma rl_run_tie : forall c retry h, gen_run c retry gen_RateLimiter_buckets_init h = Ok (Bucket.run c [] h).
Proof. intros. apply (rl_run_from c retry h []). constructor. Qed.

(* ---------- AccessControl ---------- *)
Definition ac_init_spec (ipnet : str -> option net) (al dl : option (list str)) : res (list net * list net) :=
  match parse_entries ipnet (olist al), parse_entries ipnet (olist dl) with
  | Some a, Some d => Ok (a, d)
  | _, _ => Err (lit "ValueError") []
  end.

Definition denied_line : str := lit "53 Access denied" ++ [13; 10]%N.
Definition ac_answer (ok : bool) : bool * option str := if ok then (true, None) else (false, Some denied_line).

(* a loop that appends the network of each entry (three attempts) to an accumulator, characterised by its two equations *)
Lemma entry_loop_spec {R : Type} (ipnet : str -> option net) (F : list str -> list net -> R) (k : list net -> R) (err : R) :
  (forall acc, F [] acc = k acc) ->
  (forall s l acc, F (s :: l) acc =
     match ipnet s with Some v => F l (acc ++ [v]) | None =>
     match ipnet (s ++ lit "/32") with Some v => F l (acc ++ [v]) | None =>
     match ipnet (s ++ lit "/128") with Some v => F l (acc ++ [v]) | None => err end end end) ->
  forall l acc, F l acc = match parse_entries ipnet l with Some ns => k (acc ++ ns) | None => err end.
Proof.
  intros B S l. induction l as [|s l IH]; intro acc.
  - rewrite B. cbn [parse_entries]. rewrite app_nil_r. reflexivity.
  - rewrite S. cbn [parse_entries]. unfold parse_entry.
    destruct (ipnet s) as [?|];
      [| destruct (ipnet (s ++ lit "/32")) as [?|]; [| destruct (ipnet (s ++ lit "/128")) as [?|]; [|reflexivity]]];
      rewrite IH; destruct (parse_entries ipnet l); try reflexivity; rewrite <- app_assoc; reflexivity.
Qed.

Ltac attempts ipnet := repeat match goal with |- context [match ipnet ?s with _ => _ end] => destruct (ipnet s) end.

(* goal: <the deny-list part of __init__, allow networks A already built> = match parse_entries (olist dl) ... *)
Ltac solve_deny ipnet dl A :=
  let d := fresh "d" in let dl' := fresh "dl" in
  destruct dl as [[|d dl']|]; cbn [olist parse_entries]; try reflexivity;
  unfold parse_entry; attempts ipnet; try reflexivity;
  match goal with |- ?F dl' ?acc = _ =>
    rewrite (entry_loop_spec ipnet F (fun x => Ok (A, x)) (Err (lit "ValueError") [])) by (intros; reflexivity)
  end;
  destruct (parse_entries ipnet dl'); reflexivity.

Lemma ac_init_tie : forall ipnet al dl, gen_ac_init ipnet al dl = ac_init_spec ipnet al dl.
Proof.
  intros ipnet al dl. unfold gen_ac_init, ac_init_spec. cbv zeta.
  destruct al as [[|a al']|]; cbn [olist parse_entries].
  - solve_deny ipnet dl (@nil net).
  - unfold parse_entry; attempts ipnet; try reflexivity.
    all: match goal with |- ?F ?l ?acc = _ =>
           rewrite (entry_loop_spec ipnet F
                      (fun A => match parse_entries ipnet (olist dl) with Some d => Ok (A, d) | None => Err (lit "ValueError") [] end)
                      (Err (lit "ValueError") []));
           [ destruct (parse_entries ipnet l); reflexivity
           | let A := fresh "A" in intro A; solve_deny ipnet dl A
           | intros; reflexivity ]
         end.
  - solve_deny ipnet dl (@nil net).
Qed.

Lemma ac_is_allowed_tie : forall ipaddr dn al dflt ip,
  gen_ac_is_allowed ipaddr dn al dflt ip = is_allowed {| allow := al; deny := dn; default_allow := dflt |} (ipaddr ip).
Proof.
  intros. unfold gen_ac_is_allowed, is_allowed. cbn [allow deny default_allow].
  destruct (ipaddr ip) as [x|]; [|reflexivity].
  induction dn as [|n dn IH]; cbn [existsb].
  - destruct al as [|a al]; [reflexivity|].
    cbn [existsb]. revert a.
    induction al as [|m al IHl]; intro a; cbn [existsb];
      (destruct (contains a x); cbn [orb]; [reflexivity|]); [reflexivity|apply IHl].
  - destruct (contains n x); [reflexivity|exact IH].
Qed.

Lemma ac_process_tie : forall ipaddr dn al dflt url ip fp,
  gen_ac_process ipaddr dn al dflt url ip fp =
  ac_answer (is_allowed {| allow := al; deny := dn; default_allow := dflt |} (ipaddr ip)).
Proof.
  intros. unfold gen_ac_process. rewrite ac_is_allowed_tie.
  destruct (is_allowed _ _); reflexivity.
Qed.

(* __init__ followed by process_request = the model's decision of the running server (Model.Ip.server_admits) *)
Lemma ac_server_tie : forall ipnet ipaddr s url ip fp,
  wants_component s = true ->
  match gen_ac_init ipnet (sc_allow s) (sc_deny s) with
  | Ok (a, d) => Some (fst (gen_ac_process ipaddr d a (sc_default s) url ip fp))
  | _ => None
  end = server_admits ipnet s (ipaddr ip).
Proof.
  intros ipnet ipaddr s url ip fp W. unfold server_admits, build. rewrite W, ac_init_tie. unfold ac_init_spec.
  destruct (parse_entries ipnet (olist (sc_allow s))) as [a|]; [|reflexivity].
  destruct (parse_entries ipnet (olist (sc_deny s))) as [d|]; [|reflexivity].
  rewrite ac_process_tie. destruct (is_allowed _ _); reflexivity.
Qed.

(* ---------- Router ---------- *)
Definition py_route_of {REQ RX : Type} (r : Proxy.route (REQ -> resp)) : py_Route REQ RX :=
  mk_py_Route (rt_pattern r) (rt_handler r)
              (match rt_type r with RExact => RouteType_EXACT | RPrefix => RouteType_PREFIX end) None.

Definition not_found : resp := {| rs_status := 51; rs_meta := lit "Not found"; rs_body := BNone |}.

Definition py_matches {REQ RX : Type} (rxm : RX -> str -> option unit) (path : str) (r : py_Route REQ RX) : bool :=
  match Route_route_type r with
  | RouteType_EXACT => eqb path (Route_pattern r)
  | RouteType_PREFIX => prefixb (Route_pattern r) path
  | RouteType_REGEX => match Route_compiled_regex r with
                       | Some x => match rxm x path with Some _ => true | None => false end
                       | None => false
                       end
  end.

Definition or_default {REQ : Type} (dflt : option (REQ -> resp)) (request : REQ) : resp :=
  match dflt with Some h => h request | None => not_found end.

Lemma router_matches_tie : forall REQ RX rxm path (r : py_Route REQ RX),
  gen_router_matches REQ RX rxm path r = py_matches rxm path r.
Proof.
  intros. unfold gen_router_matches, py_matches.
  destruct (Route_route_type r); cbn [py_RouteType_eqb]; [reflexivity|reflexivity|].
  destruct (Route_compiled_regex r) as [x|]; [|reflexivity]. destruct (rxm x path); reflexivity.
Qed.

Lemma router_route_first_match : forall REQ RX req_path rxm (routes : list (py_Route REQ RX)) dflt request,
  gen_router_route REQ RX req_path rxm routes dflt request =
  match find (py_matches rxm (req_path request)) routes with
  | Some r => Route_handler r request
  | None => or_default dflt request
  end.
Proof.
  intros. unfold gen_router_route. cbv zeta.
  induction routes as [|r routes IH]; cbn [find].
  - destruct dflt; reflexivity.
  - rewrite router_matches_tie. destruct (py_matches rxm (req_path request) r); [reflexivity|exact IH].
Qed.

Lemma router_route_tie : forall REQ RX req_path rxm (routes : list (Proxy.route (REQ -> resp))) dflt request,
  gen_router_route REQ RX req_path rxm (map py_route_of routes) dflt request =
  match Proxy.route_to routes (req_path request) with
  | Some h => h request
  | None => or_default dflt request
  end.
Proof.
  intros. rewrite router_route_first_match.
  induction routes as [|r routes IH]; [reflexivity|].
  cbn [map find Proxy.route_to]. 
  replace (py_matches rxm (req_path request) (py_route_of r)) with (Proxy.matches (req_path request) r)
    by (unfold py_matches, Proxy.matches, py_route_of; cbn [Route_route_type Route_pattern]; destruct (rt_type r); reflexivity).
  destruct (Proxy.matches (req_path request) r); [reflexivity|exact IH].
Qed.

(* Router.add_route *)
Definition add_route_spec {REQ RX : Type} (rc : str -> option RX) (routes : list (py_Route REQ RX)) (pattern : str)
                          (handler : REQ -> resp) (ty : py_RouteType) : res (list (py_Route REQ RX)) :=
  match ty with
  | RouteType_REGEX => match rc pattern with
                       | Some x => Ok (routes ++ [mk_py_Route pattern handler ty (Some x)])
                       | None => Err (lit "ValueError") []
                       end
  | _ => Ok (routes ++ [mk_py_Route pattern handler ty None])
  end.

Lemma router_add_route_tie : forall REQ RX rc (routes : list (py_Route REQ RX)) pattern handler ty,
  gen_router_add_route REQ RX rc routes pattern handler ty = add_route_spec rc routes pattern handler ty.
Proof.
  intros. unfold gen_router_add_route, add_route_spec.
  destruct ty; cbn [py_RouteType_eqb]; try reflexivity; destruct (rc pattern); reflexivity.
Qed.

Lemma router_add_model_route : forall REQ RX rc (routes : list (Proxy.route (REQ -> resp))) (r : Proxy.route (REQ -> resp)),
  gen_router_add_route REQ RX rc (map py_route_of routes) (rt_pattern r) (rt_handler r)
                       (match rt_type r with RExact => RouteType_EXACT | RPrefix => RouteType_PREFIX end) =
  Ok (map py_route_of (routes ++ [r])).
Proof.
  intros. rewrite router_add_route_tie, map_app. unfold add_route_spec, py_route_of. cbn [map].
  destruct (rt_type r); reflexivity.
Qed.

(* ---------- proxy relay ---------- *)
Definition relay_spec (r : callres resp) : resp :=
  match r with
  | CRet x => x
  | CExc KTimeoutError _ => {| rs_status := 43; rs_meta := lit "Upstream timeout"; rs_body := BNone |}
  | CExc KConnectionError m => {| rs_status := 43; rs_meta := lit "Upstream connection failed: " ++ m; rs_body := BNone |}
  | CExc KOtherException m => {| rs_status := 43; rs_meta := lit "Proxy error: " ++ m; rs_body := BNone |}
  end.

Lemma proxy_relay_tie : forall (get : str -> callres resp) url, gen_proxy_relay get url = relay_spec (get url).
Proof.
  intros. unfold gen_proxy_relay, relay_spec. destruct (get url) as [x|[| |] m]; reflexivity.
Qed.

(* the model's upstream behaviours, as the outcome of the client call the relay code sees *)
Definition upstream_call (msg : str) (cap : N) (u : upstream) : callres resp :=
  match u with
  | UConnectFail => CExc KConnectionError msg
  | UTimeout => CExc KTimeoutError msg
  | UStream b exc =>
      match Spec.C13.spec_result false cap (fun _ _ => None) b exc with
      | ClientProto.ROk r => CRet {| rs_status := Z.of_N (ClientProto.cr_status r); rs_meta := ClientProto.cr_meta r;
                         rs_body := match ClientProto.cr_body r with ClientProto.CBytes x => BBytes x | ClientProto.CText x => BText x | ClientProto.CNone => BNone end |}
      | ClientProto.RErr k => CExc KOtherException k
      end
  end.

Lemma proxy_relay_model_partial : forall msg cap u url,
  let g := gen_proxy_relay (fun _ => upstream_call msg cap u) url in
  let m := proxy_response cap u in
  rs_status g = rs_status m /\ rs_body g = rs_body m /\ prefixb (rs_meta m) (rs_meta g) = true /\
  (u <> UConnectFail -> g = m).
Proof.
  intros msg cap u url. cbv zeta. rewrite proxy_relay_tie.
  destruct u as [b exc| |]; unfold upstream_call, proxy_response.
  - destruct (Spec.C13.spec_result false cap (fun _ _ => None) b exc) as [r|k]; cbn [relay_spec rs_status rs_body rs_meta];
      (split; [reflexivity|split; [reflexivity|split; [|reflexivity]]]).
    + clear. induction (ClientProto.cr_meta r) as [|c s IH]; [reflexivity|]. cbn [prefixb]. rewrite N.eqb_refl. exact IH.
    + clear. induction (lit "Proxy error: " ++ k) as [|c s IH]; [reflexivity|]. cbn [prefixb]. rewrite N.eqb_refl. exact IH.
  - cbn [relay_spec rs_status rs_body rs_meta]. split; [reflexivity|split; [reflexivity|split]].
    + change (lit "Upstream connection failed: ") with (lit "Upstream connection failed" ++ lit ": ").
      rewrite <- app_assoc. apply prefixb_app.
    + intro H. exfalso. apply H. reflexivity.
  - cbn [relay_spec rs_status rs_body rs_meta]. repeat split; reflexivity.
Qed.

(* the exact equality fails for a failed connection: the model's text has no detail *)
Lemma proxy_relay_model_counterexample :
  gen_proxy_relay (fun _ => upstream_call (lit "x") 0 UConnectFail) [] <> proxy_response 0 UConnectFail.
Proof. vm_compute. discriminate. Qed.

(* ---------- why rl_cleanup_tie needs distinct keys: an association list that is not a dict ---------- *)
Lemma rl_cleanup_needs_distinct_keys :
  let c := {| cap := 1; rate := 1 |} in
  let st := [(lit "a", {| tokens := 0; last := 999 |}); (lit "a", {| tokens := 1; last := 0 |})] in
  gen_rl_cleanup_pass 1000 (table c st) <> Ok (table c (cleanup c st 1000)).
Proof. vm_compute. discriminate. Qed.
