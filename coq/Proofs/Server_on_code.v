(* The server-side property lemmas of Proofs/Server_proofs.v (Props/C01.v, C04.v, C07.v, C15.v), transferred from the
   model's run / final / step / data_received to the transition function assembled from the translated methods of
   GeminiServerProtocol (Equiv/ServerLoop.v over Gen/ServerGen.v): gen_run / gen_final / gen_step / cl_data_received.

   Each statement is the one of Server_proofs.v with the code-derived function in place of the model's, under the
   one assumed fact about CPython's lenient UTF-8 decoder (Equiv/EquivServerLoop.v: reenc_ok, here unfolded).
   Each proof: rewrite with the ties of Proofs/ServerLoop_proofs.v, then the lemma of Server_proofs.v. *)
From Coq Require Import List NArith ZArith Bool.
From NV Require Import Prelude.Str Prelude.Res Prelude.Utf8 Model.Url Model.Titan Model.ServerProto Spec.ServerTrace.
From NV Require Import Equiv.ServerGlue Gen.ServerGen Equiv.ServerLoop.
From NV Require Spec.C01 Spec.C04 Spec.C07 Spec.C15.
From NV Require Proofs.Server_proofs Proofs.ServerLoop_proofs.
Import ListNotations.

Ltac to_model H :=
  cbv zeta;
  rewrite ?(ServerLoop_proofs.gen_run_tie _ H), ?(ServerLoop_proofs.gen_final_tie _ H),
          ?(ServerLoop_proofs.gen_step_tie _ H), ?(ServerLoop_proofs.cl_data_received_tie _ H).

(* ---------------- C07 ---------------- *)
Lemma at_most_once_on_code : forall reenc : str -> str,
  (forall m, (1024 < N.of_nat (length (encode_replace m)))%N ->
             reenc (take 1024 (encode_replace m)) = encode_replace_upto 1024 m) ->
  forall ip6 handler mw up ucf ip fp evs,
  Spec.C07.at_most_once (gen_run reenc ip6 handler mw up ucf ip fp init evs) = true.
Proof. intros reenc H ip6 handler mw up ucf ip fp evs. to_model H. apply Server_proofs.at_most_once. Qed.

Lemma trailing_ignored_on_code : forall reenc : str -> str,
  (forall m, (1024 < N.of_nat (length (encode_replace m)))%N ->
             reenc (take 1024 (encode_replace m)) = encode_replace_upto 1024 m) ->
  forall ip6 handler mw up ucf ip fp s d,
  line_rcvd s = true -> await_titan s = false ->
  cl_data_received reenc ip6 handler mw up (upcall_of ucf) ip fp s d = (set_buf s (buf s ++ d) true, []).
Proof.
  intros reenc H ip6 handler mw up ucf ip fp s d L A. to_model H. apply Server_proofs.trailing_ignored; assumption.
Qed.

Lemma refines_on_code : forall reenc : str -> str,
  (forall m, (1024 < N.of_nat (length (encode_replace m)))%N ->
             reenc (take 1024 (encode_replace m)) = encode_replace_upto 1024 m) ->
  forall ip6 handler mw up ucf ip fp (reads : list (list str)),
  flat (gen_run reenc ip6 handler mw up ucf ip fp init (map ERead reads)) =
  flat (gen_run reenc ip6 handler mw up ucf ip fp init [ERead [concat (concat reads)]]).
Proof. intros reenc H ip6 handler mw up ucf ip fp reads. to_model H. apply Server_proofs.refines. Qed.

(* ---------------- C01 ---------------- *)
Lemma single_response_on_code : forall reenc : str -> str,
  (forall m, (1024 < N.of_nat (length (encode_replace m)))%N ->
             reenc (take 1024 (encode_replace m)) = encode_replace_upto 1024 m) ->
  forall ip6 handler mw up ucf ip fp evs,
  Spec.C01.clause_single (gen_run reenc ip6 handler mw up ucf ip fp init evs) = true.
Proof. intros reenc H ip6 handler mw up ucf ip fp evs. to_model H. apply Server_proofs.single_response. Qed.

Lemma shape_on_code : forall reenc : str -> str,
  (forall m, (1024 < N.of_nat (length (encode_replace m)))%N ->
             reenc (take 1024 (encode_replace m)) = encode_replace_upto 1024 m) ->
  forall ip6 handler mw up ucf ip fp evs,
  Spec.C01.clause_shape (gen_run reenc ip6 handler mw up ucf ip fp init evs) = true.
Proof. intros reenc H ip6 handler mw up ucf ip fp evs. to_model H. apply Server_proofs.shape. Qed.

Lemma faithful_on_code : forall reenc : str -> str,
  (forall m, (1024 < N.of_nat (length (encode_replace m)))%N ->
             reenc (take 1024 (encode_replace m)) = encode_replace_upto 1024 m) ->
  forall ip6 c evs,
  Spec.C01.clause_faithful c evs
    (gen_run reenc ip6 (fun _ => c_hres c) (c_mw c) (c_upload c) (c_upfail c) (c_ip c) (c_fp c) init evs) = true.
Proof. intros reenc H ip6 c evs. to_model H. apply Server_proofs.faithful. Qed.

Lemma silent_after_lost_on_code : forall reenc : str -> str,
  (forall m, (1024 < N.of_nat (length (encode_replace m)))%N ->
             reenc (take 1024 (encode_replace m)) = encode_replace_upto 1024 m) ->
  forall ip6 handler mw up ucf ip fp evs,
  Spec.C01.clause_silent_after_lost evs (gen_run reenc ip6 handler mw up ucf ip fp init evs) false = true.
Proof. intros reenc H ip6 handler mw up ucf ip fp evs. to_model H. apply Server_proofs.silent_after_lost. Qed.

Lemma obligation_partial_on_code : forall reenc : str -> str,
  (forall m, (1024 < N.of_nat (length (encode_replace m)))%N ->
             reenc (take 1024 (encode_replace m)) = encode_replace_upto 1024 m) ->
  forall ip6 c evs,
  existsb (fun a => match a with AOutOfModel => true | _ => false end)
          (flat (gen_run reenc ip6 (fun _ => c_hres c) (c_mw c) (c_upload c) (c_upfail c) (c_ip c) (c_fp c) init evs)) = false ->
  Spec.C01.clause_obligation ip6 c evs
    (gen_run reenc ip6 (fun _ => c_hres c) (c_mw c) (c_upload c) (c_upfail c) (c_ip c) (c_fp c) init evs) = true.
Proof. intros reenc H ip6 c evs. to_model H. apply Server_proofs.obligation_partial. Qed.

(* ---------------- C04 ---------------- *)
Lemma gate_on_code : forall reenc : str -> str,
  (forall m, (1024 < N.of_nat (length (encode_replace m)))%N ->
             reenc (take 1024 (encode_replace m)) = encode_replace_upto 1024 m) ->
  forall ip6 c evs,
  Spec.C04.gate c (Spec.C04.expected_url ip6 (stream evs)) evs
    (gen_run reenc ip6 (fun _ => c_hres c) (c_mw c) (c_upload c) (c_upfail c) (c_ip c) (c_fp c) init evs) [] false = true.
Proof. intros reenc H ip6 c evs. to_model H. apply Server_proofs.gate. Qed.

Lemma no_invocation_without_allow_on_code : forall reenc : str -> str,
  (forall m, (1024 < N.of_nat (length (encode_replace m)))%N ->
             reenc (take 1024 (encode_replace m)) = encode_replace_upto 1024 m) ->
  forall ip6 handler up ucf ip fp evs,
  (forall i t, ~ In (EDone i (OMw true t)) evs) ->
  existsb is_invocation (flat (gen_run reenc ip6 handler true up ucf ip fp init evs)) = false.
Proof.
  intros reenc H ip6 handler up ucf ip fp evs. to_model H. apply Server_proofs.no_invocation_without_allow.
Qed.

Lemma refusal_on_code : forall reenc : str -> str,
  (forall m, (1024 < N.of_nat (length (encode_replace m)))%N ->
             reenc (take 1024 (encode_replace m)) = encode_replace_upto 1024 m) ->
  forall ip6 c evs, c_mw c = true ->
  valid_reads evs (gen_run reenc ip6 (fun _ => c_hres c) (c_mw c) (c_upload c) (c_upfail c) (c_ip c) (c_fp c) init evs) false = true ->
  Spec.C04.refusal c evs
    (gen_run reenc ip6 (fun _ => c_hres c) (c_mw c) (c_upload c) (c_upfail c) (c_ip c) (c_fp c) init evs) = true.
Proof. intros reenc H ip6 c evs. to_model H. apply Server_proofs.refusal. Qed.

(* ---------------- C15 ---------------- *)
Lemma not_armed_while_answering_on_code : forall reenc : str -> str,
  (forall m, (1024 < N.of_nat (length (encode_replace m)))%N ->
             reenc (take 1024 (encode_replace m)) = encode_replace_upto 1024 m) ->
  forall ip6 handler mw up ucf ip fp evs,
  let s := gen_final reenc ip6 handler mw up ucf ip fp init evs in
  pending s <> [] -> timer s <> TArmed.
Proof.
  intros reenc H ip6 handler mw up ucf ip fp evs. to_model H.
  exact (Server_proofs.not_armed_while_answering ip6 handler mw up ucf ip fp evs).
Qed.

Lemma timeout_response_on_code : forall reenc : str -> str,
  (forall m, (1024 < N.of_nat (length (encode_replace m)))%N ->
             reenc (take 1024 (encode_replace m)) = encode_replace_upto 1024 m) ->
  forall ip6 handler mw up ucf ip fp evs,
  let s := gen_final reenc ip6 handler mw up ucf ip fp init evs in
  timer s = TArmed -> sent s = false ->
  snd (gen_step reenc ip6 handler mw up ucf ip fp s ETimer) = [AWrite timeout_line; AClose].
Proof.
  intros reenc H ip6 handler mw up ucf ip fp evs. to_model H.
  exact (Server_proofs.timeout_response ip6 handler mw up ucf ip fp evs).
Qed.

Lemma no_stuck_partial_on_code : forall reenc : str -> str,
  (forall m, (1024 < N.of_nat (length (encode_replace m)))%N ->
             reenc (take 1024 (encode_replace m)) = encode_replace_upto 1024 m) ->
  forall ip6 handler mw up ucf ip fp evs,
  has_lost evs = false ->
  existsb (fun a => match a with AOutOfModel => true | _ => false end)
          (flat (gen_run reenc ip6 handler mw up ucf ip fp init evs)) = false ->
  let s := gen_final reenc ip6 handler mw up ucf ip fp init evs in
  closing s = true \/ timer s = TArmed \/ pending s <> [].
Proof.
  intros reenc H ip6 handler mw up ucf ip fp evs. to_model H.
  exact (Server_proofs.no_stuck_partial ip6 handler mw up ucf ip fp evs).
Qed.

Lemma c15_ok_partial_on_code : forall reenc : str -> str,
  (forall m, (1024 < N.of_nat (length (encode_replace m)))%N ->
             reenc (take 1024 (encode_replace m)) = encode_replace_upto 1024 m) ->
  forall ip6 handler mw up ucf ip fp evs,
  existsb (fun a => match a with AOutOfModel => true | _ => false end)
          (flat (gen_run reenc ip6 handler mw up ucf ip fp init evs)) = false ->
  Spec.C15.ok evs (gen_run reenc ip6 handler mw up ucf ip fp init evs) = true.
Proof. intros reenc H ip6 handler mw up ucf ip fp evs. to_model H. apply Server_proofs.c15_ok_partial. Qed.

Print Assumptions at_most_once_on_code.
Print Assumptions trailing_ignored_on_code.
Print Assumptions refines_on_code.
Print Assumptions faithful_on_code.
Print Assumptions obligation_partial_on_code.
Print Assumptions gate_on_code.
Print Assumptions refusal_on_code.
Print Assumptions timeout_response_on_code.
Print Assumptions no_stuck_partial_on_code.
Print Assumptions c15_ok_partial_on_code.
