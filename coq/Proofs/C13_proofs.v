(* C13 - proofs of the client-call theorems (Props/C13.v). *)
From Coq Require Import List NArith ZArith Bool Lia ZifyBool ZifyN ZifyNat.
From NV Require Import Prelude.Str Prelude.Res Prelude.Utf8 Model.Titan Model.ClientProto.
From NV Require Spec.C13.
Import ListNotations.
Open Scope N_scope.

(* ====================================================================== *)
(* break_crlf on a growing buffer                                          *)
(* ====================================================================== *)

Lemma bc_cons2 x y s :
  break_crlf (x :: y :: s) =
  if (x =? 13) && (y =? 10) then Some ([], s)
  else match break_crlf (y :: s) with Some (a, b) => Some (x :: a, b) | None => None end.
Proof. reflexivity. Qed.

Lemma bc_app_some : forall P l b d,
  break_crlf P = Some (l, b) -> break_crlf (P ++ d) = Some (l, b ++ d).
Proof.
  induction P as [|x P IH]; intros l b d H; [discriminate|].
  destruct P as [|y P]; [discriminate|].
  change ((x :: y :: P) ++ d) with (x :: y :: (P ++ d)).
  rewrite bc_cons2 in *.
  destruct ((x =? 13) && (y =? 10)).
  - inversion H; reflexivity.
  - destruct (break_crlf (y :: P)) as [[a b']|] eqn:E; [|discriminate].
    inversion H; subst.
    change (y :: P ++ d) with ((y :: P) ++ d). rewrite (IH a b d eq_refl). reflexivity.
Qed.

Lemma bc_some_eq : forall s l b, break_crlf s = Some (l, b) -> s = l ++ 13 :: 10 :: b.
Proof.
  induction s as [|x s IH]; intros l b H; [discriminate|].
  destruct s as [|y s]; [discriminate|].
  rewrite bc_cons2 in H.
  destruct ((x =? 13) && (y =? 10)) eqn:E.
  - inversion H; subst. apply andb_true_iff in E as [E1 E2].
    apply N.eqb_eq in E1, E2. subst. reflexivity.
  - destruct (break_crlf (y :: s)) as [[a b']|] eqn:E2; [|discriminate].
    inversion H; subst. rewrite (IH a b eq_refl). reflexivity.
Qed.

Lemma bc_has : forall l x, break_crlf (l ++ 13 :: 10 :: x) <> None.
Proof.
  induction l as [|a l IH]; intros x; [discriminate|].
  specialize (IH x).
  change ((a :: l) ++ 13 :: 10 :: x) with (a :: (l ++ 13 :: 10 :: x)).
  destruct (l ++ 13 :: 10 :: x) as [|y t] eqn:E; [destruct l; discriminate|].
  rewrite bc_cons2. destruct ((a =? 13) && (y =? 10)); [discriminate|].
  destruct (break_crlf (y :: t)) as [[p q]|]; [discriminate|contradiction].
Qed.

Lemma app_split : forall (c a b e : list N),
  a ++ b = c ++ e -> (length c <= length a)%nat -> exists x, a = c ++ x /\ e = x ++ b.
Proof.
  induction c as [|z c IH]; intros a b e H L.
  - exists a. split; [reflexivity|]. symmetry; exact H.
  - destruct a as [|w a]; [simpl in L; lia|].
    simpl in H. inversion H; subst.
    destruct (IH a b e H2) as [x [Hx He]]; [simpl in L; lia|].
    exists x. split; [simpl; f_equal; assumption|assumption].
Qed.

(* ---------- the adjusted length tested by _header_too_long ---------- *)
Definition adj13 (r : list N) (n : N) : N := match r with 13 :: _ => n - 1 | _ => n end.

Lemma adj13_spec r n :
  adj13 r n = match r with c :: _ => if c =? 13 then n - 1 else n | [] => n end.
Proof.
  destruct r as [|c t]; [reflexivity|]. unfold adj13.
  destruct c as [|p]; [reflexivity|].
  repeat (destruct p as [p|p|]; try reflexivity).
Qed.

Definition lli (b : str) : N := adj13 (rev b) (N.of_nat (length b)).

Lemma lli_eq b : Spec.C13.line_len_incomplete b = lli b.
Proof. reflexivity. Qed.

Lemma lli_le b : lli b <= N.of_nat (length b).
Proof. unfold lli. rewrite adj13_spec. destruct (rev b) as [|c t]; [lia|]. destruct (c =? 13); lia. Qed.
Lemma lli_ge b : N.of_nat (length b) - 1 <= lli b.
Proof. unfold lli. rewrite adj13_spec. destruct (rev b) as [|c t]; [lia|]. destruct (c =? 13); lia. Qed.
Lemma lli_snoc13 l : lli (l ++ [13]) = N.of_nat (length l).
Proof.
  unfold lli. rewrite adj13_spec, rev_app_distr, app_length. simpl. lia.
Qed.

Definition adj (b : str) : N :=
  match break_crlf b with Some (l, _) => N.of_nat (length l) | None => lli b end.

Lemma htl_adj b : header_too_long b = (max_header_line <? adj b).
Proof. unfold header_too_long, adj. destruct (break_crlf b) as [[l r]|]; reflexivity. Qed.

Lemma adj_mono P d : adj P <= adj (P ++ d).
Proof.
  unfold adj. destruct (break_crlf P) as [[l b]|] eqn:E.
  - rewrite (bc_app_some _ _ _ d E). lia.
  - destruct (break_crlf (P ++ d)) as [[l b]|] eqn:E2.
    + apply bc_some_eq in E2.
      destruct (Nat.le_gt_cases (length P) (length l)) as [L|L].
      * pose proof (lli_le P). lia.
      * destruct (app_split l P d (13 :: 10 :: b) E2) as [x [Hx He]]; [lia|].
        destruct x as [|x0 x]; [subst; rewrite app_nil_r in L; lia|].
        simpl in He. inversion He; subst x0.
        destruct x as [|x1 x].
        -- subst P. rewrite lli_snoc13. lia.
        -- simpl in H1. inversion H1; subst x1. subst P.
           exfalso. revert E. apply bc_has.
    + destruct d as [|d0 d]; [rewrite app_nil_r; lia|].
      pose proof (lli_le P). pose proof (lli_ge (P ++ d0 :: d)).
      rewrite app_length in *. simpl in *. lia.
Qed.

Lemma htl_mono P d : header_too_long P = true -> header_too_long (P ++ d) = true.
Proof. rewrite !htl_adj. pose proof (adj_mono P d). lia. Qed.

(* ====================================================================== *)
(* basic facts about the client state machine                              *)
(* ====================================================================== *)

Lemma cfut_set_err s k :
  cfut (set_err s k) = match cfut s with Pending => Done (RErr k) | Done r => Done r end.
Proof. unfold set_err. destruct (cfut s) eqn:E; [reflexivity|assumption]. Qed.
Lemma status_set_err s k : status (set_err s k) = status s.
Proof. unfold set_err. destruct (cfut s); reflexivity. Qed.
Lemma hdr_set_err s k : hdr (set_err s k) = hdr s.
Proof. unfold set_err. destruct (cfut s); reflexivity. Qed.
Lemma cbuf_set_err s k : cbuf (set_err s k) = cbuf s.
Proof. unfold set_err. destruct (cfut s); reflexivity. Qed.
Lemma meta_set_err s k : meta (set_err s k) = meta s.
Proof. unfold set_err. destruct (cfut s); reflexivity. Qed.

Lemma ph_done s line r : cfut s = Done r -> cfut (parse_header s line) = Done r.
Proof.
  intro H. unfold parse_header.
  destruct (partition 32 line) as [[st found] rest].
  destruct st as [|d1 [|d2 [|d3 st]]]; try (rewrite cfut_set_err, H; reflexivity).
  destruct (is_digit d1 && is_digit d2); [|rewrite cfut_set_err, H; reflexivity].
  cbv zeta.
  destruct (negb _); [rewrite cfut_set_err; cbn [cfut]; rewrite H; reflexivity|].
  destruct (_ || _); [rewrite cfut_set_err; cbn [cfut]; rewrite H; reflexivity|].
  cbn [cfut]. exact H.
Qed.

Ltac proj := cbn [cbuf hdr status meta cfut connected fst snd negb andb] in *.

Section Main.
Variable decode_body : bool.
Variable cap : N.
Variable dw : str -> str -> option str.

Notation spec := (Spec.C13.spec_result decode_body cap dw).
Notation closs := (connection_lost decode_body dw).

Lemma dr_done s d r : cfut s = Done r -> cfut (fst (data_received cap s d)) = Done r.
Proof.
  intro H. unfold data_received. proj.
  destruct (negb (hdr s) && header_too_long (cbuf s ++ d)).
  { proj. rewrite cfut_set_err. proj. rewrite H. reflexivity. }
  destruct (negb (hdr s)).
  2:{ proj. destruct (_ && _); proj; [rewrite cfut_set_err; proj; rewrite H|]; auto. }
  destruct (break_crlf (cbuf s ++ d)) as [[l body]|].
  2:{ proj. destruct (_ && _); proj; [rewrite cfut_set_err; proj; rewrite H|]; auto. }
  destruct (decode l) as [line|].
  2:{ proj. exact H. }
  set (s0 := {| cbuf := cbuf s ++ d; hdr := hdr s; status := status s; meta := meta s; cfut := cfut s; connected := connected s |}).
  assert (Hp : cfut (parse_header s0 line) = Done r) by (apply ph_done; exact H).
  destruct (status (parse_header s0 line)) as [v|]; proj; auto.
  destruct (is_2x v) eqn:E2; proj; rewrite ?E2; proj; auto.
  destruct (cap <? _); proj; [rewrite cfut_set_err; proj; rewrite Hp|]; auto.
Qed.

Lemma closs_done s e r : cfut s = Done r -> closs s e = s.
Proof. intro H. unfold connection_lost. rewrite H. reflexivity. Qed.

Definition tail_result (v : N) (m body : str) (exc : option str) : cresult :=
  if cap <? N.of_nat (length body) then RErr (lit "too_large")
  else match exc with
       | Some k => RErr (lit "conn:" ++ k)
       | None => if is_text_meta m && decode_body then
                   match dw (charset_of m) body with
                   | Some t => ROk {| cr_status := v; cr_meta := m; cr_body := CText t |}
                   | None => RErr (lit "decode")
                   end
                 else ROk {| cr_status := v; cr_meta := m; cr_body := CBytes body |}
       end.

Definition Inv (s : cst) (P : str) : Prop :=
  (hdr s = false /\ cfut s = Pending /\ status s = None /\ cbuf s = P /\
   break_crlf P = None /\ header_too_long P = false)
  \/ (hdr s = true /\ cfut s = Pending /\ exists v, status s = Some v /\ is_2x v = true /\
      (cap <? N.of_nat (length (cbuf s))) = false /\
      forall rest exc, spec (P ++ rest) exc = tail_result v (meta s) (cbuf s ++ rest) exc)
  \/ (exists r, cfut s = Done r /\ forall rest exc, spec (P ++ rest) exc = r).

Definition step_post (s1 : cst) (acts : list caction) (P' : str) : Prop :=
  if Spec.C13.has_escape acts
  then forall rest exc, cfut (closs s1 (Some (lit "UnicodeDecodeError"))) = Done (spec (P' ++ rest) exc)
  else if Spec.C13.has_close acts
  then forall rest exc, cfut (closs s1 None) = Done (spec (P' ++ rest) exc)
  else Inv s1 P'.

Lemma step_C s P d r :
  cfut s = Done r -> (forall rest exc, spec (P ++ rest) exc = r) ->
  step_post (fst (data_received cap s d)) (snd (data_received cap s d)) (P ++ d).
Proof.
  intros H Hs. pose proof (dr_done s d r H) as Hd.
  destruct (data_received cap s d) as [s1 acts]. proj. unfold step_post.
  destruct (Spec.C13.has_escape acts); [|destruct (Spec.C13.has_close acts)].
  - intros. rewrite (closs_done _ _ _ Hd), Hd, <- app_assoc, Hs. reflexivity.
  - intros. rewrite (closs_done _ _ _ Hd), Hd, <- app_assoc, Hs. reflexivity.
  - right; right. exists r. split; [assumption|]. intros. rewrite <- app_assoc. apply Hs.
Qed.

Lemma step_B s P d v :
  hdr s = true -> cfut s = Pending -> status s = Some v -> is_2x v = true ->
  (cap <? N.of_nat (length (cbuf s))) = false ->
  (forall rest exc, spec (P ++ rest) exc = tail_result v (meta s) (cbuf s ++ rest) exc) ->
  step_post (fst (data_received cap s d)) (snd (data_received cap s d)) (P ++ d).
Proof.
  intros Hh Hf Hst H2 Hc Hs. unfold data_received. proj. rewrite Hh. proj.
  rewrite Hst, H2. proj.
  destruct (cap <? N.of_nat (length (cbuf s ++ d))) eqn:E; proj; unfold step_post.
  - cbn [app Spec.C13.has_escape Spec.C13.has_close existsb orb].
    intros rest exc. rewrite <- app_assoc, Hs.
    rewrite (closs_done _ None (RErr (lit "too_large"))).
    2:{ rewrite cfut_set_err. proj. rewrite Hf. reflexivity. }
    rewrite cfut_set_err. proj. rewrite Hf. unfold tail_result.
    replace (cap <? N.of_nat (length (cbuf s ++ d ++ rest))) with true; [reflexivity|].
    rewrite !app_length in *. lia.
  - cbn [Spec.C13.has_escape Spec.C13.has_close existsb].
    right; left. proj. split; [reflexivity|]. split; [assumption|].
    exists v. repeat split; try assumption.
    intros rest exc. rewrite <- !app_assoc. apply Hs.
Qed.

End Main.
